// mcvet: repository-specific static analyser for metacontroller (see /verif/DESIGN.md).
package main

import (
	"encoding/json"
	"flag"
	"fmt"
	"os"
	"os/exec"
	"path/filepath"
	"runtime/debug"
	"sort"
	"strconv"
	"strings"

	"mcvet/engine"
	"mcvet/rules"

	"golang.org/x/tools/go/ssa"
)

func main() {
	repo := flag.String("repo", "/repo", "repository to analyse")
	verif := flag.String("verif", "/verif", "verif directory (evidence, known findings, controls)")
	prop := flag.String("property", "", "property id (C01..C20) or 'all'")
	tier := flag.String("tier", envOr("VERIF_TIER", "quick"), "quick|thorough")
	dump := flag.String("dump", "", "debug: dump SSA of functions whose key contains this string")
	explain := flag.String("explain", "", "print a violations file in readable form")
	list := flag.Bool("list", false, "list module functions")
	writeRef := flag.Bool("write-reference", false, "write checker/reference/functions.json (function fingerprints of the tree the rules were confirmed on) and exit")
	ovDir := flag.String("overlay-dir", "", "self-test: directory mirroring repo paths whose files replace the repo's (analysed, never written to the repo)")
	flag.Parse()

	if *explain != "" {
		doExplain(*explain)
		return
	}
	seed, _ := strconv.Atoi(os.Getenv("VERIF_SEED"))

	overlay := controlsOverlay(*repo, *verif)
	if *ovDir != "" {
		_ = filepath.Walk(*ovDir, func(path string, info os.FileInfo, err error) error {
			if err != nil || info.IsDir() {
				return nil
			}
			rel, _ := filepath.Rel(*ovDir, path)
			if b, e := os.ReadFile(path); e == nil {
				overlay[filepath.Join(*repo, rel)] = b
			}
			return nil
		})
	}
	refFile := filepath.Join(*verif, "checker", "reference", "functions.json")
	if !*writeRef {
		engine.RefFile = refFile
	}
	p, err := engine.Load(*repo, overlay)
	if err == nil && *writeRef {
		fp := p.Fingerprints()
		for k := range fp {
			if strings.Contains(k, "zzmcvetcontrols") {
				delete(fp, k)
			}
		}
		b, _ := json.MarshalIndent(fp, "", " ")
		_ = os.MkdirAll(filepath.Dir(refFile), 0o755)
		if e := os.WriteFile(refFile, b, 0o644); e != nil {
			fmt.Println(e)
			os.Exit(2)
		}
		fmt.Printf("wrote %d function fingerprints to %s\n", len(fp), refFile)
		return
	}
	// The inline view (engine/inline.go: fold new single-call-site helpers back into their caller for path
	// queries) is experimental: on the behaviour-preserving variants it removes some alarms and adds others
	// (DESIGN.md 8.9), so it is off unless asked for.
	if err == nil && os.Getenv("MCVET_INLINE") != "" {
		for _, h := range p.BuildInlineView() {
			fmt.Printf("INLINED new single-call-site helper %s\n", h)
		}
	}
	for now, ref := range engine.Renamed {
		fmt.Printf("RENAMED %s is analysed under its reference name %s\n", engine.Short(now), engine.Short(ref))
	}
	if err != nil {
		id := *prop
		if id == "" {
			id = "all"
		}
		fmt.Println(err)
		fmt.Printf("VIOLATION property=%s replay=%s kind=load-failed\n", id, filepath.Join(*verif, "evidence", id+".violations.json"))
		os.Exit(1)
	}
	if *list {
		for _, f := range p.ModFuncs {
			fmt.Println(engine.Short(engine.FuncKey(f)), p.File(f))
		}
		return
	}
	if *dump != "" {
		for _, f := range p.ModFuncs {
			if strings.Contains(engine.FuncKey(f), *dump) {
				dumpFn(p, f)
			}
		}
		return
	}
	ids := []string{*prop}
	if *prop == "all" || *prop == "" {
		ids = rules.IDs()
	}
	// thorough tier: seeded-variant self test (each variant is ANALYSED through an overlay in its own process)
	selftest := map[string]interface{}{}
	if *tier == "thorough" && *ovDir == "" {
		for _, id := range ids {
			selftest[id] = runSelfTest(*repo, *verif, id)
		}
	}
	code := 0
	for _, id := range ids {
		run, ok := rules.Registry[id]
		if !ok {
			fmt.Printf("no check registered for %s\n", id)
			code = 1
			continue
		}
		r := engine.NewReport(id, *tier, seed)
		func() {
			defer func() {
				if e := recover(); e != nil {
					if os.Getenv("MCVET_DEBUG") != "" {
						fmt.Printf("%s\n", debug.Stack())
					}
					r.Fail("engine", "panic", "-", "undecided", fmt.Sprintf("analyser panic: %v", e))
				}
			}()
			run(r, p)
			rules.Generic(id, r, p)
		}()
		if st, ok := selftest[id]; ok {
			r.Extra("variants", st)
		}
		if c := r.Finish(p, *verif, rules.Controls[id]); c != 0 {
			code = c
		}
	}
	os.Exit(code)
}

func envOr(k, d string) string {
	if v := os.Getenv(k); v != "" {
		return v
	}
	return d
}

// controlsOverlay maps /verif/checker/controls/*.go into an overlay-only
// package inside the analysed module, so that controls are type-checked against
// the repository's own dependencies in the same load.
func controlsOverlay(repo, verif string) map[string][]byte {
	ov := map[string][]byte{}
	dir := filepath.Join(verif, "checker", "controls")
	ents, err := os.ReadDir(dir)
	if err != nil {
		return ov
	}
	for _, e := range ents {
		if !strings.HasSuffix(e.Name(), ".go.src") {
			continue
		}
		b, err := os.ReadFile(filepath.Join(dir, e.Name()))
		if err != nil {
			continue
		}
		ov[filepath.Join(repo, "pkg", "zzmcvetcontrols", strings.TrimSuffix(e.Name(), ".src"))] = b
	}
	return ov
}

func doExplain(path string) {
	b, err := os.ReadFile(path)
	if err != nil {
		fmt.Println(err)
		os.Exit(1)
	}
	var v struct {
		Property   string              `json:"property_id"`
		Violations []engine.Obligation `json:"violations"`
	}
	if err := json.Unmarshal(b, &v); err != nil {
		fmt.Println(err)
		os.Exit(1)
	}
	for _, o := range v.Violations {
		fmt.Printf("%s %s [%s]\n  construct: %s\n  at: %s\n  why: %s\n", v.Property, o.Rule, o.Kind, o.Construct, o.Pos, o.Why)
	}
}

func dumpFn(p *engine.Program, f *ssa.Function) {
	fmt.Printf("=== %s (%s)\n", engine.FuncKey(f), p.File(f))
	for _, b := range f.Blocks {
		var preds []string
		for _, x := range b.Preds {
			preds = append(preds, strconv.Itoa(x.Index))
		}
		fmt.Printf(" b%d [%s] preds=%s\n", b.Index, b.Comment, strings.Join(preds, ","))
		for _, in := range b.Instrs {
			line := ""
			if v, ok := in.(ssa.Value); ok {
				line = v.Name() + " = "
			}
			fmt.Printf("    %s%s", line, in.String())
			if ci, ok := in.(ssa.CallInstruction); ok {
				fmt.Printf("   ## %s", engine.CallKey(ci.Common()))
			}
			fmt.Println()
		}
		for i, s := range b.Succs {
			if l, ok := engine.EdgeLit(b, i); ok {
				fmt.Printf("    -> b%d on %s\n", s.Index, l)
			} else {
				fmt.Printf("    -> b%d\n", s.Index)
			}
		}
	}
	for _, l := range engine.RangeLoops(f) {
		var bs []string
		for _, b := range l.BodyBlocks() {
			bs = append(bs, strconv.Itoa(b.Index))
		}
		sort.Strings(bs)
		fmt.Printf(" loop header=b%d over %s body={%s}\n", l.Header.Index, engine.Expr(l.X), strings.Join(bs, ","))
	}
}

// runSelfTest analyses every seeded change recorded for the property under
// /verif/seeded (and those seeded for other properties that this property's
// rules are known to catch are ignored) in a child process with an overlay, and
// reports which were detected. It tests the checker, it is not a property
// verdict: results go to the evidence as coverage.variants and are printed as
// SELFTEST lines, never as VIOLATION.
func runSelfTest(repo, verif, prop string) map[string]interface{} {
	type res struct {
		ID       string   `json:"id"`
		Detected bool     `json:"detected"`
		Rules    []string `json:"rules,omitempty"`
		Note     string   `json:"note,omitempty"`
	}
	dirs, _ := filepath.Glob(filepath.Join(verif, "seeded", prop+"-*"))
	sort.Strings(dirs)
	// mechanical first-order mutants that this property's rules report (regression fixtures of the checker,
	// DESIGN.md 8.10; not validated seeds: no demonstration is attached to them)
	mech, _ := filepath.Glob(filepath.Join(verif, "checker", "selftest-mutants", prop+"-*"))
	sort.Strings(mech)
	dirs = append(dirs, mech...)
	// behaviour-preserving refactorings: this property's rules must stay silent on each
	neutrals, _ := filepath.Glob(filepath.Join(verif, "seeded", "neutral-*"))
	sort.Strings(neutrals)
	dirs = append(dirs, neutrals...)
	out := make([]res, len(dirs))
	sem := make(chan struct{}, 8)
	done := make(chan int, len(dirs))
	self, _ := os.Executable()
	for i, d := range dirs {
		go func(i int, d string) {
			sem <- struct{}{}
			defer func() { <-sem; done <- i }()
			id := filepath.Base(d)
			out[i] = res{ID: id}
			tmp, err := os.MkdirTemp("", "mcvet-selftest-")
			if err != nil {
				out[i].Note = err.Error()
				return
			}
			defer os.RemoveAll(tmp)
			ov := filepath.Join(tmp, "ov")
			vf := filepath.Join(tmp, "verif")
			_ = os.MkdirAll(filepath.Join(vf, "checker"), 0o755)
			_ = os.Symlink(filepath.Join(verif, "checker", "controls"), filepath.Join(vf, "checker", "controls"))
			_ = os.Symlink(filepath.Join(verif, "checker", "reference"), filepath.Join(vf, "checker", "reference"))
			if b, e := os.ReadFile(filepath.Join(verif, "known_findings.json")); e == nil {
				_ = os.WriteFile(filepath.Join(vf, "known_findings.json"), b, 0o644)
			}
			patch, err := os.ReadFile(filepath.Join(d, "patch.diff"))
			if err != nil {
				out[i].Note = "no patch"
				return
			}
			for _, line := range strings.Split(string(patch), "\n") {
				if strings.HasPrefix(line, "+++ b/") {
					rel := strings.TrimPrefix(line, "+++ b/")
					if b, e := os.ReadFile(filepath.Join(repo, rel)); e == nil {
						_ = os.MkdirAll(filepath.Dir(filepath.Join(ov, rel)), 0o755)
						_ = os.WriteFile(filepath.Join(ov, rel), b, 0o644)
					}
				}
			}
			pc := exec.Command("patch", "-s", "-p1", "--no-backup-if-mismatch", "-i", filepath.Join(d, "patch.diff"))
			pc.Dir = ov
			if e := pc.Run(); e != nil {
				out[i].Note = "patch no longer applies to /repo's current tree (skipped)"
				return
			}
			cmd := exec.Command(self, "-repo", repo, "-verif", vf, "-property", prop, "-tier", "quick", "-overlay-dir", ov)
			b, _ := cmd.CombinedOutput()
			seen := map[string]bool{}
			for _, line := range strings.Split(string(b), "\n") {
				if strings.HasPrefix(line, "VIOLATION ") {
					out[i].Detected = true
				}
				for _, kind := range []string{"[violation]", "[anchor-lost]", "[undecided]", "[rule-dead]"} {
					if j := strings.Index(line, kind); j > 0 {
						f := strings.Fields(line[:j])
						if len(f) >= 2 {
							seen[f[len(f)-1]] = true
						}
					}
				}
			}
			for k := range seen {
				out[i].Rules = append(out[i].Rules, k)
			}
			sort.Strings(out[i].Rules)
		}(i, d)
	}
	for range dirs {
		<-done
	}
	det, nSeed, nNeutral, falseAlarms := 0, 0, 0, 0
	nMech, detMech := 0, 0
	for _, r := range out {
		neutral := strings.HasPrefix(r.ID, "neutral-")
		want := !neutral
		if strings.Contains(r.ID, "-mut") || strings.Contains(r.ID, "-tmut") {
			nMech++
			if r.Detected {
				detMech++
			}
			fmt.Printf("SELFTEST property=%s variant=%s detected=%v expected=%v rules=%v %s\n", prop, r.ID, r.Detected, true, r.Rules, r.Note)
			continue
		}
		if neutral {
			nNeutral++
			if r.Detected {
				falseAlarms++
			}
		} else {
			nSeed++
			if r.Detected {
				det++
			}
		}
		fmt.Printf("SELFTEST property=%s variant=%s detected=%v expected=%v rules=%v %s\n", prop, r.ID, r.Detected, want, r.Rules, r.Note)
	}
	return map[string]interface{}{"seeded_variants": nSeed, "detected": det, "neutral_variants": nNeutral, "neutral_false_alarms": falseAlarms, "mechanical_mutants": nMech, "mechanical_detected": detMech, "results": out}
}
