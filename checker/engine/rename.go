package engine

import (
	"encoding/json"
	"go/types"
	"os"
	"sort"
	"strings"

	"golang.org/x/tools/go/ssa"
)

// Rename resolution. The rules name functions by key (pkg.Func, pkg.Type.Method).
// Renaming a function changes no behaviour, so it must not make an anchor
// disappear. A reference inventory of the module's functions (key → structural
// fingerprint: package, receiver type, signature, callee keys), written from the
// tree the rules were confirmed on, lets Load recognise "key K is gone, and a new
// function with K's package, receiver, signature and callees has appeared" and
// keep calling it K. Only unambiguous matches are taken; everything else stays
// as it is (and a truly missing anchor is still reported as anchor-lost).

// FuncPrint is the structural fingerprint of one function.
type FuncPrint struct {
	Pkg     string   `json:"pkg"`
	Recv    string   `json:"recv,omitempty"`
	Sig     string   `json:"sig"`
	Callees []string `json:"callees,omitempty"`
}

var funcAlias = map[*ssa.Function]string{}

// Renamed lists the aliases in effect (current name → reference name).
var Renamed = map[string]string{}

func sigString(fn *ssa.Function) string {
	if fn.Signature == nil {
		return ""
	}
	sig := fn.Signature
	var parts []string
	q := func(p *types.Package) string { return p.Path() }
	for i := 0; i < sig.Params().Len(); i++ {
		parts = append(parts, types.TypeString(sig.Params().At(i).Type(), q))
	}
	s := "(" + strings.Join(parts, ",") + ")"
	if sig.Variadic() {
		s += "..."
	}
	parts = nil
	for i := 0; i < sig.Results().Len(); i++ {
		parts = append(parts, types.TypeString(sig.Results().At(i).Type(), q))
	}
	return s + "(" + strings.Join(parts, ",") + ")"
}

func printOf(fn *ssa.Function) FuncPrint {
	fp := FuncPrint{Sig: sigString(fn)}
	if fn.Pkg != nil {
		fp.Pkg = fn.Pkg.Pkg.Path()
	} else if fn.Origin() != nil && fn.Origin().Pkg != nil {
		fp.Pkg = fn.Origin().Pkg.Pkg.Path()
	}
	if fn.Signature != nil && fn.Signature.Recv() != nil {
		fp.Recv = recvTypeKey(fn.Signature.Recv().Type())
	}
	set := map[string]bool{}
	var walk func(f *ssa.Function)
	walk = func(f *ssa.Function) {
		for _, b := range f.Blocks {
			for _, in := range b.Instrs {
				if ci, ok := in.(ssa.CallInstruction); ok {
					if k := CallKey(ci.Common()); k != "" && !strings.Contains(k, "$") {
						set[k] = true
					}
				}
			}
		}
		for _, a := range f.AnonFuncs {
			walk(a)
		}
	}
	walk(fn)
	for k := range set {
		fp.Callees = append(fp.Callees, k)
	}
	sort.Strings(fp.Callees)
	return fp
}

// Fingerprints returns key → fingerprint for all named module functions.
func (p *Program) Fingerprints() map[string]FuncPrint {
	out := map[string]FuncPrint{}
	for _, fn := range p.ModFuncs {
		if fn.Parent() != nil {
			continue
		}
		out[FuncKey(fn)] = printOf(fn)
	}
	return out
}

func jaccard(a, b []string) float64 {
	if len(a) == 0 && len(b) == 0 {
		return 1
	}
	set := map[string]bool{}
	for _, x := range a {
		set[x] = true
	}
	inter := 0
	for _, x := range b {
		if set[x] {
			inter++
		}
	}
	union := len(a) + len(b) - inter
	if union == 0 {
		return 1
	}
	return float64(inter) / float64(union)
}

// resolveRenames compares the functions found with the reference inventory and
// installs aliases for unambiguous renames. Must run before the index is built.
func resolveRenames(fns []*ssa.Function, refFile string) {
	funcAlias = map[*ssa.Function]string{}
	Renamed = map[string]string{}
	NewFuncs = map[string]bool{}
	b, err := os.ReadFile(refFile)
	if err != nil {
		return
	}
	ref := map[string]FuncPrint{}
	if json.Unmarshal(b, &ref) != nil {
		return
	}
	cur := map[string]*ssa.Function{}
	for _, fn := range fns {
		if fn.Parent() == nil {
			cur[FuncKey(fn)] = fn
		}
	}
	var missing []string
	for k := range ref {
		if _, ok := cur[k]; !ok {
			missing = append(missing, k)
		}
	}
	sort.Strings(missing)
	var added []string
	for k := range cur {
		if _, ok := ref[k]; !ok {
			added = append(added, k)
		}
	}
	sort.Strings(added)
	taken := map[string]bool{}
	// callee keys of renamed functions differ too: two passes, the second with aliases applied
	for pass := 0; pass < 2; pass++ {
		for _, m := range missing {
			if _, done := Renamed[m]; done {
				continue
			}
			rp := ref[m]
			type cand struct {
				key   string
				score float64
			}
			var cands []cand
			for _, a := range added {
				if taken[a] {
					continue
				}
				fn := cur[a]
				cp := printOf(fn)
				if cp.Pkg != rp.Pkg || cp.Recv != rp.Recv || cp.Sig != rp.Sig {
					continue
				}
				cands = append(cands, cand{a, jaccard(rp.Callees, cp.Callees)})
			}
			if len(cands) == 0 {
				continue
			}
			sort.Slice(cands, func(i, j int) bool { return cands[i].score > cands[j].score })
			best := cands[0]
			if best.score < 0.6 {
				continue
			}
			if len(cands) > 1 && cands[1].score > best.score-0.2 {
				continue // ambiguous
			}
			taken[best.key] = true
			funcAlias[cur[best.key]] = m
			Renamed[m] = best.key
		}
	}
	NewFuncs = map[string]bool{}
	for _, a := range added {
		if !taken[a] {
			NewFuncs[a] = true
		}
	}
	// report under the reference name → current name
	out := map[string]string{}
	for ref, now := range Renamed {
		out[now] = ref
	}
	Renamed = out
}
