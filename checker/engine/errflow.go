package engine

import (
	"go/token"
	"regexp"
	"strings"

	"golang.org/x/tools/go/ssa"
)

// ErrSource is a place an error value can come from with its identity intact
// (errors.Is/As, apierrors.IsX still recognise it at the use).
type ErrSource struct {
	Fn   *ssa.Function       // function containing the source
	Call ssa.CallInstruction // the call that produced the error (nil for kind "unknown")
	Kind string              // "ext:<callee key>" external call | "fresh:<ctor>" constructed here | "dynamic" unresolved function value | "unknown:<expr>"
}

var verbRe = regexp.MustCompile(`%[-+# 0]*(\[\d+\])?[\d.*]*[a-zA-Z%]`)

// wrapArgIndexes returns the indexes (0-based among the variadic args) that a
// format string wraps with %w.
func wrapArgIndexes(format string) []int {
	var out []int
	arg := 0
	for _, m := range verbRe.FindAllString(format, -1) {
		if m == "%%" {
			continue
		}
		if strings.HasSuffix(m, "w") {
			out = append(out, arg)
		}
		arg++
	}
	return out
}

// ErrSourcesOf traces error value v of function f backwards to the calls it
// can originate from, following only identity-preserving steps: direct returns,
// phis, locals/captured variables/struct fields, module callees (incl. resolved
// function values), and fmt.Errorf arguments wrapped with %w. A fmt.Errorf
// without %w, errors.New, apierrors.NewX, NewAggregate … start a fresh error.
func (p *Program) ErrSourcesOf(f *ssa.Function, v ssa.Value) []ErrSource {
	var out []ErrSource
	seen := map[ssa.Value]bool{}
	seenFn := map[*ssa.Function]bool{}
	var rec func(f *ssa.Function, v ssa.Value, d int)
	retsOf := func(g *ssa.Function, idx int, d int) {
		key := g
		if seenFn[key] {
			return
		}
		seenFn[key] = true
		for _, b := range g.Blocks {
			for _, in := range b.Instrs {
				if rt, ok := in.(*ssa.Return); ok && idx < len(rt.Results) {
					rec(g, RetVal(rt, idx), d+1)
				}
			}
		}
	}
	fromCall := func(f *ssa.Function, c ssa.CallInstruction, idx int, d int) {
		k := CallKey(c.Common())
		switch {
		case k == "fmt.Errorf":
			args := c.Common().Args
			format := ""
			if len(args) > 0 {
				if cs, ok := args[0].(*ssa.Const); ok && cs.Value != nil {
					format = strings.Trim(cs.Value.ExactString(), `"`)
				}
			}
			ws := wrapArgIndexes(format)
			if len(ws) == 0 || len(args) < 2 {
				out = append(out, ErrSource{f, c, "fresh:fmt.Errorf"})
				return
			}
			// variadic slice: elements stored into a local array
			elems := map[int]ssa.Value{}
			if sl, ok := args[1].(*ssa.Slice); ok {
				if al, ok := sl.X.(*ssa.Alloc); ok {
					if refs := al.Referrers(); refs != nil {
						for _, u := range *refs {
							if ia, ok := u.(*ssa.IndexAddr); ok {
								if ci, ok := ia.Index.(*ssa.Const); ok {
									for _, st := range Stores(ia) {
										elems[int(ci.Int64())] = st.Val
									}
								}
							}
						}
					}
				}
			}
			for _, w := range ws {
				if e, ok := elems[w]; ok {
					rec(f, e, d+1)
				}
			}
			return
		case strings.HasPrefix(k, "errors.New"), strings.Contains(k, "api/errors.New"), strings.HasSuffix(k, "util/errors.NewAggregate"):
			out = append(out, ErrSource{f, c, "fresh:" + k})
			return
		}
		callees := p.CalleesOf(c)
		resolved := false
		for _, g := range callees {
			if isModuleFunc(g) && len(g.Blocks) > 0 {
				resolved = true
				gi := idx
				if gi < 0 {
					gi = ErrorResultIndex(g)
				}
				if gi >= 0 {
					retsOf(g, gi, d)
				}
			}
		}
		if resolved {
			return
		}
		if k == "" {
			out = append(out, ErrSource{f, c, "dynamic"})
			return
		}
		out = append(out, ErrSource{f, c, "ext:" + k})
	}
	rec = func(f *ssa.Function, v ssa.Value, d int) {
		if v == nil || d > 40 || seen[v] {
			return
		}
		seen[v] = true
		switch x := v.(type) {
		case *ssa.Const:
			return
		case *ssa.Phi:
			for _, e := range x.Edges {
				rec(f, e, d+1)
			}
		case *ssa.MakeInterface:
			rec(f, x.X, d+1)
		case *ssa.ChangeInterface:
			rec(f, x.X, d+1)
		case *ssa.ChangeType:
			rec(f, x.X, d+1)
		case *ssa.TypeAssert:
			rec(f, x.X, d+1)
		case *ssa.Extract:
			if c, ok := x.Tuple.(ssa.CallInstruction); ok {
				fromCall(f, c, x.Index, d)
				return
			}
			out = append(out, ErrSource{f, nil, "unknown:" + Expr(v)})
		case *ssa.Call:
			fromCall(f, x, -1, d)
		case *ssa.Parameter:
			pf := x.Parent()
			sites := p.CallersOf(pf)
			if len(sites) == 0 {
				out = append(out, ErrSource{f, nil, "unknown:param " + Expr(v)})
			}
			for _, cs := range sites {
				if a := ActualFor(cs, x); a != nil {
					rec(cs.Fn, a, d+1)
				}
			}
		case *ssa.FreeVar:
			if b := FreeVarBinding(x); b != nil {
				rec(x.Parent().Parent(), b, d+1)
			}
		case *ssa.Alloc:
			// the cell itself: every store into it, here and in closures capturing it
			p.cellStores(f, x, func(g *ssa.Function, val ssa.Value) { rec(g, val, d+1) })
		case *ssa.UnOp:
			if x.Op != token.MUL {
				out = append(out, ErrSource{f, nil, "unknown:" + Expr(v)})
				return
			}
			switch a := x.X.(type) {
			case *ssa.Alloc:
				p.cellStores(f, a, func(g *ssa.Function, val ssa.Value) { rec(g, val, d+1) })
			case *ssa.FreeVar:
				if b := FreeVarBinding(a); b != nil {
					if al, ok := b.(*ssa.Alloc); ok {
						p.cellStores(a.Parent().Parent(), al, func(g *ssa.Function, val ssa.Value) { rec(g, val, d+1) })
					} else {
						rec(a.Parent().Parent(), b, d+1)
					}
				}
			case *ssa.FieldAddr:
				if id := fieldID(a); id != "" {
					for _, st := range p.fieldStoresByID(id) {
						rec(st.Parent(), st.Val, d+1)
					}
				}
			default:
				out = append(out, ErrSource{f, nil, "unknown:" + Expr(v)})
			}
		default:
			out = append(out, ErrSource{f, nil, "unknown:" + Expr(v)})
		}
	}
	rec(f, v, 0)
	return out
}

// cellStores visits every value stored into local cell a of function f: in f and
// in the closures that capture a.
func (p *Program) cellStores(f *ssa.Function, a *ssa.Alloc, visit func(g *ssa.Function, val ssa.Value)) {
	for _, st := range Stores(a) {
		visit(f, st.Val)
	}
	if f == nil {
		return
	}
	for _, cl := range Closures(f) {
		for _, fv := range cl.FreeVars {
			if FreeVarBinding(fv) == ssa.Value(a) {
				for _, st := range Stores(fv) {
					visit(cl, st.Val)
				}
			}
		}
	}
}
