package engine

import (
	"fmt"
	"go/constant"
	"go/token"
	"go/types"
	"regexp"
	"sort"
	"strconv"
	"strings"

	"golang.org/x/tools/go/ssa"
)

// Lit is a branch literal: the normalised condition of an If and the polarity
// of the edge taken.
type Lit struct {
	Atom string    // canonical rendering of the positive atom
	Pos  bool      // edge taken when atom is true
	Cond ssa.Value // positive atom's SSA value (after stripping !)
	// for (X == nil) / (X == Y) atoms: operands
	X, Y ssa.Value
	Op   token.Token // EQL for equality atoms, LSS etc., ILLEGAL otherwise
	// Implied: not a branch of this function but a fact established by a boolean
	// helper that was branched on (see ExpandLit); Cond is nil, X/Y only when they
	// could be translated into this frame.
	Implied bool
}

func (l Lit) String() string {
	if l.Pos {
		return l.Atom
	}
	return "!" + l.Atom
}

// Negate flips the literal.
func (l Lit) Negate() Lit { l.Pos = !l.Pos; return l }

// CondLit normalises condition c taken with polarity pos.
func CondLit(c ssa.Value, pos bool) Lit {
	for {
		c = ResolveLocal(c)
		if u, ok := c.(*ssa.UnOp); ok && u.Op == token.NOT {
			c = u.X
			pos = !pos
			continue
		}
		break
	}
	l := Lit{Cond: c, Pos: pos}
	if b, ok := c.(*ssa.BinOp); ok {
		x, y := b.X, b.Y
		op := b.Op
		switch op {
		case token.NEQ:
			op = token.EQL
			l.Pos = !l.Pos
		case token.GTR: // x > y  ==  y < x
			op = token.LSS
			x, y = y, x
		case token.GEQ: // x >= y == !(x < y)
			op = token.LSS
			l.Pos = !l.Pos
		case token.LEQ: // x <= y == !(y < x)
			op = token.LSS
			x, y = y, x
			l.Pos = !l.Pos
		}
		if op == token.EQL {
			// constants / nil to the right, otherwise order by rendering
			_, xc := x.(*ssa.Const)
			_, yc := y.(*ssa.Const)
			if xc && !yc {
				x, y = y, x
			} else if xc == yc && Expr(x) > Expr(y) {
				x, y = y, x
			}
		}
		if op == token.EQL || op == token.LSS {
			l.X, l.Y, l.Op = x, y, op
			l.Atom = "(" + Expr(x) + " " + op.String() + " " + Expr(y) + ")"
			return l
		}
	}
	l.Atom = Expr(c)
	return l
}

// NilTest reports whether l is a test of some value against nil, returning
// the value and whether the edge asserts "value is nil".
func (l Lit) NilTest() (v ssa.Value, isNil bool, ok bool) {
	if l.Op != token.EQL {
		return nil, false, false
	}
	if c, isC := l.Y.(*ssa.Const); isC && c.Value == nil && isNillable(c.Type()) {
		return l.X, l.Pos, true
	}
	return nil, false, false
}

func isNillable(t types.Type) bool {
	switch t.Underlying().(type) {
	case *types.Pointer, *types.Interface, *types.Map, *types.Slice, *types.Chan, *types.Signature:
		return true
	}
	if b, ok := t.Underlying().(*types.Basic); ok && b.Kind() == types.UntypedNil {
		return true
	}
	return false
}

// EdgeLit returns the literal carried by the edge b -> b.Succs[i] (ok=false for
// unconditional edges).
func EdgeLit(b *ssa.BasicBlock, i int) (Lit, bool) {
	if len(b.Instrs) == 0 {
		return Lit{}, false
	}
	if iff, ok := b.Instrs[len(b.Instrs)-1].(*ssa.If); ok && len(b.Succs) == 2 {
		return CondLit(iff.Cond, i == 0), true
	}
	return Lit{}, false
}

// Point is the program point just before instruction I of block B.
type Point struct {
	B *ssa.BasicBlock
	I int
}

// After returns the point just after instruction in.
func After(in ssa.Instruction) Point {
	b := in.Block()
	for i, x := range b.Instrs {
		if x == in {
			return Point{b, i + 1}
		}
	}
	panic("instruction not in its block")
}

// Before returns the point just before instruction in.
func Before(in ssa.Instruction) Point {
	p := After(in)
	p.I--
	return p
}

// Query is a reachability question on one function's CFG at instruction
// granularity. All of dominance, post-dominance, must-pass-through and
// guarded-by are instances: a property "every path from F to T passes X" holds
// iff T is not found once X is cut.
type Query struct {
	Fn       *ssa.Function
	From     []Point                                        // default: function entry
	Target   func(in ssa.Instruction) bool                  // what we look for
	CutInstr func(in ssa.Instruction) bool                  // paths end before executing in
	CutEdge  func(b *ssa.BasicBlock, succ int, l *Lit) bool // l==nil for unconditional edges
}

// Witness is the result of a successful search.
type Witness struct {
	Instr ssa.Instruction
	Lits  []Lit // branch literals along one path from the start to Instr
}

func (w *Witness) Path() string {
	if w == nil {
		return ""
	}
	var s []string
	for _, l := range w.Lits {
		s = append(s, l.String())
	}
	return strings.Join(s, " ∧ ")
}

// boolEnv records, along a path, what each boolean phi (the value of a
// short-circuit expression such as `a && (b || c)` used in a switch case or
// assigned to a variable) resolved to, given the predecessor edge actually
// taken: a constant, or the atom computed on that edge. This is jump threading
// on demand; it removes the infeasible paths through binop.done blocks.
type boolEnv map[*ssa.Phi]ssa.Value

func (e boolEnv) key() string {
	if len(e) == 0 {
		return ""
	}
	var parts []string
	for ph, v := range e {
		parts = append(parts, ph.Name()+"="+v.Name())
	}
	sort.Strings(parts)
	return strings.Join(parts, ",")
}

func isBool(t types.Type) bool {
	b, ok := t.Underlying().(*types.Basic)
	return ok && b.Info()&types.IsBoolean != 0
}

// enter returns the environment after entering block b from pred.
func (e boolEnv) enter(pred, b *ssa.BasicBlock) boolEnv {
	idx := -1
	for i, p := range b.Preds {
		if p == pred {
			idx = i
		}
	}
	var out boolEnv
	for _, in := range b.Instrs {
		ph, ok := in.(*ssa.Phi)
		if !ok {
			break
		}
		if !isBool(ph.Type()) || idx < 0 || idx >= len(ph.Edges) {
			continue
		}
		if out == nil {
			out = boolEnv{}
			for k, v := range e {
				out[k] = v
			}
		}
		out[ph] = e.resolve(ph.Edges[idx])
	}
	if out == nil {
		return e
	}
	return out
}

// resolve follows negations-free aliases: a phi known in the environment is
// replaced by its resolved value.
func (e boolEnv) resolve(v ssa.Value) ssa.Value {
	for i := 0; i < 8; i++ {
		if ph, ok := v.(*ssa.Phi); ok {
			if r, has := e[ph]; has && r != v {
				v = r
				continue
			}
		}
		break
	}
	return v
}

// retEnv binds, along a path that went through an inlined helper, the helper's
// call to the operands of the return it left through.
type retEnv map[*ssa.Call][]ssa.Value

func (r retEnv) key() string {
	if len(r) == 0 {
		return ""
	}
	var parts []string
	for c, vs := range r {
		s := c.Name() + "@" + c.Parent().Name() + "="
		for _, v := range vs {
			if v == nil {
				s += "_,"
			} else {
				s += v.Name() + ","
			}
		}
		parts = append(parts, s)
	}
	sort.Strings(parts)
	return strings.Join(parts, ";")
}

func (r retEnv) bind(c *ssa.Call, vals []ssa.Value) retEnv {
	out := retEnv{}
	for k, v := range r {
		out[k] = v
	}
	out[c] = vals
	return out
}

// lookup resolves a value that is (an extract of) a bound helper call.
func (r retEnv) lookup(v ssa.Value) (ssa.Value, bool) {
	switch x := v.(type) {
	case *ssa.Call:
		if vs, ok := r[x]; ok && len(vs) == 1 && vs[0] != nil {
			return vs[0], true
		}
	case *ssa.Extract:
		if c, ok := x.Tuple.(*ssa.Call); ok {
			if vs, ok := r[c]; ok && x.Index < len(vs) && vs[x.Index] != nil {
				return vs[x.Index], true
			}
		}
	}
	return nil, false
}

// env is what is known along a path: resolved boolean phis and helper results.
type env struct {
	b  boolEnv
	r  retEnv
	nn map[ssa.Value]bool // values known non-nil (an error a helper returned on an error return)
}

func (e env) key() string {
	k := e.b.key() + "#" + e.r.key()
	if len(e.nn) > 0 {
		var parts []string
		for v := range e.nn {
			parts = append(parts, v.Name())
		}
		sort.Strings(parts)
		k += "!" + strings.Join(parts, ",")
	}
	return k
}

func (e env) enter(pred, b *ssa.BasicBlock) env { return env{e.b.enter(pred, b), e.r, e.nn} }

// leave returns the environment after leaving inlined helper call through return rt.
func (e env) leave(call *ssa.Call, rt *ssa.Return) env {
	vals := make([]ssa.Value, len(rt.Results))
	nn := e.nn
	for ri := range rt.Results {
		vals[ri] = e.resolve(RetVal(rt, ri))
		if isErrorType(rt.Results[ri].Type()) && vals[ri] != nil {
			if _, isC := vals[ri].(*ssa.Const); !isC && definitelyNonNil(rt, ri) {
				m := map[ssa.Value]bool{}
				for k, v := range nn {
					m[k] = v
				}
				m[vals[ri]] = true
				nn = m
			}
		}
	}
	return env{e.b, e.r.bind(call, vals), nn}
}

// definitelyNonNil: operand idx of return rt is a freshly made error, or was
// tested non-nil on every path to rt inside its function.
func definitelyNonNil(rt *ssa.Return, idx int) bool {
	v := RetVal(rt, idx)
	if isFreshError(v, 0) {
		return true
	}
	f := rt.Parent()
	w := Query{Fn: f, From: []Point{{f.Blocks[0], 0}}, Target: func(in ssa.Instruction) bool { return in == ssa.Instruction(rt) },
		CutEdge: func(b *ssa.BasicBlock, i int, l *Lit) bool {
			if l == nil {
				return false
			}
			x, isNil, ok := l.NilTest()
			return ok && !isNil && SameValue(x, v)
		}}.Find()
	return w == nil
}

func (e env) resolve(v ssa.Value) ssa.Value {
	for i := 0; i < 8; i++ {
		v = e.b.resolve(v)
		if w, ok := e.r.lookup(ResolveLocal(v)); ok {
			v = w
			continue
		}
		break
	}
	return v
}

func constEq(x, y *ssa.Const) bool {
	if x.Value == nil || y.Value == nil {
		return x.Value == nil && y.Value == nil
	}
	return constant.Compare(x.Value, token.EQL, y.Value)
}

// edgeLit is boolEnv.edgeLit with helper results substituted: a condition over
// the (error/bool/pointer) result of an inlined helper reads as the condition
// over what the helper returned on this path; if that is a constant the branch is decided.
func (e env) edgeLit(b *ssa.BasicBlock, i int) (lit *Lit, feasible bool) {
	if len(e.r) == 0 && len(e.nn) == 0 {
		return e.b.edgeLit(b, i)
	}
	if len(b.Instrs) == 0 {
		return nil, true
	}
	iff, ok := b.Instrs[len(b.Instrs)-1].(*ssa.If)
	if !ok || len(b.Succs) != 2 {
		return nil, true
	}
	c := iff.Cond
	pos := i == 0
	for n := 0; n < 16; n++ {
		c = ResolveLocal(c)
		if u, ok := c.(*ssa.UnOp); ok && u.Op == token.NOT {
			c = u.X
			pos = !pos
			continue
		}
		if ph, ok := c.(*ssa.Phi); ok {
			if r, has := e.b[ph]; has && r != c {
				c = r
				continue
			}
		}
		if w, ok := e.r.lookup(c); ok {
			c = w
			continue
		}
		break
	}
	if k, ok := c.(*ssa.Const); ok && k.Value != nil && isBool(k.Type()) {
		return nil, constant.BoolVal(k.Value) == pos
	}
	if bo, ok := c.(*ssa.BinOp); ok {
		x, y := e.resolve(bo.X), e.resolve(bo.Y)
		if bo.Op == token.EQL || bo.Op == token.NEQ {
			// a helper's error known to be non-nil on the return it left through
			var other ssa.Value
			switch {
			case e.nn[x]:
				other = y
			case e.nn[y]:
				other = x
			}
			if c, isC := other.(*ssa.Const); isC && c.Value == nil {
				return nil, (bo.Op == token.NEQ) == pos
			}
		}
		if x != bo.X || y != bo.Y {
			if cx, okx := x.(*ssa.Const); okx {
				if cy, oky := y.(*ssa.Const); oky && (bo.Op == token.EQL || bo.Op == token.NEQ) {
					eq := constEq(cx, cy)
					if bo.Op == token.NEQ {
						eq = !eq
					}
					return nil, eq == pos
				}
			}
			// the atom reads as the condition over what the helper returned; the operands keep
			// their identity in the frame that branches (rules compare them with that frame's values)
			l := CondLit(&ssa.BinOp{Op: bo.Op, X: x, Y: y}, pos)
			ox, oy := ResolveLocal(bo.X), ResolveLocal(bo.Y)
			if l.X == x && l.Y == y {
				l.X, l.Y = ox, oy
			} else if l.X == y && l.Y == x {
				l.X, l.Y = oy, ox
			}
			l.Cond = c
			return &l, true
		}
	}
	l := CondLit(c, pos)
	return &l, true
}

// edgeLit computes the literal of edge b->Succs[i] under env; feasible=false
// when the environment decides the branch the other way.
func (e boolEnv) edgeLit(b *ssa.BasicBlock, i int) (lit *Lit, feasible bool) {
	if len(b.Instrs) == 0 {
		return nil, true
	}
	iff, ok := b.Instrs[len(b.Instrs)-1].(*ssa.If)
	if !ok || len(b.Succs) != 2 {
		return nil, true
	}
	c := iff.Cond
	pos := i == 0
	for {
		c = ResolveLocal(c)
		if u, ok := c.(*ssa.UnOp); ok && u.Op == token.NOT {
			c = u.X
			pos = !pos
			continue
		}
		if ph, ok := c.(*ssa.Phi); ok {
			if r, has := e[ph]; has && r != c {
				c = r
				continue
			}
		}
		break
	}
	if k, ok := c.(*ssa.Const); ok && k.Value != nil && isBool(k.Type()) {
		return nil, constant.BoolVal(k.Value) == pos
	}
	l := CondLit(c, pos)
	return &l, true
}

// Find returns a witness path to some target instruction, or nil.
func (q Query) Find() *Witness {
	type state struct {
		b   *ssa.BasicBlock
		i   int
		env env
		par *node
	}
	fn := q.Fn
	if len(q.From) == 0 {
		fn = InlineRoot(fn) // a query about code inside an extracted helper starts where control really starts
	}
	if fn == nil || len(fn.Blocks) == 0 {
		return nil
	}
	start := q.From
	if len(start) == 0 {
		start = []Point{{fn.Blocks[0], 0}}
	}
	visited := map[string]bool{}
	var work []state
	for _, s := range start {
		work = append(work, state{s.B, s.I, env{}, nil})
	}
	for len(work) > 0 {
		s := work[0]
		work = work[1:]
		if s.i == 0 || Inl != nil {
			k := s.b.Parent().Name() + "|" + strconv.Itoa(s.b.Index) + "|" + strconv.Itoa(s.i) + "|" + s.env.key()
			if visited[k] {
				continue
			}
			visited[k] = true
		}
		cut := false
		for i := s.i; i < len(s.b.Instrs); i++ {
			in := s.b.Instrs[i]
			if rt, isR := in.(*ssa.Return); isR {
				if cs, ok := InlineSite(s.b.Parent()); ok && s.b.Parent() != q.Fn {
					// the return of an extracted helper is not a return of the function under
					// analysis: control comes back after the call, with the results bound
					call := cs.Instr.(*ssa.Call)
					p := After(call)
					work = append(work, state{p.B, p.I, s.env.leave(call, rt), s.par})
					cut = true
					break
				}
			}
			if q.Target != nil && q.Target(in) {
				return &Witness{Instr: in, Lits: s.par.lits()}
			}
			if q.CutInstr != nil && q.CutInstr(in) {
				cut = true
				break
			}
			if g := InlinedCallee(in); g != nil {
				// control enters the extracted helper …
				work = append(work, state{g.Blocks[0], 0, s.env, s.par})
				cut = true
				break
			}
		}
		if cut {
			continue
		}
		for si, succ := range s.b.Succs {
			lp, feasible := s.env.edgeLit(s.b, si)
			if !feasible {
				continue
			}
			if q.CutEdge != nil && q.CutEdge(s.b, si, lp) {
				continue
			}
			par := s.par
			if lp != nil {
				par = &node{lit: *lp, up: s.par}
			}
			work = append(work, state{succ, 0, s.env.enter(s.b, succ), par})
		}
	}
	return nil
}

type node struct {
	lit Lit
	up  *node
}

func (n *node) lits() []Lit {
	var out []Lit
	for x := n; x != nil; x = x.up {
		out = append(out, x.lit)
	}
	for i, j := 0, len(out)-1; i < j; i, j = i+1, j-1 {
		out[i], out[j] = out[j], out[i]
	}
	return out
}

// IsReturn / IsNormalReturn classify instructions for exit-directed queries.
func IsReturn(in ssa.Instruction) bool { _, ok := in.(*ssa.Return); return ok }

// ErrorResultIndex returns the index of the last result of type error, or -1.
func ErrorResultIndex(fn *ssa.Function) int {
	res := fn.Signature.Results()
	for i := res.Len() - 1; i >= 0; i-- {
		if isErrorType(res.At(i).Type()) {
			return i
		}
	}
	return -1
}

func isErrorType(t types.Type) bool {
	return types.Identical(t, types.Universe.Lookup("error").Type())
}

// RetVal returns the i-th operand of a return, looking through the result
// spill that go/ssa introduces in functions with defers (the operand is then a
// load of a local that was stored just before `rundefers` in the same block).
func RetVal(r *ssa.Return, i int) ssa.Value {
	v := r.Results[i]
	ld, ok := v.(*ssa.UnOp)
	if !ok || ld.Op != token.MUL {
		return v
	}
	a, ok := ld.X.(*ssa.Alloc)
	if !ok {
		return v
	}
	b := r.Block()
	var last ssa.Value
	for _, in := range b.Instrs {
		if in == ssa.Instruction(ld) {
			break
		}
		if st, ok := in.(*ssa.Store); ok && st.Addr == a {
			last = st.Val
		}
	}
	if last != nil {
		return last
	}
	return v
}

// ReturnsNilError: the return's error operand is the constant nil, or the
// function has no error result.
func ReturnsNilError(r *ssa.Return) bool {
	idx := ErrorResultIndex(r.Parent())
	if idx < 0 {
		return true
	}
	c, ok := RetVal(r, idx).(*ssa.Const)
	return ok && c.Value == nil
}

// ReturnsFreshError: the return's error operand is visibly a non-nil error
// (built by fmt.Errorf, errors.New, apierrors.New*, a composite &T{}, …).
func ReturnsFreshError(r *ssa.Return) bool {
	idx := ErrorResultIndex(r.Parent())
	if idx < 0 {
		return false
	}
	return isFreshError(RetVal(r, idx), 0)
}

func isFreshError(v ssa.Value, d int) bool {
	v = Unwrap(v)
	if d > 4 {
		return false
	}
	switch x := v.(type) {
	case *ssa.Call:
		k := CallKey(x.Common())
		if k == "fmt.Errorf" || k == "errors.New" || strings.HasPrefix(k, "k8s.io/apimachinery/pkg/api/errors.New") {
			return true
		}
		// a module helper whose only result is an error it builds itself on every return
		if g := StaticFn(x.Common()); g != nil && isModuleFunc(g) && len(g.Blocks) > 0 && g.Signature.Results().Len() == 1 && isErrorType(g.Signature.Results().At(0).Type()) {
			all := true
			for _, b := range g.Blocks {
				if rt, isR := b.Instrs[len(b.Instrs)-1].(*ssa.Return); isR {
					if !isFreshError(rt.Results[0], d+1) {
						all = false
					}
				}
			}
			return all
		}
		return false
	case *ssa.Alloc:
		return true
	case *ssa.Phi:
		for _, e := range x.Edges {
			if !isFreshError(e, d+1) {
				return false
			}
		}
		return true
	}
	return false
}

// ErrValue returns the error-typed result value of a call (the call itself or
// the Extract of its error component), or nil.
func ErrValue(call ssa.CallInstruction) ssa.Value {
	v := call.Value()
	if v == nil {
		return nil
	}
	if isErrorType(v.Type()) {
		return v
	}
	tup, ok := v.Type().(*types.Tuple)
	if !ok {
		return nil
	}
	refs := v.Referrers()
	if refs == nil {
		return nil
	}
	for _, u := range *refs {
		if e, ok := u.(*ssa.Extract); ok && isErrorType(tup.At(e.Index).Type()) {
			return e
		}
	}
	return nil
}

// ResultValue returns the i-th result of a call as an SSA value (the call
// itself for single results; the Extract otherwise), or nil if unused.
func ResultValue(call ssa.CallInstruction, i int) ssa.Value {
	v := call.Value()
	if v == nil {
		return nil
	}
	if _, ok := v.Type().(*types.Tuple); !ok {
		if i == 0 {
			return v
		}
		return nil
	}
	if refs := v.Referrers(); refs != nil {
		for _, u := range *refs {
			if e, ok := u.(*ssa.Extract); ok && e.Index == i {
				return e
			}
		}
	}
	return nil
}

// SameValue: a and b denote the same SSA value once spilled locals, phis with a
// single distinct input and conversions are looked through.
func SameValue(a, b ssa.Value) bool {
	return ResolveLocal(a) == ResolveLocal(b)
}

// FlowsFrom reports whether v is src or derived from it through phis,
// conversions, spilled locals and (optionally) the given pass-through callees.
func FlowsFrom(v, src ssa.Value, passThrough func(key string) bool) bool {
	seen := map[ssa.Value]bool{}
	var rec func(v ssa.Value, d int) bool
	rec = func(v ssa.Value, d int) bool {
		if v == nil || d > 12 || seen[v] {
			return false
		}
		seen[v] = true
		v = Unwrap(v)
		if v == src {
			return true
		}
		switch x := v.(type) {
		case *ssa.Phi:
			for _, e := range x.Edges {
				if rec(e, d+1) {
					return true
				}
			}
		case *ssa.UnOp:
			if x.Op == token.MUL {
				if x.X == src {
					return true
				}
				switch a := x.X.(type) {
				case *ssa.Alloc:
					for _, s := range Stores(a) {
						if rec(s.Val, d+1) {
							return true
						}
					}
				case *ssa.FreeVar:
					if b := FreeVarBinding(a); b != nil {
						if b == src {
							return true
						}
						for _, s := range Stores(b) {
							if rec(s.Val, d+1) {
								return true
							}
						}
					}
				}
			}
		case *ssa.Extract:
			if c, ok := x.Tuple.(*ssa.Call); ok && passThrough != nil && passThrough(CallKey(c.Common())) {
				for _, a := range c.Common().Args {
					if rec(a, d+1) {
						return true
					}
				}
				if c.Common().IsInvoke() && rec(c.Common().Value, d+1) {
					return true
				}
			}
			return rec(x.Tuple, d+1)
		case *ssa.Call:
			if passThrough != nil && passThrough(CallKey(x.Common())) {
				for _, a := range x.Common().Args {
					if rec(a, d+1) {
						return true
					}
				}
				if x.Common().IsInvoke() && rec(x.Common().Value, d+1) {
					return true
				}
			}
		case *ssa.Slice:
			return rec(x.X, d+1)
		case *ssa.Convert:
			return rec(x.X, d+1)
		}
		return false
	}
	return rec(v, 0)
}

// ---- path enumeration (decision tables) ----

// Path is one acyclic path through a region.
type Path struct {
	Lits    []Lit
	Effects []ssa.Instruction
	EffAt   []int           // number of literals crossed before each effect
	Ret     []ssa.Value     // operands of the final Return with boolean phis resolved along this path
	End     ssa.Instruction // Return, Panic, or nil when the path left the region / hit a back edge
	EndKind string          // "return", "panic", "leave", "back"
	Blocks  []*ssa.BasicBlock
}

func (p Path) Cond() string {
	var s []string
	for _, l := range p.Lits {
		if l.Implied {
			s = append(s, "⊢"+l.String())
			continue
		}
		s = append(s, l.String())
	}
	return strings.Join(s, " ∧ ")
}

// Has reports whether the path crosses a literal with the given polarity whose
// atom satisfies match.
func (p Path) Has(pos bool, match func(atom string) bool) bool {
	for _, l := range p.Lits {
		if l.Pos == pos && match(l.Atom) {
			return true
		}
	}
	return false
}

// Mentions reports whether the path tests an atom satisfying match at all.
func (p Path) Mentions(match func(atom string) bool) bool {
	for _, l := range p.Lits {
		if match(l.Atom) {
			return true
		}
	}
	return false
}

// EnumOpts bound and shape an enumeration.
type EnumOpts struct {
	Start  *ssa.BasicBlock               // default entry
	Leave  func(b *ssa.BasicBlock) bool  // blocks at which a path ends with EndKind "leave"
	Effect func(in ssa.Instruction) bool // instructions recorded as effects
	Max    int                           // path bound (default 4096)
}

// ErrTooManyPaths is returned when the bound is exceeded: the rule is undecided.
var ErrTooManyPaths = fmt.Errorf("path bound exceeded")

// EnumPaths enumerates all acyclic paths (each block at most once per path).
func EnumPaths(fn *ssa.Function, o EnumOpts) ([]Path, error) {
	if o.Max == 0 {
		o.Max = 4096
	}
	start := o.Start
	if start == nil {
		start = fn.Blocks[0]
	}
	var out []Path
	onPath := map[*ssa.BasicBlock]bool{}
	var lits []Lit
	var effs []ssa.Instruction
	var effAt []int
	var blocks []*ssa.BasicBlock
	var err error
	var curEnv env
	emit := func(end ssa.Instruction, kind string) {
		if len(out) >= o.Max {
			err = ErrTooManyPaths
			return
		}
		var ret []ssa.Value
		if rt, ok := end.(*ssa.Return); ok {
			for i := range rt.Results {
				ret = append(ret, curEnv.resolve(RetVal(rt, i)))
			}
		}
		out = append(out, Path{
			Ret:     ret,
			Lits:    append([]Lit(nil), lits...),
			Effects: append([]ssa.Instruction(nil), effs...),
			EffAt:   append([]int(nil), effAt...),
			End:     end, EndKind: kind,
			Blocks: append([]*ssa.BasicBlock(nil), blocks...),
		})
	}
	var walk func(b *ssa.BasicBlock, from int, first bool, e env)
	walk = func(b *ssa.BasicBlock, from int, first bool, e env) {
		if err != nil {
			return
		}
		if from == 0 {
			if !first && o.Leave != nil && o.Leave(b) {
				emit(nil, "leave")
				return
			}
			if onPath[b] {
				emit(nil, "back")
				return
			}
			onPath[b] = true
			blocks = append(blocks, b)
			defer func() { onPath[b] = false; blocks = blocks[:len(blocks)-1] }()
		}
		ne := len(effs)
		defer func() { effs = effs[:ne]; effAt = effAt[:ne] }()
		curEnv = e
		for idx := from; idx < len(b.Instrs); idx++ {
			in := b.Instrs[idx]
			if rt, isR := in.(*ssa.Return); isR {
				if cs, ok := InlineSite(b.Parent()); ok && b.Parent() != fn {
					// leaving an extracted helper: go on after its call, results bound
					call := cs.Instr.(*ssa.Call)
					p := After(call)
					walk(p.B, p.I, false, e.leave(call, rt))
					return
				}
			}
			if o.Effect != nil && o.Effect(in) {
				effs = append(effs, in)
				effAt = append(effAt, len(lits))
			}
			switch in.(type) {
			case *ssa.Return:
				emit(in, "return")
				return
			case *ssa.Panic:
				emit(in, "panic")
				return
			}
			if g := InlinedCallee(in); g != nil {
				walk(g.Blocks[0], 0, false, e)
				return
			}
		}
		for i, s := range b.Succs {
			l, feasible := e.edgeLit(b, i)
			if !feasible {
				continue
			}
			if l != nil {
				// an SSA value has one truth value along an acyclic path: the opposite
				// branch on a condition already decided is infeasible
				contradiction := false
				for _, prev := range lits {
					if prev.Cond == l.Cond && prev.Atom == l.Atom && prev.Pos != l.Pos {
						contradiction = true
					}
				}
				if contradiction {
					continue
				}
				n0 := len(lits)
				lits = append(lits, *l)
				lits = append(lits, ExpandLit(*l)...)
				if alts := errHelperAlts(*l); len(alts) > 0 && len(alts) <= 8 {
					// a test of an extracted helper's error: one continuation per way the helper has of
					// producing that outcome, with the facts of that way
					n1 := len(lits)
					for _, alt := range alts {
						lits = append(lits[:n1], alt...)
						walk(s, 0, false, e.enter(b, s))
					}
					lits = lits[:n0]
					continue
				}
				walk(s, 0, false, e.enter(b, s))
				lits = lits[:n0]
			} else {
				walk(s, 0, false, e.enter(b, s))
			}
		}
	}
	walk(start, 0, true, env{})
	return out, err
}

// ---- loops ----

// RangeLoop describes a `for … range X` loop.
type RangeLoop struct {
	Fn     *ssa.Function
	Header *ssa.BasicBlock // block testing the loop condition
	Body   *ssa.BasicBlock // first body block
	Exit   *ssa.BasicBlock // block after the loop
	X      ssa.Value       // ranged operand
	Key    ssa.Value       // may be nil
	Val    ssa.Value       // may be nil
	body   map[*ssa.BasicBlock]bool
}

// InBody reports whether b belongs to the loop body (blocks reachable from Body
// without passing Header or Exit).
func (l *RangeLoop) InBody(b *ssa.BasicBlock) bool { return l.body[b] }

// BodyBlocks returns the body's blocks in index order.
func (l *RangeLoop) BodyBlocks() []*ssa.BasicBlock {
	var out []*ssa.BasicBlock
	for b := range l.body {
		out = append(out, b)
	}
	sort.Slice(out, func(i, j int) bool { return out[i].Index < out[j].Index })
	return out
}

// Contains reports whether instruction in lies in the loop body.
func (l *RangeLoop) Contains(in ssa.Instruction) bool {
	for i := 0; i < 8 && in != nil; i++ {
		if l.body[in.Block()] {
			return true
		}
		// an instruction of an extracted helper is where the helper is called
		cs, ok := InlineSite(in.Parent())
		if !ok {
			return false
		}
		in = cs.Instr.(ssa.Instruction)
	}
	return false
}

// RangeLoops finds the range loops of fn: map/string ranges (Range/Next
// instructions) and slice ranges (index-counter loops built by go/ssa).
func RangeLoops(fn *ssa.Function) []*RangeLoop {
	out := rangeLoops1(fn)
	// loops of helpers that were extracted out of fn belong to fn
	for _, g := range InlinedUnder(fn) {
		out = append(out, rangeLoops1(g)...)
	}
	return out
}

func rangeLoops1(fn *ssa.Function) []*RangeLoop {
	var out []*RangeLoop
	for _, b := range fn.Blocks {
		if len(b.Instrs) == 0 {
			continue
		}
		iff, ok := b.Instrs[len(b.Instrs)-1].(*ssa.If)
		if !ok {
			continue
		}
		var l *RangeLoop
		// map / string / channel-less range: header has t = next(it); ok = extract t #0; if ok
		if ex, ok := iff.Cond.(*ssa.Extract); ok && ex.Index == 0 {
			if nx, ok := ex.Tuple.(*ssa.Next); ok {
				if rg, ok := nx.Iter.(*ssa.Range); ok {
					l = &RangeLoop{Fn: fn, Header: b, Body: b.Succs[0], Exit: b.Succs[1], X: rg.X}
					if refs := nx.Referrers(); refs != nil {
						for _, u := range *refs {
							if e, ok := u.(*ssa.Extract); ok {
								if e.Index == 1 {
									l.Key = e
								} else if e.Index == 2 {
									l.Val = e
								}
							}
						}
					}
				}
			}
		}
		// slice range: header: i = phi [-1, i+1]; inc = i + 1; if inc < len(X)
		if l == nil {
			if bo, ok := iff.Cond.(*ssa.BinOp); ok && bo.Op == token.LSS {
				if c, ok := bo.Y.(*ssa.Call); ok {
					if bi, ok := c.Call.Value.(*ssa.Builtin); ok && bi.Name() == "len" {
						if inc, ok := bo.X.(*ssa.BinOp); ok && inc.Op == token.ADD {
							if ph, ok := inc.X.(*ssa.Phi); ok && ph.Block() == b && b.Comment == "rangeindex.loop" {
								l = &RangeLoop{Fn: fn, Header: b, Body: b.Succs[0], Exit: b.Succs[1], X: c.Call.Args[0], Key: inc}
								// the element: IndexAddr/Index of X at inc in the body block
								for _, in := range b.Succs[0].Instrs {
									switch e := in.(type) {
									case *ssa.IndexAddr:
										if e.X == l.X && e.Index == inc {
											// value is the load of e
											if refs := e.Referrers(); refs != nil {
												for _, u := range *refs {
													if ld, ok := u.(*ssa.UnOp); ok && ld.Op == token.MUL {
														l.Val = ld
													}
												}
											}
										}
									case *ssa.Index:
										if e.X == l.X && e.Index == inc {
											l.Val = e
										}
									}
								}
							}
						}
					}
				}
			}
		}
		if l == nil {
			continue
		}
		l.body = map[*ssa.BasicBlock]bool{}
		var mark func(x *ssa.BasicBlock)
		mark = func(x *ssa.BasicBlock) {
			if x == l.Header || x == l.Exit || l.body[x] {
				return
			}
			l.body[x] = true
			for _, s := range x.Succs {
				mark(s)
			}
		}
		mark(l.Body)
		out = append(out, l)
	}
	return out
}

// LoopOver returns the range loops of fn whose ranged operand satisfies match
// (on its canonical rendering).
func LoopOver(fn *ssa.Function, match func(x string) bool) []*RangeLoop {
	var out []*RangeLoop
	for _, l := range RangeLoops(fn) {
		if match(Expr(l.X)) {
			out = append(out, l)
		}
	}
	return out
}

// EnclosingLoop returns the innermost range loop whose body contains in.
func EnclosingLoop(loops []*RangeLoop, in ssa.Instruction) *RangeLoop {
	var best *RangeLoop
	for _, l := range loops {
		if l.Contains(in) && (best == nil || len(l.body) < len(best.body)) {
			best = l
		}
	}
	return best
}

// ---- boolean helper summaries ----

var (
	boolSums = map[boolKey]*[2][]Lit{}
	boolAlts = map[boolKey]*[2][][]Lit{}
	boolBusy = map[boolKey]bool{}
	paramTok = regexp.MustCompile(`\bp(\d+)\b`)
)

// boolSummary: for a module function with a single bool result, the literals that
// hold on every path returning false ([0]) and on every path returning true ([1]),
// in the callee's own frame.
type boolKey struct {
	g   *ssa.Function
	idx int
}

// boolCallOf: the module function whose bool result (the only one, or component idx of several) l branches on.
func boolCallOf(l Lit) (*ssa.Call, *ssa.Function, int) {
	var c *ssa.Call
	idx := 0
	switch x := l.Cond.(type) {
	case *ssa.Call:
		c = x
	case *ssa.Extract:
		cc, ok := x.Tuple.(*ssa.Call)
		if !ok {
			return nil, nil, 0
		}
		c, idx = cc, x.Index
	default:
		return nil, nil, 0
	}
	if c.Common().IsInvoke() {
		return nil, nil, 0
	}
	g := StaticFn(c.Common())
	if g == nil || !isModuleFunc(g) || len(g.Blocks) == 0 || idx >= g.Signature.Results().Len() || !isBool(g.Signature.Results().At(idx).Type()) {
		return nil, nil, 0
	}
	if _, isExtract := l.Cond.(*ssa.Extract); !isExtract && g.Signature.Results().Len() != 1 {
		return nil, nil, 0
	}
	return c, g, idx
}

func boolSummary(g *ssa.Function) *[2][]Lit { return boolSummaryAt(g, 0) }

func boolSummaryAt(g *ssa.Function, idx int) *[2][]Lit {
	bk := boolKey{g, idx}
	if s, ok := boolSums[bk]; ok {
		return s
	}
	if boolBusy[bk] {
		return nil
	}
	boolBusy[bk] = true
	defer delete(boolBusy, bk)
	paths, err := EnumPaths(g, EnumOpts{Max: 256})
	if err != nil {
		boolSums[bk] = nil
		return nil
	}
	type key struct {
		a string
		p bool
	}
	var common [2]map[key]Lit
	var alts [2][][]Lit
	seenClass := [2]bool{}
	meet := func(class int, lits []Lit) {
		alts[class] = append(alts[class], append([]Lit(nil), lits...))
		cur := map[key]Lit{}
		for _, l := range lits {
			cur[key{l.Atom, l.Pos}] = l
		}
		if !seenClass[class] {
			common[class], seenClass[class] = cur, true
			return
		}
		for k := range common[class] {
			if _, ok := cur[k]; !ok {
				delete(common[class], k)
			}
		}
	}
	for _, pa := range paths {
		if _, isR := pa.End.(*ssa.Return); !isR || idx >= len(pa.Ret) {
			continue
		}
		if c, isC := pa.Ret[idx].(*ssa.Const); isC && c.Value != nil && c.Value.Kind() == constant.Bool {
			cl := 0
			if constant.BoolVal(c.Value) {
				cl = 1
			}
			meet(cl, pa.Lits)
			continue
		}
		for cl, pos := range []bool{false, true} {
			l := CondLit(pa.Ret[idx], pos)
			lits := append(append([]Lit(nil), pa.Lits...), l)
			lits = append(lits, ExpandLit(l)...)
			meet(cl, lits)
		}
	}
	var out [2][]Lit
	for cl := 0; cl < 2; cl++ {
		for _, l := range common[cl] {
			out[cl] = append(out[cl], l)
		}
		sort.Slice(out[cl], func(i, j int) bool { return out[cl][i].Atom < out[cl][j].Atom })
	}
	boolSums[bk] = &out
	boolAlts[bk] = &alts
	return &out
}

// ExpandLit: when l branches on the result of a module function that returns a
// single bool, the facts that function establishes for that outcome on all its
// paths, rendered in the caller's frame (parameters replaced by the actual
// arguments). A predicate extracted into a helper is thereby still seen as the
// conjunction it stands for.
func ExpandLit(l Lit) []Lit {
	c, g, ridx := boolCallOf(l)
	if c == nil {
		return nil
	}
	sum := boolSummaryAt(g, ridx)
	if sum == nil {
		return nil
	}
	cl := 0
	if l.Pos {
		cl = 1
	}
	args := c.Common().Args
	trans := func(v ssa.Value) ssa.Value {
		switch x := v.(type) {
		case *ssa.Const:
			return x
		case *ssa.Parameter:
			for i, q := range g.Params {
				if q == x && i < len(args) {
					return args[i]
				}
			}
		}
		return nil
	}
	conv := func(in []Lit) []Lit {
		var out []Lit
		for _, s := range in {
			out = append(out, transLit(s, args, trans))
		}
		return out
	}
	_ = conv
	var out []Lit
	for _, s := range sum[cl] {
		atom := paramTok.ReplaceAllStringFunc(s.Atom, func(m string) string {
			i, _ := strconv.Atoi(m[1:])
			if i < len(args) {
				return Expr(args[i])
			}
			return m
		})
		n := Lit{Atom: atom, Pos: s.Pos, Op: s.Op, Implied: true}
		if x, y := trans(s.X), trans(s.Y); x != nil && y != nil {
			n.X, n.Y = x, y
		} else {
			n.Op = token.ILLEGAL
		}
		out = append(out, n)
	}
	return out
}

func transLit(s Lit, args []ssa.Value, trans func(ssa.Value) ssa.Value) Lit {
	atom := paramTok.ReplaceAllStringFunc(s.Atom, func(m string) string {
		i, _ := strconv.Atoi(m[1:])
		if i < len(args) {
			return Expr(args[i])
		}
		return m
	})
	n := Lit{Atom: atom, Pos: s.Pos, Op: s.Op, Implied: true}
	if x, y := trans(s.X), trans(s.Y); x != nil && y != nil {
		n.X, n.Y = x, y
	} else {
		n.Op = token.ILLEGAL
	}
	return n
}

// ExpandLitDNF is the disjunctive form of ExpandLit: one list of literals per
// path of the helper that produces the branched-on outcome. A guard is
// established by the edge when every alternative contains a literal satisfying it.
func ExpandLitDNF(l Lit) [][]Lit {
	if alts := errHelperAlts(l); len(alts) > 0 {
		return alts
	}
	c, g, ridx := boolCallOf(l)
	if c == nil {
		return nil
	}
	if boolSummaryAt(g, ridx) == nil {
		return nil
	}
	alts := boolAlts[boolKey{g, ridx}]
	if alts == nil {
		return nil
	}
	cl := 0
	if l.Pos {
		cl = 1
	}
	args := c.Common().Args
	trans := func(v ssa.Value) ssa.Value {
		switch x := v.(type) {
		case *ssa.Const:
			return x
		case *ssa.Parameter:
			for i, q := range g.Params {
				if q == x && i < len(args) {
					return args[i]
				}
			}
		}
		return nil
	}
	var out [][]Lit
	for _, alt := range alts[cl] {
		var o []Lit
		for _, s := range alt {
			o = append(o, transLit(s, args, trans))
		}
		out = append(out, o)
	}
	return out
}

// ---- error-helper summaries ----

var errAlts = map[*ssa.Function]*[2][][]Lit{}
var errBusy = map[*ssa.Function]bool{}

// errHelperAlts: l is a nil test of the error a module function g returned, where g is a helper that does not
// exist in the reference inventory (an extracted block). The result lists, per path of g that produces the tested
// outcome (nil / non-nil error), the literals of that path in the caller's frame — the test of the helper's
// error is thereby still seen as the disjunction of conjunctions it stands for. nil when not applicable.
func errHelperAlts(l Lit) [][]Lit {
	v, isNil, ok := l.NilTest()
	if !ok || v == nil {
		return nil
	}
	var call *ssa.Call
	switch x := v.(type) {
	case *ssa.Call:
		call = x
	case *ssa.Extract:
		c, isC := x.Tuple.(*ssa.Call)
		if !isC {
			return nil
		}
		call = c
	default:
		return nil
	}
	if !isErrorType(v.Type()) || call.Common().IsInvoke() {
		return nil
	}
	g := StaticFn(call.Common())
	if g == nil || !isModuleFunc(g) || len(g.Blocks) == 0 || g.Parent() != nil || !NewFuncs[FuncKey(g)] {
		return nil
	}
	ei := ErrorResultIndex(g)
	if ei < 0 {
		return nil
	}
	sum, done := errAlts[g]
	if !done {
		if errBusy[g] {
			return nil
		}
		errBusy[g] = true
		paths, err := EnumPaths(g, EnumOpts{Max: 64})
		delete(errBusy, g)
		if err != nil {
			errAlts[g] = nil
			return nil
		}
		var a [2][][]Lit
		for _, pa := range paths {
			rt, isR := pa.End.(*ssa.Return)
			if !isR || ei >= len(pa.Ret) {
				errAlts[g] = nil // a path that does not return (panic, loop back edge): no summary
				return nil
			}
			_ = rt
			cl := 1 // non-nil
			if c, isC := pa.Ret[ei].(*ssa.Const); isC && c.IsNil() {
				cl = 0
			} else if !isFreshError(pa.Ret[ei], 0) {
				// an error handed up from a callee: nil or not is that callee's business — the path belongs to both
				// classes, unless the path itself tested that very value
				known := 0
				for _, pl := range pa.Lits {
					if x, isN, isT := pl.NilTest(); isT && x != nil && SameValue(x, pa.Ret[ei]) {
						known = 1
						if isN {
							known = -1
						}
					}
				}
				switch known {
				case 0:
					a[0] = append(a[0], append([]Lit(nil), pa.Lits...))
				case -1:
					cl = 0
				}
			}
			a[cl] = append(a[cl], append([]Lit(nil), pa.Lits...))
		}
		errAlts[g] = &a
		sum = &a
	}
	if sum == nil {
		return nil
	}
	cl := 1
	if isNil { // the edge asserts 'error is nil'
		cl = 0
	}
	args := call.Common().Args
	trans := func(v ssa.Value) ssa.Value {
		switch x := v.(type) {
		case *ssa.Const:
			return x
		case *ssa.Parameter:
			for i, q := range g.Params {
				if q == x && i < len(args) {
					return args[i]
				}
			}
		}
		return nil
	}
	var out [][]Lit
	for _, alt := range sum[cl] {
		var o []Lit
		for _, s := range alt {
			o = append(o, transLit(s, args, trans))
		}
		out = append(out, o)
	}
	return out
}
