// Package engine loads /repo, lowers it to SSA and offers the small set of
// analyses every rule is an instance of (DESIGN.md section 1).
package engine

import (
	"fmt"
	"go/token"
	"go/types"
	"os"
	"path/filepath"
	"sort"
	"strings"

	"golang.org/x/tools/go/packages"
	"golang.org/x/tools/go/ssa"
	"golang.org/x/tools/go/ssa/ssautil"
)

const ModPrefix = "metacontroller/"

// Program is the resolved program: type-checked packages, SSA, function index.
type Program struct {
	Repo    string
	Fset    *token.FileSet
	Pkgs    []*packages.Package // module packages
	AllPkgs int                 // packages incl. dependencies
	Prog    *ssa.Program

	funcs    map[string]*ssa.Function // key -> function (module functions only)
	ModFuncs []*ssa.Function          // all module functions incl. closures, sorted by key
	Scanned  []*ssa.Function          // module functions that rules scan (not generated, not testutils)

	cg          *CallGraph
	callerIdx   *callerIndex
	fieldStores map[string][]*ssa.Store
}

// Load type-checks ./pkg/... of repo (no tests) and builds SSA for the whole
// program. overlay maps absolute file names to replacement contents (used by the
// seeded-variant self test only). Any load or type error is returned: a tree
// that does not type-check is never "passed".
// RefFile is the reference inventory used for rename resolution ("" disables it).
var RefFile = ""

func Load(repo string, overlay map[string][]byte) (*Program, error) {
	env := []string{}
	for _, e := range os.Environ() {
		if strings.HasPrefix(e, "GOFLAGS=") || strings.HasPrefix(e, "GOWORK=") ||
			strings.HasPrefix(e, "GOPROXY=") || strings.HasPrefix(e, "GOSUMDB=") ||
			strings.HasPrefix(e, "GOTOOLCHAIN=") {
			continue
		}
		env = append(env, e)
	}
	// never write to /repo: -mod=readonly (see DESIGN.md 1.1)
	env = append(env, "GOFLAGS=-mod=readonly", "GOWORK=off", "GOPROXY=off", "GOSUMDB=off", "GOTOOLCHAIN=local")
	fset := token.NewFileSet()
	cfg := &packages.Config{
		Mode:    packages.LoadAllSyntax,
		Dir:     repo,
		Env:     env,
		Fset:    fset,
		Tests:   false,
		Overlay: overlay,
	}
	initial, err := packages.Load(cfg, "./pkg/...")
	if err != nil {
		return nil, fmt.Errorf("load: %w", err)
	}
	if len(initial) == 0 {
		return nil, fmt.Errorf("load: zero packages matched ./pkg/... in %s", repo)
	}
	var errs []string
	n := 0
	packages.Visit(initial, nil, func(p *packages.Package) {
		n++
		for _, e := range p.Errors {
			errs = append(errs, e.Error())
		}
	})
	if len(errs) > 0 {
		sort.Strings(errs)
		if len(errs) > 10 {
			errs = errs[:10]
		}
		return nil, fmt.Errorf("load: type/parse errors:\n  %s", strings.Join(errs, "\n  "))
	}
	prog, _ := ssautil.AllPackages(initial, ssa.InstantiateGenerics)
	prog.Build()

	p := &Program{Repo: repo, Fset: fset, Prog: prog, AllPkgs: n, funcs: map[string]*ssa.Function{}}
	for _, pk := range initial {
		if strings.HasPrefix(pk.PkgPath, ModPrefix) {
			p.Pkgs = append(p.Pkgs, pk)
		}
	}
	sort.Slice(p.Pkgs, func(i, j int) bool { return p.Pkgs[i].PkgPath < p.Pkgs[j].PkgPath })
	if RefFile != "" {
		var named []*ssa.Function
		for fn := range ssautil.AllFunctions(prog) {
			if isModuleFunc(fn) && !(fn.Synthetic != "" && fn.Syntax() == nil) && fn.Origin() == nil {
				named = append(named, fn)
			}
		}
		resolveRenames(named, RefFile)
	}
	for fn := range ssautil.AllFunctions(prog) {
		if !isModuleFunc(fn) {
			continue
		}
		if fn.Synthetic != "" && fn.Syntax() == nil {
			// wrappers, thunks, bound-method closures, init: not indexed as rule targets
			continue
		}
		k := FuncKey(fn)
		if old, dup := p.funcs[k]; dup && old != fn {
			// instantiations of one generic share a key; keep the origin
			if fn.Origin() != nil {
				continue
			}
		}
		p.funcs[k] = fn
	}
	for _, fn := range p.funcs {
		p.ModFuncs = append(p.ModFuncs, fn)
	}
	sort.Slice(p.ModFuncs, func(i, j int) bool { return FuncKey(p.ModFuncs[i]) < FuncKey(p.ModFuncs[j]) })
	for _, fn := range p.ModFuncs {
		if p.isScanned(fn) {
			p.Scanned = append(p.Scanned, fn)
		}
	}
	return p, nil
}

func isModuleFunc(fn *ssa.Function) bool {
	pk := fn.Pkg
	if pk == nil && fn.Origin() != nil {
		pk = fn.Origin().Pkg
	}
	if pk == nil {
		// closures inside instantiated generics
		for f := fn.Parent(); f != nil && pk == nil; f = f.Parent() {
			pk = f.Pkg
			if pk == nil && f.Origin() != nil {
				pk = f.Origin().Pkg
			}
		}
	}
	return pk != nil && strings.HasPrefix(pk.Pkg.Path(), ModPrefix)
}

// File returns the repo-relative file of fn ("" if unknown).
func (p *Program) File(fn *ssa.Function) string {
	pos := fn.Pos()
	if !pos.IsValid() && fn.Syntax() != nil {
		pos = fn.Syntax().Pos()
	}
	if !pos.IsValid() {
		return ""
	}
	f := p.Fset.Position(pos).Filename
	if r, err := filepath.Rel(p.Repo, f); err == nil {
		return r
	}
	return f
}

func (p *Program) isScanned(fn *ssa.Function) bool {
	f := p.File(fn)
	if f == "" {
		return false
	}
	if strings.Contains(f, "pkg/internal/testutils/") {
		return false
	}
	if strings.HasSuffix(f, "controllerrevision_expansion.go") {
		return true
	}
	if strings.Contains(f, "pkg/client/generated/") || strings.Contains(filepath.Base(f), "zz_generated") {
		return false
	}
	return true
}

// Pos renders a position repo-relative: file:line.
func (p *Program) Pos(pos token.Pos) string {
	if !pos.IsValid() {
		return "?"
	}
	ps := p.Fset.Position(pos)
	f := ps.Filename
	if r, err := filepath.Rel(p.Repo, f); err == nil && !strings.HasPrefix(r, "..") {
		f = r
	}
	return fmt.Sprintf("%s:%d", f, ps.Line)
}

// InstrPos returns the best position for an instruction (falls back to the
// nearest positioned instruction in its block, then to the function).
func (p *Program) InstrPos(in ssa.Instruction) string {
	if in == nil {
		return "?"
	}
	if in.Pos().IsValid() {
		return p.Pos(in.Pos())
	}
	if c, ok := in.(ssa.CallInstruction); ok && c.Common().Pos().IsValid() {
		return p.Pos(c.Common().Pos())
	}
	b := in.Block()
	if b != nil {
		idx := -1
		for i, x := range b.Instrs {
			if x == in {
				idx = i
			}
		}
		for d := 1; d < len(b.Instrs); d++ {
			for _, j := range []int{idx - d, idx + d} {
				if j >= 0 && j < len(b.Instrs) && b.Instrs[j].Pos().IsValid() {
					return p.Pos(b.Instrs[j].Pos())
				}
			}
		}
		return p.Pos(b.Parent().Pos())
	}
	return "?"
}

// FuncKey is the stable, position-free name of a function:
//
//	pkgpath.Func, pkgpath.Type.Method, <outer>$n for closures.
//
// Pointer-ness of receivers and type arguments are dropped.
func FuncKey(fn *ssa.Function) string {
	if fn == nil {
		return "<nil>"
	}
	if k, ok := funcAlias[fn]; ok {
		return k
	}
	if fn.Parent() != nil {
		// closure: name is outer$N
		name := fn.Name()
		if i := strings.LastIndex(name, "$"); i >= 0 {
			return FuncKey(fn.Parent()) + name[i:]
		}
		return FuncKey(fn.Parent()) + "$" + name
	}
	o := fn
	if fn.Origin() != nil {
		o = fn.Origin()
		if k, ok := funcAlias[o]; ok {
			return k
		}
	}
	if o.Signature != nil && o.Signature.Recv() != nil {
		return recvTypeKey(o.Signature.Recv().Type()) + "." + o.Name()
	}
	if o.Object() != nil && o.Object().Pkg() != nil {
		return o.Object().Pkg().Path() + "." + o.Name()
	}
	if o.Pkg != nil {
		return o.Pkg.Pkg.Path() + "." + o.Name()
	}
	return o.Name()
}

func recvTypeKey(t types.Type) string {
	if pt, ok := t.(*types.Pointer); ok {
		t = pt.Elem()
	}
	t = types.Unalias(t)
	if n, ok := t.(*types.Named); ok {
		o := n.Obj()
		if o.Pkg() != nil {
			return o.Pkg().Path() + "." + o.Name()
		}
		return o.Name()
	}
	return t.String()
}

// TypesFuncKey is FuncKey for a *types.Func (interface methods, unresolved callees).
func TypesFuncKey(f *types.Func) string {
	if f == nil {
		return "<nil>"
	}
	f = f.Origin()
	sig, _ := f.Type().(*types.Signature)
	if sig != nil && sig.Recv() != nil {
		return recvTypeKey(sig.Recv().Type()) + "." + f.Name()
	}
	if f.Pkg() != nil {
		return f.Pkg().Path() + "." + f.Name()
	}
	return f.Name()
}

// Short strips the module prefix for display.
func Short(key string) string {
	return strings.ReplaceAll(key, "metacontroller/pkg/", "")
}

// Func returns the module function with the given key, or nil.
func (p *Program) Func(key string) *ssa.Function {
	if !strings.HasPrefix(key, ModPrefix) {
		key = "metacontroller/pkg/" + key
	}
	return p.funcs[key]
}

// Closures returns the anonymous functions directly or transitively nested in fn.
func Closures(fn *ssa.Function) []*ssa.Function {
	var out []*ssa.Function
	var rec func(f *ssa.Function)
	rec = func(f *ssa.Function) {
		for _, a := range f.AnonFuncs {
			out = append(out, a)
			rec(a)
		}
	}
	rec(fn)
	return out
}

// CallKey names the callee of a call: static function, interface method,
// builtin ("builtin.append") or "" for a dynamic call through a func value.
func CallKey(c *ssa.CallCommon) string {
	if c.IsInvoke() {
		return TypesFuncKey(c.Method)
	}
	switch v := c.Value.(type) {
	case *ssa.Function:
		return FuncKey(v)
	case *ssa.Builtin:
		return "builtin." + v.Name()
	case *ssa.MakeClosure:
		if f, ok := v.Fn.(*ssa.Function); ok {
			return FuncKey(f)
		}
	}
	return ""
}

// StaticFn returns the function a call statically resolves to (through an
// immediately-applied closure too), or nil.
func StaticFn(c *ssa.CallCommon) *ssa.Function {
	if c.IsInvoke() {
		return nil
	}
	switch v := c.Value.(type) {
	case *ssa.Function:
		return v
	case *ssa.MakeClosure:
		if f, ok := v.Fn.(*ssa.Function); ok {
			return f
		}
	}
	return nil
}

// CallSite is one call instruction in a function.
type CallSite struct {
	Fn    *ssa.Function
	Instr ssa.CallInstruction
	Key   string
}

func (c CallSite) Common() *ssa.CallCommon { return c.Instr.Common() }

// Calls lists the call instructions (call, go, defer) of fn whose callee key
// satisfies match, in block/instruction order.
func Calls(fn *ssa.Function, match func(key string) bool) []CallSite {
	var out []CallSite
	for _, b := range fn.Blocks {
		for _, in := range b.Instrs {
			ci, ok := in.(ssa.CallInstruction)
			if !ok {
				continue
			}
			k := CallKey(ci.Common())
			if match(k) {
				out = append(out, CallSite{fn, ci, k})
			}
		}
	}
	return out
}

// CallsIn lists matching calls in fn and (optionally) all its nested closures.
func CallsIn(fn *ssa.Function, withClosures bool, match func(key string) bool) []CallSite {
	out := Calls(fn, match)
	if withClosures {
		for _, c := range Closures(fn) {
			out = append(out, Calls(c, match)...)
		}
	}
	return out
}

// Is returns a matcher for exact keys (module prefix may be omitted for module keys).
func Is(keys ...string) func(string) bool {
	set := map[string]bool{}
	for _, k := range keys {
		set[k] = true
		set["metacontroller/pkg/"+k] = true
	}
	return func(k string) bool { return set[k] }
}

// HasSuffix returns a matcher for key suffixes.
func HasSuffix(sufs ...string) func(string) bool {
	return func(k string) bool {
		for _, s := range sufs {
			if strings.HasSuffix(k, s) {
				return true
			}
		}
		return false
	}
}
