package engine

import (
	"fmt"
	"sort"
	"strings"

	"golang.org/x/tools/go/ssa"
)

// Sink is an API write call site (analysis A1).
type Sink struct {
	CallSite
	Iface string // dyn | rev | rc | crclient
	Verb  string // Create, Update, UpdateStatus, Delete, DeleteCollection, Patch, Apply, ApplyStatus, UpdateWithRetries, AtomicUpdate, …
	Ord   int    // ordinal among same (function, iface, verb)
}

// Construct is the stable key of the sink.
func (s Sink) Construct() string {
	return fmt.Sprintf("%s→%s.%s#%d", Short(FuncKey(InlineRoot(s.Fn))), s.Iface, s.Verb, s.Ord)
}

var dynVerbs = map[string]bool{"Create": true, "Update": true, "UpdateStatus": true, "Delete": true,
	"DeleteCollection": true, "Patch": true, "Apply": true, "ApplyStatus": true}
var revVerbs = map[string]bool{"Create": true, "Update": true, "Delete": true, "DeleteCollection": true,
	"Patch": true, "UpdateWithRetries": true, "UpdateStatus": true, "Apply": true, "ApplyStatus": true}
var rcVerbs = map[string]bool{"AtomicUpdate": true, "AtomicStatusUpdate": true, "AddFinalizer": true, "RemoveFinalizer": true}
var crVerbs = map[string]bool{"Create": true, "Update": true, "Delete": true, "Patch": true, "DeleteAllOf": true}

// ClassifySink returns (iface, verb) when key names an API write method.
func ClassifySink(key string) (string, string, bool) {
	i := strings.LastIndex(key, ".")
	if i < 0 {
		return "", "", false
	}
	typ, verb := key[:i], key[i+1:]
	switch {
	case typ == "k8s.io/client-go/dynamic.ResourceInterface" || typ == "k8s.io/client-go/dynamic.NamespaceableResourceInterface":
		if dynVerbs[verb] {
			return "dyn", verb, true
		}
	case strings.HasPrefix(typ, "metacontroller/pkg/client/generated/clientset/internalclientset/typed/metacontroller/v1alpha1.ControllerRevision"),
		typ == "metacontroller/pkg/client/generated/clientset/internalclientset/typed/metacontroller/v1alpha1.controllerRevisions":
		if revVerbs[verb] {
			return "rev", verb, true
		}
	case typ == "metacontroller/pkg/dynamic/clientset.ResourceClient":
		if rcVerbs[verb] {
			return "rc", verb, true
		}
	case typ == "sigs.k8s.io/controller-runtime/pkg/client.Writer" || typ == "sigs.k8s.io/controller-runtime/pkg/client.Client" ||
		typ == "sigs.k8s.io/controller-runtime/pkg/client.SubResourceWriter" || typ == "sigs.k8s.io/controller-runtime/pkg/client.StatusWriter":
		if crVerbs[verb] {
			return "crclient", verb, true
		}
	}
	return "", "", false
}

// Sinks enumerates every API write call site in the given functions.
func Sinks(fns []*ssa.Function) []Sink {
	var out []Sink
	ord := map[string]int{}
	sorted := append([]*ssa.Function(nil), fns...)
	sort.Slice(sorted, func(i, j int) bool { return FuncKey(sorted[i]) < FuncKey(sorted[j]) })
	for _, fn := range sorted {
		for _, cs := range Calls(fn, func(k string) bool { _, _, ok := ClassifySink(k); return ok }) {
			iface, verb, _ := ClassifySink(cs.Key)
			k := FuncKey(InlineRoot(fn)) + "|" + iface + "|" + verb
			out = append(out, Sink{CallSite: cs, Iface: iface, Verb: verb, Ord: ord[k]})
			ord[k]++
		}
	}
	return out
}

// Arg returns the i-th argument of the call, not counting the receiver.
func (c CallSite) Arg(i int) ssa.Value {
	cc := c.Common()
	if cc.IsInvoke() {
		if i < len(cc.Args) {
			return cc.Args[i]
		}
		return nil
	}
	off := 0
	if f := StaticFn(cc); f != nil && f.Signature.Recv() != nil {
		off = 1
	}
	if i+off < len(cc.Args) {
		return cc.Args[i+off]
	}
	return nil
}

// Recv returns the receiver value of a method call (invoke or static), or nil.
func (c CallSite) Recv() ssa.Value {
	cc := c.Common()
	if cc.IsInvoke() {
		return cc.Value
	}
	if f := StaticFn(cc); f != nil && f.Signature.Recv() != nil && len(cc.Args) > 0 {
		return cc.Args[0]
	}
	return nil
}
