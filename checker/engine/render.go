package engine

import (
	"fmt"
	"go/constant"
	"go/token"
	"go/types"
	"sort"
	"strings"

	"golang.org/x/tools/go/ssa"
)

// Expr renders an SSA value as a canonical, position-free, local-name-free
// expression over parameters (p0, p1, … ; the receiver is p0), free variables
// (resolved to the captured value where possible), constants, field paths and
// resolved callee keys. It is the vocabulary in which rules state atoms.
//
// Examples:
//
//	call(k8s.io/apimachinery/pkg/apis/meta/v1/unstructured.Unstructured.GetDeletionTimestamp)(p1)
//	p0.finalizer.Enabled
//	(call(…GetUID)(p1) == call(…GetUID)(p2))
func Expr(v ssa.Value) string {
	r := renderer{seen: map[ssa.Value]bool{}}
	return Abbrev(r.expr(v, 0))
}

const maxRenderDepth = 9

type renderer struct {
	seen map[ssa.Value]bool
}

func (r *renderer) expr(v ssa.Value, d int) string {
	if v == nil {
		return "<nil>"
	}
	if d > maxRenderDepth {
		return "…"
	}
	switch x := v.(type) {
	case *ssa.Parameter:
		if a := inlineActual(x); a != nil && d < 30 {
			return r.expr(a, d+1) // parameter of an extracted helper: the actual argument
		}
		fn := x.Parent()
		for i, p := range fn.Params {
			if p == x {
				return fmt.Sprintf("p%d", i)
			}
		}
		return "p?"
	case *ssa.FreeVar:
		if b := FreeVarBinding(x); b != nil {
			// the captured variable's cell in the enclosing function
			return r.expr(b, d+1)
		}
		return "fv:" + x.Name()
	case *ssa.Const:
		return constString(x)
	case *ssa.Global:
		return "global(" + x.Pkg.Pkg.Path() + "." + x.Name() + ")"
	case *ssa.Function:
		return "func(" + FuncKey(x) + ")"
	case *ssa.Builtin:
		return "builtin." + x.Name()
	case *ssa.Call:
		return r.call(x.Common(), d)
	case *ssa.UnOp:
		switch x.Op {
		case token.MUL:
			return r.load(x.X, d)
		case token.NOT:
			return "!" + r.expr(x.X, d+1)
		case token.ARROW:
			return "<-" + r.expr(x.X, d+1)
		default:
			return x.Op.String() + r.expr(x.X, d+1)
		}
	case *ssa.BinOp:
		return "(" + r.expr(x.X, d+1) + " " + x.Op.String() + " " + r.expr(x.Y, d+1) + ")"
	case *ssa.FieldAddr:
		return r.expr(x.X, d+1) + "." + fieldName(x.X.Type(), x.Field)
	case *ssa.Field:
		return r.expr(x.X, d+1) + "." + fieldName(x.X.Type(), x.Field)
	case *ssa.IndexAddr:
		return r.expr(x.X, d+1) + "[" + r.expr(x.Index, d+1) + "]"
	case *ssa.Index:
		return r.expr(x.X, d+1) + "[" + r.expr(x.Index, d+1) + "]"
	case *ssa.Lookup:
		return r.expr(x.X, d+1) + "[" + r.expr(x.Index, d+1) + "]"
	case *ssa.Extract:
		return fmt.Sprintf("%s#%d", r.expr(x.Tuple, d+1), x.Index)
	case *ssa.MakeInterface:
		return r.expr(x.X, d)
	case *ssa.ChangeType:
		return r.expr(x.X, d)
	case *ssa.ChangeInterface:
		return r.expr(x.X, d)
	case *ssa.Convert:
		return "conv<" + typeShort(x.Type()) + ">(" + r.expr(x.X, d+1) + ")"
	case *ssa.TypeAssert:
		return "assert<" + typeShort(x.AssertedType) + ">(" + r.expr(x.X, d+1) + ")"
	case *ssa.Phi:
		if r.seen[x] {
			return "phi↺"
		}
		r.seen[x] = true
		defer delete(r.seen, x)
		var parts []string
		dedup := map[string]bool{}
		for _, e := range x.Edges {
			s := r.expr(e, d+1)
			if !dedup[s] {
				dedup[s] = true
				parts = append(parts, s)
			}
		}
		sort.Strings(parts)
		if len(parts) == 1 {
			return parts[0]
		}
		return "phi(" + strings.Join(parts, "|") + ")"
	case *ssa.Alloc:
		return "new<" + typeShort(deref(x.Type())) + ">"
	case *ssa.MakeClosure:
		if f, ok := x.Fn.(*ssa.Function); ok {
			return "closure(" + FuncKey(f) + ")"
		}
		return "closure(?)"
	case *ssa.MakeMap:
		return "makemap<" + typeShort(x.Type()) + ">"
	case *ssa.MakeSlice:
		return "makeslice<" + typeShort(x.Type()) + ">"
	case *ssa.MakeChan:
		return "makechan"
	case *ssa.Slice:
		return "slice(" + r.expr(x.X, d+1) + ")"
	case *ssa.Next:
		return "next(" + r.expr(x.Iter, d+1) + ")"
	case *ssa.Range:
		return "range(" + r.expr(x.X, d+1) + ")"
	case *ssa.SliceToArrayPointer:
		return r.expr(x.X, d)
	case *ssa.MultiConvert:
		return r.expr(x.X, d)
	}
	return fmt.Sprintf("?%T", v)
}

// load renders *addr. Allocs with exactly one store render as the stored value
// (a local that was spilled because its address is taken or it is captured).
func (r *renderer) load(addr ssa.Value, d int) string {
	switch a := addr.(type) {
	case *ssa.Alloc:
		if s := SingleStore(a); s != nil {
			return r.expr(s.Val, d+1)
		}
		return "load(" + r.expr(a, d+1) + ")"
	case *ssa.FreeVar:
		if b := FreeVarBinding(a); b != nil {
			return r.load(b, d)
		}
		return "load(fv:" + a.Name() + ")"
	case *ssa.FieldAddr, *ssa.IndexAddr:
		return r.expr(a, d)
	case *ssa.Global:
		return r.expr(a, d)
	}
	return "*" + r.expr(addr, d+1)
}

func (r *renderer) call(c *ssa.CallCommon, d int) string {
	var args []string
	if c.IsInvoke() {
		args = append(args, r.expr(c.Value, d+1))
	}
	for _, a := range c.Args {
		args = append(args, r.expr(a, d+1))
	}
	k := CallKey(c)
	if k == "" {
		k = "dyn:" + r.expr(c.Value, d+1)
	}
	return "call(" + k + ")(" + strings.Join(args, ", ") + ")"
}

func constString(c *ssa.Const) string {
	if c.Value == nil {
		return "nil"
	}
	switch c.Value.Kind() {
	case constant.String:
		return fmt.Sprintf("%q", constant.StringVal(c.Value))
	case constant.Bool:
		if constant.BoolVal(c.Value) {
			return "true"
		}
		return "false"
	}
	return c.Value.ExactString()
}

func deref(t types.Type) types.Type {
	if p, ok := t.Underlying().(*types.Pointer); ok {
		return p.Elem()
	}
	return t
}

func fieldName(t types.Type, i int) string {
	t = deref(t)
	if s, ok := t.Underlying().(*types.Struct); ok && i < s.NumFields() {
		return s.Field(i).Name()
	}
	return fmt.Sprintf("f%d", i)
}

func typeShort(t types.Type) string {
	// full package paths; the final Abbrev pass shortens the well-known ones
	return types.TypeString(t, func(p *types.Package) string { return p.Path() })
}

// SingleStore returns the only Store into alloc a (ignoring stores through
// derived addresses), or nil when there are zero or several.
func SingleStore(a *ssa.Alloc) *ssa.Store {
	var st *ssa.Store
	refs := a.Referrers()
	if refs == nil {
		return nil
	}
	for _, u := range *refs {
		if s, ok := u.(*ssa.Store); ok && s.Addr == a {
			if st != nil {
				return nil
			}
			st = s
		}
	}
	if st != nil {
		return st
	}
	// captured variable written only inside closures: look there
	for _, u := range *refs {
		mc, ok := u.(*ssa.MakeClosure)
		if !ok {
			continue
		}
		fn := mc.Fn.(*ssa.Function)
		for i, b := range mc.Bindings {
			if b != a {
				continue
			}
			fv := fn.FreeVars[i]
			if fr := fv.Referrers(); fr != nil {
				for _, fu := range *fr {
					if s, ok := fu.(*ssa.Store); ok && s.Addr == fv {
						if st != nil {
							return nil
						}
						st = s
					}
				}
			}
		}
	}
	return st
}

// Stores returns all Store instructions whose address is a (in a's function and
// in closures that capture a).
func Stores(a ssa.Value) []*ssa.Store {
	var out []*ssa.Store
	refs := a.Referrers()
	if refs == nil {
		return nil
	}
	for _, u := range *refs {
		switch x := u.(type) {
		case *ssa.Store:
			if x.Addr == a {
				out = append(out, x)
			}
		case *ssa.MakeClosure:
			fn := x.Fn.(*ssa.Function)
			for i, b := range x.Bindings {
				if b == a {
					out = append(out, Stores(fn.FreeVars[i])...)
				}
			}
		}
	}
	return out
}

// FreeVarBinding returns the value bound to free variable fv at the (single)
// MakeClosure site of its function, or nil.
func FreeVarBinding(fv *ssa.FreeVar) ssa.Value {
	fn := fv.Parent()
	idx := -1
	for i, f := range fn.FreeVars {
		if f == fv {
			idx = i
		}
	}
	if idx < 0 || fn.Parent() == nil {
		return nil
	}
	var found ssa.Value
	n := 0
	for _, b := range fn.Parent().Blocks {
		for _, in := range b.Instrs {
			if mc, ok := in.(*ssa.MakeClosure); ok && mc.Fn == fn {
				found = mc.Bindings[idx]
				n++
			}
		}
	}
	if n == 1 {
		return found
	}
	return nil
}

// FieldStore returns the value stored into field `name` of the struct whose
// address is base (an Alloc of a composite literal), or nil.
func FieldStore(base ssa.Value, name string) ssa.Value {
	refs := base.Referrers()
	if refs == nil {
		return nil
	}
	var val ssa.Value
	for _, u := range *refs {
		fa, ok := u.(*ssa.FieldAddr)
		if !ok || fieldName(fa.X.Type(), fa.Field) != name {
			continue
		}
		if fr := fa.Referrers(); fr != nil {
			for _, fu := range *fr {
				if s, ok := fu.(*ssa.Store); ok && s.Addr == fa {
					val = s.Val
				}
			}
		}
	}
	return val
}

// FieldStores returns every Store into field `name` of the struct at base.
func FieldStores(base ssa.Value, name string) []*ssa.Store {
	var out []*ssa.Store
	refs := base.Referrers()
	if refs == nil {
		return nil
	}
	for _, u := range *refs {
		fa, ok := u.(*ssa.FieldAddr)
		if !ok || fieldName(fa.X.Type(), fa.Field) != name {
			continue
		}
		if fr := fa.Referrers(); fr != nil {
			for _, fu := range *fr {
				if s, ok := fu.(*ssa.Store); ok && s.Addr == fa {
					out = append(out, s)
				}
			}
		}
	}
	return out
}

// Unwrap strips interface/type conversions.
func Unwrap(v ssa.Value) ssa.Value {
	for {
		switch x := v.(type) {
		case *ssa.MakeInterface:
			v = x.X
		case *ssa.ChangeType:
			v = x.X
		case *ssa.ChangeInterface:
			v = x.X
		default:
			return v
		}
	}
}

// LoadedFrom: if v is a load (*addr) returns addr, else nil.
func LoadedFrom(v ssa.Value) ssa.Value {
	if u, ok := v.(*ssa.UnOp); ok && u.Op == token.MUL {
		return u.X
	}
	return nil
}

// ResolveLocal follows loads of single-store allocs (spilled locals) to the
// stored value.
func ResolveLocal(v ssa.Value) ssa.Value {
	for i := 0; i < 8; i++ {
		v = Unwrap(v)
		if par, ok := v.(*ssa.Parameter); ok {
			if a := inlineActual(par); a != nil {
				v = a
				continue
			}
		}
		addr := LoadedFrom(v)
		if addr == nil {
			return v
		}
		switch a := addr.(type) {
		case *ssa.Alloc:
			if s := SingleStore(a); s != nil {
				v = s.Val
				continue
			}
		case *ssa.FreeVar:
			if b, ok := FreeVarBinding(a).(*ssa.Alloc); ok {
				if s := SingleStore(b); s != nil {
					v = s.Val
					continue
				}
			}
		}
		return v
	}
	return v
}
