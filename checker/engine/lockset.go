package engine

import (
	"go/types"
	"sort"
	"strings"

	"golang.org/x/tools/go/ssa"
)

// Held is a held mutex: canonical rendering of the mutex address and mode.
type Held struct {
	Mutex string
	Write bool
}

type lockState map[string]bool // mutex -> write mode

func (s lockState) clone() lockState {
	o := lockState{}
	for k, v := range s {
		o[k] = v
	}
	return o
}

func meet(a, b lockState) lockState {
	o := lockState{}
	for k, v := range a {
		if w, ok := b[k]; ok {
			o[k] = v && w
		}
	}
	return o
}

func sameState(a, b lockState) bool {
	if len(a) != len(b) {
		return false
	}
	for k, v := range a {
		if w, ok := b[k]; !ok || v != w {
			return false
		}
	}
	return true
}

func mutexOp(c *ssa.CallCommon) (mutex string, op string) {
	k := CallKey(c)
	switch k {
	case "sync.Mutex.Lock", "sync.RWMutex.Lock":
		op = "lock"
	case "sync.RWMutex.RLock":
		op = "rlock"
	case "sync.Mutex.Unlock", "sync.RWMutex.Unlock":
		op = "unlock"
	case "sync.RWMutex.RUnlock":
		op = "runlock"
	default:
		return "", ""
	}
	if len(c.Args) == 0 {
		return "", ""
	}
	return Expr(c.Args[0]), op
}

// Locksets computes, for every instruction of fn, the set of mutexes definitely
// held just before it (forward must-analysis; deferred unlocks keep the lock to
// the end; a nested closure is analysed with the lockset at its creation point
// only when inherit is provided by the caller).
func Locksets(fn *ssa.Function, entry lockState) map[ssa.Instruction]lockState {
	in := map[*ssa.BasicBlock]lockState{}
	out := map[ssa.Instruction]lockState{}
	if len(fn.Blocks) == 0 {
		return out
	}
	if entry == nil {
		entry = lockState{}
	}
	in[fn.Blocks[0]] = entry
	work := []*ssa.BasicBlock{fn.Blocks[0]}
	for len(work) > 0 {
		b := work[0]
		work = work[1:]
		st := in[b].clone()
		for _, ins := range b.Instrs {
			out[ins] = st.clone()
			switch x := ins.(type) {
			case *ssa.Call:
				if m, op := mutexOp(x.Common()); op != "" {
					switch op {
					case "lock":
						st[m] = true
					case "rlock":
						st[m] = false
					case "unlock", "runlock":
						delete(st, m)
					}
				}
			}
		}
		for _, s := range b.Succs {
			old, seen := in[s]
			var nw lockState
			if !seen {
				nw = st.clone()
			} else {
				nw = meet(old, st)
			}
			if !seen || !sameState(old, nw) {
				in[s] = nw
				work = append(work, s)
			}
		}
	}
	return out
}

// MapAccess is one access to a shared map.
type MapAccess struct {
	Fn    *ssa.Function
	Instr ssa.Instruction
	Map   string // identity: "pkg.Type.field" or "global(pkg.name)"
	Write bool
	Held  []Held
	Via   string // "" or the named-map method through which the access happens
}

// mapIdentity names a map value when it is a struct field or a package-level variable.
func mapIdentity(v ssa.Value) string {
	v = Unwrap(v)
	addr := LoadedFrom(v)
	if addr == nil {
		return ""
	}
	switch a := addr.(type) {
	case *ssa.FieldAddr:
		if _, local := a.X.(*ssa.Alloc); local {
			return "" // field of a struct this function allocated itself: not yet shared
		}
		owner := deref(a.X.Type())
		if n, ok := types.Unalias(owner).(*types.Named); ok && n.Obj().Pkg() != nil {
			return n.Obj().Pkg().Path() + "." + n.Obj().Name() + "." + fieldName(a.X.Type(), a.Field)
		}
	case *ssa.Global:
		return "global(" + a.Pkg.Pkg.Path() + "." + a.Name() + ")"
	}
	return ""
}

func isMapType(t types.Type) bool {
	_, ok := t.Underlying().(*types.Map)
	return ok
}

// namedMapMethodEffect summarises a method whose receiver is a named map type:
// does it write (MapUpdate/delete) or only read its receiver?
func namedMapMethodEffect(f *ssa.Function) (isNamedMapMethod bool, writes bool) {
	if f == nil || f.Signature.Recv() == nil || len(f.Params) == 0 || !isMapType(f.Params[0].Type()) {
		return false, false
	}
	recv := f.Params[0]
	for _, b := range f.Blocks {
		for _, in := range b.Instrs {
			switch x := in.(type) {
			case *ssa.MapUpdate:
				if x.Map == recv || PointsInto(x.Map, recv) {
					writes = true
				}
			case *ssa.Call:
				if CallKey(x.Common()) == "builtin.delete" && (x.Common().Args[0] == recv || PointsInto(x.Common().Args[0], recv)) {
					writes = true
				}
				// delegation to another writing method of the same receiver
				if g := StaticFn(x.Common()); g != nil && g != f && len(x.Common().Args) > 0 && x.Common().Args[0] == recv {
					if isNM, w := namedMapMethodEffect(g); isNM && w {
						writes = true
					}
				}
			}
		}
	}
	return true, writes
}

// MapAccesses lists the accesses of fn to maps that are struct fields or
// package variables, with the locks held at each.
func MapAccesses(fn *ssa.Function, entry lockState) []MapAccess {
	ls := Locksets(fn, entry)
	var out []MapAccess
	add := func(in ssa.Instruction, m ssa.Value, write bool, via string) {
		id := mapIdentity(m)
		if id == "" {
			return
		}
		var held []Held
		for k, w := range ls[in] {
			held = append(held, Held{k, w})
		}
		sort.Slice(held, func(i, j int) bool { return held[i].Mutex < held[j].Mutex })
		out = append(out, MapAccess{Fn: fn, Instr: in, Map: id, Write: write, Held: held, Via: via})
	}
	for _, b := range fn.Blocks {
		for _, in := range b.Instrs {
			switch x := in.(type) {
			case *ssa.MapUpdate:
				add(in, x.Map, true, "")
			case *ssa.Lookup:
				if isMapType(x.X.Type()) {
					add(in, x.X, false, "")
				}
			case *ssa.Range:
				if isMapType(x.X.Type()) {
					add(in, x.X, false, "")
				}
			case *ssa.Store:
				// replacing a map-typed field / global wholesale is a write to that map
				if isMapType(x.Val.Type()) {
					switch a := x.Addr.(type) {
					case *ssa.FieldAddr:
						owner := deref(a.X.Type())
						if n, ok := types.Unalias(owner).(*types.Named); ok && n.Obj().Pkg() != nil {
							id := n.Obj().Pkg().Path() + "." + n.Obj().Name() + "." + fieldName(a.X.Type(), a.Field)
							var held []Held
							for k, w := range ls[in] {
								held = append(held, Held{k, w})
							}
							out = append(out, MapAccess{Fn: fn, Instr: in, Map: id, Write: true, Held: held, Via: "field store"})
						}
					}
				}
			case ssa.CallInstruction:
				c := x.Common()
				k := CallKey(c)
				if k == "builtin.delete" {
					add(in, c.Args[0], true, "")
					continue
				}
				if k == "builtin.len" && len(c.Args) == 1 && isMapType(c.Args[0].Type()) {
					add(in, c.Args[0], false, "len")
					continue
				}
				if f := StaticFn(c); f != nil {
					if isNM, w := namedMapMethodEffect(f); isNM && len(c.Args) > 0 {
						add(in, c.Args[0], w, Short(FuncKey(f)))
					}
				}
			}
		}
	}
	return out
}

// ConcurrentRoots returns the functions that run on their own goroutine or are
// invoked by client-go from informer goroutines: targets of go statements, the
// function values placed in ResourceEventHandlerFuncs literals, and functions
// handed to wait.Until.
func (p *Program) ConcurrentRoots() []*ssa.Function {
	seen := map[*ssa.Function]bool{}
	var out []*ssa.Function
	add := func(f *ssa.Function) {
		if f == nil {
			return
		}
		f = lookThroughWrapper(f)
		if !seen[f] {
			seen[f] = true
			out = append(out, f)
		}
	}
	fnOf := func(v ssa.Value) *ssa.Function {
		switch x := v.(type) {
		case *ssa.Function:
			return x
		case *ssa.MakeClosure:
			f, _ := x.Fn.(*ssa.Function)
			return f
		}
		return nil
	}
	for _, f := range p.ModFuncs {
		for _, b := range f.Blocks {
			for _, in := range b.Instrs {
				switch x := in.(type) {
				case *ssa.Go:
					if t := StaticFn(x.Common()); t != nil {
						add(t)
					} else if x.Common().IsInvoke() {
						for _, t := range p.CalleesOf(x) {
							add(t)
						}
					}
				case *ssa.Store:
					if fa, ok := x.Addr.(*ssa.FieldAddr); ok && strings.HasSuffix(deref(fa.X.Type()).String(), "cache.ResourceEventHandlerFuncs") {
						add(fnOf(x.Val))
					}
				case *ssa.Call:
					if strings.HasSuffix(CallKey(x.Common()), "wait.Until") && len(x.Common().Args) > 0 {
						add(fnOf(x.Common().Args[0]))
					}
				}
			}
		}
	}
	sort.Slice(out, func(i, j int) bool { return FuncKey(out[i]) < FuncKey(out[j]) })
	return out
}

// MutexOp exposes the classification of a call as a mutex operation:
// (canonical mutex rendering, "lock"|"rlock"|"unlock"|"runlock") or ("","").
func MutexOp(c *ssa.CallCommon) (mutex string, op string) { return mutexOp(c) }
