package engine

import "strings"

// Package path abbreviations used in canonical renderings (Expr, Lit.Atom).
var shortener = strings.NewReplacer(
	"k8s.io/apimachinery/pkg/apis/meta/v1/unstructured.", "unstructured.",
	"k8s.io/apimachinery/pkg/apis/meta/v1.", "metav1.",
	"k8s.io/apimachinery/pkg/api/errors.", "apierrors.",
	"k8s.io/apimachinery/pkg/util/errors.", "utilerrors.",
	"k8s.io/apimachinery/pkg/runtime/schema.", "schema.",
	"k8s.io/apimachinery/pkg/labels.", "labels.",
	"k8s.io/apimachinery/pkg/types.", "types.",
	"k8s.io/client-go/dynamic/dynamiclister.", "dynamiclister.",
	"k8s.io/client-go/dynamic.", "dynamic.",
	"k8s.io/client-go/tools/cache.", "cache.",
	"k8s.io/client-go/util/workqueue.", "workqueue.",
	"k8s.io/client-go/util/retry.", "retry.",
	"sigs.k8s.io/controller-runtime/pkg/controller/controllerutil.", "controllerutil.",
	"metacontroller/pkg/apis/metacontroller/v1alpha1.", "v1alpha1.",
	"metacontroller/pkg/", "",
)

// Abbrev shortens well-known package paths in a rendering or key.
func Abbrev(s string) string { return shortener.Replace(s) }

// Full callee keys used by many rules.
const (
	KUnstructured = "k8s.io/apimachinery/pkg/apis/meta/v1/unstructured.Unstructured."
	KMetaObject   = "k8s.io/apimachinery/pkg/apis/meta/v1.Object."
	KDynRI        = "k8s.io/client-go/dynamic.ResourceInterface."
	KRC           = "metacontroller/pkg/dynamic/clientset.ResourceClient."
	KCRI          = "metacontroller/pkg/client/generated/clientset/internalclientset/typed/metacontroller/v1alpha1.ControllerRevisionInterface."
	KCRExp        = "metacontroller/pkg/client/generated/clientset/internalclientset/typed/metacontroller/v1alpha1.controllerRevisions."
	KAPIErr       = "k8s.io/apimachinery/pkg/api/errors."
	KCtrlUtil     = "sigs.k8s.io/controller-runtime/pkg/controller/controllerutil."
	KUnstrPkg     = "k8s.io/apimachinery/pkg/apis/meta/v1/unstructured."
	KCommon       = "metacontroller/pkg/controller/common."
	KComposite    = "metacontroller/pkg/controller/composite."
	KDecorator    = "metacontroller/pkg/controller/decorator."
	KHooks        = "metacontroller/pkg/hooks."
)
