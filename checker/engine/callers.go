package engine

import (
	"go/types"
	"sort"

	"golang.org/x/tools/go/ssa"
)

// callerIndex: for every module function, its static call sites and whether it
// can also be reached in another way (as a function value, a bound method, or
// through an interface of the module or of a dependency).
type callerIndex struct {
	sites    map[*ssa.Function][]CallSite
	indirect map[*ssa.Function]bool
}

func (p *Program) callers() *callerIndex {
	if p.callerIdx != nil {
		return p.callerIdx
	}
	ix := &callerIndex{sites: map[*ssa.Function][]CallSite{}, indirect: map[*ssa.Function]bool{}}
	for _, fn := range p.ModFuncs {
		for _, b := range fn.Blocks {
			for _, in := range b.Instrs {
				var calleeVal ssa.Value
				if ci, ok := in.(ssa.CallInstruction); ok {
					c := ci.Common()
					if f := StaticFn(c); f != nil {
						t := lookThroughWrapper(f)
						ix.sites[t] = append(ix.sites[t], CallSite{fn, ci, CallKey(c)})
						if t != f {
							// a call through a synthetic wrapper has a different argument layout
							ix.indirect[t] = true
						}
						calleeVal = c.Value
					} else if c.IsInvoke() {
						for _, t := range p.CalleesOf(ci) {
							ix.indirect[t] = true
						}
					}
				}
				for _, op := range in.Operands(nil) {
					if op == nil || *op == nil || *op == calleeVal {
						continue
					}
					switch v := (*op).(type) {
					case *ssa.Function:
						ix.indirect[lookThroughWrapper(v)] = true
					case *ssa.MakeClosure:
						if f, ok := v.Fn.(*ssa.Function); ok {
							// an immediately applied closure is still a static callee (StaticFn resolves it);
							// a closure stored or passed on is indirect
							ix.indirect[lookThroughWrapper(f)] = true
						}
					}
				}
			}
		}
	}
	// exported methods that satisfy an interface of a dependency may be called from there
	p.callerIdx = ix
	return ix
}

// CallersOf returns the static call sites of f in the module, sorted by position.
func (p *Program) CallersOf(f *ssa.Function) []CallSite {
	out := append([]CallSite(nil), p.callers().sites[f]...)
	sort.SliceStable(out, func(i, j int) bool {
		if ki, kj := FuncKey(out[i].Fn), FuncKey(out[j].Fn); ki != kj {
			return ki < kj
		}
		return out[i].Instr.Pos() < out[j].Instr.Pos()
	})
	return out
}

// OnlyStaticallyCalled: f is a named module function or method whose every use
// is a direct call: never taken as a value, never a target of an interface call
// (module CHA), not exported through an interface of a dependency type, and it
// has at least one call site.
func (p *Program) OnlyStaticallyCalled(f *ssa.Function) bool {
	if f == nil || f.Parent() != nil || f.Synthetic != "" {
		return false
	}
	ix := p.callers()
	if ix.indirect[f] || len(ix.sites[f]) == 0 {
		return false
	}
	// a method whose name is exported could satisfy some dependency's interface
	// (http.Handler, cache.ResourceEventHandler …): be conservative for exported methods
	if f.Signature.Recv() != nil {
		if obj, ok := f.Object().(*types.Func); ok && obj.Exported() {
			return false
		}
	}
	return true
}

// ActualFor maps parameter par of the callee of site to the actual argument at that site.
func ActualFor(site CallSite, par *ssa.Parameter) ssa.Value {
	f := par.Parent()
	for i, q := range f.Params {
		if q == par {
			args := site.Common().Args
			if i < len(args) {
				return args[i]
			}
		}
	}
	return nil
}
