package engine

import (
	"sort"

	"golang.org/x/tools/go/ssa"
)

// Inline view. The rules were written against the decomposition into functions
// of the tree recorded in the reference inventory. A function that is NEW with
// respect to that inventory (not a rename), is only called statically, from
// exactly one place, is the product of "extract function": behaviour is that
// of the code in place. Path queries, path enumeration, value rendering and the
// call/loop listings therefore look through such helpers: control enters the
// helper at the call, comes back at its returns with the results bound to the
// returned operands, and the helper's parameters read as the actual arguments.
// On the reference tree the set of helpers is empty and nothing changes.

type inlineInfo struct {
	site   map[*ssa.Function]CallSite
	callee map[ssa.Instruction]*ssa.Function
}

// Inl is the inline view in effect (nil: none).
var Inl *inlineInfo

// NewFuncs: keys of named module functions that are absent from the reference inventory.
var NewFuncs = map[string]bool{}

// BuildInlineView computes the helper set. Must run after Load.
func (p *Program) BuildInlineView() []string {
	Inl = nil
	info := &inlineInfo{site: map[*ssa.Function]CallSite{}, callee: map[ssa.Instruction]*ssa.Function{}}
	var names []string
	for _, g := range p.ModFuncs {
		if g.Parent() != nil || len(g.Blocks) == 0 || !NewFuncs[FuncKey(g)] {
			continue
		}
		if !p.OnlyStaticallyCalledAny(g) {
			continue
		}
		sites := p.CallersOf(g)
		if len(sites) != 1 {
			continue
		}
		cs := sites[0]
		call, isCall := cs.Instr.(*ssa.Call)
		if !isCall || cs.Fn == g {
			continue
		}
		// no defer / recover / go inside the helper: its exits are plain returns
		plain := true
		for _, b := range g.Blocks {
			for _, in := range b.Instrs {
				switch in.(type) {
				case *ssa.Defer, *ssa.RunDefers:
					plain = false
				}
			}
		}
		if !plain {
			continue
		}
		info.site[g] = cs
		info.callee[call] = g
		names = append(names, Short(FuncKey(g))+" into "+Short(FuncKey(cs.Fn)))
	}
	if len(info.site) > 0 {
		Inl = info
	}
	return names
}

// OnlyStaticallyCalledAny is OnlyStaticallyCalled without the conservatism about exported method names
// (an extracted helper may be a method with any name; what matters is that it is not used as a value).
func (p *Program) OnlyStaticallyCalledAny(f *ssa.Function) bool {
	if f == nil || f.Parent() != nil || f.Synthetic != "" {
		return false
	}
	ix := p.callers()
	return !ix.indirect[f] && len(ix.sites[f]) > 0
}

// InlinedCallee returns the helper a call instruction enters in the inline view, or nil.
func InlinedCallee(in ssa.Instruction) *ssa.Function {
	if Inl == nil {
		return nil
	}
	return Inl.callee[in]
}

// InlineSite returns the call site of an inlined helper.
func InlineSite(g *ssa.Function) (CallSite, bool) {
	if Inl == nil {
		return CallSite{}, false
	}
	cs, ok := Inl.site[g]
	return cs, ok
}

// InlineRoot: the function an inlined helper (transitively) belongs to; f itself otherwise.
func InlineRoot(f *ssa.Function) *ssa.Function {
	for i := 0; i < 8 && f != nil; i++ {
		cs, ok := InlineSite(f)
		if !ok {
			return f
		}
		f = cs.Fn
	}
	return f
}

// inlineActual: the actual argument a parameter of an inlined helper stands for.
func inlineActual(par *ssa.Parameter) ssa.Value {
	cs, ok := InlineSite(par.Parent())
	if !ok {
		return nil
	}
	return ActualFor(cs, par)
}

// InlinedUnder lists the helpers inlined (transitively) below f.
func InlinedUnder(f *ssa.Function) []*ssa.Function {
	if Inl == nil {
		return nil
	}
	var out []*ssa.Function
	for g := range Inl.site {
		if g != f && inlineBelow(g, f) {
			out = append(out, g)
		}
	}
	sort.Slice(out, func(i, j int) bool { return FuncKey(out[i]) < FuncKey(out[j]) })
	return out
}

// inlineBelow: g is called (through a chain of inlined helpers) from f itself — not from a closure of f.
func inlineBelow(g, f *ssa.Function) bool {
	for i := 0; i < 8; i++ {
		cs, ok := InlineSite(g)
		if !ok {
			return false
		}
		if cs.Fn == f {
			return true
		}
		g = cs.Fn
	}
	return false
}

func closureOf(cl, f *ssa.Function) bool {
	for x := cl; x != nil; x = x.Parent() {
		if x == f {
			return true
		}
	}
	return false
}

// BlocksInl: the blocks of f followed by those of the helpers extracted from it.
func BlocksInl(f *ssa.Function) []*ssa.BasicBlock {
	if f == nil {
		return nil
	}
	if Inl == nil {
		return f.Blocks
	}
	out := append([]*ssa.BasicBlock(nil), f.Blocks...)
	for _, g := range InlinedUnder(f) {
		out = append(out, g.Blocks...)
	}
	return out
}
