package engine

import (
	"go/token"
	"strings"

	"golang.org/x/tools/go/ssa"
)

// Mutation is one instruction in a function that (may) mutate an object
// reachable from a given value (analysis A5, local part).
type Mutation struct {
	Instr ssa.Instruction
	What  string // e.g. "SetLabels", "SetNestedField[status]", "store .Object[…]", "delete(map)", "pass→callee(param i)"
}

func isSetterName(n string) bool {
	return strings.HasPrefix(n, "Set") || n == "UnmarshalJSON"
}

func methodName(key string) string {
	if i := strings.LastIndex(key, "."); i >= 0 {
		return key[i+1:]
	}
	return key
}

// LocalMutations lists the instructions of fn that mutate the object denoted by
// root (a pointer-like or map value): setter methods on it, the package-level
// unstructured.SetNested*/RemoveNestedField on its content, controllerutil
// finalizer/owner helpers, stores and map updates/deletes through it. Aliases
// are followed through UnstructuredContent(), .Object, field addresses, phis
// and conversions. Calls into module functions that receive root (or an alias)
// are reported as "pass→callee#i" so that callers can consult summaries.
func LocalMutations(fn *ssa.Function, root ssa.Value) []Mutation {
	alias := func(v ssa.Value) bool { return PointsInto(v, root) }
	var out []Mutation
	for _, b := range fn.Blocks {
		for _, in := range b.Instrs {
			switch x := in.(type) {
			case *ssa.Store:
				// store through a field/index address derived from root (not into a local alloc that merely holds root)
				switch x.Addr.(type) {
				case *ssa.FieldAddr, *ssa.IndexAddr:
					if alias(x.Addr) {
						out = append(out, Mutation{in, "store " + Expr(x.Addr)})
					}
				}
			case *ssa.MapUpdate:
				if alias(x.Map) {
					out = append(out, Mutation{in, "mapupdate " + Expr(x.Map) + "[" + Expr(x.Key) + "]"})
				}
			case ssa.CallInstruction:
				c := x.Common()
				k := CallKey(c)
				name := methodName(k)
				cs := CallSite{Fn: fn, Instr: x, Key: k}
				switch {
				case k == "builtin.delete":
					if alias(c.Args[0]) {
						out = append(out, Mutation{in, "delete " + Expr(c.Args[0]) + "[" + Expr(c.Args[1]) + "]"})
					}
				case name == "DeepCopyInto" && len(c.Args) == 2:
					// x.DeepCopyInto(dst) overwrites *dst with a copy of x
					if alias(c.Args[1]) {
						out = append(out, Mutation{in, "DeepCopyInto(target)"})
					}
				case strings.HasPrefix(k, KUnstructured) || strings.HasPrefix(k, KMetaObject) || strings.HasPrefix(k, "k8s.io/apimachinery/pkg/apis/meta/v1.ObjectMeta."):
					if isSetterName(name) && alias(cs.Recv()) {
						out = append(out, Mutation{in, name})
					}
				case strings.HasPrefix(k, KUnstrPkg+"SetNested") || k == KUnstrPkg+"RemoveNestedField":
					if alias(c.Args[0]) {
						path := ""
						// variadic field path: constants stored into the slice
						last := c.Args[len(c.Args)-1]
						var parts []string
						BackSlice(last, func(v ssa.Value) bool {
							if cc, ok := v.(*ssa.Const); ok && cc.Value != nil {
								parts = append(parts, constString(cc))
							}
							return false
						}, nil)
						path = strings.Join(parts, ".")
						out = append(out, Mutation{in, name + "[" + path + "]"})
					}
				case strings.HasPrefix(k, KCtrlUtil):
					if (strings.HasPrefix(name, "Add") || strings.HasPrefix(name, "Remove") || strings.HasPrefix(name, "Set")) && len(c.Args) > 0 && alias(c.Args[0]) {
						out = append(out, Mutation{in, "controllerutil." + name})
					}
				default:
					if f := StaticFn(c); f != nil && strings.HasPrefix(k, ModPrefix) {
						for i, a := range c.Args {
							if isPointerLike(a) && alias(a) {
								out = append(out, Mutation{in, "pass→" + Short(k) + "#" + itoa(i)})
							}
						}
					}
				}
			}
		}
	}
	return out
}

func itoa(i int) string {
	return string(rune('0' + i))
}

func isPointerLike(v ssa.Value) bool {
	return isNillable(v.Type())
}

// Mutations is LocalMutations with calls into module functions resolved through
// per-parameter summaries (analysis A5): a "pass→callee#i" entry is kept only
// when callee (transitively) mutates its i-th parameter, and then names what
// the callee does.
func (p *Program) Mutations(fn *ssa.Function, root ssa.Value) []Mutation {
	return p.mutations(fn, root, map[string]bool{})
}

func (p *Program) mutations(fn *ssa.Function, root ssa.Value, busy map[string]bool) []Mutation {
	var out []Mutation
	for _, m := range LocalMutations(fn, root) {
		if !strings.HasPrefix(m.What, "pass→") {
			out = append(out, m)
			continue
		}
		ci := m.Instr.(ssa.CallInstruction)
		g := StaticFn(ci.Common())
		idx := int(m.What[len(m.What)-1] - '0')
		if g == nil || idx >= len(g.Params) {
			continue
		}
		key := FuncKey(g) + "#" + itoa(idx)
		if busy[key] {
			continue
		}
		busy[key] = true
		inner := p.mutations(g, g.Params[idx], busy)
		delete(busy, key)
		for _, im := range inner {
			out = append(out, Mutation{m.Instr, Short(FuncKey(g)) + ":" + im.What})
		}
	}
	// interface method calls on the object (or on something reached from it): the module's implementations of
	// that method, judged by what they do to their receiver (builders that set fields and return themselves)
	for _, b := range fn.Blocks {
		for _, in := range b.Instrs {
			ci, ok := in.(ssa.CallInstruction)
			if !ok || !ci.Common().IsInvoke() || !PointsInto(ci.Common().Value, root) {
				continue
			}
			for _, g := range p.CalleesOf(ci) {
				if g == nil || len(g.Blocks) == 0 || len(g.Params) == 0 || !strings.HasPrefix(FuncKey(g), ModPrefix) {
					continue
				}
				key := FuncKey(g) + "#0"
				if busy[key] {
					continue
				}
				busy[key] = true
				inner := p.mutations(g, g.Params[0], busy)
				delete(busy, key)
				for _, im := range inner {
					out = append(out, Mutation{in, Short(FuncKey(g)) + ":" + im.What})
				}
			}
		}
	}
	return out
}

// PointsInto reports whether v is root or a value/address reached from root by
// field/element selection, dereference, map lookup, range iteration, slicing,
// conversions, phis, local pointer variables, and the aliasing accessors
// (UnstructuredContent, NestedFieldNoCopy, append's first operand). Memory that
// merely CONTAINS root (e.g. a varargs array holding it) is not derived from it.
func PointsInto(v, root ssa.Value) bool {
	seen := map[ssa.Value]bool{}
	var rec func(x ssa.Value, d int) bool
	rec = func(x ssa.Value, d int) bool {
		if x == nil || d > 30 || seen[x] {
			return false
		}
		seen[x] = true
		if x == root {
			return true
		}
		switch y := x.(type) {
		case *ssa.FieldAddr:
			return rec(y.X, d+1)
		case *ssa.Field:
			return rec(y.X, d+1)
		case *ssa.IndexAddr:
			return rec(y.X, d+1)
		case *ssa.Index:
			return rec(y.X, d+1)
		case *ssa.Lookup:
			return rec(y.X, d+1)
		case *ssa.Slice:
			return rec(y.X, d+1)
		case *ssa.Extract:
			return rec(y.Tuple, d+1)
		case *ssa.Next:
			return rec(y.Iter, d+1)
		case *ssa.Range:
			return rec(y.X, d+1)
		case *ssa.MakeInterface:
			return rec(y.X, d+1)
		case *ssa.ChangeType:
			return rec(y.X, d+1)
		case *ssa.ChangeInterface:
			return rec(y.X, d+1)
		case *ssa.Convert:
			return rec(y.X, d+1)
		case *ssa.TypeAssert:
			return rec(y.X, d+1)
		case *ssa.Phi:
			for _, e := range y.Edges {
				if rec(e, d+1) {
					return true
				}
			}
		case *ssa.UnOp:
			if y.Op != token.MUL {
				return false
			}
			switch a := y.X.(type) {
			case *ssa.Alloc:
				// a local variable: what was stored in it (directly)
				if refs := a.Referrers(); refs != nil {
					for _, u := range *refs {
						if st, ok := u.(*ssa.Store); ok && st.Addr == a && rec(st.Val, d+1) {
							return true
						}
					}
				}
				return false
			case *ssa.FreeVar:
				if b := FreeVarBinding(a); b != nil {
					if b == root {
						return true
					}
					if al, ok := b.(*ssa.Alloc); ok {
						if refs := al.Referrers(); refs != nil {
							for _, u := range *refs {
								if st, ok := u.(*ssa.Store); ok && st.Addr == al && rec(st.Val, d+1) {
									return true
								}
							}
						}
						return false
					}
					return rec(b, d+1)
				}
				return false
			default:
				return rec(y.X, d+1)
			}
		case *ssa.FreeVar:
			if b := FreeVarBinding(y); b != nil {
				return rec(b, d+1)
			}
		case *ssa.Call:
			k := CallKey(y.Common())
			if k == "builtin.append" || strings.HasSuffix(k, "Unstructured.UnstructuredContent") || strings.HasSuffix(k, "unstructured.NestedFieldNoCopy") {
				if len(y.Common().Args) > 0 {
					return rec(y.Common().Args[0], d+1)
				}
			}
		}
		return false
	}
	return rec(v, 0)
}
