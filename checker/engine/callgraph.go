package engine

import (
	"go/types"
	"sort"

	"golang.org/x/tools/go/callgraph"
	"golang.org/x/tools/go/callgraph/cha"
	"golang.org/x/tools/go/callgraph/vta"
	"golang.org/x/tools/go/ssa"
	"golang.org/x/tools/go/ssa/ssautil"
)

// CallGraph is a module-local, conservative call graph:
//   - static calls (incl. immediately applied closures, go, defer),
//   - interface invokes resolved by CHA over the module's own named types,
//   - "reference" edges: a function that creates a closure or takes a function /
//     method value may call it (covers callbacks handed to client-go, wait.Until,
//     sync.Once.Do, retry.RetryOnConflict, event-handler literals …).
//
// Dependencies are not expanded: a call into a dependency is a leaf, except for
// the function values passed to it (reference edges).
type CallGraph struct {
	Out   map[*ssa.Function][]*ssa.Function
	Edges int
	Kind  string
}

func (p *Program) CG() *CallGraph {
	if p.cg != nil {
		return p.cg
	}
	g := &CallGraph{Out: map[*ssa.Function][]*ssa.Function{}, Kind: "static+closure+funcref+CHA(module types)"}
	// module method sets for CHA
	type impl struct {
		fn *ssa.Function
	}
	var modNamed []types.Type
	for _, pk := range p.Pkgs {
		sc := pk.Types.Scope()
		for _, n := range sc.Names() {
			if tn, ok := sc.Lookup(n).(*types.TypeName); ok && !tn.IsAlias() {
				if _, isIface := tn.Type().Underlying().(*types.Interface); !isIface {
					modNamed = append(modNamed, tn.Type(), types.NewPointer(tn.Type()))
				}
			}
		}
	}
	resolveInvoke := func(c *ssa.CallCommon) []*ssa.Function {
		var out []*ssa.Function
		iface, ok := c.Value.Type().Underlying().(*types.Interface)
		if !ok {
			return nil
		}
		for _, t := range modNamed {
			if !types.Implements(t, iface) {
				continue
			}
			sel := p.Prog.MethodSets.MethodSet(t).Lookup(c.Method.Pkg(), c.Method.Name())
			if sel == nil {
				continue
			}
			if f := p.Prog.MethodValue(sel); f != nil {
				out = append(out, f)
			}
		}
		return out
	}
	add := func(from, to *ssa.Function) {
		if to == nil {
			return
		}
		to = lookThroughWrapper(to)
		for _, x := range g.Out[from] {
			if x == to {
				return
			}
		}
		g.Out[from] = append(g.Out[from], to)
		g.Edges++
	}
	all := append([]*ssa.Function(nil), p.ModFuncs...)
	for _, fn := range all {
		for _, b := range fn.Blocks {
			for _, in := range b.Instrs {
				if ci, ok := in.(ssa.CallInstruction); ok {
					c := ci.Common()
					if c.IsInvoke() {
						for _, t := range resolveInvoke(c) {
							add(fn, t)
						}
					} else if f := StaticFn(c); f != nil {
						add(fn, f)
					}
				}
				// reference edges: any operand that is a function or closure
				for _, op := range in.Operands(nil) {
					if op == nil || *op == nil {
						continue
					}
					switch v := (*op).(type) {
					case *ssa.Function:
						add(fn, v)
					case *ssa.MakeClosure:
						if f, ok := v.Fn.(*ssa.Function); ok {
							add(fn, f)
						}
					}
				}
				if mc, ok := in.(*ssa.MakeClosure); ok {
					if f, ok := mc.Fn.(*ssa.Function); ok {
						add(fn, f)
					}
				}
			}
		}
	}
	p.cg = g
	return g
}

// lookThroughWrapper maps bound-method closures and thunks to the method they wrap.
func lookThroughWrapper(f *ssa.Function) *ssa.Function {
	for i := 0; i < 3 && f != nil && f.Synthetic != "" && f.Syntax() == nil; i++ {
		var callee *ssa.Function
		n := 0
		for _, b := range f.Blocks {
			for _, in := range b.Instrs {
				if ci, ok := in.(ssa.CallInstruction); ok {
					if t := StaticFn(ci.Common()); t != nil {
						callee = t
						n++
					}
				}
			}
		}
		if n != 1 {
			return f
		}
		f = callee
	}
	return f
}

// ReachSet returns all functions reachable from the roots (roots included).
func (g *CallGraph) ReachSet(roots ...*ssa.Function) map[*ssa.Function]bool {
	seen := map[*ssa.Function]bool{}
	var work []*ssa.Function
	for _, r := range roots {
		if r != nil {
			work = append(work, lookThroughWrapper(r))
		}
	}
	for len(work) > 0 {
		f := work[len(work)-1]
		work = work[:len(work)-1]
		if seen[f] {
			continue
		}
		seen[f] = true
		work = append(work, g.Out[f]...)
	}
	return seen
}

// CanReach returns the set of functions from which some function satisfying
// target is reachable (targets included).
func (g *CallGraph) CanReach(p *Program, target func(fn *ssa.Function) bool) map[*ssa.Function]bool {
	in := map[*ssa.Function][]*ssa.Function{}
	nodes := map[*ssa.Function]bool{}
	for f, outs := range g.Out {
		nodes[f] = true
		for _, t := range outs {
			in[t] = append(in[t], f)
			nodes[t] = true
		}
	}
	res := map[*ssa.Function]bool{}
	var work []*ssa.Function
	for f := range nodes {
		if target(f) {
			work = append(work, f)
		}
	}
	for _, f := range p.ModFuncs {
		if !nodes[f] && target(f) {
			work = append(work, f)
		}
	}
	for len(work) > 0 {
		f := work[len(work)-1]
		work = work[:len(work)-1]
		if res[f] {
			continue
		}
		res[f] = true
		work = append(work, in[f]...)
	}
	return res
}

// PathTo returns one call chain (function keys) from root to a function
// satisfying target, or nil.
func (g *CallGraph) PathTo(root *ssa.Function, target func(fn *ssa.Function) bool) []string {
	root = lookThroughWrapper(root)
	prev := map[*ssa.Function]*ssa.Function{root: nil}
	q := []*ssa.Function{root}
	for len(q) > 0 {
		f := q[0]
		q = q[1:]
		if target(f) {
			var chain []string
			for x := f; x != nil; x = prev[x] {
				chain = append([]string{Short(FuncKey(x))}, chain...)
			}
			return chain
		}
		outs := append([]*ssa.Function(nil), g.Out[f]...)
		sort.Slice(outs, func(i, j int) bool { return FuncKey(outs[i]) < FuncKey(outs[j]) })
		for _, t := range outs {
			if _, ok := prev[t]; !ok {
				prev[t] = f
				q = append(q, t)
			}
		}
	}
	return nil
}

// CalleesOf returns the module-graph callees of one call instruction.
func (p *Program) CalleesOf(ci ssa.CallInstruction) []*ssa.Function {
	c := ci.Common()
	if f := StaticFn(c); f != nil {
		return []*ssa.Function{lookThroughWrapper(f)}
	}
	if !c.IsInvoke() {
		// a call of a function value: a parameter or captured variable of function
		// type is resolved to the closures/functions passed at the module's call sites
		return p.resolveFuncValue(c.Value, 0, map[ssa.Value]bool{})
	}
	if c.IsInvoke() {
		g := p.CG()
		_ = g
		var out []*ssa.Function
		iface, ok := c.Value.Type().Underlying().(*types.Interface)
		if !ok {
			return nil
		}
		for _, pk := range p.Pkgs {
			sc := pk.Types.Scope()
			for _, n := range sc.Names() {
				tn, ok := sc.Lookup(n).(*types.TypeName)
				if !ok || tn.IsAlias() {
					continue
				}
				if _, isI := tn.Type().Underlying().(*types.Interface); isI {
					continue
				}
				for _, t := range []types.Type{tn.Type(), types.NewPointer(tn.Type())} {
					if !types.Implements(t, iface) {
						continue
					}
					if sel := p.Prog.MethodSets.MethodSet(t).Lookup(c.Method.Pkg(), c.Method.Name()); sel != nil {
						if f := p.Prog.MethodValue(sel); f != nil {
							f = lookThroughWrapper(f)
							dup := false
							for _, x := range out {
								dup = dup || x == f
							}
							if !dup {
								out = append(out, f)
							}
						}
					}
				}
			}
		}
		return out
	}
	return nil
}

// VTA builds the whole-program VTA call graph (thorough tier).
func (p *Program) VTA() *callgraph.Graph {
	all := ssautil.AllFunctions(p.Prog)
	return vta.CallGraph(all, cha.CallGraph(p.Prog))
}

// resolveFuncValue: the module functions a function-typed value may denote,
// following parameters to the actual arguments at all static call sites,
// captured variables to their bindings and locals to their stores.
func (p *Program) resolveFuncValue(v ssa.Value, d int, seen map[ssa.Value]bool) []*ssa.Function {
	if v == nil || d > 6 || seen[v] {
		return nil
	}
	seen[v] = true
	var out []*ssa.Function
	add := func(fs ...*ssa.Function) {
		for _, f := range fs {
			dup := false
			for _, x := range out {
				dup = dup || x == f
			}
			if !dup && f != nil {
				out = append(out, f)
			}
		}
	}
	fromCell := func(cell ssa.Value) {
		for _, st := range Stores(cell) {
			add(p.resolveFuncValue(st.Val, d+1, seen)...)
		}
	}
	switch x := v.(type) {
	case *ssa.Function:
		add(lookThroughWrapper(x))
	case *ssa.MakeClosure:
		if f, ok := x.Fn.(*ssa.Function); ok {
			add(lookThroughWrapper(f))
		}
	case *ssa.Phi:
		for _, e := range x.Edges {
			add(p.resolveFuncValue(e, d+1, seen)...)
		}
	case *ssa.ChangeType:
		add(p.resolveFuncValue(x.X, d+1, seen)...)
	case *ssa.Call:
		// a function-returning call: what the callee(s) return
		for _, g := range p.CalleesOf(x) {
			if !isModuleFunc(g) {
				continue
			}
			for _, b := range g.Blocks {
				for _, in := range b.Instrs {
					if rt, ok := in.(*ssa.Return); ok && len(rt.Results) > 0 {
						add(p.resolveFuncValue(RetVal(rt, 0), d+1, seen)...)
					}
				}
			}
		}
	case *ssa.Extract:
		if c, ok := x.Tuple.(*ssa.Call); ok {
			for _, g := range p.CalleesOf(c) {
				if !isModuleFunc(g) {
					continue
				}
				for _, b := range g.Blocks {
					for _, in := range b.Instrs {
						if rt, ok := in.(*ssa.Return); ok && x.Index < len(rt.Results) {
							add(p.resolveFuncValue(RetVal(rt, x.Index), d+1, seen)...)
						}
					}
				}
			}
		}
	case *ssa.UnOp:
		switch a := x.X.(type) {
		case *ssa.FieldAddr:
			// a function stored in a struct field: every store to that field in the module (field-based)
			if id := fieldID(a); id != "" {
				for _, st := range p.fieldStoresByID(id) {
					add(p.resolveFuncValue(st.Val, d+1, seen)...)
				}
			}
		case *ssa.Alloc:
			fromCell(a)
		case *ssa.FreeVar:
			if b := FreeVarBinding(a); b != nil {
				if al, ok := b.(*ssa.Alloc); ok {
					fromCell(al)
				} else {
					add(p.resolveFuncValue(b, d+1, seen)...)
				}
			}
		}
	case *ssa.FreeVar:
		if b := FreeVarBinding(x); b != nil {
			add(p.resolveFuncValue(b, d+1, seen)...)
		}
	case *ssa.Parameter:
		f := x.Parent()
		if f == nil {
			return nil
		}
		for _, cs := range p.CallersOf(f) {
			if a := ActualFor(cs, x); a != nil {
				add(p.resolveFuncValue(a, d+1, seen)...)
			}
		}
	}
	return out
}

// fieldStoresByID: all stores in the module into the struct field with the given
// id (pkg.Type.field), whatever the base object (field-based abstraction).
func (p *Program) fieldStoresByID(id string) []*ssa.Store {
	if p.fieldStores == nil {
		p.fieldStores = map[string][]*ssa.Store{}
		for _, f := range p.ModFuncs {
			for _, b := range f.Blocks {
				for _, in := range b.Instrs {
					if st, ok := in.(*ssa.Store); ok {
						if fa, ok := st.Addr.(*ssa.FieldAddr); ok {
							if k := fieldID(fa); k != "" {
								p.fieldStores[k] = append(p.fieldStores[k], st)
							}
						}
					}
				}
			}
		}
	}
	return p.fieldStores[id]
}

// ResolveFuncValue: the module functions a function-typed value may denote.
func (p *Program) ResolveFuncValue(v ssa.Value) []*ssa.Function {
	return p.resolveFuncValue(v, 0, map[ssa.Value]bool{})
}
