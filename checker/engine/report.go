package engine

import (
	"encoding/json"
	"fmt"
	"os"
	"path/filepath"
	"sort"
	"strings"
	"time"
)

// ControlsPkg is the overlay-only package holding positive/negative controls.
const ControlsPkg = "metacontroller/pkg/zzmcvetcontrols"

// Obligation is one instance of a rule on one construct.
type Obligation struct {
	Rule      string `json:"rule"`
	Construct string `json:"construct"` // stable key: function + callee/atom + ordinal, never a line
	Pos       string `json:"pos"`       // file:line, information only
	OK        bool   `json:"ok"`
	Kind      string `json:"kind,omitempty"` // violation | undecided | anchor-lost | rule-dead
	Why       string `json:"why,omitempty"`
	Checked   string `json:"checked,omitempty"` // what was established
	Control   bool   `json:"control,omitempty"`
}

// Report accumulates the obligations of one property run.
type Report struct {
	Property    string
	Tier        string
	Seed        int
	Explanation string
	NotDecided  string
	Assumptions []string

	obs      []Obligation
	counts   map[string]int
	floors   map[string]int
	tables   map[string]interface{}
	notes    []string
	extra    map[string]interface{}
	ruleDocs map[string]string
	start    time.Time
}

func NewReport(property, tier string, seed int) *Report {
	return &Report{Property: property, Tier: tier, Seed: seed,
		counts: map[string]int{}, floors: map[string]int{}, tables: map[string]interface{}{},
		extra: map[string]interface{}{}, ruleDocs: map[string]string{}, start: time.Now()}
}

// Rule documents a rule (shown in evidence).
func (r *Report) Rule(id, doc string) { r.ruleDocs[id] = doc }

func isControl(construct string) bool {
	return strings.Contains(construct, "zzmcvetcontrols")
}

// Check records an obligation. ok=false is a violation of the rule.
func (r *Report) Check(rule, construct, pos string, ok bool, checked, why string) bool {
	o := Obligation{Rule: rule, Construct: Short(construct), Pos: pos, OK: ok, Checked: checked, Control: isControl(construct)}
	if !ok {
		o.Kind = "violation"
		o.Why = why
	}
	r.obs = append(r.obs, o)
	if !o.Control {
		r.counts[rule]++
	}
	if os.Getenv("MCVET_ALL") != "" {
		fmt.Printf("OBL %s %s ok=%v %s\n", rule, o.Construct, ok, pos)
	}
	return ok
}

// Fail records a failed obligation of a given kind (undecided, anchor-lost, rule-dead).
func (r *Report) Fail(rule, construct, pos, kind, why string) {
	r.obs = append(r.obs, Obligation{Rule: rule, Construct: Short(construct), Pos: pos, OK: false, Kind: kind, Why: why, Control: isControl(construct)})
	if !isControl(construct) {
		r.counts[rule]++
	}
}

// Floor states the number of instances confirmed by reading; fewer is anchor-lost.
func (r *Report) Floor(rule string, floor int) { r.floors[rule] = floor }

// Count returns the number of (non-control) obligations recorded for rule.
func (r *Report) Count(rule string) int { return r.counts[rule] }

func (r *Report) Table(name string, rows interface{}) { r.tables[name] = rows }
func (r *Report) Note(format string, a ...interface{}) {
	r.notes = append(r.notes, fmt.Sprintf(format, a...))
}
func (r *Report) Extra(k string, v interface{}) { r.extra[k] = v }

// KnownFinding is an entry of /verif/known_findings.json.
type KnownFinding struct {
	Property  string `json:"property"`
	Rule      string `json:"rule"`
	Construct string `json:"construct"`
	What      string `json:"what"`
	Witness   string `json:"witness,omitempty"`
}

type knownFile struct {
	Findings []KnownFinding `json:"findings"`
	Fixed    []string       `json:"fixed"`
}

func loadKnown(path string) (knownFile, error) {
	var k knownFile
	b, err := os.ReadFile(path)
	if err != nil {
		if os.IsNotExist(err) {
			return k, nil
		}
		return k, err
	}
	err = json.Unmarshal(b, &k)
	return k, err
}

// Finish checks floors and controls, writes evidence, prints the verdict lines
// and returns the process exit code.
func (r *Report) Finish(p *Program, verifDir string, controlsExpected map[string][2]string) int {
	// floors
	var rules []string
	for rule := range r.floors {
		rules = append(rules, rule)
	}
	sort.Strings(rules)
	for _, rule := range rules {
		if n := r.counts[rule]; n < r.floors[rule] {
			r.Fail(rule, "floor:"+rule, "-", "anchor-lost",
				fmt.Sprintf("rule matched %d instance(s), fewer than the %d confirmed by reading: an anchor was lost or renamed", n, r.floors[rule]))
			r.counts[rule] = n
		}
	}
	// controls: for each rule with a control, the bad construct must fail and the good one pass
	controlsFired := map[string]string{}
	var crules []string
	for rule := range controlsExpected {
		crules = append(crules, rule)
	}
	sort.Strings(crules)
	for _, rule := range crules {
		exp := controlsExpected[rule]
		badFired, goodClean, goodSeen := false, true, false
		for _, o := range r.obs {
			if !o.Control || o.Rule != rule {
				continue
			}
			if strings.Contains(o.Construct, exp[0]) && !o.OK {
				badFired = true
			}
			if strings.Contains(o.Construct, exp[1]) {
				goodSeen = true
				if !o.OK {
					goodClean = false
				}
			}
		}
		switch {
		case !badFired:
			controlsFired[rule] = "DEAD"
			r.Fail(rule, "control:"+rule, "-", "rule-dead", "rule did not fire on its positive control "+exp[0])
		case !goodSeen || !goodClean:
			controlsFired[rule] = "NOISY"
			r.Fail(rule, "control:"+rule, "-", "rule-dead", "rule fired on (or did not see) its negative control "+exp[1])
		default:
			controlsFired[rule] = "ok"
		}
	}

	known, kerr := loadKnown(filepath.Join(verifDir, "known_findings.json"))
	if kerr != nil {
		r.Fail("known-findings", "known_findings.json", "-", "anchor-lost", "cannot read known_findings.json: "+kerr.Error())
	}
	isKnown := func(o Obligation) *KnownFinding {
		if o.Kind != "violation" {
			return nil
		}
		for i := range known.Findings {
			k := &known.Findings[i]
			if k.Property == r.Property && k.Rule == o.Rule && k.Construct == o.Construct {
				return k
			}
		}
		return nil
	}

	var viol, knownHit []Obligation
	total, discharged := 0, 0
	for _, o := range r.obs {
		if o.Control {
			continue
		}
		total++
		if o.OK {
			discharged++
			continue
		}
		if k := isKnown(o); k != nil {
			knownHit = append(knownHit, o)
			continue
		}
		viol = append(viol, o)
	}

	// samples: a spread of actual obligations
	var samples []Obligation
	perRule := map[string]int{}
	for _, o := range r.obs {
		if o.Control {
			continue
		}
		if perRule[o.Rule] < 3 || !o.OK {
			samples = append(samples, o)
			perRule[o.Rule]++
		}
	}
	ruleInst := map[string]map[string]int{}
	for rule, n := range r.counts {
		ruleInst[rule] = map[string]int{"found": n, "floor": r.floors[rule]}
	}
	distinct := map[string]bool{}
	for _, o := range r.obs {
		if !o.Control {
			distinct[o.Rule+"|"+o.Construct] = true
		}
	}
	cov := map[string]interface{}{
		"explanation":         r.Explanation + " NOT DECIDED: " + r.NotDecided,
		"obligations":         total,
		"discharged":          discharged,
		"evaluations":         total,
		"distinct_nontrivial": len(distinct),
		"rule":                "one obligation per (rule, construct) instance found in /repo's SSA; distinct = distinct rule+construct keys",
		"rule_instances":      ruleInst,
		"rules":               r.ruleDocs,
		"samples":             samples,
		"tables":              r.tables,
		"controls_fired":      controlsFired,
		"known_findings_hit":  len(knownHit),
		"packages":            len(p.Pkgs),
		"packages_with_deps":  p.AllPkgs,
		"functions_analysed":  len(p.Scanned),
		"module_functions":    len(p.ModFuncs),
		"notes":               r.notes,
		"checker_cmd":         fmt.Sprintf("/verif/bin/mcvet -repo %s -property %s -tier %s", p.Repo, r.Property, r.Tier),
		"trusted_base":        []string{"go/types", "golang.org/x/tools/go/ssa v0.29.0", "the rule tables in /verif/checker/rules"},
	}
	if p.cg != nil {
		cov["callgraph"] = map[string]interface{}{"kind": p.cg.Kind, "nodes": len(p.cg.Out), "edges": p.cg.Edges}
	}
	for k, v := range r.extra {
		cov[k] = v
	}
	if r.Assumptions == nil {
		r.Assumptions = []string{}
	}
	r.Assumptions = append(r.Assumptions, "go/types and go/ssa (x/tools v0.29.0) model the program faithfully; only ./pkg/... without tests is analysed", "callees in dependencies are opaque unless a rule names them")
	ev := map[string]interface{}{
		"property_id": r.Property,
		"tier":        r.Tier,
		"seed":        r.Seed,
		"level":       "other",
		"coverage":    cov,
		"assumptions": r.Assumptions,
		"wall_s":      time.Since(r.start).Seconds(),
		"violations":  len(viol),
	}
	evDir := filepath.Join(verifDir, "evidence")
	_ = os.MkdirAll(evDir, 0o755)
	writeJSON(filepath.Join(evDir, r.Property+".json"), ev)
	vpath := filepath.Join(evDir, r.Property+".violations.json")
	_ = os.Remove(vpath)

	fmt.Printf("mcvet %s tier=%s: %d obligations, %d discharged, %d known finding(s), %d violation(s); %d packages, %d functions scanned\n",
		r.Property, r.Tier, total, discharged, len(knownHit), len(viol), len(p.Pkgs), len(p.Scanned))
	for _, rule := range sortedKeys(r.counts) {
		fmt.Printf("  %-8s instances=%d floor=%d\n", rule, r.counts[rule], r.floors[rule])
	}
	for _, o := range knownHit {
		k := isKnown(o)
		fmt.Printf("KNOWN-FINDING: property=%s %s %s at %s: %s\n", r.Property, o.Rule, o.Construct, o.Pos, k.What)
	}
	if len(viol) == 0 {
		return 0
	}
	writeJSON(vpath, map[string]interface{}{"property_id": r.Property, "violations": viol})
	for _, o := range viol {
		fmt.Printf("%s: %s [%s] %s: %s\n", o.Pos, o.Rule, o.Kind, o.Construct, o.Why)
	}
	fmt.Printf("VIOLATION property=%s replay=%s\n", r.Property, vpath)
	return 1
}

func sortedKeys(m map[string]int) []string {
	var ks []string
	for k := range m {
		ks = append(ks, k)
	}
	sort.Strings(ks)
	return ks
}

func writeJSON(path string, v interface{}) {
	b, err := json.MarshalIndent(v, "", " ")
	if err != nil {
		fmt.Fprintln(os.Stderr, "evidence marshal:", err)
		os.Exit(2)
	}
	if err := os.WriteFile(path, append(b, '\n'), 0o644); err != nil {
		fmt.Fprintln(os.Stderr, "evidence write:", err)
		os.Exit(2)
	}
}
