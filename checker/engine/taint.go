package engine

import (
	"go/token"
	"go/types"
	"sort"
	"strings"

	"golang.org/x/tools/go/ssa"
)

// Taint is analysis A4: a context-insensitive, field-based (allocation-site
// sensitive for local struct literals) label propagation over the module's SSA.
//
// A label is introduced on the results of source calls and on configured
// parameters; it follows derivation (field/element selection, dereference, map
// lookup, range, slicing, conversions, phis, local variables, aliasing
// accessors), flows into containers (map stores, append, stores into fields,
// Insert-style methods of named map types), across calls (argument → parameter,
// return value → call result, captured variables), and through struct fields
// (a field that ever receives a labelled value is labelled for every load).
// Copying calls (DeepCopy*, DeepCopyJSON, marshalling …) do not propagate.
type Taint struct {
	P *Program
	// IsSource reports whether the i-th result of a call is a source.
	IsSource func(call ssa.CallInstruction, key string) bool
	// Through: call keys whose result aliases their first argument (in addition to the built-in accessors).
	Through func(key string) bool
	// KillField: struct fields (pkg.Type.field) never considered labelled.
	KillField func(id string) bool
	// NoAbsorb: the label does not move from a stored value to the container it is stored in.
	NoAbsorb bool
	// SkipArg: do not propagate this labelled argument into the callee (e.g. the call site is guarded).
	SkipArg func(f *ssa.Function, call ssa.CallInstruction, arg ssa.Value) bool

	params  map[*ssa.Function]map[int]bool
	rets    map[*ssa.Function]map[int]bool         // result labelled whatever the arguments are (sources, fields, roots inside)
	via     map[*ssa.Function]map[int]map[int]bool // result ri labelled when parameter i is: the call result is judged per call site
	mask    map[*ssa.Parameter]bool                // when non-nil: hypothetical labelling of maskFn's parameters
	maskFn  *ssa.Function
	fields  map[string]bool
	roots   map[*ssa.Function]map[ssa.Value]bool
	fvs     map[*ssa.Function]map[int]bool
	Rounds  int
	changed bool
	Why     map[string]string // provenance of the first labelling of a param / field / root / return
}

func (t *Taint) note(key, why string) {
	if t.Why == nil {
		t.Why = map[string]string{}
	}
	if _, has := t.Why[key]; !has {
		t.Why[key] = why
	}
}

func (t *Taint) init() {
	t.params = map[*ssa.Function]map[int]bool{}
	t.rets = map[*ssa.Function]map[int]bool{}
	t.via = map[*ssa.Function]map[int]map[int]bool{}
	t.fields = map[string]bool{}
	t.roots = map[*ssa.Function]map[ssa.Value]bool{}
	t.fvs = map[*ssa.Function]map[int]bool{}
}

// SeedField labels a struct field (pkg.Type.field) up front: every load of it is a source.
func (t *Taint) SeedField(id string) {
	if t.params == nil {
		t.init()
	}
	t.fields[id] = true
}

// SeedParam labels a parameter up front.
func (t *Taint) SeedParam(f *ssa.Function, i int) {
	if t.params == nil {
		t.init()
	}
	if t.params[f] == nil {
		t.params[f] = map[int]bool{}
	}
	t.params[f][i] = true
}

func (t *Taint) addRoot(f *ssa.Function, v ssa.Value) {
	if v == nil {
		return
	}
	if t.roots[f] == nil {
		t.roots[f] = map[ssa.Value]bool{}
	}
	if !t.roots[f][v] {
		t.roots[f][v] = true
		t.changed = true
		t.note("root "+Short(FuncKey(f))+": "+Expr(v), "absorbed/source")
	}
}

func fieldID(fa *ssa.FieldAddr) string {
	owner := deref(fa.X.Type())
	if n, ok := types.Unalias(owner).(*types.Named); ok && n.Obj().Pkg() != nil {
		return n.Obj().Pkg().Path() + "." + n.Obj().Name() + "." + fieldName(fa.X.Type(), fa.Field)
	}
	return ""
}

// Tainted reports whether v (a value of f) carries the label.
func (t *Taint) Tainted(f *ssa.Function, v ssa.Value) bool {
	seen := map[ssa.Value]bool{}
	var rec func(x ssa.Value, d int) bool
	isRoot := func(x ssa.Value) bool {
		for g := f; g != nil; g = g.Parent() {
			if t.roots[g][x] {
				return true
			}
		}
		return false
	}
	rec = func(x ssa.Value, d int) bool {
		if x == nil || d > 30 || seen[x] {
			return false
		}
		seen[x] = true
		if isRoot(x) {
			return true
		}
		switch y := x.(type) {
		case *ssa.Alloc:
			// a locally built object (e.g. &Unstructured{Object: m}) shares whatever its fields were given
			if st, ok := deref(y.Type()).Underlying().(*types.Struct); ok && !isModuleRecord(deref(y.Type())) {
				for i := 0; i < st.NumFields(); i++ {
					for _, s := range FieldStores(y, st.Field(i).Name()) {
						if rec(s.Val, d+1) {
							return true
						}
					}
				}
			}
			return false
		case *ssa.Parameter:
			pf := y.Parent()
			if t.mask != nil && pf == t.maskFn {
				return t.mask[y]
			}
			for i, p := range pf.Params {
				if p == y && t.params[pf][i] {
					return true
				}
			}
			return false
		case *ssa.FieldAddr:
			return rec(y.X, d+1)
		case *ssa.Field:
			return rec(y.X, d+1)
		case *ssa.IndexAddr:
			return rec(y.X, d+1)
		case *ssa.Index:
			return rec(y.X, d+1)
		case *ssa.Lookup:
			return rec(y.X, d+1)
		case *ssa.Slice:
			return rec(y.X, d+1)
		case *ssa.Extract:
			if c, isCall := y.Tuple.(*ssa.Call); isCall {
				if isRoot(c) {
					return true
				}
				k := CallKey(c.Common())
				if strings.HasSuffix(k, "unstructured.NestedFieldNoCopy") && y.Index == 0 {
					return rec(c.Common().Args[0], d+1)
				}
				for _, g := range t.P.CalleesOf(c) {
					if t.retLabelled(g, y.Index, c.Common(), func(a ssa.Value) bool { return rec(a, d+1) }) {
						return true
					}
				}
				return false
			}
			return rec(y.Tuple, d+1)
		case *ssa.Next:
			return rec(y.Iter, d+1)
		case *ssa.Range:
			return rec(y.X, d+1)
		case *ssa.MakeInterface:
			return rec(y.X, d+1)
		case *ssa.ChangeType:
			return rec(y.X, d+1)
		case *ssa.ChangeInterface:
			return rec(y.X, d+1)
		case *ssa.Convert:
			return rec(y.X, d+1)
		case *ssa.TypeAssert:
			return rec(y.X, d+1)
		case *ssa.Phi:
			for _, e := range y.Edges {
				if rec(e, d+1) {
					return true
				}
			}
		case *ssa.UnOp:
			if y.Op != token.MUL {
				return false
			}
			switch a := y.X.(type) {
			case *ssa.Alloc:
				if refs := a.Referrers(); refs != nil {
					for _, u := range *refs {
						if st, ok := u.(*ssa.Store); ok && st.Addr == a && rec(st.Val, d+1) {
							return true
						}
					}
				}
				return false
			case *ssa.FieldAddr:
				// allocation-site sensitive for local literals
				if al, ok := a.X.(*ssa.Alloc); ok {
					sts := FieldStores(al, fieldName(a.X.Type(), a.Field))
					if len(sts) > 0 {
						for _, st := range sts {
							if rec(st.Val, d+1) {
								return true
							}
						}
						return false
					}
				}
				if id := fieldID(a); id != "" && t.fields[id] {
					return true
				}
				if strictRecord(a) {
					return false // module record struct: only labelled fields carry the label
				}
				return rec(a.X, d+1)
			case *ssa.FreeVar:
				pf := a.Parent()
				for i, fv := range pf.FreeVars {
					if fv == a && t.fvs[pf][i] {
						return true
					}
				}
				if b := FreeVarBinding(a); b != nil {
					if al, ok := b.(*ssa.Alloc); ok {
						if refs := al.Referrers(); refs != nil {
							for _, u := range *refs {
								if st, ok := u.(*ssa.Store); ok && st.Addr == al && rec(st.Val, d+1) {
									return true
								}
							}
						}
						return false
					}
					return rec(b, d+1)
				}
				return false
			case *ssa.Global:
				return false
			default:
				return rec(y.X, d+1)
			}
		case *ssa.FreeVar:
			pf := y.Parent()
			for i, fv := range pf.FreeVars {
				if fv == y && t.fvs[pf][i] {
					return true
				}
			}
			if b := FreeVarBinding(y); b != nil {
				return rec(b, d+1)
			}
		case *ssa.Call:
			c := y.Common()
			k := CallKey(c)
			if k == "builtin.append" || strings.HasSuffix(k, "Unstructured.UnstructuredContent") || strings.HasSuffix(k, "unstructured.NestedFieldNoCopy") || (t.Through != nil && t.Through(k)) {
				if c.IsInvoke() {
					return rec(c.Value, d+1)
				}
				if len(c.Args) > 0 {
					if rec(c.Args[0], d+1) {
						return true
					}
					if k == "builtin.append" && len(c.Args) > 1 {
						return rec(c.Args[1], d+1)
					}
				}
				return false
			}
			// module callee returning a labelled value (single result)
			if _, isTuple := y.Type().(*types.Tuple); !isTuple {
				for _, g := range t.P.CalleesOf(y) {
					if t.retLabelled(g, 0, c, func(a ssa.Value) bool { return rec(a, d+1) }) {
						return true
					}
				}
			}
		}
		return false
	}
	return rec(v, 0)
}

// retLabelled: does result ri of callee g carry the label at this call site?
// Unconditionally labelled results do; results that merely pass a parameter on
// (accessors, finders, converters) do when the corresponding actual argument does.
func (t *Taint) retLabelled(g *ssa.Function, ri int, c *ssa.CallCommon, arg func(ssa.Value) bool) bool {
	if t.rets[g][ri] {
		return true
	}
	for i := range t.via[g][ri] {
		var a ssa.Value
		if c.IsInvoke() {
			if i == 0 {
				a = c.Value
			} else if i-1 < len(c.Args) {
				a = c.Args[i-1]
			}
		} else if i < len(c.Args) {
			a = c.Args[i]
		}
		if a != nil && arg(a) {
			return true
		}
	}
	return false
}

// taintedUnder evaluates Tainted(f, v) under a hypothetical labelling of f's own parameters.
func (t *Taint) taintedUnder(f *ssa.Function, v ssa.Value, m map[*ssa.Parameter]bool) bool {
	om, of := t.mask, t.maskFn
	t.mask, t.maskFn = m, f
	defer func() { t.mask, t.maskFn = om, of }()
	return t.Tainted(f, v)
}

// Run propagates to a fixpoint over the given functions.
func (t *Taint) Run(fns []*ssa.Function) {
	if t.params == nil {
		t.init()
	}
	for round := 0; round < 20; round++ {
		t.changed = false
		t.Rounds = round + 1
		for _, f := range fns {
			t.step(f)
		}
		if !t.changed {
			break
		}
	}
}

func (t *Taint) markParam(g *ssa.Function, i int) {
	if g == nil || i >= len(g.Params) {
		return
	}
	if t.params[g] == nil {
		t.params[g] = map[int]bool{}
	}
	if !t.params[g][i] {
		t.params[g][i] = true
		t.changed = true
	}
}

func (t *Taint) markParamFrom(g *ssa.Function, i int, f *ssa.Function, a ssa.Value) {
	if g != nil && i < len(g.Params) && !t.params[g][i] {
		t.note("param "+Short(FuncKey(g))+"#"+itoa(i), "from "+Short(FuncKey(f))+": "+Expr(a))
	}
	t.markParam(g, i)
}

func (t *Taint) step(f *ssa.Function) {
	for _, b := range f.Blocks {
		for _, in := range b.Instrs {
			switch x := in.(type) {
			case *ssa.Store:
				if t.NoAbsorb || !t.Tainted(f, x.Val) {
					continue
				}
				switch a := x.Addr.(type) {
				case *ssa.FieldAddr:
					if al, local := a.X.(*ssa.Alloc); local && !al.Heap {
						continue // stays in this function: resolved at the load (allocation-site sensitive)
					}
					if id := fieldID(a); id != "" && !(t.KillField != nil && t.KillField(id)) && !t.fields[id] {
						t.fields[id] = true
						t.changed = true
					}
				case *ssa.IndexAddr:
					// element of a local array/slice: the container becomes a root
					t.addRoot(f, ResolveLocal(a.X))
				}
			case *ssa.MapUpdate:
				if !t.NoAbsorb && t.Tainted(f, x.Value) {
					t.addRoot(f, ResolveLocal(x.Map))
				}
			case *ssa.MakeClosure:
				cl := x.Fn.(*ssa.Function)
				for i, bnd := range x.Bindings {
					tainted := t.Tainted(f, bnd)
					if al, ok := bnd.(*ssa.Alloc); ok && !tainted {
						if refs := al.Referrers(); refs != nil {
							for _, u := range *refs {
								if st, ok := u.(*ssa.Store); ok && st.Addr == al && t.Tainted(f, st.Val) {
									tainted = true
								}
							}
						}
					}
					if tainted {
						if t.fvs[cl] == nil {
							t.fvs[cl] = map[int]bool{}
						}
						if !t.fvs[cl][i] {
							t.fvs[cl][i] = true
							t.changed = true
						}
					}
				}
			case *ssa.Return:
				for ri, res := range x.Results {
					if !isNillable(res.Type()) || isErrorType(res.Type()) || t.rets[f][ri] {
						continue
					}
					rv := RetVal(x, ri)
					if !t.Tainted(f, rv) {
						continue
					}
					// labelled with the parameters as they are: is it so whatever the arguments, or
					// only because a (somewhere) labelled parameter is passed through?
					if t.taintedUnder(f, rv, map[*ssa.Parameter]bool{}) {
						if t.rets[f] == nil {
							t.rets[f] = map[int]bool{}
						}
						t.rets[f][ri] = true
						t.changed = true
						t.note("ret "+Short(FuncKey(f))+"#"+itoa(ri), Expr(res))
						continue
					}
					explained := false
					for i := range t.via[f][ri] {
						if t.params[f][i] {
							explained = true
						}
					}
					for i, prm := range f.Params {
						if !t.params[f][i] || t.via[f][ri][i] {
							continue
						}
						if t.taintedUnder(f, rv, map[*ssa.Parameter]bool{prm: true}) {
							explained = true
							if t.via[f] == nil {
								t.via[f] = map[int]map[int]bool{}
							}
							if t.via[f][ri] == nil {
								t.via[f][ri] = map[int]bool{}
							}
							t.via[f][ri][i] = true
							t.changed = true
							t.note("ret "+Short(FuncKey(f))+"#"+itoa(ri), "passes parameter "+itoa(i)+": "+Expr(res))
						}
					}
					if !explained {
						// labelled, but by no single parameter (captured variables, several parameters together): stay conservative
						if t.rets[f] == nil {
							t.rets[f] = map[int]bool{}
						}
						t.rets[f][ri] = true
						t.changed = true
					}
				}
			case ssa.CallInstruction:
				c := x.Common()
				k := CallKey(c)
				if t.IsSource != nil && t.IsSource(x, k) {
					if v := x.Value(); v != nil {
						t.addRoot(f, v)
					}
				}
				callees := t.P.CalleesOf(x)
				args := c.Args
				off := 0
				if c.IsInvoke() {
					off = 1 // receiver is c.Value
				}
				for _, g := range callees {
					if !strings.HasPrefix(FuncKey(g), ModPrefix) {
						continue
					}
					if c.IsInvoke() && t.Tainted(f, c.Value) {
						t.markParamFrom(g, 0, f, c.Value)
					}
					for i, a := range args {
						if isNillable(a.Type()) && t.Tainted(f, a) {
							if t.SkipArg != nil && t.SkipArg(f, x, a) {
								continue
							}
							t.markParamFrom(g, i+off, f, a)
						}
					}
					// container absorption: a named-map method that writes its receiver
					if isNM, w := namedMapMethodEffect(g); !t.NoAbsorb && isNM && w && len(args) > 1 {
						for _, a := range args[1:] {
							if isNillable(a.Type()) && canHold(args[0].Type(), a.Type()) && t.Tainted(f, a) {
								t.addRoot(f, ResolveLocal(args[0]))
							}
						}
					}
				}
			}
		}
	}
}

// Roots lists the labelled roots per function (debugging / evidence).
func (t *Taint) Roots() map[string][]string {
	out := map[string][]string{}
	for f, m := range t.roots {
		for v := range m {
			out[Short(FuncKey(f))] = append(out[Short(FuncKey(f))], Expr(v))
		}
		sort.Strings(out[Short(FuncKey(f))])
	}
	return out
}

// isModuleRecord: a struct type declared by the module outside pkg/apis — a
// record grouping several things (parentRevision, controllers, managers), as
// opposed to an API object whose interior belongs to it as a whole.
func isModuleRecord(t types.Type) bool {
	n, ok := types.Unalias(t).(*types.Named)
	if !ok || n.Obj().Pkg() == nil {
		return false
	}
	path := n.Obj().Pkg().Path()
	return strings.HasPrefix(path, ModPrefix) && !strings.Contains(path, "/pkg/apis/")
}

func strictRecord(fa *ssa.FieldAddr) bool { return isModuleRecord(deref(fa.X.Type())) }

// canHold: a container of type c can store a value of type v (directly or as
// one of a slice of them) at some nesting depth.
func canHold(c, v types.Type) bool {
	var elems []types.Type
	cur := c
	for i := 0; i < 6; i++ {
		switch u := cur.Underlying().(type) {
		case *types.Map:
			cur = u.Elem()
		case *types.Slice:
			cur = u.Elem()
		case *types.Array:
			cur = u.Elem()
		default:
			i = 99
			continue
		}
		elems = append(elems, cur)
	}
	for _, e := range elems {
		if types.Identical(e, v) {
			return true
		}
		if sl, ok := v.Underlying().(*types.Slice); ok && types.Identical(e, sl.Elem()) {
			return true
		}
	}
	return false
}

// TaintedParams lists "func#i" for evidence.
func (t *Taint) TaintedParams() []string {
	var out []string
	for f, m := range t.params {
		for i := range m {
			out = append(out, Short(FuncKey(f))+"#"+itoa(i))
		}
	}
	sort.Strings(out)
	return out
}

// TaintedFields lists labelled struct fields.
func (t *Taint) TaintedFields() []string {
	var out []string
	for id := range t.fields {
		out = append(out, Short(id))
	}
	sort.Strings(out)
	return out
}

// BaseIsLocal: the memory addressed by v (an address, map or slice value) was
// allocated in this very function (Alloc, MakeMap, MakeSlice): writing to it
// cannot be a write into an object obtained from elsewhere.
func BaseIsLocal(v ssa.Value) bool {
	for i := 0; i < 20; i++ {
		switch x := v.(type) {
		case *ssa.FieldAddr:
			v = x.X
		case *ssa.IndexAddr:
			v = x.X
		case *ssa.Slice:
			v = x.X
		case *ssa.ChangeType:
			v = x.X
		case *ssa.Alloc, *ssa.MakeMap, *ssa.MakeSlice:
			return true
		default:
			return false
		}
	}
	return false
}

// LocalMutationsPred is LocalMutations with an arbitrary alias predicate; writes
// into memory allocated by fn itself are not reported.
func LocalMutationsPred(fn *ssa.Function, alias0 func(v ssa.Value) bool) []Mutation {
	alias := func(v ssa.Value) bool { return !BaseIsLocal(v) && alias0(v) }
	var out []Mutation
	for _, b := range fn.Blocks {
		for _, in := range b.Instrs {
			switch x := in.(type) {
			case *ssa.Store:
				switch x.Addr.(type) {
				case *ssa.FieldAddr, *ssa.IndexAddr:
					if alias(x.Addr) {
						out = append(out, Mutation{in, "store " + Expr(x.Addr)})
					}
				}
			case *ssa.MapUpdate:
				if alias(x.Map) {
					out = append(out, Mutation{in, "mapupdate " + Expr(x.Map) + "[" + Expr(x.Key) + "]"})
				}
			case ssa.CallInstruction:
				c := x.Common()
				k := CallKey(c)
				name := methodName(k)
				cs := CallSite{Fn: fn, Instr: x, Key: k}
				switch {
				case k == "builtin.delete":
					if alias(c.Args[0]) {
						out = append(out, Mutation{in, "delete " + Expr(c.Args[0]) + "[" + Expr(c.Args[1]) + "]"})
					}
				case name == "DeepCopyInto" && len(c.Args) == 2:
					// x.DeepCopyInto(dst) overwrites *dst with a copy of x
					if alias(c.Args[1]) {
						out = append(out, Mutation{in, "DeepCopyInto(target)"})
					}
				case strings.HasPrefix(k, KUnstructured) || strings.HasPrefix(k, KMetaObject) || strings.HasPrefix(k, "k8s.io/apimachinery/pkg/apis/meta/v1.ObjectMeta."):
					if isSetterName(name) && alias(cs.Recv()) {
						out = append(out, Mutation{in, name})
					}
				case strings.HasPrefix(k, KUnstrPkg+"SetNested") || k == KUnstrPkg+"RemoveNestedField":
					if alias(c.Args[0]) {
						out = append(out, Mutation{in, name})
					}
				case strings.HasPrefix(k, KCtrlUtil):
					if (strings.HasPrefix(name, "Add") || strings.HasPrefix(name, "Remove") || strings.HasPrefix(name, "Set")) && len(c.Args) > 0 && alias(c.Args[0]) {
						out = append(out, Mutation{in, "controllerutil." + name})
					}
				}
			}
		}
	}
	return out
}
