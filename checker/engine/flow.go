package engine

import (
	"go/token"

	"golang.org/x/tools/go/ssa"
)

// BackSlice walks the intra-procedural data-dependence closure of v backwards
// (operands of value-producing instructions; for loads of locals, every store
// into the local or into an element/field address derived from it; free
// variables resolve to their binding in the enclosing function) and reports
// whether some visited value satisfies pred. Calls are traversed through their
// arguments only when through(key) is true (nil: never); a call itself is
// always offered to pred.
func BackSlice(v ssa.Value, pred func(x ssa.Value) bool, through func(key string) bool) bool {
	return backSlice(v, pred, through, false)
}

// MustSlice is BackSlice with 'on every path' semantics at joins: a phi
// satisfies it only if every incoming value does (a value that depends on pred
// on one branch only — e.g. a slice that was appended to conditionally — does
// not). Loop-carried phis are judged by their other edges.
func MustSlice(v ssa.Value, pred func(x ssa.Value) bool, through func(key string) bool) bool {
	return backSlice(v, pred, through, true)
}

// MustDependOnCall: on every path v carries the result of a call matching match.
func MustDependOnCall(v ssa.Value, match func(key string) bool, through func(key string) bool) bool {
	return MustSlice(v, func(x ssa.Value) bool {
		c, ok := x.(*ssa.Call)
		return ok && match(CallKey(c.Common()))
	}, through)
}

func backSlice(v ssa.Value, pred func(x ssa.Value) bool, through func(key string) bool, must bool) bool {
	seen := map[ssa.Value]bool{}
	memo := map[ssa.Value]bool{}
	busy := map[ssa.Value]bool{}
	var rec func(x ssa.Value, d int) bool
	storesInto := func(base ssa.Value, d int) bool {
		// all stores to base or to addresses derived from it
		var walk func(a ssa.Value, dd int) bool
		visited := map[ssa.Value]bool{}
		walk = func(a ssa.Value, dd int) bool {
			if visited[a] || dd > 6 {
				return false
			}
			visited[a] = true
			refs := a.Referrers()
			if refs == nil {
				return false
			}
			for _, u := range *refs {
				switch y := u.(type) {
				case *ssa.Store:
					if y.Addr == a && rec(y.Val, d+1) {
						return true
					}
				case *ssa.FieldAddr:
					if y.X == a && walk(y, dd+1) {
						return true
					}
				case *ssa.IndexAddr:
					if y.X == a && walk(y, dd+1) {
						return true
					}
				case *ssa.MapUpdate:
					if y.Map == a && (rec(y.Value, d+1)) {
						return true
					}
				case *ssa.MakeClosure:
					fn := y.Fn.(*ssa.Function)
					for i, b := range y.Bindings {
						if b == a && walk(fn.FreeVars[i], dd+1) {
							return true
						}
					}
				}
			}
			return false
		}
		return walk(base, 0)
	}
	var rec0 func(x ssa.Value, d int) bool
	rec = func(x ssa.Value, d int) bool {
		if !must {
			return rec0(x, d)
		}
		if x == nil || d > 40 {
			return false
		}
		if r, ok := memo[x]; ok {
			return r
		}
		if busy[x] {
			return true // loop-carried: decided by the other edges
		}
		busy[x] = true
		r := rec0(x, d)
		delete(busy, x)
		memo[x] = r
		return r
	}
	rec0 = func(x ssa.Value, d int) bool {
		if x == nil || d > 40 || (!must && seen[x]) {
			return false
		}
		seen[x] = true
		if pred(x) {
			return true
		}
		switch y := x.(type) {
		case *ssa.Phi:
			if must {
				for _, e := range y.Edges {
					if !rec(e, d+1) {
						return false
					}
				}
				return len(y.Edges) > 0
			}
			for _, e := range y.Edges {
				if rec(e, d+1) {
					return true
				}
			}
		case *ssa.UnOp:
			if y.Op == token.MUL {
				switch a := y.X.(type) {
				case *ssa.Alloc:
					return storesInto(a, d)
				case *ssa.FreeVar:
					if b := FreeVarBinding(a); b != nil {
						if rec(b, d+1) {
							return true
						}
						return storesInto(b, d)
					}
					return false
				default:
					return rec(y.X, d+1)
				}
			}
			return rec(y.X, d+1)
		case *ssa.BinOp:
			return rec(y.X, d+1) || rec(y.Y, d+1)
		case *ssa.MakeInterface:
			return rec(y.X, d+1)
		case *ssa.ChangeType:
			return rec(y.X, d+1)
		case *ssa.ChangeInterface:
			return rec(y.X, d+1)
		case *ssa.Convert:
			return rec(y.X, d+1)
		case *ssa.TypeAssert:
			return rec(y.X, d+1)
		case *ssa.Extract:
			if c, ok := y.Tuple.(*ssa.Call); ok {
				if g := InlinedCallee(c); g != nil {
					// result of an extracted helper: what the helper returns there
					return inlinedRets(g, y.Index, func(v ssa.Value) bool { return rec(v, d+1) }, must)
				}
			}
			return rec(y.Tuple, d+1)
		case *ssa.FieldAddr:
			return rec(y.X, d+1)
		case *ssa.Field:
			return rec(y.X, d+1)
		case *ssa.IndexAddr:
			return rec(y.X, d+1)
		case *ssa.Index:
			return rec(y.X, d+1)
		case *ssa.Lookup:
			return rec(y.X, d+1)
		case *ssa.Slice:
			return rec(y.X, d+1)
		case *ssa.Next:
			return rec(y.Iter, d+1)
		case *ssa.Range:
			return rec(y.X, d+1)
		case *ssa.Alloc:
			return storesInto(y, d)
		case *ssa.MakeMap, *ssa.MakeSlice:
			return storesInto(y, d)
		case *ssa.MakeClosure:
			// a bound method value / closure carries what it was bound to
			for _, b := range y.Bindings {
				if rec(b, d+1) {
					return true
				}
			}
			return false
		case *ssa.FreeVar:
			if b := FreeVarBinding(y); b != nil {
				return rec(b, d+1)
			}
		case *ssa.Call:
			if g := InlinedCallee(y); g != nil {
				if inlinedRets(g, 0, func(v ssa.Value) bool { return rec(v, d+1) }, must) {
					return true
				}
			}
			k := CallKey(y.Common())
			if k == "builtin.append" || (through != nil && through(k)) {
				if y.Common().IsInvoke() && rec(y.Common().Value, d+1) {
					return true
				}
				for _, a := range y.Common().Args {
					if rec(a, d+1) {
						return true
					}
				}
			}
		}
		return false
	}
	return rec(v, 0)
}

// DependsOnCall: v's backward slice contains a call whose key satisfies match.
// Returns the call.
func DependsOnCall(v ssa.Value, match func(key string) bool, through func(key string) bool) *ssa.Call {
	var found *ssa.Call
	BackSlice(v, func(x ssa.Value) bool {
		if c, ok := x.(*ssa.Call); ok && match(CallKey(c.Common())) {
			found = c
			return true
		}
		return false
	}, through)
	return found
}

// DependsOnValue: v's backward slice contains src.
func DependsOnValue(v, src ssa.Value, through func(key string) bool) bool {
	return BackSlice(v, func(x ssa.Value) bool { return x == src }, through)
}

// inlinedRets applies f to the idx-th operand of every return of helper g:
// some (may) or all (must) must satisfy it.
func inlinedRets(g *ssa.Function, idx int, f func(ssa.Value) bool, must bool) bool {
	n, hit := 0, 0
	for _, b := range g.Blocks {
		for _, in := range b.Instrs {
			if rt, ok := in.(*ssa.Return); ok && idx < len(rt.Results) {
				n++
				if f(RetVal(rt, idx)) {
					hit++
				}
			}
		}
	}
	if must {
		return n > 0 && hit == n
	}
	return hit > 0
}
