// Command sibdiff is an exploration aid (not a check): for functions that exist under the same name in the
// composite and the decorator controller packages it prints the callees one sibling has and the other lacks.
// The confirmed disagreements become explicit rules (e.g. R20.13); nothing here decides a property.
package main

import (
	"fmt"
	"os"
	"sort"
	"strings"

	"golang.org/x/tools/go/ssa"

	"mcvet/engine"
)

func norm(k string) string {
	k = engine.Short(k)
	k = strings.ReplaceAll(k, "controller/composite", "controller/X")
	k = strings.ReplaceAll(k, "controller/decorator", "controller/X")
	k = strings.ReplaceAll(k, "parentController", "ctrl")
	k = strings.ReplaceAll(k, "decoratorController", "ctrl")
	return k
}

func callees(f *ssa.Function) map[string]int {
	out := map[string]int{}
	fns := append([]*ssa.Function{f}, engine.Closures(f)...)
	for _, g := range fns {
		for _, b := range g.Blocks {
			for _, in := range b.Instrs {
				if ci, ok := in.(ssa.CallInstruction); ok {
					k := engine.CallKey(ci.Common())
					if k == "" || strings.Contains(k, "logr.") || strings.Contains(k, "klog") || strings.HasPrefix(k, "fmt.") {
						continue
					}
					out[norm(k)]++
				}
			}
		}
	}
	return out
}

func main() {
	repo := "/repo"
	if len(os.Args) > 1 {
		repo = os.Args[1]
	}
	p, err := engine.Load(repo, nil)
	if err != nil {
		fmt.Println(err)
		os.Exit(2)
	}
	byName := map[string][]*ssa.Function{}
	for _, f := range p.Scanned {
		k := engine.Short(engine.FuncKey(f))
		if f.Parent() != nil || !(strings.HasPrefix(k, "controller/composite.") || strings.HasPrefix(k, "controller/decorator.")) {
			continue
		}
		byName[norm(engine.FuncKey(f))] = append(byName[norm(engine.FuncKey(f))], f)
	}
	var names []string
	for n, fs := range byName {
		if len(fs) == 2 {
			names = append(names, n)
		}
	}
	sort.Strings(names)
	for _, n := range names {
		a, b := byName[n][0], byName[n][1]
		ca, cb := callees(a), callees(b)
		var onlyA, onlyB []string
		for k := range ca {
			if cb[k] == 0 {
				onlyA = append(onlyA, k)
			}
		}
		for k := range cb {
			if ca[k] == 0 {
				onlyB = append(onlyB, k)
			}
		}
		sort.Strings(onlyA)
		sort.Strings(onlyB)
		if len(onlyA)+len(onlyB) == 0 {
			continue
		}
		fmt.Printf("== %s\n  only %s: %v\n  only %s: %v\n", n, engine.Short(engine.FuncKey(a)), onlyA, engine.Short(engine.FuncKey(b)), onlyB)
	}
}
