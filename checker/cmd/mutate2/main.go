// Command mutate2 writes first-order TYPED mutants ("wrong but plausible operand") of source files of /repo:
//
//	var   - an identifier used as a call argument or comparison operand is replaced by another variable
//	        of identical type that is in scope at that place
//	field - a field selection x.f used as a call argument or comparison operand is replaced by a sibling
//	        field x.g of identical type
//	copy  - x.DeepCopy() is replaced by x
//	meth  - a called method x.M(…) is replaced by another method of x with an identical signature, a called
//	        package function pkg.F(…) by another exported function of pkg with an identical signature
//	        (the two alternatives whose names share the longest prefix with M / F)
//	retv  - an identifier that is returned is replaced by another variable of identical type in scope
//	asg   - an identifier on the right-hand side of an assignment / definition is replaced likewise
//
// With MUTATE2_KINDS=retv,asg (comma separated) only those kinds are written.
//
// Usage: mutate2 <repo> <outroot> <repo-relative-file>...   → outroot/<file with / as _>/<n>.go + index.txt
// (same layout as tools/mutate; at most two alternatives per site).
package main

import (
	"bytes"
	"fmt"
	"go/ast"
	"go/printer"
	"go/token"
	"go/types"
	"os"
	"path/filepath"
	"sort"
	"strings"

	"golang.org/x/tools/go/packages"
)

type site struct {
	kind, fn, desc string
	line           int
	do             func() func()
}

func main() {
	if len(os.Args) < 4 {
		fmt.Fprintln(os.Stderr, "usage: mutate2 repo outroot file...")
		os.Exit(2)
	}
	repo, out := os.Args[1], os.Args[2]
	want := map[string]bool{}
	for _, f := range os.Args[3:] {
		want[filepath.Join(repo, f)] = true
	}
	cfg := &packages.Config{Mode: packages.NeedName | packages.NeedFiles | packages.NeedCompiledGoFiles | packages.NeedSyntax | packages.NeedTypes | packages.NeedTypesInfo | packages.NeedImports | packages.NeedDeps, Dir: repo, Env: append(os.Environ(), "GOFLAGS=-mod=readonly", "GOWORK=off")}
	pkgs, err := packages.Load(cfg, "./pkg/...")
	if err != nil || len(pkgs) == 0 {
		fmt.Fprintln(os.Stderr, "load failed", err)
		os.Exit(2)
	}
	for _, pkg := range pkgs {
		for i, f := range pkg.Syntax {
			name := pkg.CompiledGoFiles[i]
			if !want[name] {
				continue
			}
			rel, _ := filepath.Rel(repo, name)
			mutateFile(pkg, f, filepath.Join(out, strings.ReplaceAll(rel, "/", "_")), rel)
		}
	}
}

func mutateFile(pkg *packages.Package, f *ast.File, out, rel string) {
	fset, info := pkg.Fset, pkg.TypesInfo
	snippet := func(n ast.Node) string {
		var b bytes.Buffer
		_ = printer.Fprint(&b, fset, n)
		s := strings.Join(strings.Fields(b.String()), " ")
		if len(s) > 100 {
			s = s[:100] + "…"
		}
		return s
	}
	isLog := func(c *ast.CallExpr) bool {
		s := snippet(c.Fun)
		return strings.Contains(s, "Logger") || strings.Contains(s, "logger") || strings.Contains(s, ".Info") || strings.Contains(s, ".Error") || strings.HasPrefix(s, "klog.") || strings.Contains(s, "Eventf") || strings.Contains(s, "HandleError") || strings.HasPrefix(s, "fmt.") || strings.Contains(s, "WithValues") || strings.Contains(s, "errors.")
	}
	var sites []site
	operand := func(e ast.Expr, fname string, ctx ast.Node) {
		ln := fset.Position(e.Pos()).Line
		switch x := e.(type) {
		case *ast.Ident:
			v, ok := info.Uses[x].(*types.Var)
			if !ok || v.IsField() || x.Name == "_" || v.Pkg() == nil || v.Parent() == pkg.Types.Scope() {
				return
			}
			var cands []string
			seen := map[string]bool{x.Name: true}
			for sc := pkg.Types.Scope().Innermost(x.Pos()); sc != nil && sc != pkg.Types.Scope() && sc != types.Universe; sc = sc.Parent() {
				for _, n := range sc.Names() {
					if seen[n] || n == "_" {
						continue
					}
					seen[n] = true
					o, isV := sc.Lookup(n).(*types.Var)
					if !isV || o.Pos() >= x.Pos() || !types.Identical(o.Type(), v.Type()) {
						continue
					}
					if _, got := sc.LookupParent(n, x.Pos()); got != o {
						continue
					}
					cands = append(cands, n)
				}
			}
			sort.Strings(cands)
			if len(cands) > 2 {
				cands = cands[:2]
			}
			for _, c := range cands {
				c := c
				sites = append(sites, site{"var", fname, fmt.Sprintf("%s → %s in: %s", x.Name, c, snippet(ctx)), ln, func() func() {
					old := x.Name
					x.Name = c
					return func() { x.Name = old }
				}})
			}
		case *ast.SelectorExpr:
			sel := info.Selections[x]
			if sel == nil || sel.Kind() != types.FieldVal {
				return
			}
			recv := sel.Recv()
			if p, isP := recv.Underlying().(*types.Pointer); isP {
				recv = p.Elem()
			}
			st, isS := recv.Underlying().(*types.Struct)
			if !isS {
				return
			}
			var cands []string
			for i := 0; i < st.NumFields(); i++ {
				fl := st.Field(i)
				if fl.Name() == x.Sel.Name || fl.Embedded() || (!fl.Exported() && fl.Pkg() != pkg.Types) {
					continue
				}
				if types.Identical(fl.Type(), sel.Obj().Type()) {
					cands = append(cands, fl.Name())
				}
			}
			if len(cands) > 2 {
				cands = cands[:2]
			}
			for _, c := range cands {
				c := c
				sites = append(sites, site{"field", fname, fmt.Sprintf(".%s → .%s in: %s", x.Sel.Name, c, snippet(ctx)), ln, func() func() {
					old := x.Sel.Name
					x.Sel.Name = c
					return func() { x.Sel.Name = old }
				}})
			}
		}
	}
	for _, d := range f.Decls {
		fd, ok := d.(*ast.FuncDecl)
		if !ok || fd.Body == nil {
			continue
		}
		fname := fd.Name.Name
		var stack []ast.Node
		ast.Inspect(fd.Body, func(n ast.Node) bool {
			if n == nil {
				stack = stack[:len(stack)-1]
				return true
			}
			stack = append(stack, n)
			switch x := n.(type) {
			case *ast.CallExpr:
				if isLog(x) {
					stack = stack[:len(stack)-1]
					return false
				}
				for _, a := range x.Args {
					operand(a, fname, x)
				}
				// sibling method / function with an identical signature
				if se, isSel := x.Fun.(*ast.SelectorExpr); isSel {
					if fo, isF := info.Uses[se.Sel].(*types.Func); isF {
						sig := fo.Type().(*types.Signature)
						plain := types.NewSignatureType(nil, nil, nil, sig.Params(), sig.Results(), sig.Variadic())
						var cands []string
						if sig.Recv() != nil {
							if tv := info.TypeOf(se.X); tv != nil {
								ms := types.NewMethodSet(tv)
								if _, isP := tv.(*types.Pointer); !isP {
									if _, isI := tv.Underlying().(*types.Interface); !isI {
										ms = types.NewMethodSet(types.NewPointer(tv))
									}
								}
								for i := 0; i < ms.Len(); i++ {
									m, ok := ms.At(i).Obj().(*types.Func)
									if !ok || m.Name() == fo.Name() || (!m.Exported() && m.Pkg() != pkg.Types) {
										continue
									}
									ms2 := m.Type().(*types.Signature)
									if types.Identical(types.NewSignatureType(nil, nil, nil, ms2.Params(), ms2.Results(), ms2.Variadic()), plain) {
										cands = append(cands, m.Name())
									}
								}
							}
						} else if fo.Pkg() != nil && fo.Pkg() != pkg.Types {
							sc := fo.Pkg().Scope()
							for _, n := range sc.Names() {
								m, ok := sc.Lookup(n).(*types.Func)
								if !ok || !m.Exported() || m.Name() == fo.Name() {
									continue
								}
								if types.Identical(m.Type(), fo.Type()) {
									cands = append(cands, m.Name())
								}
							}
						}
						cpl := func(a, b string) int {
							n := 0
							for n < len(a) && n < len(b) && a[n] == b[n] {
								n++
							}
							return n
						}
						sort.Slice(cands, func(i, j int) bool {
							ci, cj := cpl(cands[i], fo.Name()), cpl(cands[j], fo.Name())
							if ci != cj {
								return ci > cj
							}
							return cands[i] < cands[j]
						})
						if len(cands) > 2 {
							cands = cands[:2]
						}
						ln := fset.Position(x.Pos()).Line
						for _, c := range cands {
							c := c
							sites = append(sites, site{"meth", fname, fmt.Sprintf("%s → %s in: %s", se.Sel.Name, c, snippet(x)), ln, func() func() {
								old := se.Sel.Name
								se.Sel.Name = c
								return func() { se.Sel.Name = old }
							}})
						}
					}
				}
				// x.DeepCopy() → x
				if se, isSel := x.Fun.(*ast.SelectorExpr); isSel && se.Sel.Name == "DeepCopy" && len(x.Args) == 0 && len(stack) >= 2 {
					tx, tc := info.TypeOf(se.X), info.TypeOf(x)
					if tx != nil && tc != nil && types.Identical(tx, tc) {
						parent := stack[len(stack)-2]
						ln := fset.Position(x.Pos()).Line
						repl := func(set func(e ast.Expr)) {
							sites = append(sites, site{"copy", fname, "drop DeepCopy: " + snippet(x), ln, func() func() {
								set(se.X)
								return func() { set(x) }
							}})
						}
						switch p := parent.(type) {
						case *ast.AssignStmt:
							for i, r := range p.Rhs {
								if r == ast.Expr(x) {
									i := i
									repl(func(e ast.Expr) { p.Rhs[i] = e })
								}
							}
						case *ast.CallExpr:
							for i, r := range p.Args {
								if r == ast.Expr(x) {
									i := i
									repl(func(e ast.Expr) { p.Args[i] = e })
								}
							}
						case *ast.ReturnStmt:
							for i, r := range p.Results {
								if r == ast.Expr(x) {
									i := i
									repl(func(e ast.Expr) { p.Results[i] = e })
								}
							}
						case *ast.KeyValueExpr:
							if p.Value == ast.Expr(x) {
								repl(func(e ast.Expr) { p.Value = e })
							}
						}
					}
				}
			case *ast.BinaryExpr:
				switch x.Op {
				case token.EQL, token.NEQ, token.LSS, token.GTR, token.LEQ, token.GEQ:
					operand(x.X, fname, x)
					operand(x.Y, fname, x)
				}
			case *ast.ReturnStmt:
				before := len(sites)
				for _, e := range x.Results {
					if _, isI := e.(*ast.Ident); isI {
						operand(e, fname, x)
					}
				}
				for i := before; i < len(sites); i++ {
					sites[i].kind = "retv"
				}
			case *ast.AssignStmt:
				before := len(sites)
				for _, e := range x.Rhs {
					if _, isI := e.(*ast.Ident); isI {
						operand(e, fname, x)
					}
				}
				for i := before; i < len(sites); i++ {
					sites[i].kind = "asg"
				}
			}
			return true
		})
	}
	if ks := os.Getenv("MUTATE2_KINDS"); ks != "" {
		var keep []site
		for _, s := range sites {
			for _, k := range strings.Split(ks, ",") {
				if s.kind == k {
					keep = append(keep, s)
				}
			}
		}
		sites = keep
	}
	_ = os.MkdirAll(out, 0o755)
	_ = os.WriteFile(filepath.Join(out, "REL"), []byte(rel+"\n"), 0o644)
	var idx bytes.Buffer
	for n, s := range sites {
		undo := s.do()
		var b bytes.Buffer
		if err := printer.Fprint(&b, fset, f); err == nil {
			_ = os.WriteFile(filepath.Join(out, fmt.Sprintf("%04d.go", n)), b.Bytes(), 0o644)
			fmt.Fprintf(&idx, "%04d\t%d\t%s\t%s\t%s\n", n, s.line, s.kind, s.fn, s.desc)
		}
		undo()
	}
	_ = os.WriteFile(filepath.Join(out, "index.txt"), idx.Bytes(), 0o644)
	fmt.Printf("%s: %d mutants\n", rel, len(sites))
}
