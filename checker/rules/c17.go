package rules

import (
	"go/types"
	"sort"
	"strings"

	"mcvet/engine"

	"golang.org/x/tools/go/ssa"
)

func init() {
	Registry["C17"] = checkC17
}

func checkC17(r *Report, p *Program) {
	r.Explanation = "Sequential equivalence of concurrent syncs is a schedule property and NOT decided. Decided: (R17.1) no mutation of cache-owned objects — a label is put on everything returned by the dynamic and ControllerRevision listers and on informer handler arguments, propagated module-wide (through containers, struct fields, parameters, returns, closures; removed by DeepCopy/DeepCopyJSON/marshalling; shallow clones keep it) and no labelled value reaches a mutator (setter, SetNested*/RemoveNestedField, controllerutil helper, field/element/map store, delete); (R17.2) lock discipline — every map-typed field or package variable written from goroutine-reachable code (or accessed under a lock anywhere) is accessed under one common mutex at every site, writes exclusively; (R17.3) fork/join of the per-revision hook calls — each goroutine writes only fields of the parentRevision it was handed, wg.Add precedes go, wg.Done is deferred, and wg.Wait dominates every later read of those fields."
	r.NotDecided = "absence of all data races; equivalence with a sequential execution."
	r17_1(r, p)
	lockDiscipline(r, p, "R17.2", func(m string) bool { return true }, 4)
	r17_3(r, p)
	revisionCopies(r, p, "R17.1b")
	keyCompleteness(r, p, "R17.5")
	checkThenAct(r, p, "R17.4")
	noNewCrossSyncState(r, p, "R17.6")
	locksReleased(r, p, "R17.7", 10)
}

func cacheTaint(p *Program) *engine.Taint {
	t := &engine.Taint{P: p,
		IsSource: func(call ssa.CallInstruction, k string) bool {
			switch {
			case strings.HasPrefix(k, "k8s.io/client-go/dynamic/dynamiclister.") && (strings.HasSuffix(k, ".List") || strings.HasSuffix(k, ".Get")):
				return true
			case strings.Contains(k, "/lister/metacontroller/v1alpha1.ControllerRevision") && (strings.HasSuffix(k, ".List") || strings.HasSuffix(k, ".Get")):
				return true
			}
			return false
		},
		Through: func(k string) bool { return k == "maps.Clone" || k == "slices.Clone" },
	}
	// informer handler arguments are cache objects too
	for _, hl := range handlerLiterals(p) {
		for _, fld := range []string{"AddFunc", "UpdateFunc", "DeleteFunc"} {
			if h := fnOfValue(engine.FieldStore(hl.Alloc, fld)); h != nil {
				for i := range h.Params {
					if i == 0 && h.Signature.Recv() != nil {
						continue
					}
					t.SeedParam(h, i)
				}
			}
		}
	}
	t.Run(p.Scanned)
	return t
}

func r17_1(r *Report, p *Program) {
	const rule = "R17.1"
	r.Rule(rule, "cache-owned objects are never mutated")
	r.Floor(rule, 12)
	t := cacheTaint(p)
	r.Extra("cache_label", map[string]interface{}{"rounds": t.Rounds, "labelled_params": t.TaintedParams(), "labelled_fields": t.TaintedFields(), "roots": t.Roots(), "why": t.Why})
	nFlows := 0
	for _, f := range p.Scanned {
		// does f see any labelled value at all?
		sees := false
		for i := range f.Params {
			if t.Tainted(f, f.Params[i]) {
				sees = true
			}
		}
		for _, b := range engine.BlocksInl(f) {
			for _, in := range b.Instrs {
				if v, ok := in.(ssa.Value); ok && !sees {
					if _, isCall := in.(*ssa.Call); isCall && t.Tainted(f, v) {
						sees = true
					}
					if u, isU := in.(*ssa.UnOp); isU && t.Tainted(f, u) {
						sees = true
					}
				}
			}
		}
		if !sees {
			continue
		}
		nFlows++
		muts0 := engine.LocalMutationsPred(f, func(v ssa.Value) bool { return t.Tainted(f, v) })
		var muts []engine.Mutation
		for _, m := range muts0 {
			// writing a slot of a container OF objects replaces the slot, it does not edit a cached object
			switch x := m.Instr.(type) {
			case *ssa.MapUpdate:
				if isHolderType(x.Map.Type()) {
					continue
				}
			case *ssa.Store:
				if ia, ok := x.Addr.(*ssa.IndexAddr); ok && isHolderType(ia.X.Type()) {
					continue
				}
			case *ssa.Call:
				if engine.CallKey(x.Common()) == "builtin.delete" && isHolderType(x.Common().Args[0].Type()) {
					continue
				}
			}
			muts = append(muts, m)
		}
		if len(muts) == 0 {
			r.Check(rule, FK(f)+"[reads-only]", p.Pos(f.Pos()), true, "sees cache-owned values and mutates none", "")
			continue
		}
		sort.Slice(muts, func(i, j int) bool { return p.InstrPos(muts[i].Instr) < p.InstrPos(muts[j].Instr) })
		for i, m := range muts {
			r.Check(rule, sf("%s→%s#%d", FK(f), strings.SplitN(m.What, " ", 2)[0], i), p.InstrPos(m.Instr), false, "", "an object owned by the shared informer cache (or reached from one without a deep copy) is modified here by "+m.What+": every controller sharing the cache, and the next sync, see the edit as if the API server had delivered it")
		}
	}
	if nFlows < 12 {
		r.Fail(rule, "cache flows", "-", "anchor-lost", sf("only %d functions see cache-owned values: the label did not propagate", nFlows))
	}
}

func r17_3(r *Report, p *Program) {
	const rule = "R17.3"
	r.Rule(rule, "fork/join of per-revision hook calls")
	r.Floor(rule, 3)
	f := fn(r, p, rule, "controller/composite.parentController.syncRevisions")
	if f == nil {
		return
	}
	var goI *ssa.Go
	for _, b := range engine.BlocksInl(f) {
		for _, in := range b.Instrs {
			if g, ok := in.(*ssa.Go); ok {
				goI = g
			}
		}
	}
	if goI == nil {
		r.Fail(rule, FK(f), p.Pos(f.Pos()), "anchor-lost", "no goroutine launched in syncRevisions")
		return
	}
	cl := engine.StaticFn(goI.Common())
	// the parameter of the goroutine body (closure or method) that receives the loop's own revision
	own := -1
	if cl != nil {
		if l := engine.EnclosingLoop(engine.RangeLoops(f), goI); l != nil {
			for i, a := range goI.Common().Args {
				if engine.SameValue(a, l.Val) && i < len(cl.Params) {
					own = i
				}
			}
		}
	}
	ok, why := cl != nil && own >= 0, "the goroutine body does not take its revision as a parameter"
	if ok {
		// writes: only fields of its own parameter; no stores to captured variables
		for _, b := range engine.BlocksInl(cl) {
			for _, in := range b.Instrs {
				st, isS := in.(*ssa.Store)
				if !isS {
					continue
				}
				switch a := st.Addr.(type) {
				case *ssa.FieldAddr:
					if !engine.PointsInto(a.X, cl.Params[own]) {
						ok, why = false, "goroutine writes "+E(st.Addr)+", which is not a field of the revision it was handed: concurrent goroutines write shared state without synchronisation"
					}
				case *ssa.FreeVar:
					ok, why = false, "goroutine writes the captured variable "+a.Name()+": all per-revision goroutines share it, so the result depends on scheduling (data race)"
				case *ssa.Alloc, *ssa.IndexAddr:
					// locals
				default:
					if _, isFV := engine.Unwrap(st.Addr).(*ssa.FreeVar); isFV {
						ok, why = false, "goroutine writes a captured variable"
					}
				}
			}
		}
		for _, b := range engine.BlocksInl(cl) {
			for _, in := range b.Instrs {
				if mu, isMU := in.(*ssa.MapUpdate); isMU && !engine.PointsInto(mu.Map, cl.Params[own]) {
					if _, local := engine.ResolveLocal(mu.Map).(*ssa.MakeMap); !local {
						ok, why = false, "goroutine writes shared map "+E(mu.Map)
					}
				}
			}
		}
		// the argument is the loop's own element
		loops := engine.RangeLoops(f)
		l := engine.EnclosingLoop(loops, goI)
		if l == nil || !engine.SameValue(goI.Common().Args[own], l.Val) {
			ok, why = false, "the goroutine is not handed the loop's own revision"
		}
		hasDone := false
		for _, b := range engine.BlocksInl(cl) {
			for _, in := range b.Instrs {
				if d, isD := in.(*ssa.Defer); isD && strings.HasSuffix(engine.CallKey(d.Common()), "WaitGroup.Done") {
					hasDone = true
				}
			}
		}
		if !hasDone {
			ok, why = false, "wg.Done is not deferred in the goroutine"
		}
		if bypass(f, goI, func(in ssa.Instruction) bool { return isCallTo(in, "sync.WaitGroup.Add") }) != nil {
			ok, why = false, "go statement not preceded by wg.Add"
		}
	}
	// what the goroutines share besides their own revision — objects made in syncRevisions before the fan-out and
	// captured by / handed to every goroutine — is not modified by the goroutine body, directly or in callees
	if ok {
		loopOfGo := engine.EnclosingLoop(engine.RangeLoops(f), goI)
		var shared []ssa.Value // values in cl's frame
		addShared := func(outer ssa.Value, inner ssa.Value) {
			switch outer.(type) {
			case *ssa.Parameter, *ssa.Const, *ssa.Function, *ssa.Global:
				return
			}
			if !isNillableT(outer.Type()) {
				if _, isPtr := outer.Type().Underlying().(*types.Pointer); !isPtr {
					return
				}
			}
			if strings.Contains(outer.Type().String(), "sync.") {
				return
			}
			if in, isI := outer.(ssa.Instruction); isI && loopOfGo != nil && loopOfGo.Contains(in) {
				return // made per iteration
			}
			shared = append(shared, inner)
		}
		if mc, isMC := goI.Common().Value.(*ssa.MakeClosure); isMC {
			for i, b := range mc.Bindings {
				if i < len(cl.FreeVars) {
					// a captured variable is a cell (Alloc): look at what is stored in it
					if al, isAl := b.(*ssa.Alloc); isAl {
						if refs := al.Referrers(); refs != nil {
							for _, u := range *refs {
								if st, isS := u.(*ssa.Store); isS && st.Addr == ssa.Value(al) {
									if _, isParam := st.Val.(*ssa.Parameter); !isParam {
										addShared(st.Val, st.Val) // (PointsInto resolves a captured cell to what was stored in it)
									}
								}
							}
						}
						continue
					}
					addShared(b, b)
				}
			}
		}
		for i, a := range goI.Common().Args {
			if i != own && i < len(cl.Params) {
				addShared(a, cl.Params[i])
			}
		}
		for _, sv := range shared {
			for _, m := range p.Mutations(cl, sv) {
				ok, why = false, "the goroutines share "+E(sv)+" (made once before the fan-out) and the goroutine body modifies it ("+m.What+" at "+p.InstrPos(m.Instr)+"): concurrent unsynchronised writes, and each hook call can see another revision's values"
			}
		}
	}
	r.Check(rule, FK(f)+"[goroutine-owns-its-revision]", p.InstrPos(goI), ok, "each goroutine writes only its own parentRevision; Add before go; Done deferred", why)
	waits := callsTo(f, false, "sync.WaitGroup.Wait")
	okW, whyW := len(waits) == 1, "expected one wg.Wait"
	if okW {
		wi := waits[0].Instr.(ssa.Instruction)
		// every read of syncResult/syncError/desiredChildMap in f (outside the goroutine) is after Wait
		for _, b := range engine.BlocksInl(f) {
			for _, in := range b.Instrs {
				fa, isFA := in.(*ssa.FieldAddr)
				if !isFA {
					continue
				}
				n := E(fa)
				if strings.HasSuffix(n, ".syncResult") || strings.HasSuffix(n, ".syncError") || strings.HasSuffix(n, ".desiredChildMap") {
					if bypass(f, in, func(x ssa.Instruction) bool { return x == wi }) != nil {
						okW, whyW = false, "a per-revision result ("+n+") is read before wg.Wait()"
					}
				}
			}
		}
		// calls that read them (syncRollingUpdate, …) are after Wait too
		for _, cs := range callsTo(f, false, ".syncRollingUpdate", ".manageRevisions", "composite.pruneParentRevisions") {
			if bypass(f, cs.Instr.(ssa.Instruction), func(x ssa.Instruction) bool { return x == wi }) != nil {
				okW, whyW = false, Short(cs.Key)+" runs before wg.Wait()"
			}
		}
		// Wait is after the loop that launches
		if (engine.Query{Fn: f, From: []engine.Point{engine.After(wi)}, Target: func(x ssa.Instruction) bool { return x == ssa.Instruction(goI) }}).Find() != nil {
			okW, whyW = false, "goroutines can be launched after wg.Wait()"
		}
	}
	r.Check(rule, FK(f)+"[wait≺reads]", p.Pos(f.Pos()), okW, "wg.Wait dominates every use of the goroutines' results", whyW)
	// errors: first failing revision in list order (deterministic)
	okE := false
	for _, l := range engine.RangeLoops(f) {
		for _, b := range l.BodyBlocks() {
			for _, in := range b.Instrs {
				if rt, isR := in.(*ssa.Return); isR && isErrReturn(rt) && engine.BackSlice(engine.RetVal(rt, 1), func(x ssa.Value) bool { return strings.HasSuffix(E(x), ".syncError") }, engine.Is("fmt.Errorf")) {
					okE = !strings.HasPrefix(E(l.X), "slice(")
				}
			}
		}
	}
	r.Check(rule, FK(f)+"[error-by-list-order]", p.Pos(f.Pos()), okE, "the reported hook error is the first failing revision in list order", "the error reported for failed per-revision hook calls does not come from an ordered scan of the revisions' own syncError fields")
}

// isHolderType: a map/slice/array (possibly nested, possibly behind a pointer)
// whose elements are pointers to structs — a container OF objects rather than
// part of an object's content.
func isHolderType(t types.Type) bool {
	for i := 0; i < 6; i++ {
		switch u := t.Underlying().(type) {
		case *types.Pointer:
			if _, isArr := u.Elem().Underlying().(*types.Array); isArr {
				t = u.Elem()
				continue
			}
			_, isStruct := u.Elem().Underlying().(*types.Struct)
			return isStruct && i > 0
		case *types.Map:
			t = u.Elem()
		case *types.Slice:
			t = u.Elem()
		case *types.Array:
			t = u.Elem()
		default:
			return false
		}
	}
	return false
}
