package rules

import (
	"go/types"
	"sort"
	"strings"

	"golang.org/x/tools/go/ssa"

	"mcvet/engine"
)

// crossSyncState: what survives from one sync to the next besides the API
// server, the informer caches and the work queue. Every item was read and has
// its own key/invalidation rule elsewhere in this checker (named in 'covered').
// A sync that starts consulting a NEW memo has a new input whose freshness no
// rule here establishes; the properties that are stated per sync ("from the
// objects observed in this sync") no longer follow from the rules that passed.
var crossSyncState = map[string]string{
	"global(metacontroller/pkg/controller/common.lastUpdatedCache)":             "server-side-apply memo: R01.1 (hit ∧ hash= ∧ generation=), R01.3 key, R17.2 lock",
	"metacontroller/pkg/controller/common/customize.Manager.customizeCache":     "customize responses per (UID, generation): R18.x",
	"metacontroller/pkg/controller/common/customize.Manager.relatedInformers":   "informer subscriptions: R17.2 lock, R20.2 release",
	"metacontroller/pkg/hooks.webhookExecutorEtag.etagCache":                    "ETag cache: R19.4/R19.5",
	"metacontroller/pkg/dynamic/informer.SharedInformerFactory.refCount":        "informer reference counts: R20.2 acquire/release pairing, R17.2 lock",
	"metacontroller/pkg/dynamic/informer.SharedInformerFactory.sharedInformers": "shared informers per resource+version: R17.5 key, R17.2 lock",
	"metacontroller/pkg/dynamic/informer.sharedEventHandler.handlers":           "event handler subscriptions: R14.x, R17.2 lock",
}

// stateWrites lists, for the functions reachable from the given roots, every
// write to memory that outlives the call: package-level variables (stores, map
// updates, mutating container methods) and fields of objects that were not
// allocated by the writing function or its callers within the sync (receiver
// fields of long-lived structs).
type stateWrite struct {
	ID   string
	Fn   *ssa.Function
	Inst ssa.Instruction
	How  string
}

var mutatingContainerMethods = map[string]bool{
	"sync.Map.Store": true, "sync.Map.LoadOrStore": true, "sync.Map.Delete": true, "sync.Map.Swap": true, "sync.Map.CompareAndSwap": true, "sync.Map.LoadAndDelete": true,
	"metacontroller/pkg/cache.Cache.Set": true, "metacontroller/pkg/cache.Cache.SetNoExpiration": true,
	"sync.Once.Do": true,
}

// stateID names the storage v lives in when it is a package variable or a field
// reached from a receiver/parameter (i.e. not from a local allocation).
func stateID(v ssa.Value) string {
	for i := 0; i < 8 && v != nil; i++ {
		switch x := v.(type) {
		case *ssa.Global:
			return "global(" + x.Pkg.Pkg.Path() + "." + x.Name() + ")"
		case *ssa.FieldAddr:
			owner := deref(x.X.Type())
			if n, ok := types.Unalias(owner).(*types.Named); ok && n.Obj().Pkg() != nil && strings.HasPrefix(n.Obj().Pkg().Path(), engine.ModPrefix) {
				// only when the struct itself is not a local of this function
				base := x.X
				for j := 0; j < 6; j++ {
					if u, ok := base.(*ssa.UnOp); ok {
						base = u.X
						continue
					}
					if fa, ok := base.(*ssa.FieldAddr); ok {
						base = fa.X
						continue
					}
					break
				}
				switch base.(type) {
				case *ssa.Parameter, *ssa.FreeVar, *ssa.Global:
					return n.Obj().Pkg().Path() + "." + n.Obj().Name() + "." + fieldNameOf(owner, x.Field)
				}
				return ""
			}
			v = x.X
		case *ssa.UnOp:
			v = x.X
		case *ssa.IndexAddr:
			v = x.X
		case *ssa.MakeInterface:
			v = x.X
		case *ssa.ChangeType:
			v = x.X
		default:
			return ""
		}
	}
	return ""
}

func stateWritesOf(p *Program, fns map[*ssa.Function]bool) []stateWrite {
	var out []stateWrite
	var list []*ssa.Function
	for f := range fns {
		list = append(list, f)
	}
	sort.Slice(list, func(i, j int) bool { return FK(list[i]) < FK(list[j]) })
	for _, f := range list {
		if !strings.HasPrefix(FK(f), engine.ModPrefix) || strings.HasSuffix(f.Name(), "init") {
			continue
		}
		for _, b := range engine.BlocksInl(f) {
			for _, in := range b.Instrs {
				switch x := in.(type) {
				case *ssa.Store:
					if id := stateID(x.Addr); id != "" {
						out = append(out, stateWrite{id, f, in, "store"})
					}
				case *ssa.MapUpdate:
					if id := stateID(x.Map); id != "" {
						out = append(out, stateWrite{id, f, in, "map store"})
					}
				case ssa.CallInstruction:
					c := x.Common()
					k := engine.CallKey(c)
					if k == "builtin.delete" && len(c.Args) > 0 {
						if id := stateID(c.Args[0]); id != "" {
							out = append(out, stateWrite{id, f, in, "map delete"})
						}
						continue
					}
					// generic instantiations render as Cache[...]: normalise
					kk := k
					if i := strings.Index(kk, "["); i >= 0 {
						if j := strings.LastIndex(kk, "]"); j > i {
							kk = kk[:i] + kk[j+1:]
						}
					}
					if mutatingContainerMethods[kk] && len(c.Args) > 0 {
						if id := stateID(c.Args[0]); id != "" {
							out = append(out, stateWrite{id, f, in, Short(kk)})
						}
						continue
					}
					// the ADDRESS of a field handed to code outside the module (a pointer-receiver method of a
					// library type embedded by value — bytes.Buffer, strings.Builder, list.List … — or a function
					// taking &field): that code may write the field
					if g := engine.StaticFn(c); g != nil && strings.HasPrefix(FK(g), engine.ModPrefix) {
						continue
					}
					if strings.HasPrefix(kk, "sync.") || strings.HasPrefix(kk, "sync/atomic.") && (strings.HasSuffix(kk, ".Load") || strings.HasSuffix(kk, ".Add") && false) {
						continue // locks, wait groups, once: synchronisation, not data
					}
					for _, a := range c.Args {
						fa, isFA := a.(*ssa.FieldAddr)
						if !isFA {
							continue
						}
						if _, isStruct := deref(fa.Type()).Underlying().(*types.Struct); !isStruct {
							continue
						}
						if id := stateID(fa); id != "" {
							out = append(out, stateWrite{id, f, in, "&field → " + Short(kk)})
						}
					}
					if c.IsInvoke() {
						continue
					}
				}
			}
		}
	}
	return out
}

// noNewCrossSyncState (C02 R02.8, C11 R11.x, C01): inventory of state written on
// a sync path against the reviewed table.
func noNewCrossSyncState(r *Report, p *Program, rule string) {
	r.Rule(rule, "the only state a sync writes that outlives it (package variables, fields of long-lived objects) is the reviewed set of memos, each of which has its own key/freshness rule; no other memo feeds a later sync")
	var roots []*ssa.Function
	for _, k := range []string{"controller/composite.parentController.syncParentObject", "controller/decorator.decoratorController.syncParentObject",
		"controller/composite.parentController.findPotentialParents", "controller/composite.parentController.resolveControllerRef", "controller/decorator.decoratorController.resolveControllerRef"} {
		if f := p.Func(k); f != nil {
			roots = append(roots, f)
		}
	}
	if len(roots) < 2 {
		r.Fail(rule, "sync entries", "-", "anchor-lost", "sync entry functions not found")
		return
	}
	reach := p.CG().ReachSet(roots...)
	// Long-lived struct types: allocated by live code outside the sync paths
	// (constructors run at controller start) and never on a sync path. Types that
	// are (also) allocated on a sync path — request builders, revisions, ref
	// managers, and the structs embedded in them by value — are per-sync objects.
	perSync := map[string]bool{}
	longLived := map[string]bool{}
	var markNested func(t types.Type, into map[string]bool, d int)
	markNested = func(t types.Type, into map[string]bool, d int) {
		n, ok := types.Unalias(t).(*types.Named)
		if !ok || n.Obj().Pkg() == nil || d > 4 {
			return
		}
		k := n.Obj().Pkg().Path() + "." + n.Obj().Name()
		if into[k] {
			return
		}
		into[k] = true
		if st, ok := n.Underlying().(*types.Struct); ok {
			for i := 0; i < st.NumFields(); i++ {
				markNested(st.Field(i).Type(), into, d+1) // by-value nesting only (pointers are other objects)
			}
		}
	}
	for _, f := range p.ModFuncs {
		live := reach[f] || len(p.CallersOf(f)) > 0 || len(p.CG().Out[f]) >= 0 && f.Parent() != nil
		for _, b := range engine.BlocksInl(f) {
			for _, in := range b.Instrs {
				if a, ok := in.(*ssa.Alloc); ok {
					switch {
					case reach[f]:
						markNested(deref(a.Type()), perSync, 0)
					case live:
						markNested(deref(a.Type()), longLived, 0)
					}
				}
			}
		}
	}
	seen := map[string]bool{}
	n := 0
	for _, w := range stateWritesOf(p, reach) {
		if strings.Contains(w.ID, "/pkg/metrics") || strings.Contains(w.ID, "/pkg/logging") || strings.Contains(w.ID, "/pkg/client/generated") || strings.HasPrefix(w.ID, "metacontroller/pkg/cache.") {
			continue
		}
		if !strings.HasPrefix(w.ID, "global(") {
			if i := strings.LastIndex(w.ID, "."); i > 0 && (perSync[w.ID[:i]] || !longLived[w.ID[:i]]) {
				continue
			}
		}
		key := w.ID
		if seen[key] {
			continue
		}
		seen[key] = true
		n++
		why, ok := crossSyncState[w.ID]
		r.Check(rule, "state:"+Short(strings.TrimPrefix(strings.TrimSuffix(strings.TrimPrefix(w.ID, "global("), ")"), "")), p.InstrPos(w.Inst), ok, "reviewed: "+why,
			"a sync path ("+Short(FK(w.Fn))+", "+w.How+") writes "+w.ID+", state that outlives the sync and is not in the reviewed table: what a later sync reads from it is not established to be fresh by any rule (a memo keyed by name or UID survives edits, deletion and re-creation of the object it describes)")
	}
	r.Floor(rule, 3)
}
