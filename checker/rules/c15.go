package rules

import (
	"strings"

	"mcvet/engine"

	"golang.org/x/tools/go/ssa"
)

func init() {
	Registry["C15"] = checkC15
}

func checkC15(r *Report, p *Program) {
	smallVerbClauses(r, p, "R15.9")
	r.Explanation = "Decides the agreement of the two sibling code paths — what is listed for the hook (GetRelatedObjects) and what wakes the parent (matchesRelatedRule): (R15.1) both classify a rule with determineSelectionType, whose table is: invalid ⇔ labelSelector ∧ (namespace ∨ names), names-style ⇔ namespace ∨ names, else labels; both switches cover every selection-type constant and return the classifier's error for invalid; (R15.2) the trigger predicate can reject an object only for a reason the listing side also applies (kind/version, foreign namespace for a namespaced parent, the rule's namespace, name membership, label selector) — so listed ⊆ triggers —, a namespaced parent with a foreign rule namespace is an error on both sides, empty Names means all on both sides; groups are initialised without wiping earlier rules' objects; (R15.3) the kind compared is that of the rule's resource on both sides; (R15.4) the customize hook is asked only on a miss of a per-manager cache keyed (parent UID, generation), the same key for Get and Set; (R15.5) the related map goes through the same namespace confinement as children."
	r.NotDecided = "label selector semantics (apimachinery); cache TTL timing; cluster contents."
	r15_1(r, p)
	r15_2(r, p)
	r15_4(r, p)
	r03_3(r, p) // R03.3 id kept: wire confinement applies to Related through the same Convert
	r03_6(r, p)
	// trigger side: related-object events resolve the rules the same way the listing side does (shared with C14)
	r14_4(r, p)
	// the customize manager's error checks mean what they say (an inverted one drops every related event, or
	// replaces the related map by an empty one) — shared with C12
	errorChecksMeanWhatTheySay(r, p, "R15.6", func(f *ssa.Function) bool { return strings.Contains(FK(f), "/customize.") })
	resultKeptOnSuccess(r, p, "R15.7", 1)
	relatedInformerMemo(r, p, "R15.8")
	relatedNotifyTable(r, p, "R15.9")
	handedMapsFilled(r, p, "R15.10")
	// groups never wiped between rules
	for _, key := range []string{"controller/common/api/v2.UniformObjectMap.InitGroup"} {
		if f := fn(r, p, "R15.2", key); f != nil {
			ok := true
			for _, b := range engine.BlocksInl(f) {
				for _, in := range b.Instrs {
					if _, isMU := in.(*ssa.MapUpdate); isMU {
						if unguarded(f, nil, in, func(l Lit) bool {
							v, isNil, isT := l.NilTest()
							return isT && isNil && strings.HasPrefix(E(v), "p0[")
						}) != nil {
							ok = false
						}
					}
				}
			}
			r.Check("R15.2", FK(f)+"[non-destructive]", p.Pos(f.Pos()), ok, "a second rule for the same resource adds to the group", "InitGroup replaces an existing group: with several rules for one resource only the last rule's objects reach the hook, while all of them still wake the parent")
		}
	}
}

func r15_1(r *Report, p *Program) {
	const rule = "R15.1"
	r.Rule(rule, "same classifier, exhaustive switches, classifier table")
	r.Floor(rule, 5)
	consts := constsOfType(p, "metacontroller/pkg/controller/common/customize", "relatedObjectsSelectionType")
	if len(consts) < 3 {
		r.Fail(rule, "relatedObjectsSelectionType", "-", "anchor-lost", sf("found %d selection-type constants", len(consts)))
		return
	}
	for _, key := range []string{"controller/common/customize.Manager.GetRelatedObjects", "controller/common/customize.matchesRelatedRule"} {
		f := fn(r, p, rule, key)
		if f == nil {
			continue
		}
		ds := callsTo(f, false, "customize.determineSelectionType")
		if len(ds) != 1 {
			r.Check(rule, FK(f)+"[classifier]", p.Pos(f.Pos()), false, "", "does not classify the rule with determineSelectionType exactly once")
			continue
		}
		st := engine.ResultValue(ds[0].Instr, 0)
		covered := map[string]bool{}
		for _, b := range engine.BlocksInl(f) {
			for i := range b.Succs {
				if l, ok := engine.EdgeLit(b, i); ok && l.Pos && l.Op.String() == "==" && engine.SameValue(l.X, st) {
					if s, isC := constStr(l.Y); isC {
						covered[s] = true
					}
				}
			}
		}
		var missing []string
		for name, v := range consts {
			if !covered[v] {
				missing = append(missing, name)
			}
		}
		r.Check(rule, FK(f)+"[exhaustive]", p.Pos(f.Pos()), len(missing) == 0, sf("cases for all of %v", sortedSet(covered)), sf("no case for selection type(s) %v", missing))
		// invalid ⇒ classifier's error returned
		errV := engine.ResultValue(ds[0].Instr, 1)
		var from []engine.Point
		for _, b := range engine.BlocksInl(f) {
			for i := range b.Succs {
				if l, ok := engine.EdgeLit(b, i); ok && l.Pos && engine.SameValue(l.X, st) {
					if s, isC := constStr(l.Y); isC && s == consts["invalid"] {
						from = append(from, engine.Point{B: b.Succs[i]})
					}
				}
			}
		}
		ok := len(from) > 0 && errV != nil
		if ok {
			w := engine.Query{Fn: f, From: from, Target: func(in ssa.Instruction) bool {
				rt, isR := in.(*ssa.Return)
				return isR && !engine.SameValue(engine.RetVal(rt, engine.ErrorResultIndex(f)), errV)
			}}.Find()
			if rlen := 0; w != nil || rlen != 0 {
				ok = false
			}
		}
		r.Check(rule, FK(f)+"[invalid⇒error]", p.Pos(f.Pos()), ok, "an invalid mix of selection styles is an error, not a silent choice", "an invalid rule (labelSelector together with namespace/names) does not return the classifier's error")
		// the rule classified is the one being processed
		r.Check(rule, FK(f)+"[classifies-this-rule]", p.InstrPos(ds[0].Instr), !strings.Contains(E(ds[0].Common().Args[0]), "[0]"), "classifies the rule at hand", "classifies a fixed rule")
	}
	if f := fn(r, p, rule, "controller/common/customize.determineSelectionType"); f != nil {
		paths, err := engine.EnumPaths(f, engine.EnumOpts{})
		ok, why := err == nil, ""
		for _, pa := range paths {
			if len(pa.Ret) == 0 {
				continue
			}
			ls := val(pa, -1, func(a string) bool { return a == "(p0.LabelSelector == nil)" })
			ns := val(pa, -1, func(a string) bool { return a == "(call(builtin.len)(p0.Namespace) == 0)" })
			nm := val(pa, -1, func(a string) bool { return a == "(call(builtin.len)(p0.Names) == 0)" })
			hasLS := ls == -1
			hasNN := ns == -1 || nm == -1
			if ls == 0 || (ns == 0 && nm == 0) || (ns == 1 && nm == 0) {
				// the path may not have needed to test names when namespace is set
				if ls == 0 {
					ok, why = false, "classification does not look at labelSelector: ["+pa.Cond()+"]"
				}
			}
			ret, _ := constStr(pa.Ret[0])
			want := "Labels"
			switch {
			case hasLS && hasNN:
				want = "Invalid"
			case hasNN:
				want = "NamespacesAndNames"
			}
			if ret != want {
				ok, why = false, sf("classifies as %q on [%s], want %q", ret, pa.Cond(), want)
			}
			if want == "Invalid" && isNilConst(pa.Ret[1]) {
				ok, why = false, "invalid classification without an error"
			}
		}
		r.Check(rule, FK(f), p.Pos(f.Pos()), ok, "invalid ⇔ selector∧(ns∨names); names-style ⇔ ns∨names; else labels", why)
	}
}

func r15_2(r *Report, p *Program) {
	const rule = "R15.2"
	r.Rule(rule, "listed ⊆ triggers, clause by clause")
	r.Floor(rule, 6)
	m := fn(r, p, rule, "controller/common/customize.matchesRelatedRule")
	g := fn(r, p, rule, "controller/common/customize.Manager.GetRelatedObjects")
	if m == nil || g == nil {
		return
	}
	// --- trigger side: every way of answering (false, nil) must be one of the listing side's exclusions
	paths, err := engine.EnumPaths(m, engine.EnumOpts{})
	if err != nil {
		r.Fail(rule, FK(m), p.Pos(m.Pos()), "undecided", err.Error())
		return
	}
	// parameters: p0 parentIsNamespaced, p1 parent, p2 related, p3 rule, p4 kind
	ok, why := true, ""
	var rows []map[string]string
	nTrue := 0
	for _, pa := range paths {
		if len(pa.Ret) != 2 {
			continue
		}
		ret0 := E(pa.Ret[0])
		rows = append(rows, map[string]string{"when": pa.Cond(), "returns": ret0 + ", " + E(pa.Ret[1])})
		if !isNilConst(pa.Ret[1]) {
			continue // errors are reported, not silent
		}
		if ret0 != "false" {
			nTrue++
			continue
		}
		has := func(pos bool, subs ...string) bool {
			return pa.Has(pos, func(a string) bool {
				for _, s := range subs {
					if !strings.Contains(a, s) {
						return false
					}
				}
				return true
			})
		}
		reason := ""
		switch {
		case has(false, "GetAPIVersion)(p2)", ".APIVersion") || has(false, "GetKind)(p2)", "p4"):
			reason = "kind/version"
		case has(true, "p0") && has(false, "GetNamespace)(p1)", "GetNamespace)(p2)", " == "):
			reason = "namespaced parent, other namespace"
		case has(false, "builtin.len)(p3.Namespace) == 0") && has(false, "GetNamespace)(p2)", "p3.Namespace", " == "):
			reason = "rule namespace"
		default:
			// name membership: returns the result of stringInArray — a non-constant; constants false here are unexplained
		}
		if reason == "" {
			ok, why = false, "the trigger predicate answers 'no match' on ["+pa.Cond()+"] for no reason the listing side applies: such an object is sent to the hook as related but never wakes the parent"
		}
	}
	// non-constant returns: must be stringInArray(name of related, rule.Names) or selector.Matches(labels of related)
	for _, pa := range paths {
		if len(pa.Ret) != 2 {
			continue
		}
		if _, isC := pa.Ret[0].(*ssa.Const); isC {
			continue
		}
		s := E(pa.Ret[0])
		good := s == "call(controller/common/customize.stringInArray)(call(unstructured.Unstructured.GetName)(p2), p3.Names)" ||
			(strings.HasPrefix(s, "call(labels.Selector.Matches)(call(controller/common/customize.toSelector)(p3.LabelSelector)#0") && strings.Contains(s, "GetLabels)(p2)"))
		if !good {
			ok, why = false, "the trigger predicate returns "+s
		}
	}
	if nTrue == 0 {
		ok, why = false, "names-style rules without Names never match"
	}
	r.Table("R15.2 matchesRelatedRule", rows)
	r.Check(rule, FK(m)+"[rejects-only-what-listing-excludes]", p.Pos(m.Pos()), ok, "every 'no match' has a listing-side counterpart", why)
	// foreign namespace for a namespaced parent is an error on both sides — and only that:
	// the edge 'rule namespace ≠ parent namespace' runs straight into an error return, is reached
	// only for a namespaced parent and a rule that names a namespace; the 'equal' edge goes on
	for _, f := range []*ssa.Function{m, g} {
		okE, whyE, nEdges := true, "", 0
		isD := func(l Lit) bool {
			if l.Op.String() != "==" || l.X == nil || l.Y == nil {
				return false
			}
			x, y := E(l.X), E(l.Y)
			if strings.HasSuffix(x, "GetNamespace)(p1)") {
				x, y = y, x
			}
			return y == "call(unstructured.Unstructured.GetNamespace)(p1)" && strings.HasSuffix(x, ".Namespace")
		}
		straightErr := func(from *ssa.BasicBlock) bool {
			return engine.Query{Fn: f, From: []engine.Point{{B: from}}, CutEdge: func(bb *ssa.BasicBlock, i int, l *Lit) bool { return l != nil },
				Target: func(x ssa.Instruction) bool { rt, isR := x.(*ssa.Return); return isR && engine.ReturnsFreshError(rt) }}.Find() != nil
		}
		for _, b := range engine.BlocksInl(f) {
			for i := range b.Succs {
				l, has := engine.EdgeLit(b, i)
				if !has || !isD(l) {
					continue
				}
				nEdges++
				s := b.Succs[i]
				if l.Pos {
					if straightErr(s) {
						okE, whyE = false, "a rule naming the parent's own namespace is rejected"
					}
					continue
				}
				if !straightErr(s) {
					okE, whyE = false, "a rule naming a foreign namespace for a namespaced parent is not rejected here"
					continue
				}
				if len(s.Instrs) == 0 {
					continue
				}
				if w := unguarded(f, nil, s.Instrs[0], func(l Lit) bool {
					return l.Pos && (l.Atom == "p0" || strings.HasSuffix(l.Atom, ".APIResource.Namespaced"))
				}); w != nil {
					okE, whyE = false, "the namespace clash is an error also for a cluster-scoped parent"
				}
				if w := unguarded(f, nil, s.Instrs[0], func(l Lit) bool {
					return !l.Pos && strings.Contains(l.Atom, "builtin.len)(") && strings.HasSuffix(l.Atom, ".Namespace) == 0)")
				}); w != nil {
					okE, whyE = false, "a rule that leaves the namespace out is rejected for a namespaced parent (or: a named foreign namespace is not): 'namespace given' is tested the wrong way round"
				}
			}
		}
		if nEdges == 0 {
			okE, whyE = false, "the rule's namespace is never compared with the parent's"
		}
		r.Check(rule, FK(f)+"[foreign-namespace⇒error]", p.Pos(f.Pos()), okE, "namespaced parent ∧ rule names another namespace ⇔ error", whyE)
	}
	// listing side: names style
	var nameLoop *engine.RangeLoop
	for _, l := range engine.RangeLoops(g) {
		if strings.HasPrefix(E(l.X), "call(controller/common/customize.listObjects)(") {
			nameLoop = l
		}
	}
	okL, whyL := nameLoop != nil, "names-style listing loop not found"
	if okL {
		ins := callsTo(g, false, "UniformObjectMap.Insert")
		okL = false
		for _, cs := range ins {
			if nameLoop.Contains(cs.Instr.(ssa.Instruction)) && engine.SameValue(cs.Arg(1), nameLoop.Val) {
				w := unguarded(g, []engine.Point{{B: nameLoop.Body}}, cs.Instr.(ssa.Instruction), func(l Lit) bool {
					return l.Pos && strings.HasPrefix(l.Atom, "call(controller/common/customize.stringInArray)(call(unstructured.Unstructured.GetName)(") && strings.HasSuffix(l.Atom, ".Names)")
				})
				okL = w == nil
			}
		}
		if !okL {
			whyL = "objects are listed by names without stringInArray(obj.GetName(), rule.Names)"
		}
		// all ⇔ len(Names)==0
		nAll := 0
		for _, cs := range callsTo(g, false, "UniformObjectMap.InsertAll") {
			if strings.HasPrefix(E(cs.Arg(1)), "call(controller/common/customize.listObjects)(") {
				nAll++
				w := unguarded(g, nil, cs.Instr.(ssa.Instruction), func(l Lit) bool { return l.Pos && strings.HasSuffix(l.Atom, ".Names) == 0)") })
				if w != nil {
					okL, whyL = false, "all objects of the namespace are listed although Names is not empty"
				}
			}
		}
		// listObjects is given the rule's namespace
		if nAll == 0 {
			okL, whyL = false, "a names-style rule without Names selects nothing: the listed objects are never inserted"
		}
		// listObjects is given the parent's namespace when the parent is namespaced, else the rule's
		for _, cs := range callsTo(g, false, "customize.listObjects") {
			ns := cs.Common().Args[1]
			t, e, sel := selectOf(ns, func(a string) bool { return strings.HasSuffix(a, ".APIResource.Namespaced") })
			okN := sel && t == "call(unstructured.Unstructured.GetNamespace)(p1)" && strings.HasSuffix(e, ".Namespace") && !strings.Contains(e, "GetNamespace")
			if !okN {
				if strings.HasSuffix(E(ns), ".Namespace") {
					okL, whyL = false, "names-style listing is scoped by the rule's namespace only: for a namespaced parent and a rule that leaves the namespace out, same-named objects of EVERY namespace are sent to the hook (and never wake the parent: the trigger side excludes other namespaces)"
				} else {
					okL, whyL = false, "names-style listing is scoped by "+E(ns)+", not by (parent's namespace if the parent is namespaced, else the rule's namespace)"
				}
			}
		}
	}
	r.Check(rule, FK(g)+"[names-style-listing]", p.Pos(g.Pos()), okL, "by rule namespace; all if Names empty, else by name membership", whyL)
	// label style: same selector constructor on both sides
	okS := len(callsTo(g, false, "customize.toSelector")) == 1 && len(callsTo(m, false, "customize.toSelector")) == 1
	if okS {
		a, b := callsTo(g, false, "customize.toSelector")[0], callsTo(m, false, "customize.toSelector")[0]
		okS = strings.HasSuffix(E(a.Common().Args[0]), ".LabelSelector") && strings.HasSuffix(E(b.Common().Args[0]), ".LabelSelector")
		for _, c := range []engine.CallSite{a, b} {
			if okk, _ := errorDiscipline(p, c.Fn, c.Instr, nil, nil); !okk {
				okS = false
			}
		}
	}
	r.Check(rule, "customize[label-selector-agreement]", p.Pos(g.Pos()), okS, "both sides build the selector with toSelector(rule.LabelSelector) and return its error", "listing and trigger side do not build the label selector the same way (or drop its error)")
	// R15.3 kind gate
	okK := false
	for _, cs := range callsTo(p.Func("controller/common/customize.Manager.findRelatedParents"), false, "customize.matchesRelatedRule") {
		a := E(cs.Common().Args[4])
		okK = strings.Contains(a, "Clientset.Resource)(p0.dynClient") && strings.Contains(a, ".APIVersion") && strings.Contains(a, ".Resource") && strings.HasSuffix(a, ".Kind")
		// the scope flag is the PARENT's (as GetRelatedObjects takes it: parentKinds.Get(parent's group-kind).Namespaced)
		if a0 := E(cs.Common().Args[0]); !(strings.Contains(a0, "GroupKindMap.Get)(p0.parentKinds") && strings.HasSuffix(a0, ".Namespaced")) {
			okK = false
		}
	}
	gate := false
	for _, pa := range paths {
		if len(pa.Ret) == 2 && E(pa.Ret[0]) != "false" && isNilConst(pa.Ret[1]) {
			gate = pa.Has(true, func(a string) bool {
				return strings.Contains(a, "GetAPIVersion)(p2)") && strings.Contains(a, "p3.ResourceRule.APIVersion")
			}) &&
				pa.Has(true, func(a string) bool { return strings.Contains(a, "GetKind)(p2)") && strings.Contains(a, "p4") })
			if !gate {
				break
			}
		}
	}
	r.Check("R15.2", FK(m)+"[kind-version-gate]", p.Pos(m.Pos()), okK && gate, "a match requires the rule's apiVersion and the kind of the rule's resource", "the trigger predicate can match an object of another kind/apiVersion, or is given a kind that is not the rule resource's")
}

func r15_4(r *Report, p *Program) {
	const rule = "R15.4"
	r.Rule(rule, "customize hook asked once per (UID, generation), per manager")
	r.Floor(rule, 3)
	var keys []string
	n := 0
	for _, f := range p.Scanned {
		if !strings.HasPrefix(FK(f), "metacontroller/pkg/controller/common/customize.") {
			continue
		}
		for _, cs := range callsTo(f, false, "cache.Cache.Get", "cache.Cache.Set", "cache.Cache.SetNoExpiration") {
			n++
			recv := E(cs.Recv())
			ok := recv == "p0.customizeCache"
			r.Check(rule, sf("%s→%s[per-manager-cache]", FK(f), methodOf(cs.Key)), p.InstrPos(cs.Instr), ok, "uses the manager's own cache", "customize responses are cached in "+recv+", shared beyond this manager: another controller (or a reloaded one) with the same parent UID/generation gets someone else's rules")
			k := cs.Arg(0)
			al := literalAlloc(k)
			desc := E(k)
			if al != nil {
				desc = E(engine.FieldStore(al, "uid")) + "|" + E(engine.FieldStore(al, "parentGeneration"))
			}
			keys = append(keys, desc)
		}
	}
	okK := n >= 2
	for _, k := range keys {
		if k != "call(unstructured.Unstructured.GetUID)(p1)|call(unstructured.Unstructured.GetGeneration)(p1)" {
			okK = false
		}
	}
	r.Check(rule, "customize[cache-key]", "-", okK, "Get and Set keyed (parent UID, parent generation)", sf("cache keys differ or are not (UID, generation): %v", keys))
	if f := fn(r, p, rule, "controller/common/customize.NewCustomizeManager"); f != nil {
		ok := false
		for _, b := range engine.BlocksInl(f) {
			for _, in := range b.Instrs {
				if st, isS := in.(*ssa.Store); isS && strings.HasSuffix(E(st.Addr), ".customizeCache") {
					c := callOf(st.Val)
					ok = c != nil && (strings.HasSuffix(engine.CallKey(c.Common()), "customize.newResponseCache") || strings.HasSuffix(engine.CallKey(c.Common()), "cache.New"))
				}
			}
		}
		r.Check(rule, FK(f)+"[fresh-cache]", p.Pos(f.Pos()), ok, "each manager gets a new response cache", "the manager's response cache is not freshly created per manager")
	}
	if f := fn(r, p, rule, "controller/common/customize.Manager.getCustomizeHookResponse"); f != nil {
		calls := callsTo(f, false, "hooks.Hook.Call")
		sets := callsTo(f, false, "cache.Cache.Set")
		ok, why := len(calls) == 1 && len(sets) == 1, "expected one hook call and one cache Set"
		if ok {
			if notAfterSuccess(f, calls[0].Instr, sets[0].Instr.(ssa.Instruction)) != nil {
				ok, why = false, "a response is cached although the hook call failed"
			}
			if !engine.SameValue(sets[0].Arg(1), calls[0].Arg(1)) {
				ok, why = false, "what is cached is not the decoded response"
			}
			w := unguarded(f, nil, calls[0].Instr.(ssa.Instruction), func(l Lit) bool {
				return !l.Pos && strings.HasSuffix(l.Atom, ".getCachedCustomizeHookResponse)(p0, p1)#1")
			})
			if w != nil {
				ok, why = false, "hook called on a cache hit"
			}
		}
		r.Check(rule, FK(f), p.Pos(f.Pos()), ok, "hook only on miss; successful answer cached", why)
	}
}

// relatedInformerMemo: getRelatedClient subscribes to a related resource exactly when the manager has no
// informer for it yet, and remembers the subscription it took (both directions).
func relatedInformerMemo(r *Report, p *Program, rule string) {
	r.Rule(rule, "getRelatedClient: SharedInformerFactory.Resource (a new subscription) ⇔ relatedInformers has no entry; the new subscription is stored before the successful return; an existing entry is returned as it is")
	r.Floor(rule, 1)
	f := fn(r, p, rule, "controller/common/customize.Manager.getRelatedClient")
	if f == nil {
		return
	}
	res := callsTo(f, false, "SharedInformerFactory.Resource")
	sets := callsTo(f, false, "InformerMap.Set")
	gets := callsTo(f, false, "InformerMap.Get")
	if len(res) != 1 || len(sets) != 1 || len(gets) != 1 {
		r.Check(rule, FK(f), p.Pos(f.Pos()), false, "", sf("expected one Get, one Resource and one Set on the related-informer map, found %d/%d/%d", len(gets), len(res), len(sets)))
		return
	}
	got := ssa.Value(gets[0].Instr.(*ssa.Call))
	miss := func(l Lit) bool {
		v, isNil, isT := l.NilTest()
		return isT && engine.SameValue(v, got) && isNil
	}
	hit := func(l Lit) bool {
		v, isNil, isT := l.NilTest()
		return isT && engine.SameValue(v, got) && !isNil
	}
	ok, why := true, ""
	ri, si := res[0].Instr.(ssa.Instruction), sets[0].Instr.(ssa.Instruction)
	if w := unguarded(f, nil, ri, miss); w != nil {
		ok, why = false, "a new subscription is taken although the manager already holds an informer for the resource: one subscription per sync is leaked and the shared informer never stops"
	}
	if w := unguarded(f, nil, si, miss); w != nil {
		ok, why = false, "the remembered informer is overwritten although one is present"
	}
	// miss ⇒ created and stored before a successful return
	var from []engine.Point
	for _, b := range f.Blocks {
		for i := range b.Succs {
			if l, has := engine.EdgeLit(b, i); has && miss(l) {
				from = append(from, engine.Point{B: b.Succs[i]})
			}
		}
	}
	if len(from) == 0 {
		ok, why = false, "the lookup result is never tested"
	} else if w := (engine.Query{Fn: f, From: from, CutInstr: func(in ssa.Instruction) bool { return in == si },
		Target: func(in ssa.Instruction) bool { rt, isR := in.(*ssa.Return); return isR && !isErrReturn(rt) }}).Find(); w != nil {
		ok, why = false, "with no informer for the resource the function returns successfully without creating and remembering one (the caller dereferences the nil informer; Stop() cannot release it)"
	}
	// hit ⇒ the stored informer is what is returned
	for _, b := range f.Blocks {
		if rt, isR := b.Instrs[len(b.Instrs)-1].(*ssa.Return); isR && !isErrReturn(rt) && len(rt.Results) >= 2 {
			v := engine.RetVal(rt, 1)
			if !(engine.SameValue(v, got) || strings.Contains(E(v), "InformerMap.Get)(") || strings.Contains(E(v), "SharedInformerFactory.Resource)(")) {
				ok, why = false, "returns "+E(v)+", neither the remembered nor the newly created informer"
			}
		}
	}
	_ = hit
	r.Check(rule, FK(f), p.Pos(f.Pos()), ok, "subscribe ⇔ miss; stored before success", why)
}
