package rules

import (
	"go/token"
	"go/types"
	"sort"
	"strings"

	"mcvet/engine"

	"golang.org/x/tools/go/ssa"
)

func init() {
	Registry["C19"] = checkC19
}

func checkC19(r *Report, p *Program) {
	r.Explanation = "Decides the shape of the hook transport: (R19.1) the status gate of every webhookAbstract implementation, evaluated abstractly over {200,304,412,other}×{If-None-Match sent or not}: plain ⇒ 200 only; etag ⇒ 200, and 304/412 exactly when the header was sent; (R19.2) order in Call: transport error ⇒ error; unsupported status ⇒ error before adjustResponse (which may write the ETag cache) and before decoding; adjustResponse/Unmarshal errors returned; (R19.3) after a successful decode an error is returned only across shouldReportStrictErrors() ∧ 'strict error list non-empty'; (R19.4) a cached body is returned for 304/412 only across a comparison of the cached entry's ETag with the If-None-Match value that was sent; cache entries store the body together with that response's ETag; If-None-Match is set from the entry just read; (R19.5) a nil unmarshal mode is loose."
	r.NotDecided = "interleavings of concurrent calls beyond the ETag-mismatch hazard; Retry-After values; cache expiry timing; HTTP client behaviour."
	impls := webhookAbstractImpls(p)
	r19_1(r, p, impls)
	hookCallOrder(r, p, "R19.2")
	r19_3(r, p)
	r19_4(r, p, impls)
	r19_5(r, p)
	keyCompleteness(r, p, "R19.6", "getKeyFromObject")
	// 429 ⇒ TooManyRequestError ⇒ re-queue after Retry-After, all the way up (shared with C12)
	r12_4(r, p)
	// "a timeout is an error": the client always has one (shared with C12)
	r12_10(r, p)
	// every step of the transport has its error looked at, the right way round (shared with C12)
	etagEnabledTable(r, p, "R19.8")
	foundValuesGuarded(r, p, "R19.9")
	responseTypesDecodePlainly(r, p, "R19.10")
	errorChecksMeanWhatTheySay(r, p, "R19.7", func(f *ssa.Function) bool { return strings.Contains(FK(f), "/pkg/hooks.") })
}

// webhookAbstractImpls returns the named module types implementing hooks.webhookAbstract.
func webhookAbstractImpls(p *Program) []types.Type {
	var iface *types.Interface
	var out []types.Type
	for _, pk := range p.Pkgs {
		if pk.PkgPath != "metacontroller/pkg/hooks" {
			continue
		}
		if tn, ok := pk.Types.Scope().Lookup("webhookAbstract").(*types.TypeName); ok {
			iface, _ = tn.Type().Underlying().(*types.Interface)
		}
		if iface == nil {
			return nil
		}
		for _, n := range pk.Types.Scope().Names() {
			tn, ok := pk.Types.Scope().Lookup(n).(*types.TypeName)
			if !ok || tn.IsAlias() {
				continue
			}
			if _, isI := tn.Type().Underlying().(*types.Interface); isI {
				continue
			}
			pt := types.NewPointer(tn.Type())
			if types.Implements(pt, iface) || types.Implements(tn.Type(), iface) {
				out = append(out, tn.Type())
			}
		}
	}
	sort.Slice(out, func(i, j int) bool { return out[i].String() < out[j].String() })
	return out
}

func implMethod(p *Program, t types.Type, name string) *ssa.Function {
	tn := t.(*types.Named).Obj()
	return p.Func("hooks." + tn.Name() + "." + name)
}

// evalStatusExpr abstractly evaluates a boolean SSA value built from
// comparisons of response.StatusCode with constants and of
// request.Header.Get("If-None-Match") with "". ok=false if the value has
// another shape.
func evalStatusExpr(v ssa.Value, status int64, hdr bool) (val bool, ok bool) {
	v = engine.ResolveLocal(v)
	switch x := v.(type) {
	case *ssa.Const:
		if x.Value != nil && isBoolT(x.Type()) {
			return x.Value.String() == "true", true
		}
	case *ssa.UnOp:
		if x.Op == token.NOT {
			b, ok := evalStatusExpr(x.X, status, hdr)
			return !b, ok
		}
	case *ssa.BinOp:
		if x.Op != token.EQL && x.Op != token.NEQ {
			return false, false
		}
		l, rr := E(x.X), E(x.Y)
		res, known := false, false
		switch {
		case strings.HasSuffix(l, ".StatusCode"):
			if c, isC := x.Y.(*ssa.Const); isC {
				res, known = c.Int64() == status, true
			}
		case strings.HasSuffix(rr, ".StatusCode"):
			if c, isC := x.X.(*ssa.Const); isC {
				res, known = c.Int64() == status, true
			}
		case strings.Contains(l, `net/http.Header.Get)(`) && strings.Contains(l, `"If-None-Match"`) && rr == `""`:
			res, known = !hdr, true
		case strings.Contains(rr, `net/http.Header.Get)(`) && strings.Contains(rr, `"If-None-Match"`) && l == `""`:
			res, known = !hdr, true
		}
		if !known {
			return false, false
		}
		if x.Op == token.NEQ {
			res = !res
		}
		return res, true
	}
	return false, false
}

func isBoolT(t types.Type) bool {
	b, ok := t.Underlying().(*types.Basic)
	return ok && b.Info()&types.IsBoolean != 0
}

func r19_1(r *Report, p *Program, impls []types.Type) {
	const rule = "R19.1"
	r.Rule(rule, "status gate table of every webhookAbstract implementation")
	r.Floor(rule, 2)
	if len(impls) < 2 {
		r.Fail(rule, "hooks.webhookAbstract", "-", "anchor-lost", sf("found %d implementations of webhookAbstract, expected >= 2", len(impls)))
	}
	for _, t := range impls {
		f := implMethod(p, t, "isStatusSupported")
		if f == nil {
			r.Fail(rule, t.String()+".isStatusSupported", "-", "anchor-lost", "method not found")
			continue
		}
		usesCache := false
		if s, isS := t.Underlying().(*types.Struct); isS && s.NumFields() > 0 {
			usesCache = true // an implementation with state is an ETag-style one
		}
		paths, err := engine.EnumPaths(f, engine.EnumOpts{})
		if err != nil {
			r.Fail(rule, FK(f), p.Pos(f.Pos()), "undecided", err.Error())
			continue
		}
		ok, why := true, ""
		var rows []map[string]interface{}
		for _, st := range []int64{200, 304, 412, 500, 201, 404} {
			for _, hdr := range []bool{false, true} {
				// find the path consistent with (st, hdr)
				var got []bool
				for _, pa := range paths {
					rt, isR := pa.End.(*ssa.Return)
					if !isR {
						continue
					}
					consistent := true
					for _, l := range pa.Lits {
						b, known := evalStatusExpr(l.Cond, st, hdr)
						if !known {
							ok, why = false, "gate branches on something other than status code / If-None-Match: "+l.Atom
							continue
						}
						if b != l.Pos {
							consistent = false
						}
					}
					if !consistent {
						continue
					}
					b, known := evalStatusExpr(rt.Results[0], st, hdr)
					if !known {
						ok, why = false, "gate returns "+E(rt.Results[0])
						continue
					}
					got = append(got, b)
				}
				want := st == 200
				if usesCache && (st == 304 || st == 412) {
					want = hdr
				}
				res := len(got) == 1 && got[0] == want
				rows = append(rows, map[string]interface{}{"status": st, "if_none_match_sent": hdr, "supported": got, "want": want})
				if !res && ok {
					ok, why = false, sf("status %d with If-None-Match sent=%v is judged %v, want %v", st, hdr, got, want)
				}
			}
		}
		r.Table("R19.1 "+Short(FK(f)), rows)
		r.Check(rule, FK(f), p.Pos(f.Pos()), ok, "gate table matches (abstract evaluation over 6 status classes × header)", why)
	}
}

// hookCallOrder (C19 R19.2, reused by C12/C13): order of checks in webhookExecutor.Call.
func hookCallOrder(r *Report, p *Program, rule string) {
	r.Rule(rule, "Call: transport error ⇒ error; unsupported status ⇒ error before adjustResponse (cache write) and decoding; adjust/decode errors returned")
	call := fn(r, p, rule, "hooks.webhookExecutor.Call")
	if call == nil {
		return
	}
	// Call together with the helpers it may have been split into
	rg := regionOf(p, call)
	one := func(suf string) *engine.CallSite {
		cs := rg.calls(suf)
		if len(cs) != 1 {
			r.Fail(rule, FK(call)+"→"+suf, p.Pos(call.Pos()), "anchor-lost", sf("expected exactly one call of %s, found %d", suf, len(cs)))
			return nil
		}
		return &cs[0]
	}
	do, iss, adj, um := one("hooks.HttpClientInterface.Do"), one("webhookAbstract.isStatusSupported"), one("webhookAbstract.adjustResponse"), one("json.UnmarshalStrict")
	if do == nil || iss == nil || adj == nil || um == nil {
		return
	}
	supported := func(l Lit) bool { return l.Pos && engine.SameValue(l.Cond, iss.Instr.Value()) }
	for name, t := range map[string]*engine.CallSite{"adjustResponse": adj, "UnmarshalStrict": um} {
		w := rg.unguarded(t.Instr.(ssa.Instruction), supported)
		r.Check(rule, FK(call)+"[supported≺"+name+"]", p.InstrPos(t.Instr), w == nil, name+" only for a supported status", name+" runs before / without the status gate: a rejected response (e.g. a 5xx carrying an ETag) can be cached or decoded; "+pathWhy(w))
	}
	// unsupported ⇒ error return (of the function holding the gate, handed up to Call's caller)
	gf := iss.Fn
	var from []engine.Point
	for _, b := range engine.BlocksInl(gf) {
		for i := range b.Succs {
			if l, ok := engine.EdgeLit(b, i); ok && !l.Pos && engine.SameValue(l.Cond, iss.Instr.Value()) {
				from = append(from, engine.Point{B: b.Succs[i]})
			}
		}
	}
	ok, why := len(from) > 0, "the result of isStatusSupported is not branched on"
	if ok {
		if w := (engine.Query{Fn: gf, From: from, Target: func(in ssa.Instruction) bool {
			rt, isR := in.(*ssa.Return)
			return isR && !isErrReturn(rt)
		}}).Find(); w != nil {
			ok, why = false, "an unsupported status does not end in an error"
		}
	}
	if ok && gf != call {
		ok, why = rg.propagates(rg.site[gf])
	}
	r.Check(rule, FK(call)+"[unsupported⇒error]", p.InstrPos(iss.Instr), ok, "unsupported status ⇒ error return", why)
	// the gate looks at this request/response
	okA := rg.same(iss.Arg(1), engine.ResultValue(do.Instr, 0)) && rg.same(adj.Arg(3), engine.ResultValue(do.Instr, 0)) && rg.same(iss.Arg(0), do.Arg(0))
	r.Check(rule, FK(call)+"[gate-args]", p.InstrPos(iss.Instr), okA, "gate and adjustResponse see the request sent and the response received", "isStatusSupported/adjustResponse are not applied to the request sent and the response received")
	// decode what adjustResponse returned, into the caller's response
	into, _ := rg.up(um.Common().Args[1]).(*ssa.Parameter)
	okD := rg.same(um.Common().Args[0], engine.ResultValue(adj.Instr, 0)) && into != nil && into.Parent() == call && len(call.Params) > 2 && into == call.Params[2]
	r.Check(rule, FK(call)+"[decode-adjusted-body]", p.InstrPos(um.Instr), okD, "decodes adjustResponse's body into the caller's response", "the decoded bytes are not adjustResponse's result / not decoded into the caller's response")
	// ownership: the bytes handed to adjustResponse (which may cache them) are the fresh result of io.ReadAll
	okB := false
	for _, ra := range rg.calls("io.ReadAll") {
		if rg.same(adj.Arg(2), engine.ResultValue(ra.Instr, 0)) {
			okB = true
		}
	}
	r.Check(rule, FK(call)+"[body-owned]", p.InstrPos(adj.Instr), okB, "response bytes given to adjustResponse are io.ReadAll's own allocation", "the body handed to adjustResponse is "+E(adj.Arg(2))+", not the freshly allocated io.ReadAll result: a cached body may alias memory that is reused (e.g. a pooled buffer) and stop matching its ETag")
	// strictness: default option set (duplicate + unknown fields)
	okO := len(um.Common().Args) == 3 && isNilConst(um.Common().Args[2])
	r.Check(rule, FK(call)+"[strict-options-default]", p.InstrPos(um.Instr), okO, "UnmarshalStrict with its default options (unknown and duplicate fields)", "UnmarshalStrict is given explicit options: that replaces the default set, so duplicate or unknown fields are no longer reported in strict mode")
	for name, t := range map[string]*engine.CallSite{"Do": do, "adjustResponse": adj, "UnmarshalStrict": um} {
		ok, why := rg.propagates(*t)
		r.Check(rule, FK(call)+"→"+name+"[error]", p.InstrPos(t.Instr), ok, "error returned", why)
	}
	// the ETag header enrichment happens before the request is sent
	if en := one("webhookAbstract.enrichHeaders"); en != nil {
		w := rg.bypass(do.Instr.(ssa.Instruction), func(in ssa.Instruction) bool { return in == en.Instr.(ssa.Instruction) })
		r.Check(rule, FK(call)+"[enrich≺Do]", p.InstrPos(en.Instr), w == nil && rg.same(en.Arg(0), do.Arg(0)), "headers enriched on the request that is sent", "enrichHeaders does not precede Do on the same request")
	}
}

func r19_3(r *Report, p *Program) {
	const rule = "R19.3"
	r.Rule(rule, "after a successful decode: error only across strict mode ∧ non-empty strict-error list")
	r.Floor(rule, 2)
	root := fn(r, p, rule, "hooks.webhookExecutor.Call")
	if root == nil {
		return
	}
	rg := regionOf(p, root)
	ums := rg.calls("json.UnmarshalStrict")
	if len(ums) != 1 {
		return
	}
	um := ums[0]
	// the function that decodes (Call itself, or the helper it was split into)
	call := um.Fn
	rootKey := FK(root)
	strictList := engine.ResultValue(um.Instr, 0)
	var from []engine.Point
	succ := successEdgeOf(um.Instr)
	for _, b := range engine.BlocksInl(call) {
		for i := range b.Succs {
			if l, ok := engine.EdgeLit(b, i); ok && succ(l) {
				from = append(from, engine.Point{B: b.Succs[i]})
			}
		}
	}
	if len(from) == 0 {
		r.Fail(rule, rootKey, p.InstrPos(um.Instr), "undecided", "UnmarshalStrict's error is not tested")
		return
	}
	strictOn := func(l *Lit) bool {
		if l == nil || !l.Pos {
			return false
		}
		c, isC := l.Cond.(*ssa.Call)
		if !isC || !strings.HasSuffix(engine.CallKey(c.Common()), ".shouldReportStrictErrors") || len(c.Common().Args) == 0 {
			return false
		}
		recv, _ := rg.up(c.Common().Args[0]).(*ssa.Parameter)
		return recv != nil && recv.Parent() == root && recv == root.Params[0]
	}
	nonEmpty := func(l *Lit) bool {
		if l == nil || strictList == nil {
			return false
		}
		dep := func(v ssa.Value) bool {
			return v != nil && engine.BackSlice(v, func(x ssa.Value) bool { return x == strictList }, func(k string) bool {
				return k == "builtin.len" || strings.HasSuffix(k, "errors.NewAggregate")
			})
		}
		// len(strictErrors) > 0  ⇒  (0 < len(x)) positive; len(x) != 0 ⇒ (len(x)==0) negative; aggregate != nil
		if l.Op == token.LSS && l.Pos && E(l.X) == "0" && strings.HasPrefix(E(l.Y), "call(builtin.len)(") && dep(l.Y) {
			return true
		}
		if l.Op == token.EQL && !l.Pos && strings.HasPrefix(E(l.X), "call(builtin.len)(") && E(l.Y) == "0" && dep(l.X) {
			return true
		}
		if v, isNil, ok := l.NilTest(); ok && !isNil && dep(v) {
			return true
		}
		return false
	}
	errRet := func(in ssa.Instruction) bool { rt, ok := in.(*ssa.Return); return ok && isErrReturn(rt) }
	w1 := engine.Query{Fn: call, From: from, Target: errRet, CutEdge: func(b *ssa.BasicBlock, i int, l *Lit) bool { return strictOn(l) }}.Find()
	r.Check(rule, rootKey+"[strict-error⇒strict-mode]", p.InstrPos(um.Instr), w1 == nil, "in loose mode a decoded response is never rejected", "a successfully decoded response is rejected outside strict mode; "+pathWhy(w1))
	w2 := engine.Query{Fn: call, From: from, Target: errRet, CutEdge: func(b *ssa.BasicBlock, i int, l *Lit) bool { return nonEmpty(l) }}.Find()
	r.Check(rule, rootKey+"[strict-error⇒violations-exist]", p.InstrPos(um.Instr), w2 == nil, "strict mode rejects only when there are strict errors", "in strict mode a well-formed response (no unknown or duplicate fields) is rejected: the 'strict validation failed' error is returned without testing that the strict-error list is non-empty")
	// strict ∧ violations ⇒ rejected
	w3 := engine.Query{Fn: call, From: from, Target: func(in ssa.Instruction) bool { rt, ok := in.(*ssa.Return); return ok && engine.ReturnsNilError(rt) },
		CutEdge: func(b *ssa.BasicBlock, i int, l *Lit) bool {
			if l == nil {
				return false
			}
			neg := l.Negate()
			return strictOn(&neg) || nonEmpty(&neg)
		}}.Find()
	okUp, whyUp := true, ""
	if call != root {
		okUp, whyUp = rg.propagates(rg.site[call])
	}
	r.Check(rule, rootKey+"[strict∧violations⇒error]", p.InstrPos(um.Instr), w3 == nil && okUp, "strict mode with strict errors ⇒ rejected", "strict mode accepts a response with unknown/duplicate fields"+whyUp)
	if f := fn(r, p, rule, "hooks.webhookExecutor.shouldReportStrictErrors"); f != nil {
		ok := false
		for _, b := range engine.BlocksInl(f) {
			for _, in := range b.Instrs {
				if rt, isR := in.(*ssa.Return); isR && E(rt.Results[0]) == `(p0.responseUnmarshallMode == "strict")` {
					ok = true
				}
			}
		}
		r.Check(rule, FK(f), p.Pos(f.Pos()), ok, "strict ⇔ mode == strict", "shouldReportStrictErrors is not 'mode == strict'")
	}
}

func r19_4(r *Report, p *Program, impls []types.Type) {
	const rule = "R19.4"
	r.Rule(rule, "a 304/412 is answered with the body cached under exactly the ETag that was sent")
	r.Floor(rule, 4)
	n := 0
	for _, t := range impls {
		adj := implMethod(p, t, "adjustResponse")
		enr := implMethod(p, t, "enrichHeaders")
		if adj == nil || enr == nil {
			r.Fail(rule, t.String(), "-", "anchor-lost", "adjustResponse/enrichHeaders not found")
			continue
		}
		adjR := regionOf(p, adj) // adjustResponse and the single-call-site helpers it may have been split into
		gets := adjR.calls("cache.Cache.Get")
		sets := adjR.calls("cache.Cache.Set")
		if len(gets) == 0 && len(sets) == 0 {
			// stateless implementation: must return the body it was given
			ok := true
			for _, b := range engine.BlocksInl(adj) {
				for _, in := range b.Instrs {
					if rt, isR := in.(*ssa.Return); isR && E(rt.Results[0]) != "p3" {
						ok = false
					}
				}
			}
			r.Check(rule, FK(adj)+"[identity]", p.Pos(adj.Pos()), ok, "stateless: returns the received body", "a stateless adjustResponse does not return the received body")
			continue
		}
		n++
		// returns of a cached Response
		for i, g := range gets {
			entry := engine.ResultValue(g.Instr, 0)
			for _, b := range engine.BlocksInl(g.Fn) {
				for _, in := range b.Instrs {
					rt, isR := in.(*ssa.Return)
					if !isR || entry == nil || !engine.DependsOnValue(rt.Results[0], entry, nil) {
						continue
					}
					w := adjR.unguarded(rt, func(l Lit) bool {
						if l.Op != token.EQL || !l.Pos {
							return false
						}
						a, bb := E(adjR.up(l.X)), E(adjR.up(l.Y))
						isTag := func(s string, v ssa.Value) bool {
							return strings.HasSuffix(s, ".Etag") && engine.DependsOnValue(v, entry, nil)
						}
						isHdr := func(s string) bool {
							return strings.Contains(s, "net/http.Header.Get)(p1.Header") && strings.Contains(s, `"If-None-Match"`)
						}
						return isTag(a, l.X) && isHdr(bb) || isTag(bb, l.Y) && isHdr(a)
					})
					r.Check(rule, sf("%s→cached-body#%d", FK(adj), i), p.InstrPos(in), w == nil, "cached body returned only if its ETag equals the If-None-Match that was sent", "the cache entry is re-read at response time and its body returned without comparing entry.Etag to the If-None-Match value sent with this request: a concurrent call for the same parent (e.g. another revision of a rolling update) may have replaced the entry, so a 304 is answered with another call's body")
					// also guarded by 304/412 and by the header having been sent
					w2 := adjR.unguarded(rt, func(l Lit) bool {
						return l.Pos && l.Op == token.EQL && strings.HasSuffix(E(l.X), ".StatusCode") && (E(l.Y) == "304" || E(l.Y) == "412")
					})
					r.Check(rule, sf("%s→cached-body#%d[only-on-304/412]", FK(adj), i), p.InstrPos(in), w2 == nil, "cached body only for 304/412", "a cached body can be returned for a status other than 304/412; "+pathWhy(w2))
				}
			}
		}
		// a 304/412 answer to our If-None-Match never falls through to the response's own body
		{
			nm := func(l Lit) bool {
				return l.Pos && l.Op == token.EQL && strings.HasSuffix(E(l.X), ".StatusCode") && (E(l.Y) == "304" || E(l.Y) == "412")
			}
			var from []engine.Point
			for _, b := range engine.BlocksInl(adj) {
				for i := range b.Succs {
					if l, ok := engine.EdgeLit(b, i); ok && nm(l) {
						from = append(from, engine.Point{B: b.Succs[i]})
					}
				}
			}
			okN, whyN := len(from) > 0, "no test for 304/412"
			if okN {
				w := engine.Query{Fn: adj, From: from, Target: func(in ssa.Instruction) bool {
					rt, isR := in.(*ssa.Return)
					if !isR || isErrReturn(rt) {
						return false
					}
					// a successful return that hands back the received body (p3) or anything not from the cache
					fromCache := false
					for _, g := range gets {
						if e := engine.ResultValue(g.Instr, 0); e != nil && engine.DependsOnValue(rt.Results[0], e, nil) {
							fromCache = true
						}
						// … or what a split-off helper returns, which in turn hands back the entry's body or an error
						if g.Fn != adj {
							if c := engine.DependsOnCall(rt.Results[0], func(k string) bool { return k == FK(g.Fn) }, nil); c != nil {
								fromCache = true
							}
						}
					}
					return !fromCache
				}, CutEdge: func(b *ssa.BasicBlock, i int, l *Lit) bool {
					// the header was not sent: an unsolicited 304 is rejected elsewhere (isStatusSupported)
					return l != nil && l.Pos && l.Op == token.EQL && strings.Contains(l.Atom, `"If-None-Match"`) && E(l.Y) == `""`
				}}.Find()
				if w != nil {
					okN, whyN = false, "a 304/412 answer to our If-None-Match can end in success with a body that is not the cached one (e.g. when the cache entry has expired meanwhile): the (empty or unrelated) body of the 304/412 itself is decoded as the hook's answer; "+pathWhy(w)
				}
			}
			r.Check(rule, FK(adj)+"[not-modified⇒cached∨error]", p.Pos(adj.Pos()), okN, "304/412 ⇒ cached body (ETag equal) or error", whyN)
		}
		// cache Set: body of this response with this response's ETag, non-empty
		for i, s := range sets {
			al, _ := engine.Unwrap(s.Arg(1)).(*ssa.Alloc)
			ok, why := al != nil, "cache entry is not a literal"
			if ok {
				body, tag := engine.FieldStore(al, "Response"), engine.FieldStore(al, "Etag")
				if body == nil || E(body) != "p3" {
					ok, why = false, "cached Response is not this response's body"
				}
				if tag == nil || !strings.Contains(E(tag), "net/http.Header.Get)(p4.Header") || !strings.Contains(E(tag), `"ETag"`) {
					ok, why = false, "cached Etag is not this response's ETag header"
				}
			}
			if ok {
				w := unguarded(adj, nil, s.Instr.(ssa.Instruction), func(l Lit) bool {
					return !l.Pos && l.Op == token.EQL && strings.Contains(l.Atom, `"ETag"`) && E(l.Y) == `""`
				})
				if w != nil {
					ok, why = false, "an entry is cached without an ETag"
				}
			}
			// same key for Get and Set
			if ok && len(gets) > 0 && E(adjR.up(s.Arg(0))) != E(adjR.up(gets[0].Arg(0))) {
				ok, why = false, "cache is written under a different key than it is read"
			}
			r.Check(rule, sf("%s→Set#%d", FK(adj), i), p.InstrPos(s.Instr), ok, "entry = (this body, this ETag) under the read key", why)
		}
		// enrichHeaders: If-None-Match from the entry just read, only if it exists
		eg := callsTo(enr, false, "cache.Cache.Get")
		hs := callsTo(enr, false, "net/http.Header.Set")
		ok, why := len(eg) == 1 && len(hs) == 1, "enrichHeaders does not read the cache once and set one header"
		if ok {
			entry := engine.ResultValue(eg[0].Instr, 0)
			name, _ := constStr(hs[0].Arg(0))
			switch {
			case name != "If-None-Match":
				ok, why = false, "sets header "+name
			case !strings.HasSuffix(E(hs[0].Arg(1)), ".Etag") || !engine.DependsOnValue(hs[0].Arg(1), entry, nil):
				ok, why = false, "If-None-Match is not the Etag of the entry just read"
			case !strings.HasPrefix(E(hs[0].Recv()), "p1.Header"):
				ok, why = false, "header is not set on the outgoing request"
			default:
				w := unguarded(enr, nil, hs[0].Instr.(ssa.Instruction), func(l Lit) bool {
					return l.Pos && engine.SameValue(l.Cond, engine.ResultValue(eg[0].Instr, 1))
				})
				if w != nil {
					ok, why = false, "If-None-Match set although no cache entry exists"
				}
			}
			if ok && len(gets) > 0 && E(eg[0].Arg(0)) != E(adjR.up(gets[0].Arg(0))) {
				ok, why = false, "enrichHeaders and adjustResponse use different cache keys"
			}
		}
		r.Check(rule, FK(enr), p.Pos(enr.Pos()), ok, "If-None-Match := cached entry's Etag (same key as adjustResponse)", why)
	}
	if n == 0 {
		r.Fail(rule, "etag implementation", "-", "anchor-lost", "no webhookAbstract implementation uses a cache")
	}
}

func r19_5(r *Report, p *Program) {
	const rule = "R19.5"
	r.Rule(rule, "nil ResponseUnmarshallMode ⇒ loose")
	r.Floor(rule, 1)
	f := fn(r, p, rule, "hooks.responseUnmarshallMode")
	if f == nil {
		return
	}
	paths, err := engine.EnumPaths(f, engine.EnumOpts{})
	ok, why := err == nil, ""
	for _, pa := range paths {
		rt, isR := pa.End.(*ssa.Return)
		if !isR {
			continue
		}
		isNil := val(pa, -1, func(a string) bool { return a == "(p0 == nil)" })
		ret := E(rt.Results[0])
		switch {
		case isNil == 1 && ret != `"loose"`:
			ok, why = false, "nil mode yields "+ret
		case isNil == -1 && ret != "*p0" && ret != "load(p0)" && !strings.HasSuffix(ret, "p0"):
			ok, why = false, "non-nil mode yields "+ret
		case isNil == 0:
			ok, why = false, "mode pointer not tested"
		}
	}
	r.Check(rule, FK(f), p.Pos(f.Pos()), ok, "nil ⇒ loose, else *mode", why)
	// the executor is built with it
	if nw := fn(r, p, rule, "hooks.newWebhookExecutor"); nw != nil {
		ok := false
		for _, b := range engine.BlocksInl(nw) {
			for _, in := range b.Instrs {
				if st, isS := in.(*ssa.Store); isS && strings.HasSuffix(E(st.Addr), ".responseUnmarshallMode") && E(st.Val) == "call(hooks.responseUnmarshallMode)(p3)" {
					ok = true
				}
			}
		}
		r.Check(rule, FK(nw), p.Pos(nw.Pos()), ok, "executor.mode = responseUnmarshallMode(configured)", "executor's mode is not derived through responseUnmarshallMode")
	}
}

// etagEnabledTable: ETag support is on ⇔ the webhook has an etag block ∧ `enabled` is given ∧ it is true
// (the documented default is off).
func etagEnabledTable(r *Report, p *Program, rule string) {
	r.Rule(rule, "isEtagEnabled answers true ⇔ Etag != nil ∧ Etag.Enabled != nil ∧ *Etag.Enabled")
	r.Floor(rule, 1)
	f := fn(r, p, rule, "hooks.isEtagEnabled")
	if f == nil {
		return
	}
	paths, err := engine.EnumPaths(f, engine.EnumOpts{})
	ok, why := err == nil, ""
	nTrue := 0
	for _, pa := range paths {
		if len(pa.Ret) != 1 {
			continue
		}
		block := -val(pa, -1, func(a string) bool { return a == "(p0.Etag == nil)" })
		given := -val(pa, -1, func(a string) bool { return a == "(p0.Etag.Enabled == nil)" })
		value := val(pa, -1, func(a string) bool { return a == "*p0.Etag.Enabled" || a == "load(p0.Etag.Enabled)" })
		c, isC := pa.Ret[0].(*ssa.Const)
		switch {
		case isC && c.Value != nil && c.Value.String() == "true":
			nTrue++
			if !(block == 1 && given == 1 && value == 1) {
				ok, why = false, sf("ETag support is reported on with block=%d enabled-given=%d enabled-value=%d (an etag block that leaves `enabled` out turns conditional requests on)", block, given, value)
			}
		case isC && c.Value != nil && c.Value.String() == "false":
			if block == 1 && given == 1 && value == 1 {
				ok, why = false, "ETag support is reported off although enabled: true"
			}
		default:
			// returns the value of *Enabled itself: needs block ∧ given
			nTrue++
			if !(block == 1 && given == 1) {
				ok, why = false, "the answer is the value of a field read without block ∧ enabled-given"
			}
		}
	}
	if nTrue == 0 {
		ok, why = false, "ETag support can never be on"
	}
	r.Check(rule, FK(f), p.Pos(f.Pos()), ok, "on ⇔ block ∧ given ∧ true", why)
}
