package rules

import "strings"

// propertyFiles: the files each property is anchored in (properties.jsonl, anchors.files; plus common.go and discovery.go,
// which no property names but several depend on) — used to list the repository-wide belief rules (argument roles,
// append/compare operands) under the properties whose code they concern.
var propertyFiles = map[string][]string{
	"C01": {"pkg/controller/composite/controller.go", "pkg/controller/decorator/controller.go", "pkg/controller/common/manage_children.go", "pkg/dynamic/apply/apply.go", "pkg/controller/composite/controller_revision.go"},
	"C02": {"pkg/controller/common/manage_children.go", "pkg/third_party/kubernetes/controller_ref_manager.go", "pkg/dynamic/controllerref/unstructured.go", "pkg/controller/decorator/controller.go", "pkg/controller/composite/controller.go", "pkg/controller/composite/controller_revision.go"},
	"C03": {"pkg/controller/composite/controller.go", "pkg/controller/decorator/controller.go", "pkg/controller/common/api/v1/common.go", "pkg/controller/common/api/v2/common.go", "pkg/controller/common/api/api.go", "pkg/controller/composite/api/v1/hooks.go", "pkg/controller/decorator/api/v1/hooks.go", "pkg/controller/composite/hooks.go", "pkg/controller/decorator/hooks.go", "pkg/controller/common/common.go"},
	"C04": {"pkg/third_party/kubernetes/controller_ref_manager.go", "pkg/dynamic/controllerref/controller_ref.go", "pkg/dynamic/controllerref/unstructured.go", "pkg/dynamic/controllerref/controller_revision.go", "pkg/controller/composite/controller.go", "pkg/controller/composite/controller_revision.go", "pkg/dynamic/clientset/clientset.go", "pkg/client/generated/clientset/internalclientset/typed/metacontroller/v1alpha1/controllerrevision_expansion.go"},
	"C05": {"pkg/dynamic/apply/apply.go", "pkg/controller/common/manage_children.go", "pkg/controller/common/diff.go"},
	"C06": {"pkg/controller/common/manage_children.go", "pkg/controller/composite/rolling_update.go", "pkg/controller/decorator/controller.go"},
	"C07": {"pkg/controller/composite/rolling_update.go", "pkg/controller/composite/controller_revision.go", "pkg/dynamic/object/status.go", "pkg/controller/common/api/v1/common.go", "pkg/controller/common/api/v2/common.go"},
	"C08": {"pkg/controller/composite/rolling_update.go", "pkg/controller/composite/controller_revision.go", "pkg/controller/common/api/v2/common.go", "pkg/controller/common/api/v1/common.go"},
	"C09": {"pkg/controller/composite/controller_revision.go", "pkg/controller/composite/controller.go", "pkg/controller/composite/rolling_update.go", "pkg/controller/common/manage_children.go"},
	"C10": {"pkg/controller/common/finalizer/finalizer.go", "pkg/controller/composite/controller.go", "pkg/controller/composite/hooks.go", "pkg/controller/decorator/controller.go", "pkg/controller/decorator/hooks.go", "pkg/dynamic/clientset/clientset.go", "pkg/controller/composite/controller_revision.go"},
	"C11": {"pkg/controller/composite/controller.go", "pkg/dynamic/clientset/clientset.go", "pkg/controller/common/common.go"},
	"C12": {"pkg/controller/composite/controller.go", "pkg/controller/decorator/controller.go", "pkg/controller/common/manage_children.go", "pkg/dynamic/clientset/clientset.go", "pkg/third_party/kubernetes/controller_ref_manager.go", "pkg/hooks/webhook.go"},
	"C13": {"pkg/hooks/webhook.go", "pkg/controller/composite/hooks.go", "pkg/controller/decorator/hooks.go", "pkg/controller/composite/api/v1/hooks.go", "pkg/controller/decorator/api/v1/hooks.go", "pkg/controller/common/api/v1/common.go", "pkg/controller/common/api/v2/common.go", "pkg/controller/composite/rolling_update.go", "pkg/dynamic/object/status.go", "pkg/controller/composite/controller.go", "pkg/controller/decorator/controller.go", "pkg/controller/common/customize/manager.go"},
	"C14": {"pkg/controller/composite/controller.go", "pkg/controller/decorator/controller.go", "pkg/controller/common/customize/manager.go", "pkg/dynamic/informer/informer.go", "pkg/controller/common/common.go"},
	"C15": {"pkg/controller/common/customize/manager.go", "pkg/controller/common/api/v2/common.go", "pkg/controller/common/customize/api/v1/hooks.go", "pkg/cache/cache.go"},
	"C16": {"pkg/controller/decorator/controller.go", "pkg/controller/decorator/selector.go", "pkg/controller/decorator/hooks.go", "pkg/controller/decorator/api/v1/hooks.go"},
	"C17": {"pkg/controller/decorator/controller.go", "pkg/controller/composite/controller_revision.go", "pkg/dynamic/apply/apply.go", "pkg/controller/common/manage_children.go", "pkg/dynamic/clientset/clientset.go", "pkg/controller/common/customize/manager.go", "pkg/controller/composite/controller.go", "pkg/hooks/webhook_etag.go"},
	"C18": {"pkg/dynamic/informer/factory.go", "pkg/dynamic/informer/informer.go"},
	"C19": {"pkg/hooks/webhook.go", "pkg/hooks/webhook_etag.go", "pkg/hooks/webhook_plain.go", "pkg/hooks/hooks.go", "pkg/controller/composite/controller_revision.go"},
	"C20": {"pkg/controller/composite/metacontroller.go", "pkg/controller/decorator/metacontroller.go", "pkg/controller/composite/controller.go", "pkg/controller/decorator/controller.go", "pkg/dynamic/informer/factory.go", "pkg/hooks/webhook.go", "pkg/metrics/http.go", "pkg/controller/common/customize/manager.go", "pkg/dynamic/discovery/discovery.go", "pkg/controller/common/common.go"},
}

func init() {
	for id := range propertyFiles {
		if Controls[id] == nil {
			Controls[id] = map[string][2]string{}
		}
		Controls[id]["R"+strings.TrimPrefix(id, "C")+".90"] = [2]string{"badRolesSwapped", "goodRoles"}
	}
}

// Generic runs the repository-wide rules for property id (after the property's own rules).
func Generic(id string, r *Report, p *Program) {
	files := propertyFiles[id]
	if len(files) == 0 {
		return
	}
	argumentRolesAgree(r, p, "R"+strings.TrimPrefix(id, "C")+".90", files...)
}
