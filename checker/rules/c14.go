package rules

import (
	"go/types"
	"strings"

	"mcvet/engine"

	"golang.org/x/tools/go/ssa"
)

func init() {
	Registry["C14"] = checkC14
}

func checkC14(r *Report, p *Program) {
	r.Explanation = "Decides, for the event path, that a missed trigger cannot come from a missing registration, a missing branch or a wrong filter: (R14.1) every ResourceEventHandlerFuncs literal sets Add/Update/Delete, every informer a controller holds gets handlers in Start, related informers get theirs before being stored; (R14.2) the queue's Add is reachable (call graph) from every handler function; (R14.3) the complete drop tables of the handlers, both siblings: parent events are dropped exactly for ¬finalizer∧¬match; updates with ignoreStatusChanges exactly for equal generation, labels, annotations and no deletion timestamp on the NEW object; child/related updates exactly for equal resourceVersion; tombstones are unwrapped (value type DeletedFinalStateUnknown, then its Obj); a controlled child wakes exactly the parent resolved by group, kind, name and UID that matches or has the finalizer; orphans fan out (composite) to parents whose non-empty selector matches, listed in the child's namespace when the parent is namespaced; (R14.4) related updates notify for old and new object, and rules are obtained through the hook-calling getter (not a cache-only read); (R14.5) queue keys parse back (shared with C12)."
	r.NotDecided = "informer delivery guarantees of client-go; wall-clock resync."
	r14_1(r, p)
	r14_3(r, p)
	r14_4(r, p)
	r12_5(r, p) // R12.5 rule id kept: same obligations
	keyCompleteness(r, p, "R14.5", "informer.resourceKey")
	r14_6(r, p)
	// the trigger predicate accepts exactly what the listing side selects (shared with C15)
	r15_2(r, p)
	// no event is lost between the replay of the cache to a new handler and its registration (shared with C18)
	r18_4(r, p)
	sharedMapsAliased(r, p, "R14.7")
	handedMapsFilled(r, p, "R14.8")
	parentSelectorTable(r, p, "R14.10")
	discoveryDefaults(r, p, "R14.11")
	tombstonesAreValues(r, p, "R14.12")
	getObjectTable(r, p, "R14.13")
	operandFromTheLoop(r, p, "R14.14")
	fanOutLoopsDoNotReturn(r, p, "R14.15")
	smallVerbClauses(r, p, "R14.16")
	relatedNotifyTable(r, p, "R14.9")
}

func handlerLiterals(p *Program) (out []struct {
	Fn    *ssa.Function
	Alloc *ssa.Alloc
}) {
	for _, f := range p.Scanned {
		for _, b := range engine.BlocksInl(f) {
			for _, in := range b.Instrs {
				if a, ok := in.(*ssa.Alloc); ok && strings.HasSuffix(a.Type().String(), "cache.ResourceEventHandlerFuncs") {
					out = append(out, struct {
						Fn    *ssa.Function
						Alloc *ssa.Alloc
					}{f, a})
				}
			}
		}
	}
	return
}

func fnOfValue(v ssa.Value) *ssa.Function {
	switch x := engine.ResolveLocal(v).(type) {
	case *ssa.Function:
		return lookThrough(x)
	case *ssa.MakeClosure:
		if f, ok := x.Fn.(*ssa.Function); ok {
			return lookThrough(f)
		}
	}
	return nil
}

func r14_1(r *Report, p *Program) {
	const rule = "R14.1"
	r.Rule(rule, "registration completeness")
	r.Floor(rule, 9)
	const rule2 = "R14.2"
	r.Rule(rule2, "every handler reaches queue.Add")
	r.Floor(rule2, 12)
	g := p.CG()
	adders := g.CanReach(p, func(f *ssa.Function) bool {
		return len(callsTo(f, false, "workqueue.TypedInterface.Add")) > 0
	})
	// the customize manager enqueues through a function value: treat functions calling p0.enqueueParent as reaching Add when every constructor call passes an enqueueing method
	viaField := map[*ssa.Function]bool{}
	for _, f := range p.Scanned {
		for _, b := range engine.BlocksInl(f) {
			for _, in := range b.Instrs {
				if c, ok := in.(*ssa.Call); ok && strings.HasSuffix(E(c.Common().Value), ".enqueueParent") && engine.CallKey(c.Common()) == "" {
					viaField[f] = true
				}
			}
		}
	}
	okField := true
	nCtor := 0
	for _, f := range p.Scanned {
		for _, cs := range callsTo(f, false, "customize.NewCustomizeManager") {
			nCtor++
			t := fnOfValue(cs.Common().Args[1])
			if t == nil || !adders[t] {
				okField = false
			}
		}
	}
	r.Check(rule2, "customize.NewCustomizeManager[enqueueParent→queue.Add]", "-", okField && nCtor >= 2, sf("%d constructor call sites pass an enqueueing function", nCtor), "a customize manager is constructed with an enqueueParent function that cannot reach queue.Add")
	reachField := g.CanReach(p, func(f *ssa.Function) bool { return viaField[f] })
	lits := handlerLiterals(p)
	for i, hl := range lits {
		c := sf("%s→ResourceEventHandlerFuncs#%d", FK(hl.Fn), i)
		missing := []string{}
		for _, fld := range []string{"AddFunc", "UpdateFunc", "DeleteFunc"} {
			v := engine.FieldStore(hl.Alloc, fld)
			if v == nil {
				missing = append(missing, fld)
				continue
			}
			h := fnOfValue(v)
			ok := h != nil && (adders[h] || (okField && reachField[h]))
			name := "?"
			if h != nil {
				name = Short(FK(h))
			}
			r.Check(rule2, c+"."+fld+"="+name, p.InstrPos(hl.Alloc), ok, "handler reaches queue.Add", "handler "+name+" cannot reach queue.Add: the event is never turned into a sync")
		}
		r.Check(rule, c, p.InstrPos(hl.Alloc), len(missing) == 0, "Add, Update and Delete handlers set", "handler literal lacks "+strings.Join(missing, ","))
	}
	// Start: every held informer gets handlers
	for _, pk := range []string{"controller/composite.parentController", "controller/decorator.decoratorController"} {
		st := fn(r, p, rule, pk+".Start")
		if st == nil {
			continue
		}
		got := map[string]bool{}
		for _, cs := range callsTo(st, false, "SharedInformer.AddEventHandler", "SharedInformer.AddEventHandlerWithResyncPeriod") {
			x := E(cs.Recv())
			for _, fld := range []string{"childInformers", "parentInformers", "parentInformer"} {
				if strings.Contains(x, "p0."+fld) {
					got[fld] = true
				}
			}
		}
		ok := got["childInformers"] && (got["parentInformers"] || got["parentInformer"])
		r.Check(rule, FK(st)+"[all-informers-handled]", p.Pos(st.Pos()), ok, sf("handlers added on %v", sortedSet(got)), sf("Start adds handlers only on %v: child and parent informers both need them", sortedSet(got)))
		// loops range over the whole container
		for _, l := range engine.RangeLoops(st) {
			x := E(l.X)
			if strings.HasPrefix(x, "slice(") && (strings.Contains(x, "Informers")) {
				r.Check(rule, FK(st)+"[whole-container]", p.Pos(st.Pos()), false, "", "Start skips some informers: ranges over "+x)
			}
		}
		// every path through Start (parent handler): one of the two registration calls happens
		pars := callsTo(st, false, "SharedInformer.AddEventHandler", "SharedInformer.AddEventHandlerWithResyncPeriod")
		var parentRegs []ssa.Instruction
		for _, cs := range pars {
			if strings.Contains(E(cs.Recv()), "p0.parentInformer") {
				parentRegs = append(parentRegs, cs.Instr.(ssa.Instruction))
			}
		}
		if strings.Contains(pk, "composite") {
			var goI ssa.Instruction
			for _, b := range engine.BlocksInl(st) {
				for _, in := range b.Instrs {
					if _, isGo := in.(*ssa.Go); isGo {
						goI = in
					}
				}
			}
			okP := goI != nil && bypass(st, goI, func(in ssa.Instruction) bool {
				for _, x := range parentRegs {
					if x == in {
						return true
					}
				}
				return false
			}) == nil
			r.Check(rule, FK(st)+"[parent-handler-on-all-paths]", p.Pos(st.Pos()), okP, "parent handler registered whether or not a resync period is set", "a path through Start registers no parent handler")
		}
	}
	if gc := fn(r, p, rule, "controller/common/customize.Manager.getRelatedClient"); gc != nil {
		adds := callsTo(gc, false, "SharedInformer.AddEventHandler")
		sets := callsTo(gc, false, "common.InformerMap.Set")
		ok := len(adds) == 1 && len(sets) == 1 && bypass(gc, sets[0].Instr.(ssa.Instruction), func(in ssa.Instruction) bool { return in == adds[0].Instr.(ssa.Instruction) }) == nil
		r.Check(rule, FK(gc)+"[handler≺store]", p.Pos(gc.Pos()), ok, "related informer gets its handlers before it is stored", "a related informer can be stored without event handlers")
	}
}

// dropTable enumerates f's paths; `enq` marks the instruction that forwards the
// event; on every normally returning path without it, need(path) must hold.
func dropTable(r *Report, p *Program, rule string, f *ssa.Function, what string, enq func(in ssa.Instruction) bool, need func(pa engine.Path) (bool, string)) {
	paths, err := engine.EnumPaths(f, engine.EnumOpts{Effect: enq})
	if err != nil {
		r.Fail(rule, FK(f), p.Pos(f.Pos()), "undecided", err.Error())
		return
	}
	ok, why := true, ""
	nDrop, nFwd := 0, 0
	for _, pa := range paths {
		if pa.EndKind != "return" {
			continue
		}
		if len(pa.Effects) > 0 {
			nFwd++
			continue
		}
		nDrop++
		if good, w := need(pa); !good {
			ok, why = false, w+" on ["+pa.Cond()+"]"
		}
	}
	if nFwd == 0 {
		ok, why = false, "the event is never forwarded"
	}
	r.Check(rule, FK(f)+"["+what+"]", p.Pos(f.Pos()), ok, sf("%d dropping paths all justified, %d forwarding paths", nDrop, nFwd), why)
}

func r14_3(r *Report, p *Program) {
	const rule = "R14.3"
	r.Rule(rule, "handler drop tables, both siblings")
	r.Floor(rule, 16)
	for _, pk := range []string{"controller/composite.parentController", "controller/decorator.decoratorController"} {
		comp := strings.Contains(pk, "composite")
		matchNeg := func(pa engine.Path, obj string) bool {
			if comp {
				return val(pa, -1, func(a string) bool {
					return strings.Contains(a, ".doNotMatchLabels)(") && strings.Contains(a, "GetLabels)("+obj)
				}) == 1
			}
			return val(pa, -1, func(a string) bool { return strings.Contains(a, "decoratorSelector.Matches)(p0.parentSelector, "+obj) }) == -1
		}
		finNeg := func(pa engine.Path, obj string) bool {
			return val(pa, -1, func(a string) bool {
				return strings.HasPrefix(a, "call(controllerutil.ContainsFinalizer)("+obj) && strings.HasSuffix(a, "p0.finalizer.Name)")
			}) == -1
		}
		// enqueueParentObject
		if f := fn(r, p, rule, pk+".enqueueParentObject"); f != nil {
			dropTable(r, p, rule, f, "drop⇔¬finalizer∧¬match", func(in ssa.Instruction) bool { return isCallTo(in, "workqueue.TypedInterface.Add") },
				func(pa engine.Path) (bool, string) {
					obj := "assert<*unstructured.Unstructured>(p1)#0"
					if matchNeg(pa, obj) && finNeg(pa, obj) {
						return true, ""
					}
					if pa.Has(false, func(a string) bool {
						return strings.HasSuffix(a, "#1 == nil)") && (strings.Contains(a, "KeyFunc") || strings.Contains(a, "parentQueueKey"))
					}) {
						return true, "" // key construction failed (reported via HandleError)
					}
					return false, "parent event dropped although it matches or carries the finalizer"
				})
			// Add's argument is the key
			for _, cs := range callsTo(f, false, "workqueue.TypedInterface.Add") {
				ok := strings.Contains(E(cs.Arg(0)), "KeyFunc") || strings.Contains(E(cs.Arg(0)), "parentQueueKey")
				r.Check(rule, FK(f)+"[adds-key-of-p1]", p.InstrPos(cs.Instr), ok && strings.Contains(E(cs.Arg(0)), "(p1)"), "enqueues the key of the event object", "enqueues "+E(cs.Arg(0)))
			}
		}
		// updateParentObject
		if f := fn(r, p, rule, pk+".updateParentObject"); f != nil {
			old, cur := "assert<*unstructured.Unstructured>(p1)#0", "assert<*unstructured.Unstructured>(p2)#0"
			dropTable(r, p, rule, f, "drop⇔ignoreStatusChanges∧nothing-relevant-changed", func(in ssa.Instruction) bool {
				c, ok := in.(*ssa.Call)
				return ok && strings.HasSuffix(engine.CallKey(c.Common()), ".enqueueParentObject") && E(c.Common().Args[1]) == "p2"
			}, func(pa engine.Path) (bool, string) {
				has := func(pos bool, sub ...string) bool {
					return pa.Has(pos, func(a string) bool {
						for _, s := range sub {
							if !strings.Contains(a, s) {
								return false
							}
						}
						return true
					})
				}
				switch {
				case !has(true, "IgnoreStatusChanges") || has(true, "IgnoreStatusChanges == nil"):
					return false, "update dropped without ignoreStatusChanges being set and true"
				case !comp && !(has(true, ".APIVersion == call(unstructured.Unstructured.GetAPIVersion)("+old) || has(true, "call(unstructured.Unstructured.GetAPIVersion)("+old, ".APIVersion", " == ")):
					return false, "update dropped on the strength of a resource rule whose apiVersion was not found equal to the parent's: another rule's ignoreStatusChanges decides"
				case !comp && !(has(true, ".Kind == call(unstructured.Unstructured.GetKind)("+old) || has(true, "call(unstructured.Unstructured.GetKind)("+old, ".Kind", " == ")):
					return false, "update dropped on the strength of a resource rule whose kind was not found equal to the parent's: another rule's ignoreStatusChanges decides"
				case !has(true, "GetGeneration)("+old, "GetGeneration)("+cur, " == "):
					return false, "update dropped without comparing old and new generation"
				case !has(true, "reflect.DeepEqual", "GetLabels)("+old, "GetLabels)("+cur):
					return false, "update dropped without equal labels (old vs new)"
				case !has(true, "reflect.DeepEqual", "GetAnnotations)("+old, "GetAnnotations)("+cur):
					return false, "update dropped without equal annotations (old vs new)"
				case !has(true, "(call(unstructured.Unstructured.GetDeletionTimestamp)("+cur+") == nil)"):
					return false, "update dropped without testing that the NEW object has no deletion timestamp (the update that starts deletion would be lost)"
				}
				return true, ""
			})
		}
		// child update: resourceVersion
		if f := fn(r, p, rule, pk+".onChildUpdate"); f != nil {
			dropTable(r, p, rule, f, "drop⇔same-resourceVersion", func(in ssa.Instruction) bool {
				c, ok := in.(*ssa.Call)
				return ok && strings.HasSuffix(engine.CallKey(c.Common()), ".onChildAdd") && E(c.Common().Args[1]) == "p2"
			}, func(pa engine.Path) (bool, string) {
				if pa.Has(true, func(a string) bool {
					return strings.Contains(a, "GetResourceVersion)(assert<*unstructured.Unstructured>(p1)") && strings.Contains(a, "GetResourceVersion)(assert<*unstructured.Unstructured>(p2)") && strings.Contains(a, " == ")
				}) {
					return true, ""
				}
				return false, "child update dropped although the resourceVersion changed"
			})
		}
		// onChildAdd
		if f := fn(r, p, rule, pk+".onChildAdd"); f != nil {
			child := "assert<*unstructured.Unstructured>(p1)"
			dropTable(r, p, rule, f, "add-table", func(in ssa.Instruction) bool {
				return isCallTo(in, ".enqueueParentObject", ".onChildDelete")
			}, func(pa engine.Path) (bool, string) {
				ref := val(pa, -1, func(a string) bool { return a == "(call(metav1.GetControllerOf)("+child+") == nil)" })
				switch {
				case ref == -1:
					if pa.Has(true, func(a string) bool {
						return strings.Contains(a, ".resolveControllerRef)(") && strings.HasSuffix(a, " == nil)")
					}) {
						return true, ""
					}
					return false, "controlled child dropped although its owner resolves"
				case ref == 1 && comp:
					if pa.Has(true, func(a string) bool {
						return strings.Contains(a, "builtin.len)(call(controller/composite.parentController.findPotentialParents") && strings.HasSuffix(a, " == 0)")
					}) {
						return true, ""
					}
					// zero-length loop over the candidates
					if pa.Has(false, func(a string) bool {
						return strings.Contains(a, " < call(builtin.len)(call(controller/composite.parentController.findPotentialParents")
					}) {
						return true, ""
					}
					return false, "orphan dropped without consulting findPotentialParents"
				case ref == 1 && !comp:
					return true, "" // decorators do not adopt
				}
				return false, "child event dropped without looking at its controller reference"
			})
			// deletion pending ⇒ onChildDelete
			okD := false
			for _, cs := range callsTo(f, false, ".onChildDelete") {
				w := unguarded(f, nil, cs.Instr.(ssa.Instruction), func(l Lit) bool {
					v, isNil, ok := l.NilTest()
					return ok && !isNil && strings.HasPrefix(E(v), "call(unstructured.Unstructured.GetDeletionTimestamp)("+child)
				})
				okD = w == nil
			}
			r.Check(rule, FK(f)+"[deleting⇒onChildDelete]", p.Pos(f.Pos()), okD, "a child pending deletion is treated as deleted", "a child with a deletion timestamp is not routed to onChildDelete")
			if comp {
				// orphan: enqueue every candidate
				okO := false
				for _, l := range engine.RangeLoops(f) {
					if strings.Contains(E(l.X), "findPotentialParents)(") && !strings.HasPrefix(E(l.X), "slice(") {
						for _, cs := range callsTo(f, false, ".enqueueParentObject") {
							if l.Contains(cs.Instr.(ssa.Instruction)) && engine.SameValue(cs.Arg(0), l.Val) {
								okO = true
							}
						}
					}
				}
				r.Check(rule, FK(f)+"[orphan-fanout]", p.Pos(f.Pos()), okO, "every potential parent is enqueued", "an orphan does not wake every matching parent")
			}
			// resolve args: child's namespace and its controllerRef
			for _, cs := range callsTo(f, false, ".resolveControllerRef") {
				ok := E(cs.Arg(0)) == "call(unstructured.Unstructured.GetNamespace)("+child+")" && E(cs.Arg(1)) == "call(metav1.GetControllerOf)("+child+")"
				r.Check(rule, FK(f)+"[resolve-args]", p.InstrPos(cs.Instr), ok, "resolves (child namespace, child's controllerRef)", "resolveControllerRef is given "+E(cs.Arg(0))+", "+E(cs.Arg(1)))
			}
		}
		// onChildDelete: tombstones
		if f := fn(r, p, rule, pk+".onChildDelete"); f != nil {
			tombstoneUnwrap(r, p, rule, f, func(in ssa.Instruction) bool { return isCallTo(in, ".enqueueParentObject") })
			dropTable(r, p, rule, f, "delete-table", func(in ssa.Instruction) bool { return isCallTo(in, ".enqueueParentObject") },
				func(pa engine.Path) (bool, string) {
					switch {
					case pa.Has(true, func(a string) bool {
						return strings.HasPrefix(a, "(call(metav1.GetControllerOf)(") && strings.HasSuffix(a, " == nil)")
					}):
						return true, ""
					case pa.Has(true, func(a string) bool {
						return strings.Contains(a, ".resolveControllerRef)(") && strings.HasSuffix(a, " == nil)")
					}):
						return true, ""
					case pa.Has(false, func(a string) bool { return a == "assert<*unstructured.Unstructured>(p1)#1" }) &&
						!pa.Has(true, func(a string) bool { return a == "assert<*unstructured.Unstructured>(p1)#1" }) &&
						(pa.Has(false, func(a string) bool { return a == "assert<cache.DeletedFinalStateUnknown>(p1)#1" }) ||
							pa.Has(true, func(a string) bool { return a == "assert<cache.DeletedFinalStateUnknown>(p1)#1" }) &&
								pa.Has(false, func(a string) bool {
									return strings.HasPrefix(a, "assert<*unstructured.Unstructured>(") && strings.HasSuffix(a, ".Obj)#1")
								})):
						return true, "" // not an object, and not a tombstone or a tombstone of something else
					}
					return false, "deleted child dropped although it has a resolvable controller"
				})
		}
		// resolveControllerRef
		if f := fn(r, p, rule, pk+".resolveControllerRef"); f != nil {
			paths, err := engine.EnumPaths(f, engine.EnumOpts{})
			ok, why := err == nil, ""
			nn := 0
			for _, pa := range paths {
				rt, isR := pa.End.(*ssa.Return)
				if !isR || isNilConst(engine.RetVal(rt, 0)) {
					continue
				}
				nn++
				got := E(engine.RetVal(rt, 0))
				if !strings.HasPrefix(got, "call(controller/common.GetObject)(") || !strings.Contains(got, "p2.Name)#0") {
					ok, why = false, "returns "+got+", not the object looked up by the reference's name"
				}
				uid := pa.Has(true, func(a string) bool {
					return strings.Contains(a, "GetUID)(call(controller/common.GetObject)(") && strings.Contains(a, "p2.UID") && strings.Contains(a, " == ")
				})
				found := pa.Has(true, func(a string) bool {
					return strings.HasPrefix(a, "(call(controller/common.GetObject)(") && strings.HasSuffix(a, "#1 == nil)")
				})
				kind := pa.Has(true, func(a string) bool { return strings.Contains(a, "p2.Kind") && strings.Contains(a, " == ") }) ||
					pa.Has(false, func(a string) bool {
						return strings.Contains(a, "GroupKindMap.Get)(p0.parentKinds") && strings.HasSuffix(a, " == nil)")
					})
				group := pa.Has(true, func(a string) bool {
					return strings.Contains(a, "ParseAPIVersion)(p2.APIVersion)#0") && strings.Contains(a, ".Group")
				}) ||
					pa.Has(false, func(a string) bool {
						return strings.Contains(a, "GroupKindMap.Get)(p0.parentKinds") && strings.HasSuffix(a, " == nil)")
					})
				obj := "call(controller/common.GetObject)("
				rel := !(matchNegPrefix(pa, comp, obj) && finNegPrefix(pa, obj))
				if !(uid && found && kind && group && rel) {
					ok, why = false, sf("returns a parent without uid=%v found=%v kind=%v group=%v matches-or-finalizer=%v on [%s]", uid, found, kind, group, rel, pa.Cond())
				}
			}
			if nn == 0 {
				ok, why = false, "never resolves a parent"
			}
			r.Check(rule, FK(f), p.Pos(f.Pos()), ok, "non-nil ⇒ group ∧ kind ∧ found ∧ UID equal ∧ (finalizer ∨ matches)", why)
			// converse: the reference is given up (nil) only for one of the stated reasons
			okC, whyC := err == nil, ""
			for _, pa := range paths {
				rt, isR := pa.End.(*ssa.Return)
				if !isR || !isNilConst(engine.RetVal(rt, 0)) {
					continue
				}
				obj := "call(controller/common.GetObject)("
				reason := pa.Has(false, func(a string) bool {
					return strings.Contains(a, "ParseAPIVersion)(p2.APIVersion)#0") && strings.Contains(a, ".Group") && !strings.Contains(a, "Map.Get)(")
				}) ||
					pa.Has(false, func(a string) bool {
						return strings.Contains(a, "p2.Kind") && strings.Contains(a, " == ") && !strings.Contains(a, "Map.Get)(")
					}) ||
					pa.Has(true, func(a string) bool {
						return (strings.HasPrefix(a, "(call(controller/common.GroupKindMap.Get)(p0.parent") || strings.HasPrefix(a, "(call(controller/common.InformerMap.Get)(p0.parent")) && strings.HasSuffix(a, " == nil)")
					}) ||
					pa.Has(false, func(a string) bool {
						return strings.HasPrefix(a, "(call(controller/common.GetObject)(") && strings.HasSuffix(a, "#1 == nil)")
					}) ||
					pa.Has(false, func(a string) bool {
						return strings.Contains(a, "GetUID)(call(controller/common.GetObject)(") && strings.Contains(a, "p2.UID") && strings.Contains(a, " == ")
					}) ||
					matchNegPrefix(pa, comp, obj) && finNegPrefix(pa, obj)
				if !reason {
					okC, whyC = false, "the owner reference is not resolved although group, kind, name and UID agree and the parent matches the selector or carries the finalizer; path: "+pa.Cond()
				}
			}
			r.Check(rule, FK(f)+"[nil-only-for-a-reason]", p.Pos(f.Pos()), okC, "nil ⇒ group/kind mismatch ∨ not found ∨ UID differs ∨ (¬finalizer ∧ ¬matches)", whyC)
			// namespace of the lookup: the child's namespace across 'Namespaced', the empty one across '!Namespaced'
			okNs := false
			for _, cs := range callsTo(f, false, "common.GetObject") {
				t, e, sel := selectOf(cs.Common().Args[1], func(a string) bool { return strings.HasSuffix(a, ".Namespaced") })
				okNs = sel && t == "p1" && e == `""`
			}
			r.Check(rule, FK(f)+"[lookup-namespace]", p.Pos(f.Pos()), okNs, "namespaced parent looked up in the child's namespace, cluster-scoped one without", "parent lookup namespace is not (child namespace if parent namespaced, else empty)")
		}
	}
	// findPotentialParents
	if f := fn(r, p, rule, "controller/composite.parentController.findPotentialParents"); f != nil {
		lists := callsTo(f, false, "dynamiclister.NamespaceLister.List", "dynamiclister.Lister.List")
		ok, why := len(lists) == 2, "expected a namespaced and a cluster-wide List"
		for _, cs := range lists {
			in := cs.Instr.(ssa.Instruction)
			nsd := strings.HasSuffix(cs.Key, "NamespaceLister.List")
			w := unguarded(f, nil, in, func(l Lit) bool {
				return l.Pos == nsd && strings.HasSuffix(l.Atom, ".parentResource.APIResource.Namespaced")
			})
			if w != nil {
				ok, why = false, "List scope does not follow parentResource.Namespaced"
			}
			if nsd && !strings.Contains(E(cs.Recv()), "GetNamespace)(p1)") {
				ok, why = false, "namespaced parents are not listed in the child's namespace"
			}
			// candidates are ALL parents in scope: the parent label selector is applied later by
			// enqueueParentObject, which lets through parents that no longer match but still
			// carry the finalizer (they are still reconciled and still adopt)
			if c := callOf(cs.Arg(0)); c == nil || engine.CallKey(c.Common()) != "k8s.io/apimachinery/pkg/labels.Everything" {
				ok, why = false, "the candidate parents are listed with "+E(cs.Arg(0))+" instead of labels.Everything(): a parent that fell out of the controller's label selector but still carries its finalizer (and is still synced) is no longer woken by a matching orphan"
			}
		}
		// keep ⇔ selector ok ∧ non-empty ∧ matches
		if ok {
			okK, whyK := loopKeepTable2(f, func(pa engine.Path, n int) (bool, string) {
				m := val(pa, -1, func(a string) bool {
					return strings.HasPrefix(a, "call(labels.Selector.Matches)(call(controller/composite.parentController.makeSelector)(")
				})
				e := val(pa, -1, func(a string) bool { return strings.HasPrefix(a, "call(labels.Selector.Empty)(") })
				serr := val(pa, -1, func(a string) bool {
					return strings.HasPrefix(a, "(call(controller/composite.parentController.makeSelector)(") && strings.HasSuffix(a, "#1 == nil)")
				})
				switch {
				case n > 0 && !(m == 1 && e == -1 && serr == 1):
					return false, "keeps a parent without (selector valid ∧ non-empty ∧ matches the child's labels)"
				case n == 0 && m == 1 && e == -1 && serr == 1:
					return false, "drops a parent whose selector matches"
				}
				return true, ""
			})
			if !okK {
				ok, why = false, whyK
			}
		}
		r.Check(rule, FK(f), p.Pos(f.Pos()), ok, "lists in the right scope; keeps exactly parents whose non-empty selector matches", why)
	}
}

func matchNegPrefix(pa engine.Path, comp bool, obj string) bool {
	if comp {
		return val(pa, -1, func(a string) bool {
			return strings.Contains(a, ".doNotMatchLabels)(") && strings.Contains(a, "GetLabels)("+obj)
		}) == 1
	}
	return val(pa, -1, func(a string) bool { return strings.Contains(a, "decoratorSelector.Matches)(p0.parentSelector, "+obj) }) == -1
}

func finNegPrefix(pa engine.Path, obj string) bool {
	return val(pa, -1, func(a string) bool { return strings.HasPrefix(a, "call(controllerutil.ContainsFinalizer)("+obj) }) == -1
}

// loopKeepTable2: like loopKeepTable for the last range loop of f, counting appends per path.
func loopKeepTable2(f *ssa.Function, check func(pa engine.Path, appends int) (bool, string)) (bool, string) {
	loops := engine.RangeLoops(f)
	if len(loops) == 0 {
		return false, "no loop"
	}
	l := loops[len(loops)-1]
	paths, err := engine.EnumPaths(f, engine.EnumOpts{Start: l.Body, Leave: func(b *ssa.BasicBlock) bool { return b == l.Header || b == l.Exit },
		Effect: func(in ssa.Instruction) bool { return isCallTo(in, "builtin.append") }})
	if err != nil {
		return false, err.Error()
	}
	for _, pa := range paths {
		if ok, why := check(pa, len(pa.Effects)); !ok {
			return false, why + " on [" + pa.Cond() + "]"
		}
	}
	return true, ""
}

// tombstoneUnwrap: the delete handler accepts *Unstructured, else a
// DeletedFinalStateUnknown VALUE whose Obj is *Unstructured, and forwards in both cases.
func tombstoneUnwrap(r *Report, p *Program, rule string, f *ssa.Function, enq func(in ssa.Instruction) bool) {
	var asserts []string
	for _, b := range engine.BlocksInl(f) {
		for _, in := range b.Instrs {
			if ta, ok := in.(*ssa.TypeAssert); ok && ta.CommaOk {
				asserts = append(asserts, ta.AssertedType.String()+"←"+E(ta.X))
			}
		}
	}
	direct, tomb, inner := false, false, false
	for _, a := range asserts {
		switch {
		case strings.HasPrefix(a, "*k8s.io/apimachinery/pkg/apis/meta/v1/unstructured.Unstructured←p1"):
			direct = true
		case strings.HasPrefix(a, "k8s.io/client-go/tools/cache.DeletedFinalStateUnknown←p1"):
			tomb = true
		case strings.HasPrefix(a, "*k8s.io/apimachinery/pkg/apis/meta/v1/unstructured.Unstructured←") && strings.Contains(a, ".Obj"):
			inner = true
		}
	}
	ok := direct && tomb && inner
	why := ""
	if !ok {
		why = sf("delete handler must try *Unstructured, then cache.DeletedFinalStateUnknown (a value, as client-go delivers it), then its .Obj; found assertions %v", asserts)
	}
	if ok {
		// the tombstone branch reaches the forwarding call
		var from []engine.Point
		for _, b := range engine.BlocksInl(f) {
			for i := range b.Succs {
				if l, has := engine.EdgeLit(b, i); has && l.Pos && strings.HasPrefix(l.Atom, "assert<*unstructured.Unstructured>(") && strings.Contains(l.Atom, ".Obj") {
					from = append(from, engine.Point{B: b.Succs[i]})
				}
			}
		}
		if len(from) == 0 || (engine.Query{Fn: f, From: from, Target: enq}).Find() == nil {
			ok, why = false, "the unwrapped tombstone object never reaches the enqueue"
		}
	}
	r.Check(rule, FK(f)+"[tombstone-unwrap]", p.Pos(f.Pos()), ok, "handles object, tombstone value and tombstone.Obj", why)
}

func r14_4(r *Report, p *Program) {
	const rule = "R14.4"
	r.Rule(rule, "related-object events")
	r.Floor(rule, 6)
	pkg := "controller/common/customize.Manager"
	if f := fn(r, p, rule, pkg+".onRelatedUpdate"); f != nil {
		dropTable(r, p, rule, f, "drop⇔same-resourceVersion", func(in ssa.Instruction) bool { return isCallTo(in, ".notifyRelatedParents") },
			func(pa engine.Path) (bool, string) {
				if pa.Has(true, func(a string) bool {
					return strings.Count(a, "GetResourceVersion)(") == 2 && strings.Contains(a, " == ")
				}) {
					return true, ""
				}
				return false, "related update dropped although the resourceVersion changed"
			})
		ok := false
		for _, cs := range callsTo(f, false, ".notifyRelatedParents") {
			a := cs.Common().Args[1]
			ok = engine.BackSlice(a, func(x ssa.Value) bool { return E(x) == "assert<*unstructured.Unstructured>(p1)" }, nil) &&
				engine.BackSlice(a, func(x ssa.Value) bool { return E(x) == "assert<*unstructured.Unstructured>(p2)" }, nil)
		}
		r.Check(rule, FK(f)+"[old+new]", p.Pos(f.Pos()), ok, "parents selected by the old OR the new state are notified", "onRelatedUpdate does not pass both the old and the new object")
	}
	if f := fn(r, p, rule, pkg+".onRelatedAdd"); f != nil {
		ok := len(callsTo(f, false, ".notifyRelatedParents")) == 1 && len(callsTo(f, false, ".onRelatedDelete")) == 1
		r.Check(rule, FK(f), p.Pos(f.Pos()), ok, "add ⇒ notify (deleting ⇒ delete path)", "onRelatedAdd does not notify")
	}
	if f := fn(r, p, rule, pkg+".onRelatedDelete"); f != nil {
		tombstoneUnwrap(r, p, rule, f, func(in ssa.Instruction) bool { return isCallTo(in, ".notifyRelatedParents") })
		dropTable(r, p, rule, f, "related-delete-table", func(in ssa.Instruction) bool { return isCallTo(in, ".notifyRelatedParents") },
			func(pa engine.Path) (bool, string) {
				if tombstoneDropExcused(pa) {
					return true, ""
				}
				return false, "the deletion of a related object is dropped although the event carries the object (directly or in a tombstone)"
			})
	}
	if f := fn(r, p, rule, pkg+".notifyRelatedParents"); f != nil {
		ok := false
		for _, l := range engine.RangeLoops(f) {
			if strings.Contains(E(l.X), ".findRelatedParents)(") && !strings.HasPrefix(E(l.X), "slice(") {
				for _, b := range l.BodyBlocks() {
					for _, in := range b.Instrs {
						if c, isC := in.(*ssa.Call); isC && strings.HasSuffix(E(c.Common().Value), ".enqueueParent") && engine.SameValue(c.Common().Args[0], l.Val) {
							ok = true
						}
					}
				}
			}
		}
		r.Check(rule, FK(f), p.Pos(f.Pos()), ok, "every related parent found is enqueued", "notifyRelatedParents does not enqueue every parent found")
	}
	if f := fn(r, p, rule, pkg+".findRelatedParents"); f != nil {
		// rules come from the hook-calling getter
		g := callsTo(f, false, ".getCustomizeHookResponse")
		cachedOnly := callsTo(f, false, ".getCachedCustomizeHookResponse")
		ok, why := len(g) == 1 && len(cachedOnly) == 0, "findRelatedParents must obtain the rules through getCustomizeHookResponse (which asks the hook on a cache miss); reading only the cache silently drops events once the entry expired or the parent's generation changed"
		if ok {
			// loops: over all parent informers, all parents, all rules, all passed objects
			need := map[string]bool{"p0.parentInformers": false, "List)(": false, ".RelatedResourceRules": false, "p1": false}
			for _, l := range engine.RangeLoops(f) {
				x := E(l.X)
				for k := range need {
					if (k == "p1" && x == "p1") || (k != "p1" && strings.Contains(x, k) && !strings.HasPrefix(x, "slice(")) {
						need[k] = true
					}
				}
			}
			for k, v := range need {
				if !v {
					ok, why = false, "does not iterate over all of "+k
				}
			}
			// matches ⇒ appended
			for _, cs := range callsTo(f, false, "customize.matchesRelatedRule") {
				m := engine.ResultValue(cs.Instr, 0)
				var from []engine.Point
				for _, b := range engine.BlocksInl(f) {
					for i := range b.Succs {
						if l, has := engine.EdgeLit(b, i); has && l.Pos && engine.SameValue(l.Cond, m) {
							from = append(from, engine.Point{B: b.Succs[i]})
						}
					}
				}
				if len(from) == 0 || (engine.Query{Fn: f, From: from, Target: func(in ssa.Instruction) bool {
					return in.Block().Comment == "rangeindex.loop" || in.Block().Comment == "rangeiter.loop" || engine.IsReturn(in)
				},
					CutInstr: func(in ssa.Instruction) bool { return isCallTo(in, "builtin.append") }}).Find() != nil {
					ok, why = false, "a matching parent is not added to the result"
				}
				// arguments: parent's scope, parent, related object, rule, kind of the rule's resource
				if !strings.HasSuffix(E(cs.Common().Args[0]), ".APIResource.Namespaced") || !strings.Contains(E(cs.Common().Args[4]), "Clientset.Resource)(") {
					ok, why = false, "matchesRelatedRule is not given the parent's scope / the rule's resource kind"
				}
			}
		}
		r.Check(rule, FK(f), p.Pos(f.Pos()), ok, "every parent × rule × passed object is tested; a match enqueues; rules via the hook-calling getter", why)
	}
	if f := fn(r, p, rule, pkg+".getCustomizeHookResponse"); f != nil {
		calls := callsTo(f, false, "hooks.Hook.Call")
		ok, why := len(calls) == 1, "expected one hook call"
		if ok {
			w := unguarded(f, nil, calls[0].Instr.(ssa.Instruction), func(l Lit) bool {
				return !l.Pos && strings.HasSuffix(l.Atom, ".getCachedCustomizeHookResponse)(p0, p1)#1")
			})
			if w != nil {
				ok, why = false, "the customize hook is called even on a cache hit"
			}
			// on a miss the hook IS called: no return on the miss edge without the call
			var from []engine.Point
			for _, b := range engine.BlocksInl(f) {
				for i := range b.Succs {
					if l, has := engine.EdgeLit(b, i); has && !l.Pos && strings.HasSuffix(l.Atom, ".getCachedCustomizeHookResponse)(p0, p1)#1") {
						from = append(from, engine.Point{B: b.Succs[i]})
					}
				}
			}
			if len(from) == 0 || (engine.Query{Fn: f, From: from, Target: engine.IsReturn, CutInstr: func(in ssa.Instruction) bool { return in == calls[0].Instr.(ssa.Instruction) }}).Find() != nil {
				ok, why = false, "on a cache miss the hook is not asked"
			}
		}
		r.Check(rule, FK(f), p.Pos(f.Pos()), ok, "hook asked exactly on a cache miss", why)
	}
}

// r14_6: the informer maps are keyed by the resource AND version the controller
// was configured with. A lookup key built from what an object says about itself
// or its owner (ownerReference.apiVersion, obj.GetAPIVersion()) misses whenever
// that version differs from the configured one, and the event is dropped.
func r14_6(r *Report, p *Program) {
	const rule = "R14.6"
	r.Rule(rule, "every InformerMap lookup/store key takes its group/version from configuration or discovery (a resource rule's or APIResource's APIVersion), never from an ownerReference or from the object's own apiVersion")
	r.Floor(rule, 8)
	ord := map[string]int{}
	for _, f := range p.Scanned {
		for _, cs := range callsTo(f, false, "controller/common.InformerMap.Get", "controller/common.InformerMap.Set") {
			key := cs.Arg(0)
			bad := ""
			engine.BackSlice(key, func(x ssa.Value) bool {
				switch y := x.(type) {
				case *ssa.FieldAddr:
					if fieldNameOf(deref(y.X.Type()), y.Field) == "APIVersion" && strings.HasSuffix(deref(y.X.Type()).String(), "meta/v1.OwnerReference") {
						bad = "an ownerReference's apiVersion (" + E(y) + ")"
						return true
					}
				case *ssa.Call:
					if strings.HasSuffix(engine.CallKey(y.Common()), "Unstructured.GetAPIVersion") || strings.HasSuffix(engine.CallKey(y.Common()), "Unstructured.GroupVersionKind") {
						bad = "the object's own apiVersion (" + E(y) + ")"
						return true
					}
				}
				return false
			}, func(k string) bool {
				return strings.HasSuffix(k, "schema.ParseGroupVersion") || strings.HasSuffix(k, "GroupVersion.WithResource") || strings.HasSuffix(k, "GroupVersion.WithKind")
			})
			k := Short(FK(f)) + "→" + Short(cs.Key)
			c := sf("%s#%d", k, ord[k])
			ord[k]++
			r.Check(rule, c, p.InstrPos(cs.Instr), bad == "", "key version from configuration/discovery: "+E(key), "the informer map key takes its version from "+bad+": when that differs from the version the controller was configured with, the lookup returns nil and the event is dropped")
		}
	}
}

// sharedMapsAliased: the customize manager is given the controller's parentInformers / parentKinds maps by
// reference and reads them later (related-object events → findRelatedParents). The maps handed over must be
// the ones the constructor fills: made before the hand-over and not replaced afterwards.
func sharedMapsAliased(r *Report, p *Program, rule string) {
	r.Rule(rule, "newParentController / newDecoratorController: a map-typed field handed to NewCustomizeManager was assigned a made map before the call and is not assigned again afterwards")
	r.Floor(rule, 2)
	for _, key := range []string{"controller/composite.newParentController", "controller/decorator.newDecoratorController"} {
		f := fn(r, p, rule, key)
		if f == nil {
			continue
		}
		for _, cs := range callsTo(f, false, "customize.NewCustomizeManager") {
			ci := cs.Instr.(ssa.Instruction)
			ok, why := true, ""
			n := 0
			for _, a := range cs.Common().Args {
				if _, isMap := a.Type().Underlying().(*types.Map); !isMap {
					continue
				}
				n++
				if c, isC := a.(*ssa.Const); isC && c.IsNil() {
					ok, why = false, "a nil map is handed to the customize manager"
					continue
				}
				if _, isMk := engine.ResolveLocal(a).(*ssa.MakeMap); isMk {
					// a local map: it must be the one stored in / used by the controller — any later MakeMap stored to a field of the same type is a replacement
					continue
				}
				u, isLoad := a.(*ssa.UnOp)
				if !isLoad {
					continue
				}
				fa, isFA := u.X.(*ssa.FieldAddr)
				if !isFA {
					continue
				}
				fname := fieldName(fa)
				// stores to the same field of the same object
				var before, after int
				for _, b := range f.Blocks {
					for _, in := range b.Instrs {
						st, isS := in.(*ssa.Store)
						if !isS {
							continue
						}
						fa2, isFA2 := st.Addr.(*ssa.FieldAddr)
						if !isFA2 || fieldName(fa2) != fname || !engine.SameValue(fa2.X, fa.X) {
							continue
						}
						if (engine.Query{Fn: f, From: []engine.Point{engine.After(ci)}, Target: func(x ssa.Instruction) bool { return x == in }}).Find() != nil {
							after++
						} else {
							before++
						}
					}
				}
				if after > 0 {
					ok, why = false, "the field ."+fname+" is assigned again after it was handed to the customize manager: the manager keeps the old (empty or nil) map and never sees what the controller fills in — related-object events find no parents"
				} else if before == 0 {
					ok, why = false, "the field ."+fname+" has not been assigned when it is handed to the customize manager (nil map)"
				}
			}
			if n == 0 {
				ok, why = false, "no map is handed to the customize manager"
			}
			r.Check(rule, FK(f)+"→NewCustomizeManager[maps-aliased]", p.InstrPos(ci), ok, "the maps handed over are the ones that get filled", why)
		}
	}
}

// tombstoneDropExcused: a delete event may be dropped for lack of an object only when the direct assertion failed and
// then either the tombstone assertion failed, or it succeeded and the assertion on its Obj failed.
func tombstoneDropExcused(pa engine.Path) bool {
	return pa.Has(false, func(a string) bool { return a == "assert<*unstructured.Unstructured>(p1)#1" }) &&
		!pa.Has(true, func(a string) bool { return a == "assert<*unstructured.Unstructured>(p1)#1" }) &&
		(pa.Has(false, func(a string) bool { return a == "assert<cache.DeletedFinalStateUnknown>(p1)#1" }) ||
			pa.Has(true, func(a string) bool { return a == "assert<cache.DeletedFinalStateUnknown>(p1)#1" }) &&
				pa.Has(false, func(a string) bool {
					return strings.HasPrefix(a, "assert<*unstructured.Unstructured>(") && strings.HasSuffix(a, ".Obj)#1")
				}))
}
