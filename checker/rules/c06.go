package rules

import (
	"go/types"
	"sort"
	"strings"

	"mcvet/engine"

	"golang.org/x/tools/go/ssa"
)

func init() {
	Registry["C06"] = checkC06
	Controls["C06"] = map[string][2]string{
		"R06.3": {"badDeleteNoPropagation", "goodDelete"},
	}
}

const v1alpha1Pkg = "metacontroller/pkg/apis/metacontroller/v1alpha1"

// childWriters: the functions reachable from common.ManageChildren; the dyn
// sinks inside are the "child sinks".
func childSinks(p *Program) (sinks []engine.Sink, fns map[*ssa.Function]bool) {
	mc := p.Func("controller/common.ManageChildren")
	if mc == nil {
		return nil, nil
	}
	fns = p.CG().ReachSet(mc)
	for _, s := range engine.Sinks(p.Scanned) {
		if s.Iface == "dyn" && fns[s.Fn] {
			sinks = append(sinks, s)
		}
	}
	return sinks, fns
}

func checkC06(r *Report, p *Program) {
	r.Explanation = "Decides, on the SSA of common.updateChildren/deleteChildren and both GetMethod siblings: (R06.1) the complete update-method decision table of the dynamic-apply branch — for each constant of v1alpha1.ChildUpdateMethod which child write verbs are reachable — against the table the property states, incl. exhaustiveness over the type's constants; (R06.2) every child Update/Delete sink is guarded by 'merged != observed' and by 'observed child not pending deletion' on every path; (R06.3) every Delete sink passes PropagationPolicy=Background; (R06.4) default method is OnDelete exactly when strategy is nil or its Method empty, map writer and reader use the same key constructor with the same argument roles; (R06.5) each sync entry passes its own strategy map, decorator passes dynamic apply."
	r.NotDecided = "that the API server does what the verb says; semantics of DeepEqual/ApplyUpdate values (C05); server-side-apply branch (bypasses the strategy by design)."
	r.Assumptions = []string{"go/ssa lowers switch statements to equality chains on the tag value", "call graph: static + closures + CHA over module types"}

	r06_1(r, p)
	r06_2(r, p)
	r06_3(r, p)
	r06_4(r, p)
	r06_5(r, p)
	// the observed (cached) child that was compared is not edited behind the comparison
	r17_1(r, p)
	// what is compared is the merge of one and the same desired object (status reverted, not stripped) — shared with C05
	r05_4(r, p)
	// a delete addresses exactly the observed child it decided about (name, namespace, UID from one object) — shared with C02
	r02_1(r, p, computeChildRoles(p))
	oneWritePerChild(r, p, "R06.6")
	deleteTable(r, p, "R06.7")
	createTable(r, p, "R06.10")
	r20_1(r, p) // the strategy map lives as long as the hosted controller: it is rebuilt exactly when the spec differs
	strategyMapTable(r, p, "R06.8")
	lastAppliedIsHookAnswer(r, p, "R06.9")
	// an attachment the decorator creates is recognised as its own on the next sync (marker stamped) — else no method ever applies to it (shared with C16)
	for _, e := range syncEntries(r, p, "R16.1") {
		if e.Kind == "decorator" {
			e := e
			r16_6(r, p, &e)
		}
	}
	// no memo makes a later sync skip the comparison (shared with C01)
	r01_ssa(r, p)
}

// R06.1 method decision table.
func r06_1(r *Report, p *Program) {
	const rule = "R06.1"
	r.Rule(rule, "decision table of the update-method switch: OnDelete/\"\" → no write; Recreate/RollingRecreate → Delete, no Update; InPlace/RollingInPlace → Update, no Delete; other → no write + error appended; every ChildUpdateMethod constant has a case")
	r.Floor(rule, 7)
	consts := constsOfType(p, v1alpha1Pkg, "ChildUpdateMethod")
	if len(consts) < 5 {
		r.Fail(rule, "v1alpha1.ChildUpdateMethod", "-", "anchor-lost", sf("found %d constants of ChildUpdateMethod, expected >= 5", len(consts)))
		return
	}
	want := map[string]string{} // value -> demanded verb ("" none)
	for name, val := range consts {
		switch {
		case strings.Contains(name, "Recreate"):
			want[val] = "Delete"
		case strings.Contains(name, "InPlace"):
			want[val] = "Update"
		case strings.Contains(name, "OnDelete"):
			want[val] = ""
		default:
			// a constant whose meaning this table does not know: must be handled as 'no write'
			want[val] = "?"
		}
	}
	want[""] = ""
	_, fns := childSinks(p)
	found := 0
	for f := range fns {
		gms := callsTo(f, false, "controller/common.ChildUpdateStrategy.GetMethod")
		for gi, gm := range gms {
			found++
			construct := sf("%s→GetMethod#%d", FK(f), gi)
			loops := engine.RangeLoops(f)
			loop := engine.EnclosingLoop(loops, gm.Instr)
			method := gm.Instr.Value()
			isSink := func(in ssa.Instruction) bool {
				ci, ok := in.(ssa.CallInstruction)
				if !ok {
					return false
				}
				k := engine.CallKey(ci.Common())
				if iface, _, ok := engine.ClassifySink(k); ok && iface == "dyn" {
					return true
				}
				if k == "builtin.append" {
					return true
				}
				// a write moved into a helper is still that write
				if h := engine.StaticFn(ci.Common()); h != nil && h != f && len(calleeVerbSigs(p, h, 1)) > 0 {
					return true
				}
				return false
			}
			opts := engine.EnumOpts{Start: gm.Instr.Block(), Effect: isSink}
			if loop != nil {
				opts.Leave = func(b *ssa.BasicBlock) bool { return b == loop.Header || b == loop.Exit }
			}
			paths, err := engine.EnumPaths(f, opts)
			if err != nil {
				r.Fail(rule, construct, p.InstrPos(gm.Instr), "undecided", err.Error())
				continue
			}
			// classify each path by the method value it assumes
			type row struct {
				Method string   `json:"method"`
				Verbs  []string `json:"effects"`
				Paths  int      `json:"paths"`
			}
			table := map[string]map[string]bool{} // class -> set of verb-signatures
			npaths := map[string]int{}
			for _, pa := range paths {
				class := "<other>"
				for _, l := range pa.Lits {
					if l.Pos && l.Op.String() == "==" && engine.SameValue(l.X, method) {
						if s, ok := constStr(l.Y); ok {
							class = s
						}
					}
				}
				// effects before the call in its own block do not belong to the region: drop those preceding gm
				sigs := []string{""}
				started := false
				for _, e := range pa.Effects {
					if e.Block() == gm.Instr.Block() && !started {
						// only effects after the GetMethod call
						if !after(e, gm.Instr) {
							continue
						}
					}
					started = true
					alts := verbsOf([]ssa.Instruction{e})
					if ci, isC := e.(ssa.CallInstruction); isC {
						if _, _, isS := engine.ClassifySink(engine.CallKey(ci.Common())); !isS {
							if hs := calleeVerbSigs(p, engine.StaticFn(ci.Common()), 1); len(hs) > 0 {
								alts = hs
							}
						}
					}
					var nx []string
					for _, sg := range sigs {
						for _, a := range alts {
							switch {
							case sg == "":
								nx = append(nx, a)
							case a == "":
								nx = append(nx, sg)
							default:
								nx = append(nx, sg+","+a)
							}
						}
					}
					sigs = nx
				}
				if table[class] == nil {
					table[class] = map[string]bool{}
				}
				for _, sg := range sigs {
					table[class][sg] = true
				}
				npaths[class]++
			}
			var rows []row
			for c, sigs := range table {
				rows = append(rows, row{Method: c, Verbs: sortedSet(sigs), Paths: npaths[c]})
			}
			sort.Slice(rows, func(i, j int) bool { return rows[i].Method < rows[j].Method })
			r.Table(sf("R06.1 %s", Short(construct)), rows)
			// … and the table is the only way to an Update/Delete of an existing child in this loop: a write of
			// those verbs that can be reached without passing the GetMethod call bypasses the strategy altogether
			if loop != nil {
				for _, b := range f.Blocks {
					for _, in := range b.Instrs {
						if !isSink(in) || engine.EnclosingLoop(loops, in) != loop {
							continue
						}
						vs := verbsOf([]ssa.Instruction{in})
						if ci, isC := in.(ssa.CallInstruction); isC {
							if _, _, isS := engine.ClassifySink(engine.CallKey(ci.Common())); !isS {
								vs = nil
								for _, sg := range calleeVerbSigs(p, engine.StaticFn(ci.Common()), 1) {
									vs = append(vs, strings.Split(sg, ",")...)
								}
							}
						}
						if count(vs, "Update")+count(vs, "Delete") == 0 {
							continue
						}
						sink := in
						w := engine.Query{Fn: f, From: []engine.Point{{B: loop.Header, I: 0}}, CutInstr: func(x ssa.Instruction) bool { return x == gm.Instr },
							Target: func(x ssa.Instruction) bool { return x == sink }}.Find()
						r.Check(rule, sf("%s[behind-the-switch]@%s", construct, engine.Short(engine.CallKey(in.(ssa.CallInstruction).Common()))), p.InstrPos(in), w == nil,
							"reached only through the update-method switch", "an existing child is updated/deleted on a path that never asks the child type's update strategy (the write is reachable without passing GetMethod)")
					}
				}
			}

			for val, verb := range want {
				c := sf("%s[method=%q]", construct, val)
				sigs, ok := table[val]
				if !ok {
					r.Check(rule, c, p.InstrPos(gm.Instr), false, "", sf("no case for ChildUpdateMethod %q: it would fall to the default branch", val))
					continue
				}
				okAll := true
				why := ""
				for sig := range sigs {
					vs := strings.Split(sig, ",")
					nDel, nUpd, nCre, nPat := count(vs, "Delete"), count(vs, "Update"), count(vs, "Create"), count(vs, "Patch")
					switch verb {
					case "":
						if nDel+nUpd+nCre+nPat > 0 {
							okAll, why = false, sf("method %q must not write, but a path issues [%s]", val, sig)
						}
					case "Delete":
						if nDel != 1 || nUpd+nCre+nPat > 0 {
							okAll, why = false, sf("method %q must delete (and only delete), but a path issues [%s]", val, sig)
						}
					case "Update":
						if nUpd != 1 || nDel+nCre+nPat > 0 {
							okAll, why = false, sf("method %q must update in place (and never delete), but a path issues [%s]", val, sig)
						}
					case "?":
						okAll, why = false, sf("constant %q of ChildUpdateMethod is unknown to the rule table", val)
					}
				}
				r.Check(rule, c, p.InstrPos(gm.Instr), okAll, sf("method %q → effects %v", val, sortedSet(sigs)), why)
			}
			// unknown method: no write, error appended
			c := sf("%s[method=<other>]", construct)
			sigs := table["<other>"]
			okO, why := len(sigs) > 0, "no default branch"
			for sig := range sigs {
				vs := strings.Split(sig, ",")
				if count(vs, "Delete")+count(vs, "Update")+count(vs, "Create")+count(vs, "Patch") > 0 {
					okO, why = false, sf("unknown method must not write, but a path issues [%s]", sig)
				}
				if count(vs, "append") == 0 {
					okO, why = false, "unknown method must append an error"
				}
			}
			r.Check(rule, c, p.InstrPos(gm.Instr), okO, sf("unknown method → effects %v", sortedSet(sigs)), why)
		}
	}
	if found == 0 {
		r.Fail(rule, "GetMethod call under ManageChildren", "-", "anchor-lost", "no call of ChildUpdateStrategy.GetMethod reachable from ManageChildren")
	}
}

func after(a, b ssa.Instruction) bool {
	if a.Block() != b.Block() {
		return false
	}
	ia, ib := -1, -1
	for i, in := range a.Block().Instrs {
		if in == a {
			ia = i
		}
		if in == b {
			ib = i
		}
	}
	return ia > ib
}

func isDeepEqualLit(l Lit) bool {
	c, ok := l.Cond.(*ssa.Call)
	if !ok {
		return false
	}
	k := engine.CallKey(c.Common())
	return k == "metacontroller/pkg/controller/common.DeepEqual" || k == "reflect.DeepEqual" ||
		strings.HasSuffix(k, "equality.Semantic.DeepEqual") || strings.HasSuffix(k, "conversion.Equalities.DeepEqual")
}

func passUnstructured(k string) bool {
	return strings.HasSuffix(k, "Unstructured.UnstructuredContent") || strings.HasSuffix(k, "Unstructured.DeepCopy")
}

// observedChild: v derives from an element of the `observed` parameter of f.
func fromParamElem(f *ssa.Function, v ssa.Value, pname string) bool {
	idx := paramIndex(f, pname)
	if idx < 0 {
		return false
	}
	par := f.Params[idx]
	seen := map[ssa.Value]bool{}
	var rec func(v ssa.Value, d int) bool
	rec = func(v ssa.Value, d int) bool {
		if v == nil || d > 8 || seen[v] {
			return false
		}
		seen[v] = true
		v = engine.ResolveLocal(v)
		switch x := v.(type) {
		case *ssa.Lookup:
			return x.X == par
		case *ssa.Extract:
			if nx, ok := x.Tuple.(*ssa.Next); ok {
				if rg, ok := nx.Iter.(*ssa.Range); ok {
					return rg.X == par
				}
			}
			return rec(x.Tuple, d+1)
		case *ssa.Phi:
			for _, e := range x.Edges {
				if !rec(e, d+1) {
					return false
				}
			}
			return len(x.Edges) > 0
		}
		return false
	}
	return rec(v, 0)
}

// R06.2 no write when equal / when terminating.
func r06_2(r *Report, p *Program) { noWriteWhenEqual(r, p, "R06.2") }

// noWriteWhenEqual (C06 R06.2, C05 R05.6, C01 R01.1): child Update/Delete only
// across 'observed not terminating' and '!DeepEqual(merged, observed)'.
func noWriteWhenEqual(r *Report, p *Program, rule string) {
	r.Rule(rule, "every child Update/Delete sink is reached only across 'observed.GetDeletionTimestamp()==nil'; every Update, and every Delete in a function that computes ApplyUpdate, only across '!DeepEqual(merged, observed)'")
	r.Floor(rule, 5)
	sinks, _ := childSinks(p)
	for _, s := range effectiveSinks(p, sinks) {
		if s.Verb != "Update" && s.Verb != "Delete" && s.Verb != "UpdateStatus" {
			continue
		}
		in := s.Instr.(ssa.Instruction)
		// (a) pending deletion
		w := guardedInSomeFrame(s, func(f *ssa.Function) func(l Lit) bool {
			return func(l Lit) bool {
				v, isNil, ok := l.NilTest()
				if !ok || !isNil {
					return false
				}
				c := callOf(v)
				if c == nil || !strings.HasSuffix(engine.CallKey(c.Common()), ".GetDeletionTimestamp") {
					return false
				}
				recv := engine.CallSite{Fn: f, Instr: c}.Recv()
				return fromParamElem(f, recv, "observed")
			}
		})
		r.Check(rule, s.Construct()+"[not-terminating]", p.InstrPos(in), w == nil,
			"sink only reachable across observed.GetDeletionTimestamp()==nil", "child "+s.Verb+" reachable for a child pending deletion; "+pathWhy(w))
		// (b) difference guard where a merged object exists
		of := s.Outer()
		aus := callsTo(of.Fn, false, "controller/common.ApplyUpdate")
		if s.Verb == "Update" || len(aus) > 0 && dominatedByAny(of.Fn, of.At, aus) {
			w := guardedInSomeFrame(s, func(f *ssa.Function) func(l Lit) bool {
				return func(l Lit) bool {
					if l.Pos || !isDeepEqualLit(l) {
						return false
					}
					c := l.Cond.(*ssa.Call)
					args := c.Common().Args
					if len(args) != 2 {
						return false
					}
					// one side is the merge result, the other the observed object
					m0, m1 := fromApplyUpdate(args[0]), fromApplyUpdate(args[1])
					o0 := fromParamElemThrough(f, args[0], "observed")
					o1 := fromParamElemThrough(f, args[1], "observed")
					return (m0 && o1) || (m1 && o0)
				}
			})
			r.Check(rule, s.Construct()+"[differs]", p.InstrPos(in), w == nil,
				"sink only reachable across !DeepEqual(ApplyUpdate(observed,desired), observed)", "child "+s.Verb+" reachable although merged state equals observed (or the comparison is not between merge result and observed); "+pathWhy(w))
		}
	}
}

func dominatedByAny(f *ssa.Function, target ssa.Instruction, calls []engine.CallSite) bool {
	for _, c := range calls {
		ci := c.Instr.(ssa.Instruction)
		if bypass(f, target, func(in ssa.Instruction) bool { return in == ci }) == nil {
			return true
		}
	}
	return false
}

func fromApplyUpdate(v ssa.Value) bool {
	seen := 0
	for seen < 6 {
		seen++
		c := callOf(v)
		if c == nil {
			return false
		}
		k := engine.CallKey(c.Common())
		if strings.HasSuffix(k, "controller/common.ApplyUpdate") {
			return true
		}
		if passUnstructured(k) && len(c.Common().Args) > 0 {
			v = c.Common().Args[0]
			continue
		}
		return false
	}
	return false
}

func fromParamElemThrough(f *ssa.Function, v ssa.Value, pname string) bool {
	for i := 0; i < 6; i++ {
		if fromParamElem(f, v, pname) {
			return true
		}
		c := callOf(v)
		if c == nil {
			return false
		}
		if passUnstructured(engine.CallKey(c.Common())) && len(c.Common().Args) > 0 {
			v = c.Common().Args[0]
			continue
		}
		return false
	}
	return false
}

// R06.3 background propagation on every Delete sink of the dynamic interface.
func r06_3(r *Report, p *Program) {
	const rule = "R06.3"
	r.Rule(rule, "every dynamic-client Delete passes DeleteOptions.PropagationPolicy = &DeletePropagationBackground")
	r.Floor(rule, 2)
	for _, es := range effectiveSinks(p, engine.Sinks(p.Scanned)) {
		s := es.Sink
		if s.Iface != "dyn" || s.Verb != "Delete" {
			continue
		}
		in := s.Instr.(ssa.Instruction)
		ok, why := deleteOptField(s, "PropagationPolicy", func(v ssa.Value) (bool, string) {
			a, isA := engine.Unwrap(v).(*ssa.Alloc)
			if !isA {
				return false, "PropagationPolicy is not the address of a local: " + E(v)
			}
			sts := engine.Stores(a)
			if len(sts) == 0 {
				return false, "PropagationPolicy points to an unset variable"
			}
			for _, st := range sts {
				if s, ok := constStr(st.Val); !ok || s != "Background" {
					return false, "PropagationPolicy may be " + E(st.Val) + ", want \"Background\""
				}
			}
			return true, ""
		})
		r.Check(rule, es.Construct(), p.InstrPos(in), ok, "DeleteOptions.PropagationPolicy=&\"Background\"", why)
	}
}

// deleteOptField locates the DeleteOptions argument of a Delete sink and
// applies check to the value stored in field `name`.
func deleteOptField(s engine.Sink, name string, check func(v ssa.Value) (bool, string)) (bool, string) {
	var opt ssa.Value
	for i := 0; i < 4; i++ {
		a := s.Arg(i)
		if a != nil && strings.HasSuffix(a.Type().String(), "meta/v1.DeleteOptions") {
			opt = a
		}
	}
	if opt == nil {
		return false, "no DeleteOptions argument found"
	}
	al := literalAlloc(opt)
	if al == nil {
		return false, "DeleteOptions is not a local composite literal (" + E(opt) + "): cannot establish its fields"
	}
	sts := engine.FieldStores(al, name)
	if len(sts) == 0 {
		return false, "DeleteOptions." + name + " is not set"
	}
	if len(sts) > 1 {
		return false, "DeleteOptions." + name + " has several definitions"
	}
	// the field must be set on every path to the call
	in := s.Instr.(ssa.Instruction)
	if w := bypass(s.Fn, in, func(x ssa.Instruction) bool { return x == ssa.Instruction(sts[0]) }); w != nil {
		return false, "DeleteOptions." + name + " is not set on every path to the Delete; " + pathWhy(w)
	}
	v := sts[0].Val
	return check(v)
}

// R06.4 default method + key agreement, both siblings.
func r06_4(r *Report, p *Program) {
	const rule = "R06.4"
	r.Rule(rule, "GetMethod returns OnDelete exactly when strategy==nil or strategy.Method==\"\", else strategy.Method; makeUpdateStrategyMap and get use the same key constructor with (group, kind) in the same roles")
	r.Floor(rule, 4)
	for _, pkg := range []string{"controller/composite", "controller/decorator"} {
		gm := fn(r, p, rule, pkg+".updateStrategyMap.GetMethod")
		get := fn(r, p, rule, pkg+".updateStrategyMap.get")
		mk := fn(r, p, rule, pkg+".makeUpdateStrategyMap")
		if gm == nil || get == nil || mk == nil {
			continue
		}
		paths, err := engine.EnumPaths(gm, engine.EnumOpts{})
		if err != nil {
			r.Fail(rule, FK(gm), p.Pos(gm.Pos()), "undecided", err.Error())
			continue
		}
		ok, why := true, ""
		var rows []map[string]string
		for _, pa := range paths {
			rt, isR := pa.End.(*ssa.Return)
			if !isR {
				continue
			}
			ret := rt.Results[0]
			rows = append(rows, map[string]string{"when": pa.Cond(), "returns": E(ret)})
			nilTrue := pa.Has(true, re(`^\(call\(controller/\w+\.updateStrategyMap\.get\)\(p0, p1, p2\) == nil\)$`))
			emptyTrue := pa.Has(true, re(`^\(call\(controller/\w+\.updateStrategyMap\.get\)\(p0, p1, p2\)\.Method == ""\)$`))
			nilFalse := pa.Has(false, re(`^\(call\(controller/\w+\.updateStrategyMap\.get\)\(p0, p1, p2\) == nil\)$`))
			emptyFalse := pa.Has(false, re(`^\(call\(controller/\w+\.updateStrategyMap\.get\)\(p0, p1, p2\)\.Method == ""\)$`))
			s, isConst := constStr(ret)
			switch {
			case nilTrue || emptyTrue:
				if !isConst || s != "OnDelete" {
					ok, why = false, sf("on [%s] returns %s, want \"OnDelete\"", pa.Cond(), E(ret))
				}
			case nilFalse && emptyFalse:
				if !re(`^call\(controller/\w+\.updateStrategyMap\.get\)\(p0, p1, p2\)\.Method$`)(E(ret)) {
					ok, why = false, sf("on [%s] returns %s, want strategy.Method", pa.Cond(), E(ret))
				}
			default:
				ok, why = false, sf("path [%s] does not decide strategy==nil and Method==\"\"", pa.Cond())
			}
		}
		if len(rows) < 3 {
			ok, why = false, sf("expected >=3 paths in GetMethod, found %d", len(rows))
		}
		r.Table("R06.4 "+Short(FK(gm)), rows)
		r.Check(rule, FK(gm), p.Pos(gm.Pos()), ok, "default-method table", why)

		// key agreement
		var getKey, mkKey *ssa.Call
		for _, b := range engine.BlocksInl(get) {
			for _, in := range b.Instrs {
				if lk, ok := in.(*ssa.Lookup); ok && lk.X == get.Params[0] {
					getKey = callOf(lk.Index)
				}
			}
		}
		for _, b := range engine.BlocksInl(mk) {
			for _, in := range b.Instrs {
				if mu, ok := in.(*ssa.MapUpdate); ok {
					mkKey = callOf(mu.Key)
				}
			}
		}
		okK, whyK := true, ""
		switch {
		case getKey == nil || mkKey == nil:
			okK, whyK = false, "map key is not built by a key-constructor call on both sides"
		case engine.CallKey(getKey.Common()) != engine.CallKey(mkKey.Common()):
			okK, whyK = false, sf("reader keys with %s, writer with %s", engine.CallKey(getKey.Common()), engine.CallKey(mkKey.Common()))
		default:
			ga, ma := getKey.Common().Args, mkKey.Common().Args
			// the reader's group parameter (first after the receiver) sits at position gi of the constructor, its
			// kind parameter at the other one; the writer must fill the same positions with group resp. kind
			gi := -1
			if len(ga) == 2 && len(ma) == 2 {
				switch {
				case ga[0] == get.Params[1] && ga[1] == get.Params[2]:
					gi = 0
				case ga[1] == get.Params[1] && ga[0] == get.Params[2]:
					gi = 1
				}
			}
			if gi < 0 {
				okK, whyK = false, "reader does not pass its (apiGroup, kind) parameters to the key constructor"
			} else {
				a0, a1 := E(ma[gi]), E(ma[1-gi])
				if !strings.Contains(a0, "ParseAPIVersion") || !strings.HasSuffix(a0, "#0") {
					okK, whyK = false, "writer's first key component is not the API group: "+a0
				}
				if !strings.HasSuffix(a1, ".Kind") {
					okK, whyK = false, "writer's second key component is not the resource Kind: "+a1
				}
			}
		}
		r.Check(rule, FK(mk)+"↔get[key]", p.Pos(mk.Pos()), okK, "writer and reader agree on key constructor and argument roles", whyK)
	}
}

// R06.5 strategy plumbing at the two callers of ManageChildren.
func r06_5(r *Report, p *Program) {
	const rule = "R06.5"
	r.Rule(rule, "each caller of ManageChildren passes its own controller's update-strategy map; the decorator passes ApplyStrategyDynamicApply, the composite its configured options")
	r.Floor(rule, 2)
	for _, f := range p.Scanned {
		for i, cs := range callsTo(f, false, "controller/common.ManageChildren") {
			c := sf("%s→ManageChildren#%d", FK(f), i)
			args := cs.Common().Args
			if len(args) < 6 {
				r.Fail(rule, c, p.InstrPos(cs.Instr), "undecided", "unexpected ManageChildren signature")
				continue
			}
			us := E(args[1])
			ok := us == "p0.updateStrategy"
			why := ""
			if !ok {
				why = "updateStrategy argument is " + us + ", want the receiver's own updateStrategy field"
			}
			opt := E(args[5])
			if strings.Contains(FK(f), "decorator") {
				al := literalAlloc(args[5])
				if al == nil {
					ok, why = false, "decorator ApplyOptions is not a literal: "+opt
				} else if s, isC := constStr(engine.FieldStore(al, "Strategy")); !isC || s != "dynamic-apply" {
					ok, why = false, "decorator must use dynamic apply"
				}
			} else if opt != "p0.ssaOptions" {
				ok, why = false, "composite must pass its configured ssaOptions, passes "+opt
			}
			r.Check(rule, c, p.InstrPos(cs.Instr), ok, "strategy="+us+" options="+opt, why)
		}
	}
}

// oneWritePerChild: in the per-child loops under ManageChildren
//
//	[no-write-after-failure] once a failure has been recorded for a child
//	    (an error appended to the aggregate) no child write is reachable in the
//	    same iteration — the step that failed produced what the write would send;
//	[one-content-write] after a child content write (Create/Update/Delete/Apply
//	    patch) no second content write is reachable in the same iteration — the
//	    server-side-apply branch and the dynamic-apply branch exclude each other.
func oneWritePerChild(r *Report, p *Program, rule string) {
	r.Rule(rule, "per-child loops under ManageChildren: no child write after a recorded failure in the same iteration; no second content write after a content write in the same iteration (the JSON patch that strips the last-applied annotation before a server-side apply is the one preparatory write)")
	sinks, fns := childSinks(p)
	inFn := map[*ssa.Function][]engine.Sink{}
	for _, s := range sinks {
		inFn[s.Fn] = append(inFn[s.Fn], s)
	}
	isSink := func(f *ssa.Function) func(in ssa.Instruction) bool {
		m := map[ssa.Instruction]bool{}
		for _, s := range inFn[f] {
			m[s.Instr.(ssa.Instruction)] = true
		}
		return func(in ssa.Instruction) bool { return m[in] || isSinkOrThinWrapper(p, in, "") }
	}
	preparatory := func(s engine.Sink) bool {
		if s.Verb != "Patch" {
			return false
		}
		for _, a := range s.Instr.Common().Args {
			if c, ok := a.(*ssa.Const); ok && c.Value != nil && strings.Contains(c.Value.String(), "json-patch") {
				return true
			}
		}
		return false
	}
	n := 0
	var names []string
	for f := range fns {
		if len(inFn[f]) > 0 {
			names = append(names, FK(f))
		}
	}
	sortStrings(names)
	for _, name := range names {
		f := p.Func(Short(name))
		if f == nil {
			continue
		}
		loops := engine.RangeLoops(f)
		innermost := func(b *ssa.BasicBlock) *engine.RangeLoop {
			var best *engine.RangeLoop
			for _, l := range loops {
				if l.InBody(b) && (best == nil || best.InBody(l.Header)) {
					best = l
				}
			}
			return best
		}
		sk := isSink(f)
		// [no-write-after-failure]
		ord := 0
		for _, b := range f.Blocks {
			for _, in := range b.Instrs {
				c, isC := in.(*ssa.Call)
				if !isC || engine.CallKey(c.Common()) != "builtin.append" || len(c.Common().Args) != 2 {
					continue
				}
				sl, isSl := c.Type().Underlying().(*types.Slice)
				if !isSl || !isErrorT(sl.Elem()) {
					continue
				}
				l := innermost(b)
				if l == nil {
					continue
				}
				var at ssa.Instruction
				w := engine.Query{Fn: f, From: []engine.Point{engine.After(c)},
					CutInstr: func(x ssa.Instruction) bool { return x.Block() == l.Header || !l.InBody(x.Block()) },
					Target: func(x ssa.Instruction) bool {
						if sk(x) {
							at = x
							return true
						}
						return false
					}}.Find()
				why := ""
				if w != nil {
					why = "after this failure was recorded the same iteration still reaches the child write at " + p.InstrPos(at) + ": the write is sent on the strength of a step that failed"
				}
				r.Check(rule, sf("%s[no-write-after-failure]#%d", Short(name), ord), p.InstrPos(c), w == nil, "the iteration ends without a further child write", why)
				ord++
				n++
			}
		}
		// [one-content-write]
		for _, s := range inFn[f] {
			if preparatory(s) {
				continue
			}
			si := s.Instr.(ssa.Instruction)
			l := innermost(si.Block())
			if l == nil {
				continue
			}
			var at ssa.Instruction
			w := engine.Query{Fn: f, From: []engine.Point{engine.After(si)},
				CutInstr: func(x ssa.Instruction) bool { return x.Block() == l.Header || !l.InBody(x.Block()) },
				Target: func(x ssa.Instruction) bool {
					if sk(x) {
						at = x
						return true
					}
					return false
				}}.Find()
			why := ""
			if w != nil {
				why = "after this write the same iteration reaches a second child write at " + p.InstrPos(at) + ": the child is written twice in one sync (server-side apply and dynamic apply are alternatives)"
			}
			r.Check(rule, s.Construct()+"[one-content-write]", p.InstrPos(si), w == nil, "last child write of its iteration", why)
			n++
		}
	}
	r.Floor(rule, 8)
}

// deleteTable: deleteChildren's per-child decision, both directions: an observed child is deleted ⇔ it is not
// pending deletion ∧ it is not desired (no desired map for the kind, or no entry under the child's own key).
func deleteTable(r *Report, p *Program, rule string) {
	r.Rule(rule, "deleteChildren, per observed child: Delete ⇔ ¬pending-deletion ∧ (desired == nil ∨ desired[key of this child] == nil), the key being the observed map's own key")
	r.Floor(rule, 1)
	f := fn(r, p, rule, "controller/common.deleteChildren")
	if f == nil {
		return
	}
	loops := engine.RangeLoops(f)
	if len(loops) != 1 || E(loops[0].X) != "p2" {
		r.Check(rule, FK(f), p.Pos(f.Pos()), false, "", "expected one loop over the observed children (parameter 2)")
		return
	}
	l := loops[0]
	paths, err := engine.EnumPaths(f, engine.EnumOpts{Start: l.Body, Leave: func(b *ssa.BasicBlock) bool { return b == l.Header || b == l.Exit },
		Effect: func(in ssa.Instruction) bool { return isSinkOrThinWrapper(p, in, "Delete") }})
	ok, why := err == nil, ""
	if err != nil {
		why = err.Error()
	}
	key := E(l.Key)
	for _, pa := range paths {
		pending := -val(pa, -1, func(a string) bool {
			return strings.HasPrefix(a, "(call(unstructured.Unstructured.GetDeletionTimestamp)("+E(l.Val)+") == nil)")
		})
		noMap := val(pa, -1, func(a string) bool { return a == "(p3 == nil)" })
		absent := val(pa, -1, func(a string) bool { return a == "(p3["+key+"] == nil)" })
		del := len(pa.Effects) > 0
		switch {
		case del && pending != -1:
			ok, why = false, "a child is deleted without having been found not pending deletion"
		case del && !(noMap == 1 || absent == 1):
			ok, why = false, "a child is deleted although it is desired (or without looking it up under its own key "+key+"); path: "+pa.Cond()
		case !del && pending == -1 && absent != -1:
			ok, why = false, "an observed child that is not pending deletion is kept without its key having been found among the desired children: a child the hook no longer lists is not deleted; path: "+pa.Cond()
		}
	}
	r.Check(rule, FK(f), p.Pos(f.Pos()), ok, "Delete ⇔ alive ∧ not desired", why)
}

// strategyMapTable: both makeUpdateStrategyMap siblings record a child type's strategy ⇔ one is configured and
// its method is not OnDelete; an unknown resource is an error (never a silent skip); the value stored is the rule's own strategy.
func strategyMapTable(r *Report, p *Program, rule string) {
	r.Rule(rule, "makeUpdateStrategyMap (composite, decorator), per child rule: stored ⇔ UpdateStrategy != nil ∧ Method != OnDelete ∧ the resource is known; unknown resource ⇒ error; the stored value is that rule's UpdateStrategy")
	r.Floor(rule, 2)
	for _, key := range []string{"controller/composite.makeUpdateStrategyMap", "controller/decorator.makeUpdateStrategyMap"} {
		f := fn(r, p, rule, key)
		if f == nil {
			continue
		}
		loops := engine.RangeLoops(f)
		if len(loops) != 1 {
			r.Check(rule, FK(f), p.Pos(f.Pos()), false, "", "expected one loop over the child rules")
			continue
		}
		l := loops[0]
		paths, err := engine.EnumPaths(f, engine.EnumOpts{Start: l.Body, Leave: func(b *ssa.BasicBlock) bool { return b == l.Header || b == l.Exit },
			Effect: func(in ssa.Instruction) bool { _, isMU := in.(*ssa.MapUpdate); return isMU }})
		ok, why := err == nil, ""
		if err != nil {
			why = err.Error()
		}
		for _, pa := range paths {
			has := -val(pa, -1, func(a string) bool { return strings.HasSuffix(a, ".UpdateStrategy == nil)") })
			onDelete := val(pa, -1, func(a string) bool { return strings.HasSuffix(a, `.UpdateStrategy.Method == "OnDelete")`) })
			known := -val(pa, -1, func(a string) bool {
				return strings.HasPrefix(a, "(call(dynamic/discovery.ResourceMap.Get)(p0, ") && strings.HasSuffix(a, " == nil)")
			})
			rt, isR := pa.End.(*ssa.Return)
			stored := len(pa.Effects)
			for _, e := range pa.Effects {
				if v := E(e.(*ssa.MapUpdate).Value); !strings.HasSuffix(v, ".UpdateStrategy") {
					ok, why = false, "the value stored is "+v+", not the rule's UpdateStrategy"
				}
			}
			switch {
			case isR && !(has == 1 && known == -1 && isErrReturn(rt)):
				ok, why = false, "the scan of the child rules ends early other than with an error for an unknown resource of an updatable rule; path: "+pa.Cond()
			case !isR && has == 1 && onDelete == -1 && known == 1 && stored != 1:
				ok, why = false, "an updatable child rule's strategy is not recorded: the type is treated as OnDelete"
			case !isR && stored > 0 && !(has == 1 && known == 1): // (recording an OnDelete strategy as well changes nothing: GetMethod answers OnDelete either way)
				ok, why = false, sf("a strategy is recorded for configured=%d OnDelete=%d known=%d", has, onDelete, known)
			case !isR && stored == 0 && !(has == -1 || onDelete == 1):
				ok, why = false, "a child rule is passed over without being found unconfigured or OnDelete; path: "+pa.Cond()
			}
		}
		r.Check(rule, FK(f), p.Pos(f.Pos()), ok, "stored ⇔ configured ∧ ¬OnDelete ∧ known", why)
	}
}

// isSinkOrThinWrapper: in is a dynamic-client write of the given verb ("" = any), or a call of a module
// function that does nothing but that one write (an extracted helper).
func isSinkOrThinWrapper(p *Program, in ssa.Instruction, verb string) bool {
	ci, ok := in.(ssa.CallInstruction)
	if !ok {
		return false
	}
	k := engine.CallKey(ci.Common())
	if iface, v, isSink := engine.ClassifySink(k); isSink && iface == "dyn" && (verb == "" || v == verb) {
		return true
	}
	if g := engine.StaticFn(ci.Common()); g != nil && strings.HasPrefix(FK(g), engine.ModPrefix) && len(g.Blocks) > 0 {
		if s := thinWrapperSink(p, g); s != nil && s.Iface == "dyn" && (verb == "" || s.Verb == verb) {
			return true
		}
	}
	return false
}

// lastAppliedIsHookAnswer: what is recorded as last-applied (and fed to the three-way merge as "desired") is the
// child as the hook returned it — metacontroller's own additions (controller reference …) are made afterwards.
// The rollout gate compares observed children with ApplyUpdate(observed, the hook's raw child): a last-applied
// record that contains additions the raw child lacks makes every child look "not updated yet".
func lastAppliedIsHookAnswer(r *Report, p *Program, rule string) {
	r.Rule(rule, "updateChildren: no setter is applied to the desired child before it is handed to ApplyUpdate / SetLastApplied in the same iteration (own additions come after the last-applied record)")
	r.Floor(rule, 1)
	f := fn(r, p, rule, "controller/common.updateChildren")
	if f == nil {
		return
	}
	var loop *engine.RangeLoop
	for _, l := range engine.RangeLoops(f) {
		if E(l.X) == "p4" || strings.HasPrefix(E(l.X), "p4") {
			loop = l
		}
	}
	if loop == nil {
		for _, l := range engine.RangeLoops(f) {
			for _, cs := range callsTo(f, false, "controller/common.ApplyUpdate") {
				if l.Contains(cs.Instr.(ssa.Instruction)) {
					loop = l
				}
			}
		}
	}
	if loop == nil {
		r.Check(rule, FK(f), p.Pos(f.Pos()), false, "", "the loop over the desired children was not found")
		return
	}
	obj := loop.Val
	var muts []ssa.Instruction
	for _, m := range engine.LocalMutations(f, obj) {
		if !loop.Contains(m.Instr) {
			continue
		}
		if ci, isCI := m.Instr.(ssa.CallInstruction); isCI {
			k := engine.CallKey(ci.Common())
			if strings.HasSuffix(k, "apply.SetLastApplied") || strings.HasSuffix(k, "controller/common.ApplyUpdate") {
				continue
			}
			if strings.HasPrefix(m.What, "pass→") {
				continue // handed to a callee: the write sinks and helpers, judged by their own rules
			}
		}
		muts = append(muts, m.Instr)
	}
	n := 0
	for _, cs := range callsTo(f, false, "controller/common.ApplyUpdate", "apply.SetLastApplied") {
		ci := cs.Instr.(ssa.Instruction)
		if !loop.Contains(ci) {
			continue
		}
		uses := false
		for _, a := range cs.Common().Args {
			if engine.SameValue(a, obj) || strings.Contains(E(a), "("+E(obj)+")") {
				uses = true
			}
		}
		if !uses {
			continue
		}
		n++
		ok, why := true, ""
		for _, m := range muts {
			if m == ci {
				continue
			}
			w := engine.Query{Fn: f, From: []engine.Point{engine.After(m)}, Target: func(x ssa.Instruction) bool { return x == ci },
				CutInstr: func(x ssa.Instruction) bool { return x.Block() == loop.Header }}.Find()
			if w != nil {
				ok, why = false, "the desired child is edited at "+p.InstrPos(m)+" before it is recorded as last-applied / merged here: the record no longer equals what the hook returned, and comparisons against the hook's raw child (rollout gate) never match"
			}
		}
		r.Check(rule, sf("%s→%s#%d[hook-answer-unedited]", Short(FK(f)), Short(cs.Key), n), p.InstrPos(ci), ok, "no own edit precedes the last-applied record", why)
	}
	if n == 0 {
		r.Check(rule, FK(f), p.Pos(f.Pos()), false, "", "no ApplyUpdate/SetLastApplied of the desired child in the loop")
	}
}
