package rules

import (
	"go/token"
	"strings"

	"mcvet/engine"

	"golang.org/x/tools/go/ssa"
)

func init() {
	Registry["C07"] = checkC07
}

func checkC07(r *Report, p *Program) {
	r.Explanation = "Decides the shape of one rollout step: (R07.1) after the gated latest.addChild no path takes the back edge of the child loop — at most one gated move per sync; (R07.2) that loop ranges over the latest hook answer's Children slice (hook order), not a map; (R07.3) the gated move is reachable only across shouldContinueRolling()==nil, whose loop continues to the next child only when the child was observed, ApplyUpdate succeeded, DeepEqual(observed, merged), for RollingInPlace not (observedGeneration>0 ∧ observedGeneration < the OBSERVED child's generation), and childStatusCheck()==nil; childStatusCheck errors on a missing condition and on status/reason mismatch; (R07.4) a child claimed by another revision is moved immediately only across 'observed ∧ merge is a no-op', and loses its old claim on the same path; (R07.5) the aggregation overlays, for every non-latest revision and every name it lists, that revision's own desired child; applyPatch/makePatch visit every field path; (R07.6) lost-update rule: a value obtained from a copying accessor and then edited is written back on every path to a successful return; SetCondition stores the condition on every successful path; the three rollout outcomes set Updated = False/RolloutWaiting, False/RolloutProgressing, True/OnLatestRevision."
	r.NotDecided = "all reachable rollout states; that other children keep being reconciled at their revision over histories."
	r07_1(r, p)
	r07_3(r, p)
	r07_4(r, p)
	claimMovePairing(r, p, "R07.4b")
	r07_5(r, p)
	lostUpdates(r, p, "R07.6")
	r07_6b(r, p)
	// claims that are filtered are also what gets persisted (shared with C09); revisions' parents are private copies (C17)
	r09_5(r, p)
	r17_1(r, p)
	// what a revision's hook sees is computed in this sync from this sync's parent (no memo across syncs); a failed
	// claim/revision write stops the sync (shared with C02/C09)
	noNewCrossSyncState(r, p, "R07.7")
	errorRule(r, p, "R07.8", 8, func(f *ssa.Function) bool {
		file := p.File(f)
		return strings.HasSuffix(file, "composite/controller_revision.go") || strings.HasSuffix(file, "composite/rolling_update.go") || strings.HasSuffix(file, "controllerref/controller_revision.go")
	})
	r07_9(r, p)
	objectMapContracts(r, p, "R07.10")
	r07_tables(r, p)
	r09_tables(r, p, "R07.12")
	conditionTables(r, p, "R07.13")
	claimsTables(r, p, "R07.14")
	lastAppliedIsHookAnswer(r, p, "R07.15")
	copyIfFound(r, p, "R07.16")
	anyRollingTable(r, p, "R07.17")
	containerBuilders(r, p, "R07.18")
	// conditions are parsed field by field only where the field has the expected type (shared with C13)
	commaOkValuesUsedWhenOk(r, p, "R07.19", 20)
	freshDecodeTargets(r, p, "R07.20")
	hookAnswerFrozenAfterGate(r, p, "R07.21")
	noOpTestOperands(r, p, "R07.22")
	patchHelpersTable(r, p, "R07.23")
	materialisedRevisionAppended(r, p, "R07.24")
	r08_2(r, p) // a revision that still claims a child of any kind is kept (its children stay pinned)
}

// r07_9: which fields are revisioned. The default (all of spec) applies whenever the
// configured list is absent OR empty; an empty list used as is revisions nothing,
// every spec edit is then "the same revision" and all children change at once.
func r07_9(r *Report, p *Program) {
	const rule = "R07.9"
	r.Rule(rule, "syncRevisions: the field paths handed to makePatch are the configured ones only when RevisionHistory is set AND non-empty; otherwise [\"spec\"]")
	r.Floor(rule, 1)
	f := fn(r, p, rule, "controller/composite.parentController.syncRevisions")
	if f == nil {
		return
	}
	mps := callsTo(f, false, "composite.makePatch")
	if len(mps) == 0 {
		r.Fail(rule, FK(f), p.Pos(f.Pos()), "anchor-lost", "no makePatch call in syncRevisions")
		return
	}
	ok, why := true, ""
	for _, mp := range mps {
		fp := mp.Common().Args[1]
		ph, isPhi := fp.(*ssa.Phi)
		if !isPhi {
			ok, why = false, "field paths "+E(fp)+" are not chosen between the configured list and the default"
			continue
		}
		for i, e := range ph.Edges {
			if !strings.HasSuffix(E(e), ".FieldPaths") {
				continue
			}
			// the edge carrying the configured list is taken only across 'len(FieldPaths) > 0'
			pred := ph.Block().Preds[i]
			w := engine.Query{Fn: f, Target: func(in ssa.Instruction) bool { return in.Block() == pred && in == pred.Instrs[len(pred.Instrs)-1] },
				CutEdge: func(b *ssa.BasicBlock, j int, l *Lit) bool {
					if l == nil {
						return false
					}
					// 0 < len(x.FieldPaths)  or  !(len(x.FieldPaths) == 0)
					if l.Pos && l.Op == token.LSS && E(l.X) == "0" && strings.Contains(E(l.Y), "builtin.len") && strings.Contains(E(l.Y), ".FieldPaths") {
						return true
					}
					return !l.Pos && l.Op == token.EQL && strings.Contains(E(l.X), "builtin.len") && strings.Contains(E(l.X), ".FieldPaths") && E(l.Y) == "0"
				}}.Find()
			if w != nil {
				ok, why = false, "the configured fieldPaths are used without testing that the list is non-empty: `revisionHistory: {}` revisions nothing, so a spec edit is not a new revision and every child is updated in the same sync; "+pathWhy(w)
			}
		}
	}
	r.Check(rule, FK(f)+"[fieldPaths-default]", p.InstrPos(mps[0].Instr), ok, "configured list only if non-empty, else [spec]", why)
}

func rolloutLoop(r *Report, p *Program, rule string) (*ssa.Function, *engine.RangeLoop, *engine.CallSite) {
	f := fn(r, p, rule, "controller/composite.parentController.syncRollingUpdate")
	if f == nil {
		return nil, nil, nil
	}
	var loop *engine.RangeLoop
	for _, l := range engine.RangeLoops(f) {
		if strings.HasSuffix(E(l.X), ".syncResult.Children") {
			loop = l
		}
	}
	if loop == nil {
		r.Fail(rule, FK(f), p.Pos(f.Pos()), "anchor-lost", "no loop over latest.syncResult.Children")
		return f, nil, nil
	}
	for _, cs := range callsTo(f, false, "composite.parentRevision.addChild") {
		if loop.Contains(cs.Instr.(ssa.Instruction)) {
			cs := cs
			return f, loop, &cs
		}
	}
	r.Fail(rule, FK(f), p.Pos(f.Pos()), "anchor-lost", "no addChild inside the child loop")
	return f, loop, nil
}

// observedLookups: the renderings "call(<FindGroupKindName>)(<receiver>, " of the
// lookups in f whose receiver is the observed-children parameter (index pi) or a
// Convert() of it — the key domain of the observed map is C08's business (R08.1),
// the rollout rules only need to recognise 'the observed child'.
func observedLookups(f *ssa.Function, pi int) []string {
	var out []string
	if pi >= len(f.Params) {
		return nil
	}
	for _, cs := range callsTo(f, false, ".FindGroupKindName") {
		recv := cs.Recv()
		if recv == nil {
			continue
		}
		if engine.BackSlice(recv, func(x ssa.Value) bool { return x == ssa.Value(f.Params[pi]) }, func(k string) bool { return strings.HasSuffix(k, "UniformObjectMap.Convert") }) {
			out = append(out, "call("+Short(cs.Key)+")("+E(recv)+", ")
		}
	}
	return out
}

func containsAny(s string, subs []string) bool {
	for _, x := range subs {
		if strings.Contains(s, x) {
			return true
		}
	}
	return false
}

func r07_1(r *Report, p *Program) {
	const rule = "R07.1"
	r.Rule(rule, "one gated move per sync, in hook order")
	r.Floor(rule, 3)
	f, loop, add := rolloutLoop(r, p, rule)
	if f == nil || loop == nil || add == nil {
		return
	}
	w := engine.Query{Fn: f, From: []engine.Point{engine.After(add.Instr.(ssa.Instruction))}, Target: func(in ssa.Instruction) bool { return in.Block() == loop.Header }}.Find()
	r.Check(rule, FK(f)+"[one-move]", p.InstrPos(add.Instr), w == nil, "after the gated move the function returns without another iteration", "after moving one child the loop can continue and move another in the same sync")
	// R07.2
	x := E(loop.X)
	_, isSlice := loop.X.Type().Underlying().(interface{ Elem() interface{} })
	_ = isSlice
	okO := x == "p1[0].syncResult.Children" && strings.HasPrefix(loop.X.Type().String(), "[]")
	r.Check(rule, FK(f)+"[hook-order]", p.InstrPos(loop.Header.Instrs[0]), okO, "ranges over the latest answer's Children slice", "the child to move next is chosen by iterating "+x+" ("+loop.X.Type().String()+"): not the order in which the hook listed its children")
	// the moved child is the loop's element
	nameArg := E(add.Arg(2))
	okName := strings.Contains(nameArg, "GetName)("+E(loop.Val)) || (strings.Contains(nameArg, "RelativeName)(") || strings.Contains(nameArg, "relativeName)(")) && strings.HasSuffix(nameArg, ", "+E(loop.Val)+")")
	okA := okName && strings.Contains(E(add.Arg(1)), "GetKind)("+E(loop.Val)) && E(add.Recv()) == "p1[0]"
	r.Check(rule, FK(f)+"[moves-this-child-to-latest]", p.InstrPos(add.Instr), okA, "addChild(latest, group/kind/name of the listed child)", "the gated move does not add the listed child to the latest revision")
	// it is the first child not on latest: every path to the gate crosses pr != latest; children on latest continue
	w2 := unguarded(f, []engine.Point{{B: loop.Body}}, add.Instr.(ssa.Instruction), func(l Lit) bool {
		return !l.Pos && l.Op == token.EQL && (E(l.X) == "p1[0]" || E(l.Y) == "p1[0]") && strings.Contains(l.Atom, "childClaimMap.getKind")
	})
	r.Check(rule, FK(f)+"[only-children-not-on-latest]", p.InstrPos(add.Instr), w2 == nil, "only a child not yet claimed by latest is moved", "a child already on the latest revision can trigger the move; "+pathWhy(w2))
}

func r07_3(r *Report, p *Program) {
	const rule = "R07.3"
	r.Rule(rule, "health gate")
	r.Floor(rule, 4)
	f, loop, add := rolloutLoop(r, p, rule)
	if f == nil || loop == nil || add == nil {
		return
	}
	w := unguarded(f, nil, add.Instr.(ssa.Instruction), func(l Lit) bool {
		v, isNil, ok := l.NilTest()
		if !ok || !isNil {
			return false
		}
		c := callOf(v)
		if c == nil || !strings.HasSuffix(engine.CallKey(c.Common()), "parentController.shouldContinueRolling") || len(c.Common().Args) != 3 {
			return false
		}
		a := c.Common().Args
		// asked about the latest revision and the observed children of this sync (as given, or converted to relative names)
		return E(a[0]) == "p0" && E(a[1]) == "p1[0]" && engine.BackSlice(a[2], func(x ssa.Value) bool { return x == ssa.Value(f.Params[2]) }, func(k string) bool { return strings.HasSuffix(k, "UniformObjectMap.Convert") })
	})
	r.Check(rule, FK(f)+"[gated]", p.InstrPos(add.Instr), w == nil, "move only if shouldContinueRolling(latest, observed) == nil", "the move is reachable without the health gate (or the gate is asked about another revision / other children); "+pathWhy(w))
	g := fn(r, p, rule, "controller/composite.parentController.shouldContinueRolling")
	if g != nil {
		var inner *engine.RangeLoop
		for _, l := range engine.RangeLoops(g) {
			if strings.HasSuffix(E(l.X), ".Names") {
				inner = l
			}
		}
		if inner == nil {
			r.Fail(rule, FK(g), p.Pos(g.Pos()), "anchor-lost", "no loop over the names of a child kind")
		} else {
			paths, err := engine.EnumPaths(g, engine.EnumOpts{Start: inner.Body, Leave: func(b *ssa.BasicBlock) bool { return b == inner.Header || b == inner.Exit }})
			ok, why := err == nil, ""
			child := "call(controller/common/api/v2.UniformObjectMap.FindGroupKindName)(p2, "
			if ol := observedLookups(g, 2); len(ol) == 1 {
				child = ol[0]
			} else {
				ok, why = false, sf("expected exactly one lookup of the observed child in the gate, found %d", len(ol))
			}
			nCont := 0
			for _, pa := range paths {
				if pa.EndKind != "leave" {
					// returns: must be errors
					if rt, isR := pa.End.(*ssa.Return); isR && !isErrReturn(rt) {
						ok, why = false, "the gate returns nil from inside the loop: later children are not checked"
					}
					continue
				}
				nCont++
				has := func(pos bool, subs ...string) bool {
					return pa.Has(pos, func(a string) bool {
						for _, s := range subs {
							if !strings.Contains(a, s) {
								return false
							}
						}
						return true
					})
				}
				switch {
				case !has(false, "("+child, " == nil)"):
					ok, why = false, "a child that was not observed passes the gate"
				case !has(true, "(call(controller/common.ApplyUpdate)("+child, "#1 == nil)"):
					ok, why = false, "a child whose update cannot be computed passes the gate"
				case !has(true, "call(controller/common.DeepEqual)("+child, "call(controller/common.ApplyUpdate)("):
					ok, why = false, "a child that is not yet up to date with the latest revision passes the gate"
				case !has(true, "(call(controller/composite.childStatusCheck)(", ".StatusChecks, "+child, " == nil)"):
					ok, why = false, "a child failing its status checks passes the gate"
				}
				// RollingInPlace: not (og>0 ∧ og<gen(child))
				if has(true, `.Method == "RollingInPlace")`) {
					ogPos := has(true, "(0 < call(dynamic/object.GetObservedGeneration)(call(unstructured.Unstructured.UnstructuredContent)("+child)
					lagging := has(true, "(call(dynamic/object.GetObservedGeneration)(", " < call(unstructured.Unstructured.GetGeneration)("+child)
					notLag := has(false, "(call(dynamic/object.GetObservedGeneration)(", " < call(unstructured.Unstructured.GetGeneration)("+child)
					ogNeg := has(false, "(0 < call(dynamic/object.GetObservedGeneration)(call(unstructured.Unstructured.UnstructuredContent)("+child)
					if lagging || !(ogNeg || (ogPos && notLag)) {
						ok, why = false, "a RollingInPlace child whose status.observedGeneration (> 0) is behind the observed child's metadata.generation passes the gate (the comparison must use the observed child's generation and apply only when observedGeneration > 0): ["+pa.Cond()+"]"
					}
				} else if !has(false, `.Method == "RollingInPlace")`) {
					ok, why = false, "the gate does not distinguish RollingInPlace"
				}
			}
			if nCont == 0 {
				ok, why = false, "no child can ever pass the gate"
			}
			r.Check(rule, FK(g)+"[per-child-gate]", p.Pos(g.Pos()), ok, "next child only if observed ∧ up to date ∧ generation observed ∧ status checks pass", why)
			// non-rolling kinds are skipped, rolling ones checked
			okS := false
			for _, l := range engine.RangeLoops(g) {
				if strings.HasSuffix(E(l.X), ".revision.Children") && E(l.X) == "p1.revision.Children" {
					okS = true
				}
			}
			r.Check(rule, FK(g)+"[all-kinds-of-latest]", p.Pos(g.Pos()), okS, "checks every child kind claimed by the latest revision", "the gate does not range over all children claimed by the given (latest) revision")
		}
	}
	if c := fn(r, p, rule, "controller/composite.childStatusCheck"); c != nil {
		paths, err := engine.EnumPaths(c, engine.EnumOpts{})
		ok, why := err == nil, ""
		for _, pa := range paths {
			rt, isR := pa.End.(*ssa.Return)
			if !isR || !engine.ReturnsNilError(rt) {
				continue
			}
			// a nil return after having looked at a condition must have found it and matched status/reason where given
			if pa.Has(true, func(a string) bool {
				return strings.HasSuffix(a, "GetStatusCondition)(call(unstructured.Unstructured.UnstructuredContent)(p1), new<v1alpha1.StatusConditionCheck>.Type)#0 == nil)")
			}) {
				ok, why = false, "a missing condition passes the status check"
			}
			if pa.Has(false, func(a string) bool { return strings.Contains(a, "#0.Status == ") }) && !pa.Has(true, func(a string) bool { return strings.HasSuffix(a, ".Status == nil)") }) {
				ok, why = false, "a status mismatch passes the check"
			}
			if pa.Has(false, func(a string) bool { return strings.Contains(a, "#0.Reason == ") }) && !pa.Has(true, func(a string) bool { return strings.HasSuffix(a, ".Reason == nil)") }) {
				ok, why = false, "a reason mismatch passes the check"
			}
		}
		// the loop visits all conditions: no nil return inside the loop
		for _, l := range engine.RangeLoops(c) {
			for _, b := range l.BodyBlocks() {
				for _, in := range b.Instrs {
					if rt, isR := in.(*ssa.Return); isR && engine.ReturnsNilError(rt) {
						ok, why = false, "returns success after the first condition"
					}
				}
			}
		}
		// per configured check: an iteration that goes on to the next check has found the
		// condition of that check's type on the child (whatever else the check asks for)
		if loops := engine.RangeLoops(c); len(loops) == 1 {
			l := loops[0]
			ips, err := engine.EnumPaths(c, engine.EnumOpts{Start: l.Body, Leave: func(b *ssa.BasicBlock) bool { return b == l.Header || b == l.Exit }})
			if err != nil {
				ok, why = false, err.Error()
			}
			for _, pa := range ips {
				if _, isR := pa.End.(*ssa.Return); isR {
					continue
				}
				if !pa.Has(false, func(a string) bool {
					return strings.Contains(a, "GetStatusCondition)(call(unstructured.Unstructured.UnstructuredContent)(p1), ") && strings.HasSuffix(a, ".Type)#0 == nil)")
				}) {
					ok, why = false, "a configured check is passed without establishing that the child has a condition of that type (path: "+pa.Cond()+"): a child that has not reported the condition yet lets the rollout go on"
				}
			}
			// iteration table: goes on ⇔ found ∧ (status not configured ∨ equal) ∧ (reason not configured ∨ equal)
			for _, pa := range ips {
				fieldEq := func(fld string) int {
					res := 0
					for _, lt := range pa.Lits {
						if lt.Op != token.EQL || lt.X == nil || lt.Y == nil {
							continue
						}
						if _, _, isNil := lt.NilTest(); isNil {
							continue
						}
						x, y := E(lt.X), E(lt.Y)
						if strings.Contains(y, "GetStatusCondition)(") {
							x, y = y, x
						}
						if !strings.Contains(x, "GetStatusCondition)(") || !strings.HasSuffix(x, "#0."+fld) || !strings.Contains(y, "."+fld) {
							continue
						}
						v := -1
						if lt.Pos {
							v = 1
						}
						res = v
					}
					return res
				}
				configured := func(fld string) int {
					// +1 configured, -1 not configured, 0 not tested
					return -val(pa, -1, func(a string) bool {
						return strings.HasSuffix(a, "."+fld+" == nil)") && !strings.Contains(a, "GetStatusCondition)(")
					})
				}
				_, isR := pa.End.(*ssa.Return)
				for _, fld := range []string{"Status", "Reason"} {
					cf, eq := configured(fld), fieldEq(fld)
					derefEq := 0 // ptr.Deref(check.F, observed) == observed form decides both at once
					for _, lt := range pa.Lits {
						if strings.Contains(lt.Atom, "ptr.Deref") && strings.Contains(lt.Atom, "."+fld) && lt.Op == token.EQL {
							derefEq = -1
							if lt.Pos {
								derefEq = 1
							}
						}
					}
					if derefEq != 0 {
						if !isR && derefEq != 1 {
							ok, why = false, "a "+strings.ToLower(fld)+" mismatch passes the check (path: "+pa.Cond()+")"
						}
						continue
					}
					if !isR {
						if !(cf == -1 || cf == 1 && eq == 1) {
							ok, why = false, sf("an iteration goes on to the next check with %s configured=%d equal=%d: the child's %s was not required to equal the configured one (path: %s)", fld, cf, eq, strings.ToLower(fld), pa.Cond())
						}
					} else if rt := pa.End.(*ssa.Return); isErrReturn(rt) && eq == 1 && fieldEq(other(fld)) != -1 && val(pa, -1, func(a string) bool {
						return strings.Contains(a, "GetStatusCondition)(") && strings.HasSuffix(a, " == nil)")
					}) != 1 {
						ok, why = false, "a child whose condition "+strings.ToLower(fld)+" equals the configured one fails the check: a healthy child blocks the rollout for ever"
					}
				}
			}
			// no over-constraint: a mismatch error is only possible for a field the check
			// configures — operand *check.F behind 'check.F != nil', or Deref(check.F, observed value)
			for _, pa := range ips {
				rt, isR := pa.End.(*ssa.Return)
				if !isR || !isErrReturn(rt) {
					continue
				}
				for _, lt := range pa.Lits {
					if lt.Pos || lt.Op.String() != "==" {
						continue
					}
					var condSide, want ssa.Value
					switch {
					case strings.Contains(E(lt.X), "GetStatusCondition)(") && !strings.Contains(E(lt.Y), "GetStatusCondition)("):
						condSide, want = lt.X, lt.Y
					case strings.Contains(E(lt.Y), "GetStatusCondition)(") && !strings.Contains(E(lt.X), "GetStatusCondition)("):
						condSide, want = lt.Y, lt.X
					default:
						continue
					}
					if _, isC := want.(*ssa.Const); isC && E(want) == "nil" {
						continue
					}
					okW := false
					if u, isU := want.(*ssa.UnOp); isU {
						// *check.F: needs check.F != nil on the path
						ptrAtom := E(u.X)
						if pa.Has(false, func(a string) bool { return a == "("+ptrAtom+" == nil)" }) {
							okW = true
						}
					}
					if c := callOf(want); c != nil && strings.Contains(engine.CallKey(c.Common()), "ptr.Deref") && len(c.Common().Args) == 2 && engine.SameValue(c.Common().Args[1], condSide) {
						okW = true
					}
					if !okW {
						ok, why = false, "a check can fail on "+E(condSide)+" ≠ "+E(want)+" although the check may not configure that field (no '!= nil' test of the configured pointer on the path, and not Deref(configured, observed)): a healthy child whose condition has e.g. a reason would block the rollout forever"
					}
				}
			}
		} else {
			ok, why = false, "expected exactly one loop over the configured condition checks"
		}
		r.Check(rule, FK(c), p.Pos(c.Pos()), ok, "error on missing condition, status or reason mismatch; all conditions checked", why)
	}
}

func r07_4(r *Report, p *Program) {
	const rule = "R07.4"
	r.Rule(rule, "immediate move only when observed and a no-op")
	r.Floor(rule, 1)
	f := fn(r, p, rule, "controller/composite.parentController.syncRollingUpdate")
	if f == nil {
		return
	}
	n := 0
	for i, a := range callsTo(f, false, "composite.parentRevision.addChild") {
		ai := a.Instr.(ssa.Instruction)
		// only the ones that can run for a claimed child in the first loop
		if unguarded(f, nil, ai, func(l Lit) bool {
			return !l.Pos && strings.Contains(l.Atom, "childClaimMap.getKind)(") && strings.HasSuffix(l.Atom, "#1")
		}) == nil {
			continue
		}
		if _, loop, gated := rolloutLoop(r, p, rule); loop != nil && gated != nil && gated.Instr == a.Instr {
			continue
		}
		n++
		obsL := observedLookups(f, 2)
		w1 := unguarded(f, nil, ai, func(l Lit) bool {
			v, isNil, ok := l.NilTest()
			if !ok || isNil {
				return false
			}
			for _, obs := range obsL {
				if strings.HasPrefix(E(v), obs) {
					return true
				}
			}
			return false
		})
		w2 := unguarded(f, nil, ai, func(l Lit) bool {
			if !l.Pos || !isDeepEqualLit(l) {
				return false
			}
			for _, obs := range obsL {
				if strings.Contains(l.Atom, obs) && strings.Contains(l.Atom, "call(controller/common.ApplyUpdate)("+obs) {
					return true
				}
			}
			return false
		})
		ok := w1 == nil && w2 == nil
		why := ""
		if w1 != nil {
			why = "a child claimed by an older revision is handed to the latest revision although it was not observed: if it was deleted it is recreated at the latest revision, bypassing order and health gate; " + pathWhy(w1)
		} else if w2 != nil {
			why = "a child claimed by an older revision is moved immediately although applying the latest desired state would change it; " + pathWhy(w2)
		}
		r.Check(rule, sf("%s→addChild#%d[no-op-move]", FK(f), i), p.InstrPos(ai), ok, "moved immediately only if observed and DeepEqual(child, ApplyUpdate(child, desired))", why)
	}
	if n == 0 {
		r.Fail(rule, FK(f), p.Pos(f.Pos()), "anchor-lost", "no immediate-move site found")
	}
}

func r07_5(r *Report, p *Program) {
	const rule = "R07.5"
	r.Rule(rule, "old revisions keep their children's desired state")
	r.Floor(rule, 2)
	f := fn(r, p, rule, "controller/composite.parentController.syncRevisions")
	if f == nil {
		return
	}
	rep := callsTo(f, false, "RelativeObjectMap.ReplaceObjectIfExists")
	ok, why := len(rep) == 1, "expected one ReplaceObjectIfExists in the aggregation"
	if ok {
		cs := rep[0]
		loops := engine.RangeLoops(f)
		var outer *engine.RangeLoop
		for _, l := range loops {
			if l.Contains(cs.Instr.(ssa.Instruction)) && strings.HasPrefix(E(l.X), "slice(") && strings.HasSuffix(l.X.Type().String(), "composite.parentRevision") {
				outer = l
			}
		}
		switch {
		case outer == nil:
			ok, why = false, "aggregation does not range over the non-latest revisions"
		case !strings.Contains(E(cs.Recv()), "p1") && !strings.Contains(E(cs.Recv()), ".desiredChildMap"):
			ok, why = false, "aggregation does not start from the latest revision's desired children"
		default:
			child := cs.Arg(1)
			c := callOf(child)
			if c == nil || !strings.HasSuffix(engine.CallKey(c.Common()), "RelativeObjectMap.FindGroupKindName") || !engine.BackSlice(c.Common().Args[0], func(x ssa.Value) bool { return x == outer.Val }, nil) {
				ok, why = false, "the overlaid child is not looked up in THAT revision's desired children"
			}
			if ok && !strings.HasSuffix(E(cs.Recv()), ".desiredChildMap") {
				ok, why = false, "overlay target is "+E(cs.Recv())
			}
			// names iterated are that revision's recorded names
			okN := false
			for _, l := range loops {
				if l.Contains(cs.Instr.(ssa.Instruction)) && strings.HasSuffix(E(l.X), ".Names") {
					okN = true
				}
			}
			if ok && !okN {
				ok, why = false, "overlay does not follow the names recorded in the revision"
			}
			// guarded by non-nil
			if ok && unguarded(f, nil, cs.Instr.(ssa.Instruction), func(l Lit) bool {
				v, isNil, isT := l.NilTest()
				return isT && !isNil && engine.SameValue(v, child)
			}) != nil {
				ok, why = false, "a nil desired child can be overlaid"
			}
			// … and for EVERY recorded name: an iteration goes on to the next name without the
			// overlay only where that revision does not desire the child (lookup == nil); whether the
			// child currently exists plays no part — a child recorded under an old revision that has to
			// be re-created is re-created at THAT revision
			if ok {
				var inner *engine.RangeLoop
				for _, l := range loops {
					if l.Contains(cs.Instr.(ssa.Instruction)) && strings.HasSuffix(E(l.X), ".Names") {
						inner = l
					}
				}
				ci := cs.Instr.(ssa.Instruction)
				w := engine.Query{Fn: f, From: []engine.Point{{B: inner.Body}}, Target: func(in ssa.Instruction) bool { return in.Block() == inner.Header },
					CutInstr: func(in ssa.Instruction) bool { return in == ci },
					CutEdge: func(b *ssa.BasicBlock, i int, l *Lit) bool {
						if l == nil {
							return false
						}
						v, isNil, isT := l.NilTest()
						return isT && isNil && engine.SameValue(v, child)
					}}.Find()
				if w != nil {
					ok, why = false, "a recorded name can be skipped although that revision desires the child ("+pathWhy(w)+"): the child then takes the latest revision's content while the ControllerRevisions still record it under the old one"
				}
			}
		}
	}
	r.Check(rule, FK(f)+"[overlay]", p.Pos(f.Pos()), ok, "latest's desired children, overlaid per old revision and recorded name with that revision's desired child", why)
	// the result's Children are the aggregated map
	okC := false
	for _, b := range engine.BlocksInl(f) {
		for _, in := range b.Instrs {
			if st, isS := in.(*ssa.Store); isS && strings.HasSuffix(E(st.Addr), "CompositeHookResponse>.Children") {
				okC = strings.HasPrefix(E(st.Val), "call(controller/common/api/v1.RelativeObjectMap.List)(") && strings.Contains(E(st.Val), ".desiredChildMap")
			}
		}
	}
	r.Check(rule, FK(f)+"[children=aggregate]", p.Pos(f.Pos()), okC, "aggregated children are what is returned", "the returned children are not the aggregated map")
	r05_5(r, p) // patch helpers visit every field path (rule id R05.5 kept)
}

// lostUpdates (R07.6, module-wide): copy → edit → (no write-back) → success return.
func lostUpdates(r *Report, p *Program, rule string) {
	r.Rule(rule, "lost-update rule: an edited copy is written back (or returned) on every path to a successful return")
	copying := engine.HasSuffix("unstructured.NestedSlice", "unstructured.NestedMap", "unstructured.NestedStringMap", "unstructured.NestedStringSlice")
	n := 0
	for _, f := range p.Scanned {
		for i, cs := range engine.Calls(f, copying) {
			v := engine.ResultValue(cs.Instr, 0)
			if v == nil {
				continue
			}
			// edits of the copy in this function
			var edits []ssa.Instruction
			for _, m := range p.Mutations(f, v) {
				edits = append(edits, m.Instr)
			}
			if len(edits) == 0 {
				continue
			}
			n++
			isEdit := map[ssa.Instruction]bool{}
			for _, e := range edits {
				isEdit[e] = true
			}
			// a "use" of the edited copy: it is handed on (call argument, stored as a value, returned)
			wb := func(in ssa.Instruction) bool {
				if isEdit[in] {
					return false
				}
				switch x := in.(type) {
				case ssa.CallInstruction:
					for _, a := range x.Common().Args {
						if engine.PointsInto(a, v) {
							return true
						}
					}
				case *ssa.Store:
					return engine.PointsInto(x.Val, v)
				case *ssa.MapUpdate:
					return engine.PointsInto(x.Value, v)
				case *ssa.Return:
					for _, res := range x.Results {
						if engine.PointsInto(res, v) {
							return true
						}
					}
				}
				return false
			}
			ok, why := true, ""
			for _, e := range edits {
				w := engine.Query{Fn: f, From: []engine.Point{engine.After(e)},
					Target:   func(in ssa.Instruction) bool { rt, isR := in.(*ssa.Return); return isR && !isErrReturn(rt) },
					CutInstr: wb}.Find()
				if w != nil {
					ok, why = false, "the value returned by "+Short(cs.Key)+" is a copy; it is edited at "+p.InstrPos(e)+" and the function then returns successfully at "+p.InstrPos(w.Instr)+" without writing it back: the edit is lost"
				}
			}
			r.Check(rule, sf("%s→%s#%d[write-back]", FK(f), methodOf(cs.Key), i), p.InstrPos(cs.Instr), ok, "every edit of the copy reaches a write-back", why)
		}
	}
	if n < 2 {
		r.Fail(rule, "edited copies", "-", "anchor-lost", sf("found %d edited copies, expected >= 2", n))
	}
}

func r07_6b(r *Report, p *Program) {
	const rule = "R07.6"
	if f := fn(r, p, rule, "dynamic/object.SetCondition"); f != nil {
		// every successful return has stored conditions containing condition.Object()
		w := engine.Query{Fn: f, Target: func(in ssa.Instruction) bool { rt, isR := in.(*ssa.Return); return isR && !isErrReturn(rt) },
			CutInstr: func(in ssa.Instruction) bool {
				c, ok := in.(*ssa.Call)
				if !ok || engine.CallKey(c.Common()) != engine.KUnstrPkg+"SetNestedField" || E(c.Common().Args[0]) != "p0" {
					return false
				}
				val := c.Common().Args[1]
				if engine.DependsOnCall(val, engine.HasSuffix("object.StatusCondition.Object"), nil) != nil {
					return true
				}
				// the list copy into which the condition was stored element-wise
				for _, b2 := range engine.BlocksInl(f) {
					for _, in2 := range b2.Instrs {
						if st, isS := in2.(*ssa.Store); isS {
							if ia, isIA := st.Addr.(*ssa.IndexAddr); isIA && engine.PointsInto(val, engine.Unwrap(ia.X)) || isIA && engine.PointsInto(ia.X, engine.Unwrap(val)) {
								if engine.DependsOnCall(st.Val, engine.HasSuffix("object.StatusCondition.Object"), nil) != nil {
									return true
								}
							}
						}
					}
				}
				return false
			}}.Find()
		r.Check(rule, FK(f)+"[stored-on-every-success]", p.Pos(f.Pos()), w == nil, "every successful path stores the condition into status.conditions", "SetCondition can return success without the condition being stored in the status (e.g. a conditions list that lacks this type, or an in-place edit of a copy); "+pathWhy(w))
		// upsert: an existing entry of the same type is replaced, not duplicated
		okU := false
		for _, b := range engine.BlocksInl(f) {
			for _, in := range b.Instrs {
				if st, isS := in.(*ssa.Store); isS {
					if _, isIA := st.Addr.(*ssa.IndexAddr); isIA && engine.DependsOnCall(st.Val, engine.HasSuffix("object.StatusCondition.Object"), nil) != nil {
						wq := unguarded(f, nil, in, func(l Lit) bool {
							return l.Pos && strings.Contains(l.Atom, `["type"]`) && strings.Contains(l.Atom, "p1.Type")
						})
						okU = wq == nil
					}
				}
			}
		}
		r.Check(rule, FK(f)+"[upsert-by-type]", p.Pos(f.Pos()), okU, "an entry with the same type is replaced in place", "an existing condition of the same type is not replaced")
	}
	f := fn(r, p, rule, "controller/composite.parentController.syncRollingUpdate")
	if f == nil {
		return
	}
	type outcome struct{ status, reason string }
	seen := map[outcome]bool{}
	for _, cs := range callsTo(f, false, "object.SetCondition") {
		al, _ := engine.Unwrap(cs.Common().Args[1]).(*ssa.Alloc)
		if al == nil {
			continue
		}
		ty, _ := constStr(engine.FieldStore(al, "Type"))
		st, _ := constStr(engine.FieldStore(al, "Status"))
		re, _ := constStr(engine.FieldStore(al, "Reason"))
		if ty == "Updated" {
			seen[outcome{st, re}] = true
		}
		if E(cs.Common().Args[0]) != "p1[0].syncResult.Status" {
			r.Check(rule, FK(f)+"[condition-on-latest-status]", p.InstrPos(cs.Instr), false, "", "the Updated condition is written into "+E(cs.Common().Args[0]))
		}
		okk, why := errorDiscipline(p, f, cs.Instr, nil, nil)
		if !okk {
			r.Check(rule, FK(f)+"→SetCondition[error]", p.InstrPos(cs.Instr), false, "", why)
		}
	}
	want := []outcome{{"False", "RolloutWaiting"}, {"False", "RolloutProgressing"}, {"True", "OnLatestRevision"}}
	ok := len(seen) == 3
	for _, w := range want {
		ok = ok && seen[w]
	}
	r.Check(rule, FK(f)+"[Updated-outcomes]", p.Pos(f.Pos()), ok, "waiting / progressing / complete", sf("Updated condition outcomes are %v", seen))
	// every successful return after the first loop passes a SetCondition
	w := engine.Query{Fn: f, Target: func(in ssa.Instruction) bool { rt, isR := in.(*ssa.Return); return isR && !isErrReturn(rt) },
		CutInstr: func(in ssa.Instruction) bool { return isCallTo(in, "object.SetCondition") }}.Find()
	r.Check(rule, FK(f)+"[always-reports]", p.Pos(f.Pos()), w == nil, "every successful outcome sets the Updated condition", "a rollout step can finish without setting the Updated condition")
	// gate error ⇒ waiting, with the reason
	for _, cs := range callsTo(f, false, "object.SetCondition") {
		al, _ := engine.Unwrap(cs.Common().Args[1]).(*ssa.Alloc)
		if al == nil {
			continue
		}
		if re, _ := constStr(engine.FieldStore(al, "Reason")); re == "RolloutWaiting" {
			okW := unguarded(f, nil, cs.Instr.(ssa.Instruction), func(l Lit) bool {
				v, isNil, ok := l.NilTest()
				return ok && !isNil && strings.HasSuffix(keyOf(v), ".shouldContinueRolling")
			}) == nil && strings.Contains(E(engine.FieldStore(al, "Message")), "error.Error)(call(controller/composite.parentController.shouldContinueRolling)")
			r.Check(rule, FK(f)+"[waiting⇔gate-error]", p.InstrPos(cs.Instr), okW, "RolloutWaiting exactly when the gate refuses, with its reason", "RolloutWaiting is not tied to the gate's error / does not carry its message")
		}
	}
	// waiting is an outcome, not a failure: the gate's refusal is reported through the
	// condition; returning it as the sync's error aborts the sync before revisions,
	// children and status are reconciled, so the child it waits for is never fixed
	for _, gate := range callsTo(f, false, ".shouldContinueRolling") {
		gv := gate.Instr.Value()
		w := engine.Query{Fn: f, From: []engine.Point{engine.After(gate.Instr.(ssa.Instruction))}, Target: func(in ssa.Instruction) bool {
			rt, isR := in.(*ssa.Return)
			if !isR {
				return false
			}
			ei := engine.ErrorResultIndex(f)
			return ei >= 0 && engine.DependsOnValue(engine.RetVal(rt, ei), gv, func(k string) bool { return strings.HasPrefix(k, "fmt.") || strings.HasPrefix(k, "errors.") })
		}}.Find()
		r.Check(rule, FK(f)+"[waiting-is-not-an-error]", p.InstrPos(gate.Instr), w == nil, "the gate's refusal never becomes syncRollingUpdate's error", "the gate's refusal is returned as the error of the rollout step: the sync is aborted (and retried with back-off) before ManageChildren can create/update the very child the rollout waits for")
	}
}

// r07_tables: the complete per-iteration decision tables of syncRollingUpdate's two
// loops (both directions: which effects happen, and that they happen).
func r07_tables(r *Report, p *Program) {
	const rule = "R07.11"
	r.Rule(rule, "syncRollingUpdate, loop over the latest desired children: ¬rolling kind ⇒ nothing; unclaimed ⇒ claim for latest; claimed by latest ⇒ nothing; claimed by another ⇒ move iff observed ∧ merge computable ∧ no-op. Loop over the hook's children: a child is passed over ⇔ its kind is not rolling ∨ it is on latest; the claim looked at is claimed[group,kind][name] whenever that kind has claims")
	r.Floor(rule, 3)
	f := fn(r, p, rule, "controller/composite.parentController.syncRollingUpdate")
	if f == nil {
		return
	}
	loops := engine.RangeLoops(f)
	var outer1, inner1, loop2 *engine.RangeLoop
	for _, l := range loops {
		x := E(l.X)
		switch {
		case x == "p1[0].desiredChildMap":
			outer1 = l
		case strings.HasPrefix(x, "next(range(p1[0].desiredChildMap))"):
			inner1 = l
		case x == "p1[0].syncResult.Children":
			loop2 = l
		}
	}
	if outer1 == nil || inner1 == nil || loop2 == nil {
		r.Fail(rule, FK(f), p.Pos(f.Pos()), "anchor-lost", "the two loops of syncRollingUpdate were not found")
		return
	}
	isEff := func(in ssa.Instruction) bool {
		return isCallTo(in, "parentRevision.addChild", "parentRevision.removeChild", "childClaimMap.setParentRevision")
	}
	effName := func(in ssa.Instruction) string {
		c := in.(ssa.CallInstruction)
		k := engine.CallKey(c.Common())
		recv := E(c.Common().Args[0])
		switch {
		case strings.HasSuffix(k, ".addChild"):
			if recv == "p1[0]" {
				return "add(latest)"
			}
			return "add(" + recv + ")"
		case strings.HasSuffix(k, ".removeChild"):
			if recv == "p1[0]" {
				return "remove(latest)"
			}
			return "remove(other)"
		default:
			if len(c.Common().Args) == 5 && E(c.Common().Args[4]) == "p1[0]" {
				return "claim:=latest"
			}
			return "claim:=" + E(c.Common().Args[len(c.Common().Args)-1])
		}
	}
	// --- first loop, per kind: names are processed ⇔ the kind is rolling
	rolling := func(l Lit) bool { return strings.Contains(l.Atom, "updateStrategyMap.isRolling)(p0.updateStrategy, ") }
	ok, why := true, ""
	if w := unguarded(f, []engine.Point{{B: outer1.Body}}, inner1.Header.Instrs[0], func(l Lit) bool { return l.Pos && rolling(l) }); w != nil {
		ok, why = false, "the children of a kind whose strategy is not rolling are (re)assigned to revisions"
	}
	if w := (engine.Query{Fn: f, From: []engine.Point{{B: outer1.Body}}, Target: func(in ssa.Instruction) bool { return in.Block() == outer1.Header },
		CutInstr: func(in ssa.Instruction) bool { return in.Block() == inner1.Header },
		CutEdge:  func(b *ssa.BasicBlock, i int, l *Lit) bool { return l != nil && !l.Pos && rolling(*l) }}).Find(); w != nil {
		ok, why = false, "a rolling kind's children can be skipped altogether"
	}
	// --- first loop, per name
	paths, err := engine.EnumPaths(f, engine.EnumOpts{Start: inner1.Body, Leave: func(b *ssa.BasicBlock) bool { return b == inner1.Header || b == inner1.Exit }, Effect: isEff})
	if err != nil {
		ok, why = false, err.Error()
	}
	var rows []map[string]string
	for _, pa := range paths {
		claimed := val(pa, -1, func(a string) bool {
			return strings.Contains(a, "childClaimMap.getKind)(") && strings.HasSuffix(a, "]#1")
		})
		onLatest := val(pa, -1, func(a string) bool {
			return strings.Contains(a, "childClaimMap.getKind)(") && strings.Contains(a, "]#0") && (strings.HasSuffix(a, " == p1[0])") || strings.HasPrefix(a, "(p1[0] == "))
		})
		observed := -val(pa, -1, func(a string) bool {
			return strings.HasPrefix(a, "(call(controller/common/api/v") && strings.Contains(a, "FindGroupKindName)(") && strings.HasSuffix(a, " == nil)")
		})
		mergeOK := val(pa, -1, func(a string) bool {
			return strings.HasPrefix(a, "(call(controller/common.ApplyUpdate)(") && strings.HasSuffix(a, "#1 == nil)")
		})
		noop := val(pa, -1, func(a string) bool { return strings.HasPrefix(a, "call(controller/common.DeepEqual)(") })
		var effs []string
		for _, e := range pa.Effects {
			effs = append(effs, effName(e))
		}
		sortStrings(effs) // the order of the bookkeeping calls within one iteration is immaterial
		got := strings.Join(effs, ",")
		want := ""
		switch {
		case claimed == -1:
			want = "add(latest),claim:=latest"
		case claimed == 1 && onLatest == 1:
			want = ""
		case claimed == 1 && onLatest == -1 && observed == 1 && mergeOK == 1 && noop == 1:
			want = "add(latest),claim:=latest,remove(other)"
		case claimed == 1 && onLatest == -1:
			want = ""
		default:
			ok, why = false, "an iteration does not decide claimed / on-latest: ["+pa.Cond()+"]"
		}
		rows = append(rows, map[string]string{"claimed": sf("%d", claimed), "onLatest": sf("%d", onLatest), "observed": sf("%d", observed), "mergeOK": sf("%d", mergeOK), "noop": sf("%d", noop), "effects": got})
		if got != want && ok {
			ok, why = false, sf("for claimed=%d onLatest=%d observed=%d mergeOK=%d noop=%d the iteration does [%s], want [%s]", claimed, onLatest, observed, mergeOK, noop, got, want)
		}
		if pa.EndKind == "return" {
			ok, why = false, "the first loop returns from inside"
		}
	}
	r.Table("R07.11 first loop", rows)
	r.Check(rule, FK(f)+"[first-loop-table]", p.Pos(f.Pos()), ok, "claim/move table of the pre-pass", why)

	// --- second loop
	ok2, why2 := true, ""
	gates := callsTo(f, false, ".shouldContinueRolling")
	if len(gates) != 1 {
		r.Check(rule, FK(f)+"[second-loop-table]", p.Pos(f.Pos()), false, "", "expected exactly one health gate")
		return
	}
	gi := gates[0].Instr.(ssa.Instruction)
	onLatest2 := func(l Lit) bool {
		return l.Op == token.EQL && (E(l.X) == "p1[0]" || E(l.Y) == "p1[0]") && strings.Contains(l.Atom, "childClaimMap.getKind")
	}
	// (a) passed over ⇒ ¬rolling ∨ on latest
	if w := (engine.Query{Fn: f, From: []engine.Point{{B: loop2.Body}}, Target: func(in ssa.Instruction) bool { return in.Block() == loop2.Header },
		CutInstr: func(in ssa.Instruction) bool { return in == gi },
		CutEdge: func(b *ssa.BasicBlock, i int, l *Lit) bool {
			if l == nil {
				return false
			}
			return !l.Pos && rolling(*l) || l.Pos && onLatest2(*l)
		}}).Find(); w != nil {
		ok2, why2 = false, "a child can be passed over although its kind is rolling and it is not on the latest revision; "+pathWhy(w)
	}
	// (b) gate only for rolling kinds not on latest
	if w := unguarded(f, []engine.Point{{B: loop2.Body}}, gi, func(l Lit) bool { return l.Pos && rolling(l) }); w != nil {
		ok2, why2 = false, "children of a non-rolling kind take part in the rollout"
	}
	if w := unguarded(f, []engine.Point{{B: loop2.Body}}, gi, func(l Lit) bool { return !l.Pos && onLatest2(l) }); w != nil {
		ok2, why2 = false, "a child already on the latest revision triggers a move"
	}
	// (c) the claim compared with latest is claimed[group,kind][name], looked up whenever that kind has claims
	var cmp *Lit
	for _, b := range loop2.BodyBlocks() {
		for i := range b.Succs {
			if l, has := engine.EdgeLit(b, i); has && onLatest2(l) {
				ll := l
				cmp = &ll
			}
		}
	}
	if cmp == nil {
		ok2, why2 = false, "no comparison of the child's claim with the latest revision"
	} else {
		other := cmp.X
		if E(other) == "p1[0]" {
			other = cmp.Y
		}
		ph, isPhi := engine.ResolveLocal(other).(*ssa.Phi)
		if !isPhi || len(ph.Edges) != 2 {
			ok2, why2 = false, "the claim compared with latest is "+E(other)+", not 'nil unless the kind has claims'"
		} else {
			for i, e := range ph.Edges {
				pred := ph.Block().Preds[i]
				c, isConst := e.(*ssa.Const)
				if isConst && c.IsNil() {
					// the nil arm is taken only when the kind's claim map is nil
					w := engine.Query{Fn: f, From: []engine.Point{{B: loop2.Body}}, Target: func(in ssa.Instruction) bool { return in.Block() == ph.Block() && in == ssa.Instruction(ph) },
						CutEdge: func(b *ssa.BasicBlock, j int, l *Lit) bool {
							if b == pred && b.Succs[j] == ph.Block() && l == nil {
								return false
							}
							// cut every way into the phi block except via pred, and on pred require 'claimMap == nil'
							if b.Succs[j] == ph.Block() && b != pred {
								return true
							}
							if l != nil {
								if v, isNil, isT := l.NilTest(); isT && isNil && strings.Contains(E(v), "childClaimMap.getKind)(") && b.Succs[j] == ph.Block() {
									return true // correct: nil arm across 'claimMap == nil'
								}
							}
							return false
						}}.Find()
					if w != nil {
						ok2, why2 = false, "the child's claim is taken to be nil although its kind has claims (the lookup is skipped): it then looks 'not on latest' for ever and the rollout moves it again and again"
					}
				} else if !strings.Contains(E(e), "childClaimMap.getKind)(") {
					ok2, why2 = false, "the claim is "+E(e)+", not claimed[group,kind][name]"
				}
			}
		}
	}
	r.Check(rule, FK(f)+"[second-loop-table]", p.Pos(f.Pos()), ok2, "skip ⇔ ¬rolling ∨ on latest; claim = claimed[group,kind][name]", why2)
	// the gate looks at the latest revision AFTER the pre-pass gave it the unclaimed and the no-op children
	okG, whyG := true, ""
	for _, b := range inner1.BodyBlocks() {
		for _, in := range b.Instrs {
			if isEff(in) && (engine.Query{Fn: f, From: []engine.Point{engine.After(gi)}, Target: func(x ssa.Instruction) bool { return x == in }}).Find() != nil {
				okG, whyG = false, "the health gate is evaluated before the pre-pass assigns children to the latest revision ("+p.InstrPos(in)+" runs after it): children the pre-pass has just put on the latest revision — not yet observed, or failing their status checks — are not looked at, and a move slips through"
			}
		}
	}
	if !loop2.Contains(gi) {
		okG, whyG = false, "the health gate is not evaluated at the point of the move (inside the loop over the hook's children): its answer does not reflect the revision's children at that point"
	}
	r.Check(rule, FK(f)+"[gate-after-pre-pass]", p.InstrPos(gi), okG, "gate evaluated at the move, after the pre-pass", whyG)
}

func other(fld string) string {
	if fld == "Status" {
		return "Reason"
	}
	return "Status"
}

// conditionTables: the two scans of status.conditions (lookup by type; replace-or-append), both directions.
func conditionTables(r *Report, p *Program, rule string) {
	r.Rule(rule, "status.conditions scans: an item is the condition looked for ⇔ it is a map whose \"type\" is a string equal to the wanted type; GetStatusCondition returns it (never skips it), SetCondition replaces it in place and appends only when no item matched")
	r.Floor(rule, 2)
	for _, key := range []string{"dynamic/object.GetStatusCondition", "dynamic/object.SetCondition"} {
		f := fn(r, p, rule, key)
		if f == nil {
			continue
		}
		loops := engine.RangeLoops(f)
		if len(loops) != 1 || !strings.Contains(E(loops[0].X), "unstructured.NestedSlice)(p0") {
			r.Check(rule, FK(f), p.Pos(f.Pos()), false, "", "expected one loop over the conditions read with NestedSlice")
			continue
		}
		l := loops[0]
		want := "p1"
		if strings.HasSuffix(key, "SetCondition") {
			want = "p1.Type"
		}
		isMap := func(a string) bool {
			return strings.HasPrefix(a, "assert<map[string]interface{}>(") && strings.HasSuffix(a, "#1")
		}
		isStr := func(a string) bool {
			return strings.HasPrefix(a, "assert<string>(") && strings.HasSuffix(a, `["type"])#1`)
		}
		isEq := func(a string) bool { return strings.Contains(a, `["type"])#0 == `+want+")") }
		paths, err := engine.EnumPaths(f, engine.EnumOpts{Start: l.Body, Leave: func(b *ssa.BasicBlock) bool { return b == l.Header || b == l.Exit },
			Effect: func(in ssa.Instruction) bool {
				return isCallTo(in, "unstructured.SetNestedField", "object.NewStatusCondition")
			}})
		ok, why := err == nil, ""
		if err != nil {
			why = err.Error()
		}
		for _, pa := range paths {
			m, s, e := val(pa, -1, isMap), val(pa, -1, isStr), val(pa, -1, isEq)
			match := m == 1 && s == 1 && e == 1
			_, isR := pa.End.(*ssa.Return)
			switch {
			case isR && !match:
				ok, why = false, "an item that is not (a map with the wanted string type) ends the scan: "+pa.Cond()
			case !isR && match:
				ok, why = false, "the matching condition is skipped"
			case !isR && !(m == -1 || s == -1 || e == -1):
				ok, why = false, "an item is passed over without having been found different: "+pa.Cond()
			case isR && len(pa.Effects) == 0:
				ok, why = false, "the matching item is neither returned nor replaced"
			}
		}
		// SetCondition: the append happens only when the scan found nothing (no conditions, or the loop ran out)
		if strings.HasSuffix(key, "SetCondition") {
			for _, cs := range callsTo(f, false, "builtin.append") {
				w := engine.Query{Fn: f, Target: func(in ssa.Instruction) bool { return in == cs.Instr.(ssa.Instruction) },
					CutEdge: func(b *ssa.BasicBlock, i int, lt *Lit) bool {
						if b == l.Header && b.Succs[i] == l.Exit {
							return true
						}
						return lt != nil && !lt.Pos && strings.HasSuffix(lt.Atom, "#1") && strings.HasPrefix(lt.Atom, "call(unstructured.NestedSlice)(p0")
					}}.Find()
				if w != nil {
					ok, why = false, "the condition is appended without having looked for one of its type among existing conditions: every sync adds another copy"
				}
			}
		}
		r.Check(rule, FK(f), p.Pos(f.Pos()), ok, "match ⇔ map ∧ string type ∧ equal; replace or append-if-absent", why)
	}
}
