package rules

import (
	"strings"

	"mcvet/engine"

	"golang.org/x/tools/go/ssa"
)

// claimMovePairing (C07 R07.4b / C09 R09.6): a child handed to the latest
// revision that another revision may still claim is removed from that revision
// on the same path, so that every child is assigned to at most one revision in
// what gets persisted.
func claimMovePairing(r *Report, p *Program, rule string) {
	r.Rule(rule, "every latest.addChild(g,k,n) that is not on the 'unclaimed' edge is followed, before the iteration ends, by removeChild(g,k,n) on the previous claimant (or on all non-latest revisions)")
	f := fn(r, p, rule, "controller/composite.parentController.syncRollingUpdate")
	if f == nil {
		return
	}
	loops := engine.RangeLoops(f)
	adds := callsTo(f, false, "composite.parentRevision.addChild")
	rems := callsTo(f, false, "composite.parentRevision.removeChild")
	if len(adds) < 3 {
		r.Fail(rule, FK(f), p.Pos(f.Pos()), "anchor-lost", sf("expected >=3 addChild calls in syncRollingUpdate, found %d", len(adds)))
	}
	sameArgs := func(a, b engine.CallSite) bool {
		for i := 0; i < 3; i++ {
			if !engine.SameValue(a.Arg(i), b.Arg(i)) && E(a.Arg(i)) != E(b.Arg(i)) {
				return false
			}
		}
		return true
	}
	for i, a := range adds {
		ai := a.Instr.(ssa.Instruction)
		c := sf("%s→addChild#%d", FK(f), i)
		if E(a.Recv()) != "p1[0]" {
			r.Check(rule, c, p.InstrPos(ai), false, "", "addChild on "+E(a.Recv())+": children may only be added to the latest revision (parentRevisions[0])")
			continue
		}
		// unclaimed edge?
		w := unguarded(f, nil, ai, func(l Lit) bool {
			return !l.Pos && strings.Contains(l.Atom, "childClaimMap.getKind)(") && strings.HasSuffix(l.Atom, "#1")
		})
		if w == nil {
			r.Check(rule, c+"[unclaimed]", p.InstrPos(ai), true, "on the 'no revision claims it' edge", "")
			continue
		}
		loop := engine.EnclosingLoop(loops, ai)
		// matching removals
		var cutInstrs []ssa.Instruction
		cutHeaders := map[*ssa.BasicBlock]bool{}
		for _, rm := range rems {
			if !sameArgs(a, rm) {
				continue
			}
			ri := rm.Instr.(ssa.Instruction)
			if rl := engine.EnclosingLoop(loops, ri); rl != nil && rl != loop && E(rl.X) == "slice(p1)" && E(rm.Recv()) != "p1[0]" {
				cutHeaders[rl.Header] = true // removal from every non-latest revision
				continue
			}
			cutInstrs = append(cutInstrs, ri)
		}
		wq := engine.Query{Fn: f, From: []engine.Point{engine.After(ai)},
			Target: func(in ssa.Instruction) bool {
				if engine.IsReturn(in) {
					return true
				}
				return loop != nil && in.Block() == loop.Header
			},
			CutInstr: func(in ssa.Instruction) bool {
				if cutHeaders[in.Block()] {
					return true
				}
				for _, x := range cutInstrs {
					if x == in {
						return true
					}
				}
				return false
			}}.Find()
		r.Check(rule, c+"[paired-remove]", p.InstrPos(ai), wq == nil, "previous claimant loses the child on the same path", "a child is added to the latest revision while the revision that claimed it keeps it: two ControllerRevisions would be persisted claiming the same child")
	}
}

// revisionCopies (C09 R09.7 / C17): ControllerRevisions that syncRevisions goes
// on to edit are copies of the lister's objects (or brand new), never the
// cached objects themselves — otherwise observed and desired alias each other
// and manageRevisions can detect no change.
func revisionCopies(r *Report, p *Program, rule string) {
	r.Rule(rule, "every value stored in parentRevision.revision is a DeepCopy of an observed revision or a new revision")
	f := fn(r, p, rule, "controller/composite.parentController.syncRevisions")
	if f == nil {
		return
	}
	n := 0
	for _, b := range engine.BlocksInl(f) {
		for _, in := range b.Instrs {
			st, ok := in.(*ssa.Store)
			if !ok || !strings.HasSuffix(E(st.Addr), "parentRevision>.revision") {
				continue
			}
			n++
			k := keyOf(st.Val)
			okC := strings.HasSuffix(k, "v1alpha1.ControllerRevision.DeepCopy") || strings.HasSuffix(k, "parentController.newControllerRevision")
			r.Check(rule, sf("%s→store(revision)#%d", FK(f), n-1), p.InstrPos(in), okC, "revision := "+Abbrev(k), "parentRevision.revision is set to "+E(st.Val)+", an object owned by the informer cache / the observed list: later edits (addChild/removeChild, resourceVersion) mutate the cache and make observed == desired")
		}
	}
	if n < 3 {
		r.Fail(rule, FK(f), p.Pos(f.Pos()), "anchor-lost", sf("expected >=3 stores to parentRevision.revision, found %d", n))
	}
}
