package rules

import (
	"sort"
	"strings"

	"mcvet/engine"

	"golang.org/x/tools/go/ssa"
)

func init() {
	Registry["C10"] = checkC10
}

// syncEntry describes one caller of common.ManageChildren.
type syncEntry struct {
	Fn        *ssa.Function
	Kind      string // composite | decorator
	Manage    engine.CallSite
	SyncObj   *engine.CallSite // finalizer.SyncObject
	Observe   *engine.CallSite // claimChildren / getChildren
	Hook      *engine.CallSite // syncRevisions / callHook
	StatusUpd *engine.CallSite // updateParentStatus (composite)
}

func syncEntries(r *Report, p *Program, rule string) []syncEntry {
	var out []syncEntry
	for _, f := range p.Scanned {
		mcs := callsTo(f, false, "controller/common.ManageChildren")
		if len(mcs) == 0 {
			continue
		}
		e := syncEntry{Fn: f, Manage: mcs[0], Kind: "composite"}
		if strings.Contains(FK(f), "decorator") {
			e.Kind = "decorator"
		}
		pick := func(sufs ...string) *engine.CallSite {
			cs := callsTo(f, false, sufs...)
			if len(cs) == 0 {
				return nil
			}
			return &cs[0]
		}
		e.SyncObj = pick("finalizer.Manager.SyncObject")
		e.Observe = pick(".claimChildren", ".getChildren")
		e.Hook = pick(".syncRevisions", ".callHook")
		e.StatusUpd = pick(".updateParentStatus")
		out = append(out, e)
	}
	sort.Slice(out, func(i, j int) bool { return FK(out[i].Fn) < FK(out[j].Fn) })
	if len(out) != 2 {
		r.Fail(rule, "sync entries", "-", "anchor-lost", sf("expected 2 callers of ManageChildren (composite, decorator), found %d", len(out)))
	}
	return out
}

func checkC10(r *Report, p *Program) {
	r.Explanation = "Decides per-sync decisions as tables/dominance facts on the SSA: (R10.1) finalizer.SyncObject's success edge dominates observing children, the hook call and ManageChildren in both sync entries, its failure is an error return with nothing written; (R10.2) SyncObject's complete table: no request when has==enabled, AddFinalizer only for enabled∧¬has∧not-deleting, RemoveFinalizer only for ¬enabled∧has; (R10.3) ShouldFinalize is true only for ¬gcFinalizer∧has∧enabled and hasGCFinalizer tests exactly foregroundDeletion/orphan; (R10.4) ManageChildren is reachable only across DeletionTimestamp==nil or ShouldFinalize(parent) evaluated on the parent state after the finalizer edits of this sync; (R10.5) hook selection in both callHooks: finalize hook only when enabled∧(deleting∨unmatched) and with IsFinalizing(); sync hook never on those paths, never with IsFinalizing(); `finalizing` is written only by IsFinalizing; (R10.6) finalizer removal only across syncResult.Finalized, and the rolling aggregate is false as soon as one live revision is not finalized, all live revisions being asked; (R10.7) both finalizer managers are enabled by the same field the finalize hook is built from."
	r.NotDecided = "whole life cycles over many syncs; outcomes of failed add/remove requests across histories."
	entries := syncEntries(r, p, "R10.1")
	r10_1(r, p, entries)
	r10_2(r, p)
	r10_3(r, p)
	r10_4(r, p, entries)
	r10_5(r, p)
	r10_6(r, p, entries)
	r10_7(r, p)
	// the parent the sync continues with is the live one the finalizer write saw (shared with C12/C13)
	rmwResultSet(r, p, "R10.8")
	finalizerNameInjective(r, p, "R10.10")
	staleParentAfterFinalizerSync(r, p, "R10.11")
	createTable(r, p, "R10.12")
	rmwOperands(r, p, "R10.13")
	hookWiring(r, p, "R10.14")
	smallVerbClauses(r, p, "R10.15")
	// a failed finalizer add/remove is an error of SyncObject, never a silent continue without the finalizer (R12.1 on the finalizer code)
	errorRule(r, p, "R10.9", 2, func(f *ssa.Function) bool {
		return strings.HasSuffix(p.File(f), "common/finalizer/finalizer.go")
	})
}

func r10_1(r *Report, p *Program, entries []syncEntry) {
	const rule = "R10.1"
	r.Rule(rule, "SyncObject(err==nil) dominates observe, hook and ManageChildren; on error: error return, no further call")
	r.Floor(rule, 10)
	reach := writeReachers(p)
	for _, e := range entries {
		f := e.Fn
		if e.SyncObj == nil {
			r.Check(rule, FK(f)+"[SyncObject]", p.Pos(f.Pos()), false, "", "sync entry does not call finalizer.SyncObject")
			continue
		}
		for name, t := range map[string]*engine.CallSite{"observe": e.Observe, "hook": e.Hook, "manage": &e.Manage} {
			if t == nil {
				r.Check(rule, FK(f)+"["+name+"]", p.Pos(f.Pos()), false, "", "anchor "+name+" not found in sync entry")
				continue
			}
			w := notAfterSuccess(f, e.SyncObj.Instr, t.Instr.(ssa.Instruction))
			r.Check(rule, sf("%s[SyncObject≺%s]", FK(f), name), p.InstrPos(t.Instr), w == nil, "only reachable after a successful finalizer sync", Short(t.Key)+" reachable without a successful finalizer.SyncObject; "+pathWhy(w))
		}
		// failure edge: no write call, only error returns
		ev := engine.ErrValue(e.SyncObj.Instr)
		var from []engine.Point
		for _, b := range engine.BlocksInl(f) {
			for i := range b.Succs {
				if l, ok := engine.EdgeLit(b, i); ok {
					if v, isNil, ok := l.NilTest(); ok && !isNil && engine.SameValue(v, ev) {
						from = append(from, engine.Point{B: b.Succs[i]})
					}
				}
			}
		}
		ok, why := len(from) > 0, "the error of SyncObject is never tested"
		if ok {
			if w := (engine.Query{Fn: f, From: from, Target: func(in ssa.Instruction) bool {
				if isWriteCall(p, reach, in) {
					return true
				}
				rt, isR := in.(*ssa.Return)
				return isR && !isErrReturn(rt)
			}}).Find(); w != nil {
				ok, why = false, "after a failed finalizer sync the function goes on to "+p.InstrPos(w.Instr)
			}
		}
		r.Check(rule, FK(f)+"[SyncObject-fails⇒abort]", p.InstrPos(e.SyncObj.Instr), ok, "failure ⇒ immediate error return", why)
		// a parent that carries our finalizer always reaches SyncObject: the only way to
		// return before it is across 'does not contain our finalizer' (∧ does not match)
		soi := e.SyncObj.Instr.(ssa.Instruction)
		hasNoFin := func(l Lit) bool {
			if l.Pos {
				return false
			}
			if l.Implied {
				return strings.HasPrefix(l.Atom, "call(controllerutil.ContainsFinalizer)(p1,") && strings.HasSuffix(l.Atom, ".finalizer.Name)")
			}
			c, isC := l.Cond.(*ssa.Call)
			return isC && strings.HasSuffix(engine.CallKey(c.Common()), "controllerutil.ContainsFinalizer") && E(c.Common().Args[0]) == "p1" && strings.HasSuffix(E(c.Common().Args[1]), ".finalizer.Name")
		}
		wf := engine.Query{Fn: f, Target: func(in ssa.Instruction) bool { rt, isR := in.(*ssa.Return); return isR && !isErrReturn(rt) },
			CutInstr: func(in ssa.Instruction) bool { return in == soi },
			CutEdge: func(b *ssa.BasicBlock, i int, l *Lit) bool {
				if l == nil {
					return false
				}
				if hasNoFin(*l) {
					return true
				}
				alts := engine.ExpandLitDNF(*l)
				if len(alts) == 0 {
					return false
				}
				for _, alt := range alts {
					hit := false
					for _, il := range alt {
						hit = hit || hasNoFin(il)
					}
					if !hit {
						return false
					}
				}
				return true
			}}.Find()
		r.Check(rule, FK(f)+"[has-finalizer⇒SyncObject]", p.InstrPos(soi), wf == nil, "returns before the finalizer sync only for parents without our finalizer", "a parent that still carries our finalizer can be skipped before finalizer.SyncObject (e.g. because it stopped matching, or the finalize hook was removed): the finalizer is never removed and blocks the parent's deletion; "+pathWhy(wf))
		// and conversely: the finalizer sync (which may ADD the finalizer), like everything after it, is reached
		// only for a parent that matches the selector or still carries the finalizer
		selected := func(l Lit) bool {
			if strings.Contains(l.Atom, ".doNotMatchLabels)(") && strings.Contains(l.Atom, "GetLabels)(p1)") {
				return !l.Pos
			}
			if strings.Contains(l.Atom, "decoratorSelector.Matches)(") && strings.HasSuffix(l.Atom, ", p1)") {
				return l.Pos
			}
			if strings.HasPrefix(l.Atom, "call(controllerutil.ContainsFinalizer)(p1,") && strings.HasSuffix(l.Atom, ".finalizer.Name)") {
				return l.Pos
			}
			return false
		}
		ws := unguarded(f, nil, soi, selected)
		r.Check(rule, FK(f)+"[SyncObject⇒selected∨has-finalizer]", p.InstrPos(soi), ws == nil, "an object that neither matches the selector nor carries the finalizer is left alone", "an object that neither matches the controller's selector nor carries its finalizer reaches finalizer.SyncObject: it gets the finalizer added and is then treated as a parent; "+pathWhy(ws))
		// the parent used afterwards is the one SyncObject returned
		upd := engine.ResultValue(e.SyncObj.Instr, 0)
		okP := upd != nil && engine.DependsOnValue(e.Manage.Common().Args[2], upd, nil)
		r.Check(rule, FK(f)+"[parent:=updated]", p.InstrPos(e.Manage.Instr), okP, "ManageChildren works on the parent returned by SyncObject (or later edits of it)", "ManageChildren's parent does not derive from SyncObject's result")
	}
}

func r10_2(r *Report, p *Program) {
	const rule = "R10.2"
	r.Rule(rule, "finalizer.SyncObject table: has==enabled ⇒ nothing; Add only enabled∧¬has∧alive; Remove only ¬enabled∧has")
	r.Floor(rule, 3)
	f := fn(r, p, rule, "controller/common/finalizer.Manager.SyncObject")
	if f == nil {
		return
	}
	paths, err := engine.EnumPaths(f, engine.EnumOpts{Effect: func(in ssa.Instruction) bool {
		return isCallTo(in, "ResourceClient.AddFinalizer", "ResourceClient.RemoveFinalizer", "ResourceClient.AtomicUpdate") || isSinkInstr(in)
	}})
	if err != nil {
		r.Fail(rule, FK(f), p.Pos(f.Pos()), "undecided", err.Error())
		return
	}
	eq := re(`^\(call\(controllerutil\.ContainsFinalizer\)\(p2, p0\.Name\) == p0\.Enabled\)$`)
	en := re(`^p0\.Enabled$`)
	alive := re(`^\(call\(unstructured\.Unstructured\.GetDeletionTimestamp\)\(p2\) == nil\)$`)
	var rows []map[string]string
	okEq, okAdd, okRem := true, true, true
	var whyEq, whyAdd, whyRem string
	nAdd, nRem, nEq := 0, 0, 0
	for _, pa := range paths {
		effs := verbsOf(pa.Effects)
		rows = append(rows, map[string]string{"when": pa.Cond(), "effects": strings.Join(effs, ",")})
		if val(pa, -1, eq) == 1 {
			nEq++
			if len(effs) > 0 {
				okEq, whyEq = false, "a request is issued although the finalizer is already in the desired state: ["+pa.Cond()+"]"
			}
			if rt, ok := pa.End.(*ssa.Return); ok && (E(rt.Results[0]) != "p2" || E(rt.Results[1]) != "nil") {
				okEq, whyEq = false, "no-op path does not return the object unchanged"
			}
		}
		for i, e := range effs {
			at := pa.EffAt[i]
			switch e {
			case "AddFinalizer":
				nAdd++
				if !(val(pa, at, eq) == -1 && val(pa, at, en) == 1 && val(pa, at, alive) == 1) {
					okAdd, whyAdd = false, "AddFinalizer reachable without (¬has ∧ enabled ∧ parent not being deleted): ["+pa.Cond()+"]"
				}
			case "RemoveFinalizer":
				nRem++
				if !(val(pa, at, eq) == -1 && val(pa, at, en) == -1) {
					okRem, whyRem = false, "RemoveFinalizer reachable without (has ∧ ¬enabled): ["+pa.Cond()+"]"
				}
			default:
				okEq, whyEq = false, "unexpected write "+e+" in SyncObject"
			}
		}
		// the converse: ¬eq ∧ ¬enabled must remove (leftover finalizer is removed, even for a parent being deleted)
		if val(pa, -1, eq) == -1 && val(pa, -1, en) == -1 && count(effs, "RemoveFinalizer") != 1 {
			okRem, whyRem = false, "a leftover finalizer is not removed on ["+pa.Cond()+"]"
		}
		if val(pa, -1, eq) == -1 && val(pa, -1, en) == 1 && val(pa, -1, alive) == 1 && count(effs, "AddFinalizer") != 1 {
			okAdd, whyAdd = false, "the finalizer is not added on ["+pa.Cond()+"]"
		}
		// complete table: no request ⇔ has==enabled ∨ (enabled ∧ parent being deleted)
		if len(effs) == 0 && val(pa, -1, eq) != 1 && !(val(pa, -1, en) == 1 && val(pa, -1, alive) == -1) {
			okRem, whyRem = false, "no request is issued on ["+pa.Cond()+"], which is neither 'already in the desired state' nor 'enabled but parent being deleted' (a leftover finalizer would stay)"
		}
	}
	if nAdd == 0 || nRem == 0 || nEq == 0 {
		okEq, whyEq = false, sf("table degenerate (eq=%d add=%d remove=%d)", nEq, nAdd, nRem)
	}
	r.Table("R10.2 SyncObject", rows)
	r.Check(rule, FK(f)+"[noop]", p.Pos(f.Pos()), okEq, "has==enabled ⇒ no request, object returned", whyEq)
	r.Check(rule, FK(f)+"[add]", p.Pos(f.Pos()), okAdd, "Add ⇔ enabled∧¬has∧alive", whyAdd)
	r.Check(rule, FK(f)+"[remove]", p.Pos(f.Pos()), okRem, "Remove ⇔ ¬enabled∧has", whyRem)
	// name argument
	for _, cs := range callsTo(f, false, "ResourceClient.AddFinalizer", "ResourceClient.RemoveFinalizer") {
		if E(cs.Arg(0)) != "p2" || E(cs.Arg(1)) != "p0.Name" {
			r.Check(rule, FK(f)+"[args]", p.InstrPos(cs.Instr), false, "", "finalizer request is not for (obj, m.Name): "+E(cs.Arg(0))+", "+E(cs.Arg(1)))
		}
	}
}

func isSinkInstr(in ssa.Instruction) bool {
	ci, ok := in.(ssa.CallInstruction)
	if !ok {
		return false
	}
	_, _, is := engine.ClassifySink(engine.CallKey(ci.Common()))
	return is
}

func r10_3(r *Report, p *Program) {
	const rule = "R10.3"
	r.Rule(rule, "ShouldFinalize true only on ¬hasGCFinalizer ∧ ContainsFinalizer ∧ Enabled; hasGCFinalizer tests exactly the two GC finalizers")
	r.Floor(rule, 2)
	if f := fn(r, p, rule, "controller/common/finalizer.Manager.ShouldFinalize"); f != nil {
		paths, err := engine.EnumPaths(f, engine.EnumOpts{})
		ok, why := err == nil, ""
		if err != nil {
			why = err.Error()
		}
		gc := re(`^call\(controller/common/finalizer\.hasGCFinalizer\)\(p1\)$`)
		has := re(`^call\(controllerutil\.ContainsFinalizer\)\(p1, p0\.Name\)$`)
		nT := 0
		for _, pa := range paths {
			rt, isR := pa.End.(*ssa.Return)
			if !isR {
				continue
			}
			ret := E(rt.Results[0])
			if ret == "false" {
				continue
			}
			nT++
			if !(val(pa, -1, gc) == -1 && val(pa, -1, has) == 1 && ret == "p0.Enabled") {
				ok, why = false, "returns "+ret+" on ["+pa.Cond()+"]: want Enabled only after ¬gcFinalizer ∧ hasFinalizer"
			}
		}
		if nT == 0 {
			ok, why = false, "ShouldFinalize can never be true"
		}
		r.Check(rule, FK(f), p.Pos(f.Pos()), ok, "true ⇒ ¬gc ∧ has ∧ enabled", why)
	}
	if f := fn(r, p, rule, "controller/common/finalizer.hasGCFinalizer"); f != nil {
		paths, err := engine.EnumPaths(f, engine.EnumOpts{})
		ok, why := err == nil, ""
		seen := map[string]bool{}
		membership := false
		for _, pa := range paths {
			rt, isR := pa.End.(*ssa.Return)
			if !isR || len(pa.Ret) != 1 || E(pa.Ret[0]) == "false" {
				continue
			}
			_ = rt
			matched := false
			lits := append([]Lit(nil), pa.Lits...)
			if len(pa.Ret) == 1 {
				if _, isC := pa.Ret[0].(*ssa.Const); !isC {
					lits = append(lits, engine.CondLit(pa.Ret[0], true)) // 'return a || b': the last disjunct is the returned value
				}
			}
			for _, l := range lits {
				if l.Pos && l.Op.String() == "==" {
					if s, isC := constStr(l.Y); isC {
						seen[s] = true
						matched = true
					}
				}
				// membership form: slices.Contains(obj.GetFinalizers(), "<name>")
				if c, isC := l.Cond.(*ssa.Call); isC && l.Pos && strings.Contains(engine.CallKey(c.Common()), "slices.Contains") && len(c.Common().Args) == 2 {
					if s, isS := constStr(c.Common().Args[1]); isS && strings.Contains(E(c.Common().Args[0]), "GetFinalizers)(p0)") {
						seen[s] = true
						matched = true
						membership = true
					}
				}
			}
			if !matched {
				ok, why = false, "returns true without comparing a finalizer name: ["+pa.Cond()+"]"
			}
		}
		if !(len(seen) == 2 && seen["foregroundDeletion"] && seen["orphan"]) {
			ok, why = false, sf("tests %v, want exactly [foregroundDeletion orphan]", sortedSet(seen))
		}
		// ranges over the object's finalizers
		if !membership && len(engine.LoopOver(f, re(`GetFinalizers\)\(p0\)`))) != 1 {
			ok, why = false, "does not range over obj.GetFinalizers()"
		}
		r.Check(rule, FK(f), p.Pos(f.Pos()), ok, "true ⇔ some finalizer ∈ {foregroundDeletion, orphan}", why)
	}
}

func isShouldFinalizeLit(l Lit) bool {
	c, ok := l.Cond.(*ssa.Call)
	return ok && strings.HasSuffix(engine.CallKey(c.Common()), "finalizer.Manager.ShouldFinalize")
}

func r10_4(r *Report, p *Program, entries []syncEntry) {
	const rule = "R10.4"
	r.Rule(rule, "ManageChildren only across parent.DeletionTimestamp==nil or ShouldFinalize(parent), both on the parent ManageChildren is given")
	r.Floor(rule, 2)
	for _, e := range entries {
		f := e.Fn
		in := e.Manage.Instr.(ssa.Instruction)
		parentArg := e.Manage.Common().Args[2]
		w := unguarded(f, nil, in, func(l Lit) bool {
			if l.Pos && isShouldFinalizeLit(l) {
				c := l.Cond.(*ssa.Call)
				return engine.SameValue(c.Common().Args[1], parentArg)
			}
			if v, isNil, ok := l.NilTest(); ok && isNil {
				if c := callOf(v); c != nil && strings.HasSuffix(engine.CallKey(c.Common()), ".GetDeletionTimestamp") {
					return engine.SameValue(engine.CallSite{Instr: c}.Recv(), parentArg)
				}
			}
			return false
		})
		r.Check(rule, FK(f)+"[dying-parent-gate]", p.InstrPos(in), w == nil, "children managed only for a live parent or one we finalize", "ManageChildren reachable for a dying parent without ShouldFinalize (or the gate looks at a different parent value than the one managed); "+pathWhy(w))
		// … and whenever one of the two holds: after the hook answered, a successful end of the sync that
		// has NOT managed the children must have seen both 'deletion pending' and 'not ours to finalize'
		if e.Hook != nil {
			notAlive := func(l Lit) bool {
				v, isNil, ok := l.NilTest()
				if !ok || isNil {
					return false
				}
				c := callOf(v)
				return c != nil && strings.HasSuffix(engine.CallKey(c.Common()), ".GetDeletionTimestamp")
			}
			notFinalizing := func(l Lit) bool { return !l.Pos && isShouldFinalizeLit(l) }
			okC, whyC := true, ""
			for name, g := range map[string]func(Lit) bool{"the parent is not pending deletion": notAlive, "ShouldFinalize(parent) holds": notFinalizing} {
				wq := engine.Query{Fn: f, From: []engine.Point{engine.After(e.Hook.Instr.(ssa.Instruction))},
					Target:   func(x ssa.Instruction) bool { rt, isR := x.(*ssa.Return); return isR && !isErrReturn(rt) },
					CutInstr: func(x ssa.Instruction) bool { return x == in },
					CutEdge: guardCut(func(l Lit) bool {
						if g(l) {
							return true
						}
						// no answer from the hook (no hook enabled): nothing to reconcile towards
						if v, isNil, isT := l.NilTest(); isT && isNil && engine.SameValue(v, engine.ResultValue(e.Hook.Instr, 0)) {
							return true
						}
						// the parent write was refused as gone/conflicting: the documented early end of this sync
						if c, isC := l.Cond.(*ssa.Call); isC && l.Pos {
							k := engine.CallKey(c.Common())
							return k == engine.KAPIErr+"IsNotFound" || k == engine.KAPIErr+"IsConflict"
						}
						return false
					})}.Find()
				if wq != nil {
					okC, whyC = false, "the sync can end successfully without ManageChildren although "+name+" (the two conditions are meant as alternatives): children are never reconciled for such parents; "+pathWhy(wq)
				}
			}
			r.Check(rule, FK(f)+"[managed-whenever-alive-or-finalizing]", p.InstrPos(in), okC, "children are skipped only for a dying parent we do not finalize", whyC)
		}
		// the gate must see the parent as left by this sync's finalizer edits
		for i, cs := range callsTo(f, false, "ResourceClient.RemoveFinalizer", "ResourceClient.AddFinalizer") {
			ci := cs.Instr.(ssa.Instruction)
			if (engine.Query{Fn: f, From: []engine.Point{engine.After(ci)}, Target: func(x ssa.Instruction) bool { return x == in }}).Find() == nil {
				continue // edit happens after the gate
			}
			res := engine.ResultValue(cs.Instr, 0)
			ok := res != nil && engine.DependsOnValue(parentArg, res, nil)
			r.Check(rule, sf("%s→%s#%d[result-feeds-gate]", FK(f), Short(cs.Key), i), p.InstrPos(ci), ok, "the updated parent replaces the stale one before the dying-parent gate", "the object returned by "+Short(cs.Key)+" is dropped: the dying-parent gate and ManageChildren still see the parent as it was before the finalizer edit")
		}
	}
}

func r10_5(r *Report, p *Program) {
	const rule = "R10.5"
	r.Rule(rule, "hook selection table in both callHooks; finalizing flag only via IsFinalizing()")
	r.Floor(rule, 8)
	for _, key := range []string{"controller/composite.parentController.callHook", "controller/decorator.decoratorController.callHook"} {
		f := fn(r, p, rule, key)
		if f == nil {
			continue
		}
		calls := callsTo(f, false, "hooks.Hook.Call")
		var fin, syn []engine.CallSite
		for _, c := range calls {
			if strings.HasSuffix(E(c.Recv()), ".finalizeHook") {
				fin = append(fin, c)
			} else if strings.HasSuffix(E(c.Recv()), ".syncHook") {
				syn = append(syn, c)
			} else {
				r.Check(rule, FK(f)+"[unknown-hook]", p.InstrPos(c.Instr), false, "", "hook call on "+E(c.Recv()))
			}
		}
		if len(fin) != 1 || len(syn) != 1 {
			r.Fail(rule, FK(f), p.Pos(f.Pos()), "anchor-lost", sf("expected one finalize and one sync hook call, found %d/%d", len(fin), len(syn)))
			continue
		}
		enabled := func(l Lit) bool {
			return l.Pos && strings.HasPrefix(l.Atom, "call(hooks.Hook.IsEnabled)(") && strings.HasSuffix(l.Atom, ".finalizeHook)")
		}
		disabled := func(l Lit) bool {
			return !l.Pos && strings.HasPrefix(l.Atom, "call(hooks.Hook.IsEnabled)(") && strings.HasSuffix(l.Atom, ".finalizeHook)")
		}
		deleting := func(l Lit) bool {
			v, isNil, ok := l.NilTest()
			return ok && !isNil && E(v) == "call(unstructured.Unstructured.GetDeletionTimestamp)(p1)"
		}
		alive := func(l Lit) bool {
			v, isNil, ok := l.NilTest()
			return ok && isNil && E(v) == "call(unstructured.Unstructured.GetDeletionTimestamp)(p1)"
		}
		unmatched := func(l Lit) bool {
			return (l.Pos && strings.Contains(l.Atom, ".doNotMatchLabels)(") && strings.Contains(l.Atom, "GetLabels)(p1)")) ||
				(!l.Pos && strings.Contains(l.Atom, "decoratorSelector.Matches)(") && strings.HasSuffix(l.Atom, ", p1)"))
		}
		matched := func(l Lit) bool {
			return (!l.Pos && strings.Contains(l.Atom, ".doNotMatchLabels)(") && strings.Contains(l.Atom, "GetLabels)(p1)")) ||
				(l.Pos && strings.Contains(l.Atom, "decoratorSelector.Matches)(") && strings.HasSuffix(l.Atom, ", p1)"))
		}
		fi := fin[0].Instr.(ssa.Instruction)
		si := syn[0].Instr.(ssa.Instruction)
		w1 := unguarded(f, nil, fi, enabled)
		w2 := unguarded(f, nil, fi, func(l Lit) bool { return deleting(l) || unmatched(l) })
		r.Check(rule, FK(f)+"[finalize⇒enabled]", p.InstrPos(fi), w1 == nil, "finalize hook only when enabled", "finalize hook called without IsEnabled(); "+pathWhy(w1))
		r.Check(rule, FK(f)+"[finalize⇒deleting∨unmatched]", p.InstrPos(fi), w2 == nil, "finalize hook only for a deleting or unmatched parent", "finalize hook called for a live, matching parent; "+pathWhy(w2))
		// sync hook: every path crosses ¬enabled, or both alive and matched
		w3 := unguarded(f, nil, si, func(l Lit) bool { return disabled(l) || alive(l) })
		w4 := unguarded(f, nil, si, func(l Lit) bool { return disabled(l) || matched(l) })
		ok := w3 == nil && w4 == nil
		why := ""
		if w3 != nil {
			why = "sync hook reachable for a parent being deleted although a finalize hook is enabled; " + pathWhy(w3)
		} else if w4 != nil {
			why = "sync hook reachable for an unmatched parent although a finalize hook is enabled; " + pathWhy(w4)
		}
		r.Check(rule, FK(f)+"[sync⇒¬finalizing-condition]", p.InstrPos(si), ok, "sync hook only when the finalize condition is false", why)
		// request flags
		freq, sreq := E(fin[0].Arg(0)), E(syn[0].Arg(0))
		okF := strings.Contains(freq, ".IsFinalizing)(") && strings.Contains(freq, ".Build)(")
		okS := !strings.Contains(sreq, ".IsFinalizing)(") && strings.Contains(sreq, ".Build)(")
		r.Check(rule, FK(f)+"[finalize-request-flag]", p.InstrPos(fi), okF, "finalize request built with IsFinalizing()", "finalize hook request is not built through IsFinalizing(): "+freq)
		r.Check(rule, FK(f)+"[sync-request-flag]", p.InstrPos(si), okS, "sync request built without IsFinalizing()", "sync hook request carries IsFinalizing(): "+sreq)
	}
	// writers of the `finalizing` field
	n := 0
	for _, f := range p.Scanned {
		for _, b := range engine.BlocksInl(f) {
			for _, in := range b.Instrs {
				st, ok := in.(*ssa.Store)
				if !ok || !strings.HasSuffix(E(st.Addr), ".finalizing") {
					continue
				}
				n++
				okW := strings.HasSuffix(FK(f), "requestBuilder.IsFinalizing") && E(st.Val) == "true"
				r.Check(rule, sf("%s→store(finalizing)", FK(f)), p.InstrPos(in), okW, "finalizing set only by IsFinalizing()", "field finalizing written outside IsFinalizing() or with "+E(st.Val))
			}
		}
	}
	for _, key := range []string{"controller/composite/api/v1.requestBuilder.Build", "controller/decorator/api/v1.requestBuilder.Build"} {
		if f := fn(r, p, rule, key); f != nil {
			ok := false
			for _, b := range engine.BlocksInl(f) {
				for _, in := range b.Instrs {
					if st, isS := in.(*ssa.Store); isS && strings.HasSuffix(E(st.Addr), ".Finalizing") && E(st.Val) == "p0.finalizing" {
						ok = true
					}
				}
			}
			r.Check(rule, FK(f)+"[Finalizing:=r.finalizing]", p.Pos(f.Pos()), ok, "request.Finalizing = builder.finalizing", "Build does not copy the finalizing flag into the request")
		}
	}
	if n < 2 {
		r.Fail(rule, "store(finalizing)", "-", "anchor-lost", "expected a writer of the finalizing flag in both request builders")
	}
}

func r10_6(r *Report, p *Program, entries []syncEntry) {
	const rule = "R10.6"
	r.Rule(rule, "finalizer removed only across syncResult.Finalized; rolling aggregate Finalized=false if any live revision is not finalized, and every dying-but-finalizing parent asks all revisions")
	r.Floor(rule, 4)
	finalizedLit := func(l Lit) bool {
		return l.Pos && strings.HasSuffix(l.Atom, ".Finalized") && !strings.Contains(l.Atom, "==")
	}
	for _, e := range entries {
		f := e.Fn
		n := 0
		for _, b := range engine.BlocksInl(f) {
			for _, in := range b.Instrs {
				if !isCallTo(in, "ResourceClient.RemoveFinalizer", "controllerutil.RemoveFinalizer") {
					continue
				}
				n++
				w := unguarded(f, nil, in, func(l Lit) bool {
					if !finalizedLit(l) {
						return false
					}
					// the flag must be the hook result's
					return e.Hook != nil && engine.DependsOnValue(l.Cond, e.Hook.Instr.Value(), nil)
				})
				r.Check(rule, sf("%s→RemoveFinalizer#%d", FK(f), n-1), p.InstrPos(in), w == nil, "removal guarded by the hook result's Finalized", "finalizer removal reachable without finalized:true from the hook; "+pathWhy(w))
			}
		}
		if n == 0 {
			r.Fail(rule, FK(f)+"→RemoveFinalizer", p.Pos(f.Pos()), "anchor-lost", "sync entry never removes the finalizer")
		}
	}
	sr := fn(r, p, rule, "controller/composite.parentController.syncRevisions")
	if sr == nil {
		return
	}
	// aggregate
	var tStore, fStore *ssa.Store
	for _, b := range engine.BlocksInl(sr) {
		for _, in := range b.Instrs {
			if st, ok := in.(*ssa.Store); ok && strings.HasSuffix(E(st.Addr), "CompositeHookResponse>.Finalized") {
				switch E(st.Val) {
				case "true":
					tStore = st
				case "false":
					fStore = st
				default:
					r.Check(rule, FK(sr)+"[aggregate]", p.InstrPos(in), false, "", "aggregate Finalized assigned "+E(st.Val))
				}
			}
		}
	}
	ok, why := tStore != nil && fStore != nil, "aggregate Finalized is not computed as true-unless-some-revision-false"
	if ok {
		loops := engine.RangeLoops(sr)
		l := engine.EnclosingLoop(loops, fStore)
		if l == nil || !strings.Contains(E(l.X), "pruneParentRevisions") && !strings.Contains(E(l.X), "parentRevision") {
			ok, why = false, "Finalized=false is not inside a loop over the live parent revisions"
		} else {
			// inside the loop: on !pr.syncResult.Finalized the store is unavoidable
			var from []engine.Point
			for _, b := range l.BodyBlocks() {
				for i := range b.Succs {
					if lt, okk := engine.EdgeLit(b, i); okk && !lt.Pos && strings.HasSuffix(lt.Atom, ".syncResult.Finalized") {
						from = append(from, engine.Point{B: b.Succs[i]})
					}
				}
			}
			if len(from) == 0 {
				ok, why = false, "loop does not test pr.syncResult.Finalized"
			} else if w := (engine.Query{Fn: sr, From: from, Target: func(in ssa.Instruction) bool {
				return in.Block() == l.Header || in.Block() == l.Exit || engine.IsReturn(in)
			}, CutInstr: func(in ssa.Instruction) bool { return in == ssa.Instruction(fStore) }}).Find(); w != nil {
				ok, why = false, "a revision that is not finalized does not force the aggregate to false"
			}
			// the loop ranges over all remaining revisions (not a sub-slice)
			if strings.HasPrefix(E(l.X), "slice(") {
				ok, why = false, "aggregate skips some revisions: ranges over "+E(l.X)
			}
		}
		// the true store dominates the loop, the result returned is that response
		if ok && bypass(sr, fStore, func(in ssa.Instruction) bool { return in == ssa.Instruction(tStore) }) != nil {
			ok, why = false, "Finalized=false can be overwritten: the initial true does not precede the loop"
		}
	}
	r.Check(rule, FK(sr)+"[aggregate-finalized]", p.Pos(sr.Pos()), ok, "all live revisions must agree on finalized", why)
	// shortcut (latest only) is not taken for a parent we are finalizing with rolling strategies
	chs := callsTo(sr, false, ".callHook")
	okS, whyS := false, "no direct callHook shortcut found"
	for _, c := range chs {
		in := c.Instr.(ssa.Instruction)
		w := unguarded(sr, nil, in, func(l Lit) bool {
			if !l.Pos && strings.Contains(l.Atom, "updateStrategyMap.anyRolling)(") {
				return true
			}
			return !l.Pos && isShouldFinalizeLit(l)
		})
		okS, whyS = w == nil, "the latest-revision-only shortcut is taken although rolling strategies exist and the parent is being finalized (older live revisions are never asked); "+pathWhy(w)
	}
	r.Check(rule, FK(sr)+"[shortcut⇒¬rolling∨¬finalizing]", p.Pos(sr.Pos()), okS, "single-hook shortcut only without rolling strategies or when not finalizing", whyS)
}

func r10_7(r *Report, p *Program) {
	const rule = "R10.7"
	r.Rule(rule, "finalizer.NewManager(enabled = Spec.Hooks.Finalize != nil) and the finalize hook is built from the same field")
	r.Floor(rule, 2)
	n := 0
	for _, f := range p.Scanned {
		for _, cs := range callsTo(f, false, "finalizer.NewManager") {
			n++
			en := E(cs.Common().Args[1])
			ok := re(`^!\(p\d+\.Spec\.Hooks\.Finalize == nil\)$`)(en) || re(`^\(p\d+\.Spec\.Hooks\.Finalize != nil\)$`)(en)
			why := ""
			if !ok {
				why = "enabled is " + en + ", want Spec.Hooks.Finalize != nil"
			}
			// hook built from the same field
			okH := false
			for _, h := range callsTo(f, false, "hooks.NewHook") {
				a0 := E(h.Common().Args[0])
				if strings.HasSuffix(a0, ".Spec.Hooks.Finalize") && strings.HasSuffix(E(h.Common().Args[3]), `"finalize"`) {
					// and stored into finalizeHook
					okH = true
				}
			}
			if ok && !okH {
				ok, why = false, "no NewHook(Spec.Hooks.Finalize, …, FinalizeHook) in the same constructor"
			}
			name := E(cs.Common().Args[0])
			if ok && !strings.Contains(name, ".ObjectMeta.Name") {
				ok, why = false, "finalizer name does not include the controller's name: "+name
			}
			r.Check(rule, sf("%s→NewManager#%d", FK(f), n-1), p.InstrPos(cs.Instr), ok, "enabled ⇔ finalize hook configured; name per controller", why)
		}
	}
}
