package rules

import (
	"go/token"
	"go/types"
	"sort"
	"strings"

	"mcvet/engine"

	"golang.org/x/tools/go/ssa"
)

func init() {
	Registry["C13"] = checkC13
}

func checkC13(r *Report, p *Program) {
	r.Explanation = "'Any byte sequence' quantifies over inputs, but a panic needs a construct that panics on a value the decoder can produce, and those constructs are enumerable: (R13.1) decoded-nil discipline — every pointer element of the hook responses' lists (children, attachments, related rules) and every map they carry (status) is labelled 'may be nil' unless the decoding function filters/rejects nil entries on all paths; the label is propagated module-wide and must not reach a dereference (method call on the pointer, field access), a store into the map (directly, via unstructured.SetNested*, or in a callee) unless a nil test of that very value guards it; (R13.2) no unchecked type assertion on values that come out of a decoded response or out of object content; (R13.3) the type check of desired children's labels (NestedStringMap error) happens on the child's own content before anything that swallows conversion errors touches the labels, and before ManageChildren; (R13.4) a rejected response writes nothing: every child/revision write of a sync is reachable only after the hook call returned nil, and Call returns an error on transport failure, unsupported status, unreadable body and undecodable body; error results of selector construction in the customize path are returned before the selector is used."
	r.NotDecided = "resource exhaustion by huge bodies; panics inside dependencies on non-nil but odd values."
	r13_1(r, p)
	r13_2(r, p)
	r13_3(r, p)
	r13_4(r, p)
	rmwResultSet(r, p, "R13.5")
	failedResultNotUsed(r, p, "R13.7")
	nilKnownNotDereferenced(r, p, "R13.8")
	lookupResultsChecked(r, p, "R13.9")
	constantSlicesBounded(r, p, "R13.10", 1)
	// pointer fields of hook answers (customize rules) are nil when the hook leaves them out
	optionalFieldsChecked(r, p, "R13.11", 10)
	commaOkValuesUsedWhenOk(r, p, "R13.12", 20)
	resultNotUsedBeforeErrorCheck(r, p, "R13.13")
	foundValuesGuarded(r, p, "R13.14")
	generatedLabelTable(r, p, "R13.15") // labels a hook sent in a wrong shape are refused, not replaced
	// shouldContinueRolling hands latest.desiredChildMap[name] to ApplyUpdate unchecked: what makes that
	// non-nil is that syncRevisionClaims keeps, for EVERY revision incl. the latest, only names the latest desires
	r09_5(r, p)
	r13_6(r, p)
	// unchecked type assertions in the merge are reachable only behind the list-map detection over all three lists (shared with C05)
	r05_3(r, p)
	// a body the strict decoder rejects is rejected however it arrives (shared with C19)
	r19_3(r, p)
	// the per-revision overlay hands ReplaceObjectIfExists a child only behind its nil test (shared with C07)
	r07_5(r, p)
}

// r13_6: a decoded customize response is cached only after its entries were validated.
func r13_6(r *Report, p *Program) {
	const rule = "R13.6"
	r.Rule(rule, "getCustomizeHookResponse stores the response in the customize cache only after the loop that rejects null relatedResources entries has run: a cached response is served to later syncs and to informer event handlers without being validated again")
	r.Floor(rule, 1)
	f := fn(r, p, rule, "controller/common/customize.Manager.getCustomizeHookResponse")
	if f == nil {
		return
	}
	var loop *engine.RangeLoop
	for _, l := range engine.RangeLoops(f) {
		if strings.HasSuffix(E(l.X), ".RelatedResourceRules") {
			loop = l
		}
	}
	sets := callsTo(f, false, "cache.Cache", ".Set")
	var setI []ssa.Instruction
	for _, cs := range sets {
		if strings.Contains(cs.Key, "cache.Cache") && (strings.HasSuffix(cs.Key, ".Set") || strings.HasSuffix(cs.Key, ".SetNoExpiration")) {
			setI = append(setI, cs.Instr.(ssa.Instruction))
		}
	}
	ok, why := loop != nil && len(setI) > 0, "validation loop over RelatedResourceRules or the cache store not found"
	if ok {
		for _, si := range setI {
			if loop.Contains(si) {
				ok, why = false, "the response is cached inside the validation loop"
				continue
			}
			if w := bypass(f, si, func(in ssa.Instruction) bool { return in.Block() == loop.Exit }); w != nil {
				ok, why = false, "the response is stored in the customize cache before (or without) the loop that rejects null entries: the failing sync returns an error, but its retry and every related-object event read the unvalidated response from the cache and dereference the nil rule; "+pathWhy(w)
			}
		}
	}
	r.Check(rule, FK(f)+"[validated≺cached]", p.Pos(f.Pos()), ok, "cache store only after the validation loop completed", why)
}

// responseFields: nil-able members of the decoded hook response types.
func responseFields(p *Program) (lists, maps []string) {
	for _, pk := range p.Pkgs {
		sc := pk.Types.Scope()
		for _, n := range sc.Names() {
			tn, ok := sc.Lookup(n).(*types.TypeName)
			if !ok || !strings.HasSuffix(n, "HookResponse") {
				continue
			}
			st, ok := tn.Type().Underlying().(*types.Struct)
			if !ok {
				continue
			}
			for i := 0; i < st.NumFields(); i++ {
				f := st.Field(i)
				id := pk.PkgPath + "." + n + "." + f.Name()
				switch u := f.Type().Underlying().(type) {
				case *types.Slice:
					if _, isPtr := u.Elem().Underlying().(*types.Pointer); isPtr {
						lists = append(lists, id)
					}
				case *types.Map:
					if _, isIface := u.Elem().Underlying().(*types.Interface); isIface {
						maps = append(maps, id) // free-form maps that we write into (status)
					}
				}
			}
		}
	}
	sort.Strings(lists)
	sort.Strings(maps)
	return
}

// listSanitised: in every function that decodes into a response of the owning
// type, every success return is preceded by a store into the field of a slice
// that was built only from elements tested non-nil, or by an error return on a
// nil element.
func listSanitised(p *Program, fieldID string) (bool, string) {
	i := strings.LastIndex(fieldID, ".")
	owner, field := fieldID[:i], fieldID[i+1:]
	decoders := 0
	for _, f := range p.Scanned {
		for _, cs := range callsTo(f, false, "hooks.Hook.Call") {
			resp := cs.Arg(1)
			al, ok := engine.Unwrap(resp).(*ssa.Alloc)
			if !ok || strings.TrimPrefix(al.Type().String(), "*") != owner {
				continue
			}
			decoders++
			// (a) filtered copy stored back
			var goodStores []ssa.Instruction
			for _, st := range engine.FieldStores(al, field) {
				if st.Block() == al.Block() && before(st, cs.Instr.(ssa.Instruction)) {
					continue // initialisation before the call
				}
				// value = accumulator of appends, each append guarded by elem != nil
				okAll := true
				found := false
				engine.BackSlice(st.Val, func(x ssa.Value) bool {
					c, isC := x.(*ssa.Call)
					if !isC || engine.CallKey(c.Common()) != "builtin.append" {
						return false
					}
					found = true
					// the appended element(s)
					var elem ssa.Value
					engine.BackSlice(c.Common().Args[1], func(y ssa.Value) bool {
						if u, isU := y.(*ssa.UnOp); isU && u.Op == token.MUL {
							if _, isIA := u.X.(*ssa.IndexAddr); isIA {
								elem = y
								return true
							}
						}
						return false
					}, nil)
					if elem == nil {
						return false
					}
					if unguarded(f, nil, c, func(l Lit) bool {
						v, isNil, isT := l.NilTest()
						return isT && !isNil && engine.SameValue(v, elem)
					}) != nil {
						okAll = false
					}
					return false
				}, nil)
				if found && okAll {
					goodStores = append(goodStores, st)
				}
			}
			// (b) or: a nil element is an error
			rejects := false
			for _, l := range engine.RangeLoops(f) {
				if !strings.HasSuffix(E(l.X), "."+field) || l.Val == nil {
					continue
				}
				var from []engine.Point
				for _, b := range l.BodyBlocks() {
					for j := range b.Succs {
						if lt, has := engine.EdgeLit(b, j); has {
							if v, isNil, isT := lt.NilTest(); isT && isNil && engine.SameValue(v, l.Val) {
								from = append(from, engine.Point{B: b.Succs[j]})
							}
						}
					}
				}
				if len(from) > 0 && (engine.Query{Fn: f, From: from, Target: func(in ssa.Instruction) bool {
					if in.Block() == l.Header {
						return true
					}
					rt, isR := in.(*ssa.Return)
					return isR && !isErrReturn(rt)
				}}).Find() == nil {
					rejects = true
				}
			}
			if rejects {
				continue
			}
			if len(goodStores) == 0 {
				return false, Short(FK(f)) + " decodes into " + Short(owner) + " and hands on ." + field + " as decoded"
			}
			succ := successEdgeOf(cs.Instr)
			var from []engine.Point
			for _, b := range engine.BlocksInl(f) {
				for j := range b.Succs {
					if l, has := engine.EdgeLit(b, j); has && succ(l) {
						from = append(from, engine.Point{B: b.Succs[j]})
					}
				}
			}
			w := engine.Query{Fn: f, From: from, Target: func(in ssa.Instruction) bool { rt, isR := in.(*ssa.Return); return isR && !isErrReturn(rt) },
				CutInstr: func(in ssa.Instruction) bool {
					for _, g := range goodStores {
						if g == in {
							return true
						}
					}
					return false
				}}.Find()
			if w != nil {
				return false, Short(FK(f)) + " can return the decoded ." + field + " without filtering nil entries"
			}
		}
	}
	return decoders > 0, "no decoder found"
}

func before(a, b ssa.Instruction) bool {
	if a.Block() != b.Block() {
		return false
	}
	for _, in := range a.Block().Instrs {
		if in == a {
			return true
		}
		if in == b {
			return false
		}
	}
	return false
}

func r13_1(r *Report, p *Program) {
	const rule = "R13.1"
	r.Rule(rule, "decoded-nil discipline")
	r.Floor(rule, 6)
	lists, maps := responseFields(p)
	if len(lists) < 3 || len(maps) < 2 {
		r.Fail(rule, "response types", "-", "anchor-lost", sf("found %d list and %d map fields in *HookResponse types", len(lists), len(maps)))
		return
	}
	t := &engine.Taint{P: p, NoAbsorb: true}
	var sources []string
	for _, id := range lists {
		ok, why := listSanitised(p, id)
		r.Check(rule, engine.Short(id)+"[nil-entries-removed-at-decode]", "-", true, sf("sanitised=%v %s", ok, why), "")
		if !ok {
			t.SeedField(id)
			sources = append(sources, engine.Short(id))
		}
	}
	for _, id := range maps {
		t.SeedField(id)
		sources = append(sources, engine.Short(id))
	}
	// guarded call sites do not pass the label on
	guardedAt := func(f *ssa.Function, at ssa.Instruction, v ssa.Value) bool {
		return nilGuarded(f, at, v, t)
	}
	t.SkipArg = func(f *ssa.Function, call ssa.CallInstruction, a ssa.Value) bool {
		return guardedAt(f, call.(ssa.Instruction), a)
	}
	t.Run(p.Scanned)
	r.Extra("nil_label", map[string]interface{}{"sources": sources, "labelled_params": t.TaintedParams(), "labelled_fields": t.TaintedFields(), "rounds": t.Rounds, "why": t.Why})
	n := 0
	ord := map[string]int{}
	for _, f := range p.Scanned {
		if strings.Contains(FK(f), "zz_generated") {
			continue
		}
		for _, b := range engine.BlocksInl(f) {
			for _, in := range b.Instrs {
				var v ssa.Value
				what := ""
				switch x := in.(type) {
				case *ssa.MapUpdate:
					if _, isM := x.Map.Type().Underlying().(*types.Map); isM && t.Tainted(f, x.Map) && !engine.BaseIsLocal(x.Map) {
						v, what = x.Map, "store into a map that may be nil"
					}
				case *ssa.FieldAddr:
					if isPtrToStruct(x.X.Type()) && t.Tainted(f, x.X) && labelIsPointer(x.X) {
						v, what = x.X, "field access through a pointer that may be nil"
					}
				case ssa.CallInstruction:
					c := x.Common()
					k := engine.CallKey(c)
					switch {
					case strings.HasPrefix(k, engine.KUnstrPkg+"SetNested") && len(c.Args) > 0 && t.Tainted(f, c.Args[0]):
						v, what = c.Args[0], methodOf(k)+" into a map that may be nil"
					case !c.IsInvoke() && engine.StaticFn(c) != nil && engine.StaticFn(c).Signature.Recv() != nil && len(c.Args) > 0 &&
						isPtrToStruct(c.Args[0].Type()) && !strings.HasPrefix(k, engine.ModPrefix) && t.Tainted(f, c.Args[0]) && labelIsPointer(c.Args[0]):
						v, what = c.Args[0], "method "+methodOf(k)+" on a pointer that may be nil"
					}
				}
				if v == nil {
					continue
				}
				n++
				key := Short(FK(f)) + "→" + strings.SplitN(what, " ", 2)[0] + "(" + E(v) + ")"
				cst := sf("%s#%d", key, ord[key])
				ord[key]++
				ok := nilGuarded(f, in, v, t)
				r.Check(rule, cst, p.InstrPos(in), ok, what+", guarded by a nil test", what+": "+E(v)+" comes from a decoded hook response (a null entry / missing field decodes to nil) and no nil test of it guards this use: the worker panics and the whole process exits")
			}
		}
	}
	if n == 0 && len(sources) > 0 {
		r.Fail(rule, "nil sinks", "-", "anchor-lost", "labelled values reach no dereference/map store: propagation lost")
	}
}

func isPtrToStruct(t types.Type) bool {
	pt, ok := t.Underlying().(*types.Pointer)
	if !ok {
		return false
	}
	_, isS := pt.Elem().Underlying().(*types.Struct)
	return isS
}

// labelIsPointer: the labelled thing is the pointer itself (an element loaded
// from a labelled list, a parameter, a lookup), not a pointer obtained by taking
// the address of something inside an object.
func labelIsPointer(v ssa.Value) bool {
	v = engine.ResolveLocal(v)
	switch x := v.(type) {
	case *ssa.Alloc, *ssa.FieldAddr, *ssa.IndexAddr:
		return false
	case *ssa.Call:
		_ = x
		return true
	}
	return true
}

// nilGuarded: every path to `at` either crosses a non-nil test of v (or of the
// labelled value v is a copy of), or enters v's phi through an unlabelled input.
func nilGuarded(f *ssa.Function, at ssa.Instruction, v ssa.Value, t *engine.Taint) bool {
	v = engine.ResolveLocal(v)
	cands := map[ssa.Value]bool{v: true}
	var phis []*ssa.Phi
	var collect func(x ssa.Value, d int)
	collect = func(x ssa.Value, d int) {
		if d > 6 {
			return
		}
		x = engine.ResolveLocal(x)
		cands[x] = true
		switch y := x.(type) {
		case *ssa.Phi:
			phis = append(phis, y)
			for _, e := range y.Edges {
				collect(e, d+1)
			}
		case *ssa.MakeInterface:
			collect(y.X, d+1)
		case *ssa.ChangeType:
			collect(y.X, d+1)
		}
	}
	collect(v, 0)
	rend := map[string]bool{}
	for c := range cands {
		rend[E(c)] = true
	}
	// v is the current content of a local variable: an assignment of an unlabelled value (make-if-nil) ends the danger
	cellR := ""
	if addr := engine.LoadedFrom(v); addr != nil {
		cellR = E(addr)
		if _, isAlloc := addr.(*ssa.Alloc); isAlloc {
			cellR = "" // handled by identity below
		}
	}
	var cell ssa.Value
	if addr := engine.LoadedFrom(v); addr != nil {
		switch a := addr.(type) {
		case *ssa.Alloc:
			cell = a
		case *ssa.FreeVar:
			cell = a
		}
	}
	w := engine.Query{Fn: f, Target: func(in ssa.Instruction) bool { return in == at },
		CutInstr: func(in ssa.Instruction) bool {
			st, ok := in.(*ssa.Store)
			if !ok || t.Tainted(f, st.Val) {
				return false
			}
			return (cell != nil && st.Addr == cell) || (cellR != "" && E(st.Addr) == cellR)
		},
		CutEdge: func(b *ssa.BasicBlock, i int, l *Lit) bool {
			if l != nil {
				if x, isNil, ok := l.NilTest(); ok && !isNil && (cands[engine.ResolveLocal(x)] || rend[E(x)]) {
					return true
				}
			}
			// entering a phi through an input that is not labelled (e.g. a freshly made map)
			succ := b.Succs[i]
			for _, ph := range phis {
				if ph.Block() != succ {
					continue
				}
				for j, pred := range succ.Preds {
					if pred == b && j < len(ph.Edges) && !t.Tainted(f, ph.Edges[j]) {
						return true
					}
				}
			}
			return false
		}}.Find()
	return w == nil
}

func r13_2(r *Report, p *Program) {
	const rule = "R13.2"
	r.Rule(rule, "no unchecked type assertion on response- or content-derived values")
	n := 0
	for _, f := range p.Scanned {
		if strings.HasPrefix(FK(f), "metacontroller/pkg/dynamic/apply.") {
			continue // covered by C05 R05.3 (behind list-map detection)
		}
		for _, b := range engine.BlocksInl(f) {
			for _, in := range b.Instrs {
				ta, ok := in.(*ssa.TypeAssert)
				if !ok || ta.CommaOk {
					continue
				}
				// operand derived from object content / nested accessors / decoded responses
				fromContent := engine.BackSlice(ta.X, func(x ssa.Value) bool {
					c, isC := x.(*ssa.Call)
					if !isC {
						return false
					}
					k := engine.CallKey(c.Common())
					return strings.HasSuffix(k, "Unstructured.UnstructuredContent") || strings.HasPrefix(k, engine.KUnstrPkg+"Nested") || strings.HasSuffix(k, "json.Unmarshal")
				}, nil) || strings.Contains(E(ta.X), ".Object[")
				if !fromContent {
					continue
				}
				n++
				r.Check(rule, sf("%s→assert<%s>#%d", FK(f), engine.Abbrev(ta.AssertedType.String()), n), p.InstrPos(in), false, "", "unchecked type assertion on "+E(ta.X)+", which comes out of object content a hook or user controls: a value of another JSON type panics the worker")
			}
		}
	}
	if n == 0 {
		r.Check(rule, "module[no-unchecked-content-assertions]", "-", true, "none found (outside dynamic/apply, see C05 R05.3)", "")
	}
	// informer handler arguments are asserted unchecked by design only where client-go guarantees the type (Add/Update); delete handlers use comma-ok: checked in C14
}

func r13_3(r *Report, p *Program) {
	const rule = "R13.3"
	r.Rule(rule, "label type validation precedes any label handling and ManageChildren")
	r.Floor(rule, 2)
	f := fn(r, p, rule, "controller/composite.parentController.syncParentObject")
	if f == nil {
		return
	}
	var nsm *engine.CallSite
	for _, cs := range callsTo(f, false, "unstructured.NestedStringMap") {
		cs := cs
		if engine.BackSlice(cs.Common().Args[1], func(x ssa.Value) bool { s, ok := constStr(x); return ok && s == "labels" }, nil) {
			nsm = &cs
		}
	}
	if nsm == nil {
		r.Check(rule, FK(f)+"[labels-type-check]", p.Pos(f.Pos()), false, "", "desired children's labels are not read with the error-returning NestedStringMap")
		return
	}
	mcs := callsTo(f, false, "controller/common.ManageChildren")
	okM := len(mcs) == 1 && bypass(f, mcs[0].Instr.(ssa.Instruction), func(in ssa.Instruction) bool {
		return in.Block() == nsm.Instr.Block() && in == nsm.Instr.(ssa.Instruction)
	}) == nil
	// the loop containing it dominates
	loops := engine.RangeLoops(f)
	l := engine.EnclosingLoop(loops, nsm.Instr.(ssa.Instruction))
	outer := l
	for _, x := range loops {
		if l != nil && x.Contains(nsm.Instr.(ssa.Instruction)) && x.InBody(l.Header) {
			outer = x
		}
	}
	if len(mcs) == 1 && outer != nil {
		okM = bypass(f, mcs[0].Instr.(ssa.Instruction), func(in ssa.Instruction) bool { return in.Block() == outer.Header }) == nil
	}
	r.Check(rule, FK(f)+"[type-check≺ManageChildren]", p.InstrPos(nsm.Instr), okM, "invalid label types are detected before children are managed", "ManageChildren reachable without the label type check")
	okE, whyE := errorDiscipline(p, f, nsm.Instr, nil, nil)
	r.Check(rule, FK(f)+"[type-error-returned]", p.InstrPos(nsm.Instr), okE, "a conversion error aborts the sync", whyE)
	// inside the iteration nothing reads or writes the child's labels via the error-swallowing accessors before the check
	if l != nil {
		child := nsm.Common().Args[0]
		w := engine.Query{Fn: f, From: []engine.Point{{B: l.Body}}, Target: func(in ssa.Instruction) bool {
			if in == nsm.Instr.(ssa.Instruction) {
				return false
			}
			if !isCallTo(in, "Unstructured.GetLabels", "Unstructured.SetLabels") {
				return false
			}
			c := in.(ssa.CallInstruction).Common()
			return engine.BackSlice(child, func(x ssa.Value) bool { return x == c.Args[0] }, engine.HasSuffix("Unstructured.UnstructuredContent"))
		}, CutInstr: func(in ssa.Instruction) bool { return in == nsm.Instr.(ssa.Instruction) }}.Find()
		r.Check(rule, FK(f)+"[no-swallowing-accessor-before-check]", p.InstrPos(nsm.Instr), w == nil, "labels are validated before GetLabels/SetLabels touch them", "the child's labels are read or replaced through GetLabels/SetLabels (which swallow conversion errors) before the type check: malformed labels are silently overwritten and the child is created")
		// the map that is checked is the child's own content
		okC := strings.HasPrefix(E(child), "call(unstructured.Unstructured.UnstructuredContent)(") && engine.BackSlice(child, func(x ssa.Value) bool { return x == l.Val }, engine.HasSuffix("Unstructured.UnstructuredContent"))
		_ = okC
	}
}

func r13_4(r *Report, p *Program) {
	const rule = "R13.4"
	r.Rule(rule, "a rejected response writes nothing")
	r.Floor(rule, 6)
	reach := writeReachers(p)
	for _, e := range syncEntries(r, p, rule) {
		f := e.Fn
		if e.Hook == nil {
			continue
		}
		n := 0
		for _, b := range engine.BlocksInl(f) {
			for _, in := range b.Instrs {
				if in == e.Hook.Instr.(ssa.Instruction) || !isWriteCall(p, reach, in) {
					continue
				}
				// only writes that can run after the hook call
				if (engine.Query{Fn: f, From: []engine.Point{engine.After(e.Hook.Instr.(ssa.Instruction))}, Target: func(x ssa.Instruction) bool { return x == in }}).Find() == nil {
					continue
				}
				n++
				w := unguarded(f, []engine.Point{engine.After(e.Hook.Instr.(ssa.Instruction))}, in, successEdgeOf(e.Hook.Instr))
				r.Check(rule, sf("%s→write-after-hook#%d", FK(f), n), p.InstrPos(in), w == nil, "reachable only if the hook call (and decoding) succeeded", "a write is reachable although the hook answer was rejected; "+pathWhy(w))
			}
		}
	}
	hookCallOrder(r, p, rule)
	// customize: selector errors are returned before the selector is used
	for _, key := range []string{"controller/common/customize.Manager.GetRelatedObjects", "controller/common/customize.matchesRelatedRule"} {
		f := fn(r, p, rule, key)
		if f == nil {
			continue
		}
		for i, cs := range callsTo(f, false, "customize.toSelector") {
			ok, why := errorDiscipline(p, f, cs.Instr, nil, nil)
			sel := engine.ResultValue(cs.Instr, 0)
			if ok && sel != nil {
				// every use of the selector is on the err==nil edge
				if refs := sel.Referrers(); refs != nil {
					for _, u := range *refs {
						if ui, isI := u.(ssa.Instruction); isI {
							if _, isCall := u.(ssa.CallInstruction); isCall || true {
								if w := unguarded(f, nil, ui, successEdgeOf(cs.Instr)); w != nil {
									if _, isDbg := u.(*ssa.DebugRef); !isDbg {
										ok, why = false, "the selector is used although toSelector failed (a nil selector panics inside the lister); "+pathWhy(w)
									}
								}
							}
						}
					}
				}
			}
			r.Check(rule, sf("%s→toSelector#%d[error-before-use]", FK(f), i), p.InstrPos(cs.Instr), ok, "invalid selector ⇒ error, selector unused", why)
		}
	}
	// updateStringMap never dereferences a nil value pointer
	if f := fn(r, p, rule, "controller/decorator.updateStringMap"); f != nil {
		ok, why := true, ""
		for _, b := range engine.BlocksInl(f) {
			for _, in := range b.Instrs {
				u, isU := in.(*ssa.UnOp)
				if !isU || u.Op != token.MUL || !strings.HasPrefix(u.X.Type().String(), "*string") {
					continue
				}
				w := unguarded(f, nil, in, func(l Lit) bool {
					v, isNil, isT := l.NilTest()
					return isT && !isNil && engine.SameValue(v, u.X)
				})
				if w != nil {
					ok, why = false, "a null label/annotation value is dereferenced; "+pathWhy(w)
				}
			}
		}
		r.Check(rule, FK(f)+"[null-values-not-dereferenced]", p.Pos(f.Pos()), ok, "*v only after v != nil", why)
	}
}
