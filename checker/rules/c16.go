package rules

import (
	"strings"

	"mcvet/engine"

	"golang.org/x/tools/go/ssa"
)

func init() {
	Registry["C16"] = checkC16
}

func checkC16(r *Report, p *Program) {
	r.Explanation = "Decides the decorator's write set and its filters as effect/guard facts: (R16.1) the object sent by the target Update/UpdateStatus is a DeepCopy of the observed target and the only mutators applied to it (following callees) are SetLabels, SetAnnotations, SetNestedField(…,\"status\"), SetResourceVersion and controllerutil.RemoveFinalizer with the controller's finalizer name, the label/annotation maps being the copy's own maps edited by updateStringMap with the hook's maps; (R16.2) updateStringMap's complete per-key table (null ⇒ delete-if-present, value ⇒ store-iff-absent-or-different, only the named key is touched, changed reported exactly then); (R16.3) a null hook status is replaced by the target's current status before anything is compared or written, UpdateStatus only for a changed status on a resource with status subresource, and the follow-up Update carries the resourceVersion returned by it; (R16.4) no target write unless labels, annotations or status changed or the finalizer has to go; (R16.5) selector Matches is a conjunction of label and annotation selector looked up under the same key they were stored under, and the sync entry re-checks 'matches or still has finalizer' on the target as returned by the finalizer sync; (R16.6) attachments are recognised by owner UID ∧ marker and every desired attachment gets the decorator's own marker before ManageChildren."
	r.NotDecided = "what the API server does with unchanged fields; selector semantics."
	var dec *syncEntry
	for _, e := range syncEntries(r, p, "R16.1") {
		if e.Kind == "decorator" {
			e := e
			dec = &e
		}
	}
	if dec == nil {
		return
	}
	r16_1(r, p, dec)
	r16_2(r, p)
	r16_5(r, p, dec)
	r16_6(r, p, dec)
	keyCompleteness(r, p, "R16.7", "updateStrategyMapKey", "selectorMapKey")
	// nothing — not even the finalizer — is put on an object that is not selected (shared with C10)
	r10_1(r, p, syncEntries(r, p, "R10.1"))
	selectorBuildTable(r, p, "R16.8")
	finalizerNameInjective(r, p, "R16.9")
	setterGetsOwnMap(r, p, "R16.10")
	operandFromTheLoop(r, p, "R16.11")
}

func r16_1(r *Report, p *Program, e *syncEntry) {
	f := e.Fn
	var sinks []engine.Sink
	for _, s := range engine.Sinks([]*ssa.Function{f}) {
		if s.Iface == "dyn" {
			sinks = append(sinks, s)
		}
	}
	r.Rule("R16.1", "write set of the target update")
	r.Rule("R16.3", "null status means unchanged; status endpoint; resourceVersion chaining")
	r.Rule("R16.4", "no request when nothing changes")
	r.Floor("R16.1", 3)
	r.Floor("R16.3", 3)
	r.Floor("R16.4", 4)
	if len(sinks) != 2 {
		r.Fail("R16.1", FK(f), p.Pos(f.Pos()), "anchor-lost", sf("expected the UpdateStatus and Update of the target, found %d dynamic writes", len(sinks)))
		return
	}
	var copyCall *ssa.Call
	for _, s := range sinks {
		obj := engine.ResolveLocal(s.Arg(1))
		c, isC := obj.(*ssa.Call)
		ok := isC && strings.HasSuffix(engine.CallKey(c.Common()), "Unstructured.DeepCopy")
		why := ""
		if !ok {
			why = "the object written is " + E(obj) + ", not a DeepCopy of the observed target"
		} else {
			// a copy of a copy is as good as the copy itself
			c = innermostCopy(c)
			copyCall = c
			src := c.Common().Args[0]
			if e.SyncObj == nil || !engine.SameValue(src, engine.ResultValue(e.SyncObj.Instr, 0)) {
				ok, why = false, "the copy is taken from "+E(src)+", not from the target as returned by the finalizer sync"
			}
		}
		r.Check("R16.1", s.Construct()+"[object=copy-of-target]", p.InstrPos(s.Instr), ok, "writes a DeepCopy of the observed target", why)
	}
	if copyCall == nil {
		return
	}
	hook := e.Hook.Instr.Value()
	resp := engine.ResultValue(e.Hook.Instr, 0)
	_ = hook
	allowed := map[string]bool{"SetLabels": true, "SetAnnotations": true, "SetNestedField[\"status\"]": true, "SetResourceVersion": true, "controllerutil.RemoveFinalizer": true}
	muts := p.Mutations(f, copyCall)
	ok, why := len(muts) >= 4, sf("only %d mutators found on the copy", len(muts))
	have := map[string]bool{}
	for _, m := range muts {
		have[m.What] = true
	}
	for _, need := range []string{"SetLabels", "SetAnnotations", "SetNestedField[\"status\"]", "controllerutil.RemoveFinalizer"} {
		if !have[need] {
			ok, why = false, "the copy that is written never receives "+need+": what the hook named for it is computed and then dropped"
		}
	}
	for _, m := range muts {
		if !allowed[m.What] {
			ok, why = false, "the target copy is also modified by "+m.What+" at "+p.InstrPos(m.Instr)+": a decorator may change only labels, annotations, status and its own finalizer"
		}
	}
	r.Check("R16.1", FK(f)+"[mutators⊆{labels,annotations,status,rv,finalizer}]", p.InstrPos(copyCall), ok, sf("%d mutators, all within the allowed set", len(muts)), why)
	// arguments of the mutators
	for _, m := range muts {
		ci, isCall := m.Instr.(ssa.CallInstruction)
		if !isCall {
			continue
		}
		cs := engine.CallSite{Fn: f, Instr: ci, Key: engine.CallKey(ci.Common())}
		switch m.What {
		case "SetLabels", "SetAnnotations":
			getter := map[string]string{"SetLabels": "GetLabels", "SetAnnotations": "GetAnnotations"}[m.What]
			field := map[string]string{"SetLabels": ".Labels", "SetAnnotations": ".Annotations"}[m.What]
			arg := cs.Arg(0)
			okA := engine.DependsOnCall(arg, engine.HasSuffix("Unstructured."+getter), nil) != nil
			whyA := ""
			if c := engine.DependsOnCall(arg, engine.HasSuffix("Unstructured."+getter), nil); c == nil || !engine.SameValue(c.Common().Args[0], copyCall) {
				okA, whyA = false, m.What+" is given a map that is not the copy's own "+getter+"()"
			}
			// the map was edited by updateStringMap with the hook's map
			edited := false
			for _, us := range callsTo(f, false, "decorator.updateStringMap") {
				if engine.SameValue(us.Common().Args[0], arg) && strings.HasSuffix(E(us.Common().Args[1]), field) && engine.DependsOnValue(us.Common().Args[1], resp, nil) {
					edited = true
				}
			}
			if okA && !edited {
				okA, whyA = false, "the map given to "+m.What+" is not edited by updateStringMap(…, syncResult"+field+")"
			}
			// … on EVERY path: updateStringMap is what applies the hook's entries, so it must have run
			// for this map whenever the map is written back (a short-circuit '||' between the label and
			// the annotation merge skips the second merge whenever the first reported a change)
			if okA {
				for _, us := range callsTo(f, false, "decorator.updateStringMap") {
					if engine.SameValue(us.Common().Args[0], arg) {
						usi := us.Instr.(ssa.Instruction)
						if w := bypass(f, m.Instr, func(in ssa.Instruction) bool { return in == usi }); w != nil {
							okA, whyA = false, "a path reaches "+m.What+" without having merged the hook's "+strings.TrimPrefix(field, ".")+" into the map (updateStringMap skipped): entries named in the response are silently not applied; "+pathWhy(w)
						}
					}
				}
			}
			r.Check("R16.1", FK(f)+"→"+m.What+"[own-map+hook-edits]", p.InstrPos(m.Instr), okA, "copy's own map, edited only through updateStringMap with the hook's entries", whyA)
		case "controllerutil.RemoveFinalizer":
			okF := strings.HasSuffix(E(ci.Common().Args[1]), ".finalizer.Name")
			r.Check("R16.1", FK(f)+"→RemoveFinalizer[own-name]", p.InstrPos(m.Instr), okF, "removes only the controller's own finalizer", "removes finalizer "+E(ci.Common().Args[1]))
		case "SetNestedField[\"status\"]":
			val := ci.Common().Args[1]
			okS := engine.DependsOnValue(val, resp, nil) && strings.HasSuffix(E(val), ".Status") || strings.Contains(E(val), ".Status")
			r.Check("R16.3", FK(f)+"→SetNestedField(status)[value]", p.InstrPos(m.Instr), okS, "status written is syncResult.Status", "status written is "+E(val))
			// null status ⇒ replaced by current status first
			var subst ssa.Instruction
			for _, b := range engine.BlocksInl(f) {
				for _, in := range b.Instrs {
					if st, isS := in.(*ssa.Store); isS && strings.HasSuffix(E(st.Addr), "#0.Status") && engine.DependsOnCall(st.Val, engine.HasSuffix("unstructured.NestedMap"), nil) != nil {
						nm := engine.DependsOnCall(st.Val, engine.HasSuffix("unstructured.NestedMap"), nil)
						if engine.BackSlice(nm.Common().Args[0], func(x ssa.Value) bool { return x == ssa.Value(copyCall) }, nil) {
							subst = in
						}
					}
				}
			}
			okN, whyN := subst != nil, "a null hook status is not replaced by the target's current status (NestedMap(copy,\"status\")): writing it would wipe the status"
			if okN {
				w := engine.Query{Fn: f, Target: func(in ssa.Instruction) bool { return in == m.Instr },
					CutInstr: func(in ssa.Instruction) bool { return in == subst },
					CutEdge: func(b *ssa.BasicBlock, i int, l *Lit) bool {
						if l == nil {
							return false
						}
						v, isNil, isT := l.NilTest()
						return isT && !isNil && strings.HasSuffix(E(v), "#0.Status")
					}}.Find()
				if w != nil {
					okN, whyN = false, "the status can be written on a path where the hook's status is null and was not replaced by the current one; "+pathWhy(w)
				}
			}
			r.Check("R16.3", FK(f)+"[null-status⇒unchanged]", p.InstrPos(m.Instr), okN, "null status replaced by the current status before it is written/compared", whyN)
		}
	}
	// guards of the writes
	changed := func(l Lit) bool {
		if l.Pos {
			if c, isC := l.Cond.(*ssa.Call); isC && strings.HasSuffix(engine.CallKey(c.Common()), "decorator.updateStringMap") {
				return true
			}
			if strings.HasSuffix(l.Atom, "#0.Finalized") {
				return true
			}
		}
		return !l.Pos && isDeepEqualLit(l) && strings.Contains(l.Atom, `unstructured.NestedMap)(`) && strings.Contains(l.Atom, ".Status")
	}
	statusChanged := func(l Lit) bool {
		return !l.Pos && isDeepEqualLit(l) && strings.Contains(l.Atom, `unstructured.NestedMap)(`) && strings.Contains(l.Atom, ".Status")
	}
	// conversely a change is written: from the edge where a merge reported a change (or the status differs)
	// no successful return is reached without a write
	for what, g := range map[string]func(l Lit) bool{
		"labels or annotations": func(l Lit) bool {
			c, isC := l.Cond.(*ssa.Call)
			return l.Pos && isC && strings.HasSuffix(engine.CallKey(c.Common()), "decorator.updateStringMap")
		},
		"status": statusChanged,
	} {
		var from []engine.Point
		for _, b := range engine.BlocksInl(f) {
			for i := range b.Succs {
				if l, has := engine.EdgeLit(b, i); has && g(l) {
					from = append(from, engine.Point{B: b.Succs[i]})
				}
			}
		}
		okW, whyW := len(from) > 0, "no branch on a change of "+what
		if okW {
			wq := engine.Query{Fn: f, From: from, Target: func(x ssa.Instruction) bool { rt, isR := x.(*ssa.Return); return isR && !isErrReturn(rt) },
				CutInstr: func(x ssa.Instruction) bool {
					for _, sk := range sinks {
						if x == sk.Instr.(ssa.Instruction) {
							return true
						}
					}
					return false
				}}.Find()
			if wq != nil {
				okW, whyW = false, "a change of "+what+" named by the hook can end in a successful sync without any write (the changes are alternatives, not a conjunction); "+pathWhy(wq)
			}
		}
		r.Check("R16.4", FK(f)+"[change⇒write:"+what+"]", p.Pos(f.Pos()), okW, "a reported change reaches a write", whyW)
	}
	for _, s := range sinks {
		in := s.Instr.(ssa.Instruction)
		w := unguarded(f, nil, in, changed)
		whyW := "the target is written although nothing changed; " + pathWhy(w)
		if w == nil {
			// 'finalized' alone changes nothing: it only counts together with 'our finalizer is still there'
			strict := func(l Lit) bool { return changed(l) && !strings.HasSuffix(l.Atom, "#0.Finalized") }
			hasFin := func(l Lit) bool {
				return l.Pos && strings.HasPrefix(l.Atom, "call(controllerutil.ContainsFinalizer)(") && strings.HasSuffix(l.Atom, ".finalizer.Name)")
			}
			if w2 := unguarded(f, nil, in, func(l Lit) bool { return strict(l) || hasFin(l) }); w2 != nil {
				w = w2
				whyW = "the target is written because the hook answered finalized although our finalizer is not on it (nothing to remove) and nothing else changed: every such answer sends a no-op update; " + pathWhy(w2)
			}
		}
		r.Check("R16.4", s.Construct()+"[only-on-change]", p.InstrPos(in), w == nil, "write only if labels/annotations/status changed or finalizer must go", whyW)
		if s.Verb == "UpdateStatus" {
			w1 := unguarded(f, nil, in, statusChanged)
			w2 := unguarded(f, nil, in, func(l Lit) bool {
				return l.Pos && strings.Contains(l.Atom, "APIResource.HasSubresource)(") && strings.HasSuffix(l.Atom, `"status")`)
			})
			r.Check("R16.3", s.Construct()+"[status-changed∧subresource]", p.InstrPos(in), w1 == nil && w2 == nil, "UpdateStatus ⇔ status changed ∧ status subresource", "UpdateStatus reachable without a changed status / a status subresource")
		}
		if s.Verb == "Update" {
			// after an UpdateStatus the copy gets the returned resourceVersion
			var us *engine.Sink
			for i := range sinks {
				if sinks[i].Verb == "UpdateStatus" {
					us = &sinks[i]
				}
			}
			okRV := false
			if us != nil {
				for _, rv := range callsTo(f, false, "Unstructured.SetResourceVersion") {
					if engine.SameValue(rv.Recv(), copyCall) && engine.DependsOnValue(rv.Arg(0), engine.ResultValue(us.Instr, 0), engine.HasSuffix("Unstructured.GetResourceVersion")) {
						// on the success edge of UpdateStatus every path to Update passes it
						var from []engine.Point
						succ := successEdgeOf(us.Instr)
						for _, b := range engine.BlocksInl(f) {
							for i := range b.Succs {
								if l, has := engine.EdgeLit(b, i); has && succ(l) {
									from = append(from, engine.Point{B: b.Succs[i]})
								}
							}
						}
						rvi := rv.Instr.(ssa.Instruction)
						okRV = len(from) > 0 && (engine.Query{Fn: f, From: from, Target: func(x ssa.Instruction) bool { return x == in }, CutInstr: func(x ssa.Instruction) bool { return x == rvi }}).Find() == nil
					}
				}
			}
			r.Check("R16.3", s.Construct()+"[rv-from-UpdateStatus]", p.InstrPos(in), okRV, "Update after UpdateStatus uses the returned resourceVersion", "the Update that follows UpdateStatus does not carry the resourceVersion UpdateStatus returned (it would always conflict)")
		}
	}
}

func r16_2(r *Report, p *Program) {
	const rule = "R16.2"
	r.Rule(rule, "updateStringMap per-key table")
	r.Floor(rule, 1)
	f := fn(r, p, rule, "controller/decorator.updateStringMap")
	if f == nil {
		return
	}
	loops := engine.RangeLoops(f)
	if len(loops) != 1 || E(loops[0].X) != "p1" {
		r.Fail(rule, FK(f), p.Pos(f.Pos()), "undecided", "expected a single loop over the updates map")
		return
	}
	l := loops[0]
	paths, err := engine.EnumPaths(f, engine.EnumOpts{Start: l.Body, Leave: func(b *ssa.BasicBlock) bool { return b == l.Header || b == l.Exit },
		Effect: func(in ssa.Instruction) bool {
			switch x := in.(type) {
			case *ssa.MapUpdate:
				return true
			case *ssa.Call:
				return engine.CallKey(x.Common()) == "builtin.delete"
			}
			return false
		}})
	if err != nil {
		r.Fail(rule, FK(f), p.Pos(f.Pos()), "undecided", err.Error())
		return
	}
	key, valv := l.Key, l.Val
	isNull := func(a string) bool { return a == "("+E(valv)+" == nil)" }
	exists := func(a string) bool { return a == "p0["+E(key)+"]#1" }
	same := func(a string) bool {
		return strings.HasPrefix(a, "(") && strings.Contains(a, "p0["+E(key)+"]#0") && strings.Contains(a, " == ")
	}
	ok, why := true, ""
	var rows []map[string]string
	for _, pa := range paths {
		var effs []string
		for _, e := range pa.Effects {
			switch x := e.(type) {
			case *ssa.MapUpdate:
				if E(x.Map) != "p0" || !engine.SameValue(x.Key, key) {
					ok, why = false, "stores into "+E(x.Map)+"["+E(x.Key)+"], not dest[k]"
				}
				if !strings.HasSuffix(E(x.Value), E(valv)) && !strings.Contains(E(x.Value), E(valv)) {
					ok, why = false, "stores "+E(x.Value)+", not *v"
				}
				effs = append(effs, "store")
			case *ssa.Call:
				if E(x.Common().Args[0]) != "p0" || !engine.SameValue(x.Common().Args[1], key) {
					ok, why = false, "deletes "+E(x.Common().Args[0])+"["+E(x.Common().Args[1])+"], not dest[k]"
				}
				effs = append(effs, "delete")
			}
		}
		// `changed` is the boolean phi at the loop header: what does this path feed into it?
		if len(pa.Blocks) > 0 {
			last := pa.Blocks[len(pa.Blocks)-1]
			for _, in := range l.Header.Instrs {
				ph, isPhi := in.(*ssa.Phi)
				if !isPhi || !isBoolT(ph.Type()) {
					continue
				}
				for i, pred := range l.Header.Preds {
					if pred == last && i < len(ph.Edges) {
						if c, isC := ph.Edges[i].(*ssa.Const); isC && c.Value.String() == "true" {
							effs = append(effs, "changed")
						}
					}
				}
			}
		}
		seq := strings.Join(effs, ",")
		rows = append(rows, map[string]string{"when": pa.Cond(), "effects": seq})
		nul, ex, sm := val(pa, -1, isNull), val(pa, -1, exists), val(pa, -1, same)
		want := ""
		switch {
		case nul == 1 && ex == 1:
			want = "delete,changed"
		case nul == 1 && ex == -1:
			want = ""
		case nul == -1 && (ex == -1 || sm == -1):
			want = "store,changed"
		case nul == -1 && ex == 1 && sm == 1:
			want = ""
		default:
			ok, why = false, "iteration does not decide null/exists/equal: ["+pa.Cond()+"]"
		}
		if seq != want && ok {
			ok, why = false, sf("on [%s] effects are [%s], want [%s]", pa.Cond(), seq, want)
		}
	}
	if len(rows) < 4 {
		ok, why = false, "table has fewer than 4 rows"
	}
	r.Table("R16.2 updateStringMap", rows)
	r.Check(rule, FK(f), p.Pos(f.Pos()), ok, "null ⇒ delete iff present; value ⇒ store iff absent or different; changed exactly then", why)
}

func r16_5(r *Report, p *Program, e *syncEntry) {
	const rule = "R16.5"
	r.Rule(rule, "selector conjunction; re-check on the updated target")
	r.Floor(rule, 3)
	if f := fn(r, p, rule, "controller/decorator.decoratorSelector.Matches"); f != nil {
		paths, err := engine.EnumPaths(f, engine.EnumOpts{})
		ok, why := err == nil, ""
		nT := 0
		for _, pa := range paths {
			if len(pa.Ret) == 0 {
				continue
			}
			ret := pa.Ret[0]
			lits := pa.Lits
			if c, isC := ret.(*ssa.Const); isC {
				if c.Value.String() != "true" {
					continue
				}
			} else {
				lits = append(append([]Lit{}, lits...), engine.CondLit(ret, true))
			}
			nT++
			need := map[string]bool{"labelNonNil": false, "annNonNil": false, "labelMatch": false, "annMatch": false}
			for _, l := range lits {
				if v, isNil, isT := l.NilTest(); isT && !isNil {
					if strings.HasPrefix(E(v), "p0.labelSelectors[") {
						need["labelNonNil"] = true
					}
					if strings.HasPrefix(E(v), "p0.annotationSelectors[") {
						need["annNonNil"] = true
					}
				}
				if l.Pos && strings.HasPrefix(l.Atom, "call(labels.Selector.Matches)(p0.labelSelectors[") && strings.Contains(l.Atom, "GetLabels)(p1)") {
					need["labelMatch"] = true
				}
				if l.Pos && strings.HasPrefix(l.Atom, "call(labels.Selector.Matches)(p0.annotationSelectors[") && strings.Contains(l.Atom, "GetAnnotations)(p1)") {
					need["annMatch"] = true
				}
			}
			for k, v := range need {
				if !v {
					ok, why = false, "Matches can be true without "+k+": ["+pa.Cond()+"]"
				}
			}
		}
		if nT == 0 {
			ok, why = false, "Matches can never be true"
		}
		r.Check(rule, FK(f)+"[conjunction]", p.Pos(f.Pos()), ok, "true ⇒ both selectors exist and both match (labels vs labels, annotations vs annotations)", why)
		// keys
		nd := fn(r, p, rule, "controller/decorator.newDecoratorSelector")
		okK, whyK := nd != nil, ""
		if nd != nil {
			readKey := ""
			for _, cs := range callsTo(f, false, "decorator.selectorMapKey") {
				a0, a1 := E(cs.Common().Args[0]), E(cs.Common().Args[1])
				readKey = engine.CallKey(cs.Common())
				if !strings.Contains(a0, "ParseAPIVersion)(") || !strings.Contains(a1, "GetKind)(p1)") {
					okK, whyK = false, "lookup key is not (group of obj.apiVersion, obj.kind)"
				}
			}
			n := 0
			for _, b := range engine.BlocksInl(nd) {
				for _, in := range b.Instrs {
					if mu, isMU := in.(*ssa.MapUpdate); isMU {
						n++
						c := callOf(mu.Key)
						if c == nil || engine.CallKey(c.Common()) != readKey {
							okK, whyK = false, "selector stored under a key not built by the constructor used for lookup"
						} else if !strings.HasSuffix(E(c.Common().Args[0]), ".Group") || !strings.HasSuffix(E(c.Common().Args[1]), ".Kind") {
							okK, whyK = false, "selector stored under ("+E(c.Common().Args[0])+", "+E(c.Common().Args[1])+"), want (resource.Group, resource.Kind)"
						}
					}
				}
			}
			if n < 4 {
				okK, whyK = false, "fewer than 4 selector stores"
			}
		}
		r.Check(rule, FK(f)+"[key-agreement]", p.Pos(f.Pos()), okK, "store and lookup use selectorMapKey(group, kind)", whyK)
	}
	// re-check on the updated target, both siblings
	for _, en := range syncEntries(r, p, rule) {
		f := en.Fn
		if en.SyncObj == nil || en.Observe == nil {
			continue
		}
		upd := engine.ResultValue(en.SyncObj.Instr, 0)
		w := unguarded(f, []engine.Point{engine.After(en.SyncObj.Instr.(ssa.Instruction))}, en.Observe.Instr.(ssa.Instruction), func(l Lit) bool {
			if l.Implied {
				// established inside a predicate helper: recognised on the translated atom
				u := E(upd)
				switch {
				case l.Pos && strings.HasPrefix(l.Atom, "call(controllerutil.ContainsFinalizer)("+u+","):
					return true
				case l.Pos && strings.Contains(l.Atom, "decoratorSelector.Matches)(") && strings.Contains(l.Atom, ", "+u+")"):
					return true
				case !l.Pos && strings.Contains(l.Atom, ".doNotMatchLabels)(") && strings.Contains(l.Atom, "GetLabels)("+u+")"):
					return true
				}
				return false
			}
			c, isC := l.Cond.(*ssa.Call)
			if !isC {
				return false
			}
			k := engine.CallKey(c.Common())
			onUpd := func(v ssa.Value) bool {
				return engine.BackSlice(v, func(x ssa.Value) bool { return x == upd }, engine.HasSuffix("Unstructured.GetLabels"))
			}
			switch {
			case strings.HasSuffix(k, "controllerutil.ContainsFinalizer"):
				return l.Pos && onUpd(c.Common().Args[0])
			case strings.HasSuffix(k, "decoratorSelector.Matches"):
				return l.Pos && onUpd(c.Common().Args[1])
			case strings.HasSuffix(k, ".doNotMatchLabels"):
				return !l.Pos && onUpd(c.Common().Args[1])
			}
			return false
		})
		r.Check(rule, FK(f)+"[recheck-on-updated-target]", p.InstrPos(en.Observe.Instr), w == nil, "after the finalizer sync: proceeds only if the UPDATED object matches or still has the finalizer", "after the finalizer sync the 'matches or has finalizer' test is made on the stale object (or not at all): a target that just lost the finalizer and matches no selector is still processed; "+pathWhy(w))
	}
}

func r16_6(r *Report, p *Program, e *syncEntry) {
	const rule = "R16.6"
	r.Rule(rule, "every desired attachment carries this decorator's marker before ManageChildren")
	r.Floor(rule, 2)
	f := e.Fn
	desired := e.Manage.Common().Args[4]
	var loop *engine.RangeLoop
	for _, l := range engine.RangeLoops(f) {
		if engine.SameValue(l.X, desired) {
			loop = l
		}
	}
	if loop == nil {
		r.Check(rule, FK(f)+"[marker-loop]", p.Pos(f.Pos()), false, "", "no loop over the desired attachments before ManageChildren")
		return
	}
	w := bypass(f, e.Manage.Instr.(ssa.Instruction), func(in ssa.Instruction) bool { return in.Block() == loop.Header })
	r.Check(rule, FK(f)+"[marker-loop≺ManageChildren]", p.InstrPos(e.Manage.Instr), w == nil, "marker stamping precedes ManageChildren", "ManageChildren reachable without the marker-stamping loop")
	// innermost loop body: every iteration ends with marker == dc.Name
	var inner *engine.RangeLoop
	for _, l := range engine.RangeLoops(f) {
		if loop.InBody(l.Header) {
			inner = l
		}
	}
	if inner == nil {
		r.Check(rule, FK(f)+"[marker-stamp]", p.Pos(f.Pos()), false, "", "no per-attachment loop")
		return
	}
	var stamp, setAnn ssa.Instruction
	for _, b := range inner.BodyBlocks() {
		for _, in := range b.Instrs {
			if mu, ok := in.(*ssa.MapUpdate); ok {
				if k, isC := constStr(mu.Key); isC && k == "metacontroller.k8s.io/decorator-controller" && strings.HasSuffix(E(mu.Value), ".dc.ObjectMeta.Name") {
					stamp = in
				}
			}
			if isCallTo(in, "Unstructured.SetAnnotations") {
				setAnn = in
			}
		}
	}
	ok, why := stamp != nil && setAnn != nil, "attachments are not stamped with decorator-controller = dc.Name"
	if ok {
		wq := engine.Query{Fn: f, From: []engine.Point{{B: inner.Body}},
			Target:   func(in ssa.Instruction) bool { return in.Block() == inner.Header || in.Block() == inner.Exit },
			CutInstr: func(in ssa.Instruction) bool { return in == setAnn },
			CutEdge: func(b *ssa.BasicBlock, i int, l *Lit) bool {
				return l != nil && l.Pos && l.Op.String() == "==" && strings.Contains(l.Atom, `["metacontroller.k8s.io/decorator-controller"]`) && strings.Contains(l.Atom, ".dc.ObjectMeta.Name")
			}}.Find()
		if wq != nil {
			ok, why = false, "an attachment can leave the loop without this decorator's marker (e.g. when it already carries another decorator's marker): it is created but never recognised as ours, so it is re-created every sync; "+pathWhy(wq)
		}
		if ok && bypass(f, setAnn, func(in ssa.Instruction) bool { return in == stamp }) != nil {
			ok, why = false, "SetAnnotations without the marker being stored"
		}
	}
	r.Check(rule, FK(f)+"[marker-stamp]", p.InstrPos(inner.Header.Instrs[0]), ok, "each desired attachment ends the loop with marker == dc.Name", why)
	// recognition side
	roles := computeChildRoles(p)
	_ = roles
	if gc := p.Func("controller/decorator.decoratorController.getChildren"); gc != nil {
		r02_4_getChildren(r, p, rule, gc)
	}
}

// r02_4_getChildren re-states R02.4(b) for C16 under its own rule id.
func r02_4_getChildren(r *Report, p *Program, rule string, gc *ssa.Function) {
	for i, cs := range callsTo(gc, false, "UniformObjectMap.Insert", "UniformObjectMap.InsertAll") {
		in := cs.Instr.(ssa.Instruction)
		w0 := unguarded(gc, nil, in, func(l Lit) bool {
			v, isNil, ok := l.NilTest()
			return ok && !isNil && strings.Contains(E(v), "metav1.GetControllerOf")
		})
		w1 := unguarded(gc, nil, in, func(l Lit) bool {
			return l.Pos && l.Op.String() == "==" && strings.Contains(l.Atom, "metav1.GetControllerOf") && strings.Contains(l.Atom, ".UID") && strings.Contains(l.Atom, "GetUID)(p1)")
		})
		w2 := unguarded(gc, nil, in, func(l Lit) bool {
			return l.Pos && l.Op.String() == "==" && strings.Contains(l.Atom, `"metacontroller.k8s.io/decorator-controller"`) && strings.Contains(l.Atom, "p0.dc.ObjectMeta.Name")
		})
		ok := w0 == nil && w1 == nil && w2 == nil && strings.HasSuffix(cs.Key, ".Insert")
		why := ""
		if !ok {
			why = "an object can be reported as attachment without (controller owner reference to the target ∧ marker == this decorator): attachments of other controllers/decorators would be sent to the hook and deleted"
		}
		r.Check(rule, sf("%s→Insert#%d[owner∧marker]", FK(gc), i), p.InstrPos(in), ok, "attachment ⇔ owner UID ∧ own marker", why)
	}
}

// selectorBuildTable: newDecoratorSelector turns a resource rule's selectors into matchers unconditionally:
// a given label/annotation selector is converted (whatever it contains), a missing one becomes Everything().
func selectorBuildTable(r *Report, p *Program, rule string) {
	r.Rule(rule, "newDecoratorSelector, per resource rule and per selector kind: selector given ⇒ stored matcher = LabelSelectorAsSelector(that selector, match-fields and expressions); not given ⇒ Everything(); nothing else decides")
	r.Floor(rule, 2)
	f := fn(r, p, rule, "controller/decorator.newDecoratorSelector")
	if f == nil {
		return
	}
	loops := engine.RangeLoops(f)
	if len(loops) != 1 {
		r.Check(rule, FK(f), p.Pos(f.Pos()), false, "", "expected one loop over the resource rules")
		return
	}
	l := loops[0]
	for _, kind := range []string{"LabelSelector", "AnnotationSelector"} {
		mapField := map[string]string{"LabelSelector": "labelSelectors", "AnnotationSelector": "annotationSelectors"}[kind]
		paths, err := engine.EnumPaths(f, engine.EnumOpts{Start: l.Body, Leave: func(b *ssa.BasicBlock) bool { return b == l.Header || b == l.Exit },
			Effect: func(in ssa.Instruction) bool {
				mu, isMU := in.(*ssa.MapUpdate)
				return isMU && strings.HasSuffix(E(mu.Map), "."+mapField)
			}})
		ok, why := err == nil, ""
		for _, pa := range paths {
			if pa.EndKind == "return" {
				continue // error exits
			}
			given := 0
			for _, lt := range pa.Lits {
				if v, isNil, isT := lt.NilTest(); isT && strings.HasSuffix(E(v), "."+kind) {
					given = 1
					if isNil {
						given = -1
					}
				}
			}
			if len(pa.Effects) != 1 {
				ok, why = false, sf("a resource rule's %s is stored %d times in one iteration", kind, len(pa.Effects))
				continue
			}
			v := E(pa.Effects[0].(*ssa.MapUpdate).Value)
			conv := strings.Contains(v, "LabelSelectorAsSelector)(")
			if !conv {
				// … or through a module helper that is given this selector and returns what LabelSelectorAsSelector made of it
				mv := pa.Effects[0].(*ssa.MapUpdate).Value
				if ex, isEx := mv.(*ssa.Extract); isEx {
					mv = ex.Tuple
				}
				if c, isC := mv.(*ssa.Call); isC {
					if g := engine.StaticFn(c.Common()); g != nil && strings.HasPrefix(FK(g), engine.ModPrefix) && len(g.Blocks) > 0 {
						given := false
						for _, a := range c.Common().Args {
							if strings.HasSuffix(E(a), "."+kind) {
								given = true
							}
						}
						all := given
						for _, gb := range g.Blocks {
							if rt, isR := gb.Instrs[len(gb.Instrs)-1].(*ssa.Return); isR && len(rt.Results) > 0 && !engine.ReturnsFreshError(rt) {
								if !engine.MustDependOnCall(engine.RetVal(rt, 0), func(k string) bool { return strings.HasSuffix(k, "LabelSelectorAsSelector") }, nil) {
									all = false
								}
							}
						}
						conv = all
					}
				}
			}
			every := strings.Contains(v, "labels.Everything)(")
			extra := 0
			for _, lt := range pa.Lits {
				if strings.Contains(lt.Atom, "."+kind+".") && !strings.Contains(lt.Atom, "LabelSelectorAsSelector") {
					extra++ // a decision on the selector's contents
				}
			}
			switch {
			case given == 1 && !conv:
				ok, why = false, "a given "+kind+" is not converted into the matcher that is stored (stored: "+v+")"
			case given == -1 && !every:
				ok, why = false, "a missing "+kind+" does not become Everything()"
			case given == 0:
				ok, why = false, "the matcher for "+kind+" is chosen without looking at whether the rule gives one"
			case every && extra > 0, given == 1 && extra > 0:
				ok, why = false, "whether a given "+kind+" is honoured depends on its contents (e.g. only when it has match-fields): a selector consisting of expressions alone is ignored and every object of the kind is selected"
			}
		}
		r.Check(rule, FK(f)+"["+kind+"]", p.Pos(f.Pos()), ok, "given ⇒ converted; missing ⇒ Everything", why)
	}
}
