package rules

import (
	"sort"
	"strings"

	"mcvet/engine"

	"golang.org/x/tools/go/ssa"
)

func init() {
	Registry["C12"] = checkC12
}

func checkC12(r *Report, p *Program) {
	r.Explanation = "Decides the error discipline as a repository-specific errcheck over ALL API write call sites, hook calls and calls of module functions that can reach them: (R12.1) on every path after a failure the error is returned (wrapped only with %w), aggregated, recorded for the caller, or dropped only across the benign predicate documented for that verb (Delete: NotFound; Update: NotFound/Conflict; child Create: AlreadyExists; release: NotFound/Gone; status write: NotFound/Conflict); (R12.2) the per-child and per-claim loops contain no return and end in NewAggregate; (R12.3) both processNextWorkItem siblings: quit ⇒ false; Done(key) on every other path; error ⇒ AddRateLimited and no Forget; success ⇒ Forget and no AddRateLimited; (R12.4) 429 ⇒ *TooManyRequestError before the body is read, recognised in composite sync via errors.As ⇒ AddAfter(key, Retry-After) and nil; (R12.5) every key put on a controller's queue is produced by the constructor whose format its sync parses (composite: KeyFunc = DeletionHandlingMetaNamespaceKeyFunc ↔ SplitMetaNamespaceKey; decorator: 4-field a:b:c:d ↔ SplitN(key, \":\", 4))."
	r.NotDecided = "eventual convergence after faults stop; back-off timing; panics (C13)."
	r12_1(r, p)
	r12_2(r, p)
	r12_3(r, p)
	r12_4(r, p)
	r12_5(r, p)
	// a rejected hook answer leaves nothing behind (ETag cache) that would keep failing after the fault is gone
	hookCallOrder(r, p, "R12.6")
	rmwResultSet(r, p, "R12.7")
	failedResultNotUsed(r, p, "R12.8")
	toleranceScope(r, p, "R12.9")
	r12_10(r, p)
	errorChecksMeanWhatTheySay(r, p, "R12.11")
	// a worker never blocks for good: no leaked lock
	locksReleased(r, p, "R12.12", 10)
	oneWritePerChild(r, p, "R12.13")
	resultKeptOnSuccess(r, p, "R12.14", 1)
	siblingStepsIndependent(r, p, "R12.15")
	benignMeansNil(r, p, "R12.17")
	claimToleranceConverse(r, p, "R12.18")
	resultNotUsedBeforeErrorCheck(r, p, "R12.19")
	errorValuesUsed(r, p, "R12.20")
	smallVerbClauses(r, p, "R12.21")
	r17_1(r, p) // a retry decides from the informer's object again: a sync that edited it has already "done" there what the failed write did not do
	retriesReallyRetry(r, p, "R12.16", 1)
}

func allowedFor(s engine.Sink, under map[*ssa.Function]bool, releasers map[*ssa.Function]bool) []string {
	switch {
	case releasers[s.Fn]:
		return []string{"IsNotFound", "IsGone"}
	case s.Verb == "Delete" && s.Iface == "dyn":
		return []string{"IsNotFound"}
	case (s.Verb == "Update" || s.Verb == "UpdateStatus") && s.Iface == "dyn":
		return []string{"IsNotFound", "IsConflict"}
	case s.Verb == "Create" && s.Iface == "dyn" && under[s.Fn]:
		return []string{"IsAlreadyExists"}
	}
	return nil
}

// reasoned exceptions to R12.1, one line each (construct → reason)
var r12Exceptions = map[string]string{
	"controller/composite.parentController.syncRevisions$1→controller/common/customize.Manager.GetRelatedObjects":         "per-revision related lookup repeats, under the same (UID,generation) customize-cache key, the lookup that already succeeded earlier in this sync; its error is replaced by an empty related map",
	"controller/common/customize.Manager.findRelatedParents→controller/common/customize.Manager.getCustomizeHookResponse": "event-handler context, not a sync: a parent whose customize hook fails is skipped; its own resync retries",
}

func r12_1(r *Report, p *Program) { errorRule(r, p, "R12.1", 30, nil) }

// errorRule is R12.1, optionally restricted to the functions a property is anchored in.
func errorRule(r *Report, p *Program, rule string, floor int, only func(f *ssa.Function) bool) {
	r.Rule(rule, "no API/hook error is dropped except across the documented benign predicate")
	r.Floor(rule, floor)
	_, under := childSinks(p)
	releasers := map[*ssa.Function]bool{}
	_, rels, _ := claimCallbacks(p)
	for _, f := range rels {
		releasers[f] = true
	}
	seen := map[ssa.Instruction]bool{}
	for _, s := range engine.Sinks(p.Scanned) {
		if s.Iface == "crclient" {
			continue
		}
		in := s.Instr.(ssa.Instruction)
		seen[in] = true
		if only != nil && !only(s.Fn) {
			continue
		}
		ok, why := errorDiscipline(p, s.Fn, s.Instr, allowedFor(s, under, releasers), []string{".syncError"})
		r.Check(rule, s.Construct()+"[error]", p.InstrPos(in), ok, "error handled; tolerated: "+strings.Join(allowedFor(s, under, releasers), ","), why)
	}
	// hook calls and module functions that can reach a write or a hook call
	hookFns := map[*ssa.Function]bool{}
	sinkFns := map[*ssa.Function]bool{}
	for _, s := range engine.Sinks(p.Scanned) {
		sinkFns[s.Fn] = true
	}
	for _, f := range p.Scanned {
		if len(callsTo(f, false, "hooks.Hook.Call", "hooks.WebhookExecutor.Call", "hooks.HttpClientInterface.Do")) > 0 {
			hookFns[f] = true
		}
	}
	reach := p.CG().CanReach(p, func(f *ssa.Function) bool { return sinkFns[f] || hookFns[f] })
	ord := map[string]int{}
	for _, f := range p.Scanned {
		if only != nil && !only(f) {
			continue
		}
		for _, b := range engine.BlocksInl(f) {
			for _, in := range b.Instrs {
				ci, ok := in.(ssa.CallInstruction)
				if !ok || seen[in] {
					continue
				}
				if _, isGo := in.(*ssa.Go); isGo {
					continue
				}
				k := engine.CallKey(ci.Common())
				isHook := strings.HasSuffix(k, "hooks.Hook.Call") || strings.HasSuffix(k, "hooks.WebhookExecutor.Call") || strings.HasSuffix(k, "hooks.HttpClientInterface.Do")
				var callee *ssa.Function
				if !isHook {
					callee = engine.StaticFn(ci.Common())
					if callee == nil || !reach[callee] || !strings.HasPrefix(FK(callee), engine.ModPrefix) || engine.ErrorResultIndex(callee) < 0 {
						continue
					}
					if callee.Parent() != nil {
						continue // closures invoked through helpers are covered at their sinks
					}
				}
				key := Short(FK(f)) + "→" + Short(k)
				c := sf("%s#%d", key, ord[key])
				ord[key]++
				if goBodiesOf(p, "controller/composite.parentController.syncRevisions")[f] && strings.HasSuffix(k, "customize.Manager.GetRelatedObjects") {
					key = "controller/composite.parentController.syncRevisions$1→controller/common/customize.Manager.GetRelatedObjects" // the per-revision goroutine body, closure or method
				}
				if why, exc := r12Exceptions[key]; exc {
					r.Check(rule, c+"[exception]", p.InstrPos(in), true, "reasoned exception: "+why, "")
					continue
				}
				var allowed []string
				switch {
				case strings.HasSuffix(k, ".updateParentStatus"):
					allowed = []string{"IsNotFound", "IsConflict"}
				case releasers[f]:
					allowed = []string{"IsNotFound", "IsGone"}
				default:
					// a thin wrapper that hands back the error of its single write: the
					// call fails exactly when that write fails, with the same benign cases
					if ws := wrappedSinkOf(p, callee); ws != nil {
						allowed = allowedFor(*ws, under, releasers)
					}
				}
				var excuse []func(l *Lit) bool
				if strings.HasSuffix(k, "controller/common.ManageChildren") {
					// the parent itself is gone: nothing left to retry for
					excuse = append(excuse, func(l *Lit) bool {
						if l == nil || !l.Pos {
							return false
						}
						c, isC := l.Cond.(*ssa.Call)
						return isC && engine.CallKey(c.Common()) == engine.KAPIErr+"IsNotFound" && strings.Contains(E(c.Common().Args[0]), ".updateParentStatus)(")
					})
				}
				ok2, why := errorDiscipline(p, f, ci, allowed, []string{".syncError", ".canAdoptErr"}, excuse...)
				r.Check(rule, c+"[error]", p.InstrPos(in), ok2, "error handled; tolerated: "+strings.Join(allowed, ","), why)
			}
		}
	}
	// the release helpers: UpdateWithRetries sinks are rev sinks in release functions — tolerated NotFound/Gone handled above via Sinks? they have no allowed set there;
}

func r12_2(r *Report, p *Program) {
	const rule = "R12.2"
	r.Rule(rule, "per-object loops keep going: no return inside, aggregate returned after")
	r.Floor(rule, 6)
	reach := writeReachers(p)
	_, under := childSinks(p)
	var fns []*ssa.Function
	for f := range under {
		if strings.HasPrefix(FK(f), engine.ModPrefix) && f.Parent() == nil {
			fns = append(fns, f)
		}
	}
	for _, key := range []string{"dynamic/controllerref.UnstructuredManager.ClaimChildren", "dynamic/controllerref.ControllerRevisionManager.ClaimControllerRevisions"} {
		if f := fn(r, p, rule, key); f != nil {
			fns = append(fns, f)
		}
	}
	sort.Slice(fns, func(i, j int) bool { return FK(fns[i]) < FK(fns[j]) })
	for _, f := range fns {
		worked := false
		for li, l := range engine.RangeLoops(f) {
			// only loops that (transitively) write or claim
			work := false
			for _, b := range l.BodyBlocks() {
				for _, in := range b.Instrs {
					if isWriteCall(p, reach, in) || isCallTo(in, "BaseControllerRefManager.ClaimObject") {
						work = true
					}
				}
			}
			if !work {
				continue
			}
			worked = true
			// innermost only: skip if another working loop is nested inside and this loop has no own work outside it — still check no return
			ok, why := true, ""
			for _, b := range l.BodyBlocks() {
				for _, in := range b.Instrs {
					if _, isR := in.(*ssa.Return); isR {
						ok, why = false, "loop body returns at "+p.InstrPos(in)+": one failing object stops the others"
					}
					if _, isP := in.(*ssa.Panic); isP {
						ok, why = false, "loop body panics at "+p.InstrPos(in)
					}
				}
			}
			r.Check(rule, sf("%s→loop#%d(%s)", FK(f), li, E(l.X)), p.InstrPos(l.Header.Instrs[0]), ok, "no return inside the loop", why)
		}
		// returns the aggregate
		if engine.ErrorResultIndex(f) >= 0 && worked {
			okA := true
			for _, b := range engine.BlocksInl(f) {
				for _, in := range b.Instrs {
					if rt, isR := in.(*ssa.Return); isR {
						v := engine.RetVal(rt, engine.ErrorResultIndex(f))
						if !strings.HasSuffix(keyOf(v), "errors.NewAggregate") {
							okA = false
						}
					}
				}
			}
			r.Check(rule, FK(f)+"[returns-aggregate]", p.Pos(f.Pos()), okA, "returns NewAggregate(errs)", "does not return the aggregate of the per-object errors")
		}
	}
}

func r12_3(r *Report, p *Program) {
	const rule = "R12.3"
	r.Rule(rule, "processNextWorkItem table, both siblings")
	r.Floor(rule, 2)
	for _, key := range []string{"controller/composite.parentController.processNextWorkItem", "controller/decorator.decoratorController.processNextWorkItem"} {
		f := fn(r, p, rule, key)
		if f == nil {
			continue
		}
		paths, err := engine.EnumPaths(f, engine.EnumOpts{Effect: func(in ssa.Instruction) bool {
			return isCallTo(in, "TypedInterface.Done", "TypedRateLimitingInterface.AddRateLimited", "TypedRateLimitingInterface.Forget", "TypedInterface.Get", "TypedInterface.Add", "TypedDelayingInterface.AddAfter") || isCallTo(in, ".sync")
		}})
		if err != nil {
			r.Fail(rule, FK(f), p.Pos(f.Pos()), "undecided", err.Error())
			continue
		}
		quit := func(a string) bool { return strings.HasSuffix(a, "Get)(p0.queue)#1") }
		failed := func(a string) bool { return strings.Contains(a, ".sync)(p0, ") && strings.HasSuffix(a, " == nil)") }
		ok, why := true, ""
		var rows []map[string]string
		nq, ne, ns := 0, 0, 0
		for _, pa := range paths {
			rt, isR := pa.End.(*ssa.Return)
			if !isR {
				continue
			}
			effs := verbsOf(pa.Effects)
			// which key do Done/AddRateLimited/Forget get?
			for _, e := range pa.Effects {
				ci := e.(ssa.CallInstruction)
				k := engine.CallKey(ci.Common())
				if strings.HasSuffix(k, ".Done") || strings.HasSuffix(k, ".AddRateLimited") || strings.HasSuffix(k, ".Forget") {
					if !strings.HasSuffix(E(ci.Common().Args[0]), "Get)(p0.queue)#0") {
						ok, why = false, methodOf(k)+" is called with "+E(ci.Common().Args[0])+", not the key obtained from Get"
					}
				}
			}
			ret := E(engine.RetVal(rt, 0))
			rows = append(rows, map[string]string{"when": pa.Cond(), "effects": strings.Join(effs, ","), "returns": ret})
			q, fl := val(pa, -1, quit), val(pa, -1, failed)
			switch {
			case q == 1:
				nq++
				if count(effs, "sync") > 0 || count(effs, "Done") > 0 {
					ok, why = false, "on shutdown the item is processed / marked done"
				}
			case fl == -1: // sync returned an error
				ne++
				if count(effs, "Done") != 1 || count(effs, "AddRateLimited") != 1 || count(effs, "Forget") != 0 {
					ok, why = false, sf("failed sync must be Done + AddRateLimited, no Forget; path does [%s]", strings.Join(effs, ","))
				}
			case fl == 1:
				ns++
				if count(effs, "Done") != 1 || count(effs, "Forget") != 1 || count(effs, "AddRateLimited") != 0 {
					ok, why = false, sf("successful sync must be Done + Forget, no AddRateLimited; path does [%s]", strings.Join(effs, ","))
				}
			default:
				ok, why = false, "a path neither quits nor tests sync's error: ["+pa.Cond()+"]"
			}
		}
		if nq == 0 || ne == 0 || ns == 0 {
			ok, why = false, sf("table degenerate (quit=%d error=%d success=%d)", nq, ne, ns)
		}
		r.Table("R12.3 "+Short(FK(f)), rows)
		r.Check(rule, FK(f), p.Pos(f.Pos()), ok, "quit⇒false; error⇒Done+AddRateLimited; ok⇒Done+Forget", why)
	}
}

// r12_4b: the 429 keeps its identity on the way up. composite sync recognises it
// with errors.As, which follows Unwrap() error chains (fmt.Errorf %w) but not
// k8s' utilerrors.Aggregate (no As, no Unwrap() []error): a hook error that is put
// into an aggregate anywhere between Hook.Call and sync turns "retry after N
// seconds" into an ordinary failure with back-off.
func r12_4b(r *Report, p *Program, rule string) {
	sy := p.Func("controller/composite.parentController.sync")
	if sy == nil {
		return
	}
	hookFns := map[*ssa.Function]bool{}
	for _, f := range p.Scanned {
		if len(callsTo(f, false, "hooks.Hook.Call", "hooks.WebhookExecutor.Call")) > 0 {
			hookFns[f] = true
		}
	}
	down := p.CG().ReachSet(sy)
	up := p.CG().CanReach(p, func(f *ssa.Function) bool { return hookFns[f] })
	n := 0
	var fs []*ssa.Function
	for f := range down {
		if up[f] && engine.ErrorResultIndex(f) >= 0 && strings.HasPrefix(FK(f), engine.ModPrefix) {
			fs = append(fs, f)
		}
	}
	sort.Slice(fs, func(i, j int) bool { return FK(fs[i]) < FK(fs[j]) })
	carriesHookErr := func(v ssa.Value) bool {
		return engine.BackSlice(v, func(x ssa.Value) bool {
			switch y := x.(type) {
			case *ssa.Call:
				for _, g := range p.CalleesOf(y) {
					if up[g] && down[g] {
						return true
					}
				}
				k := engine.CallKey(y.Common())
				return strings.HasSuffix(k, "hooks.Hook.Call") || strings.HasSuffix(k, "hooks.WebhookExecutor.Call")
			case *ssa.FieldAddr:
				return fieldNameOf(deref(y.X.Type()), y.Field) == "syncError"
			}
			return false
		}, func(k string) bool { return strings.HasPrefix(k, "fmt.") })
	}
	for _, f := range fs {
		ei := engine.ErrorResultIndex(f)
		ok, why := true, ""
		for _, b := range engine.BlocksInl(f) {
			for _, in := range b.Instrs {
				rt, isR := in.(*ssa.Return)
				if !isR {
					continue
				}
				engine.BackSlice(engine.RetVal(rt, ei), func(x ssa.Value) bool {
					c, isC := x.(*ssa.Call)
					if !isC || !strings.HasSuffix(engine.CallKey(c.Common()), "util/errors.NewAggregate") {
						return false
					}
					if len(c.Common().Args) == 1 && carriesHookErr(c.Common().Args[0]) {
						ok, why = false, "the error returned at "+p.InstrPos(rt)+" wraps utilerrors.NewAggregate(…) of hook errors: errors.As in composite sync cannot see a *TooManyRequestError inside an Aggregate, so a 429 is handled as a plain failure (back-off, no Retry-After re-queue)"
						return true
					}
					return false
				}, func(k string) bool {
					return strings.HasPrefix(k, "fmt.") || strings.HasSuffix(k, "util/errors.NewAggregate")
				})
			}
		}
		n++
		r.Check(rule, FK(f)+"[429-identity]", p.Pos(f.Pos()), ok, "hook errors travel up by identity or %w only", why)
	}
	if n < 3 {
		r.Fail(rule, "429 chain", "-", "anchor-lost", sf("only %d functions between composite sync and the hook call", n))
	}
}

func methodOf(k string) string {
	if i := strings.LastIndex(k, "."); i >= 0 {
		return k[i+1:]
	}
	return k
}

func r12_4(r *Report, p *Program) {
	const rule = "R12.4"
	r.Rule(rule, "429 ⇒ TooManyRequestError before the body is read; composite sync: errors.As ⇒ AddAfter(key, AfterSecond) and nil")
	r.Floor(rule, 2)
	if root := fn(r, p, rule, "hooks.webhookExecutor.Call"); root != nil {
		rg := regionOf(p, root)
		is429 := func(l Lit) bool { return strings.HasSuffix(l.Atom, ".StatusCode == 429)") }
		var from []engine.Point
		var call *ssa.Function // the function holding the 429 test: Call or a helper it was split into
		fnsAll := append([]*ssa.Function(nil), rg.fns...)
		fnsAll = append(fnsAll, engine.InlinedUnder(root)...)
		for _, g := range fnsAll {
			for _, b := range engine.BlocksInl(g) {
				for i := range b.Succs {
					if l, ok := engine.EdgeLit(b, i); ok && l.Pos && is429(l) {
						if call == nil || call == g {
							call = g
							from = append(from, engine.Point{B: b.Succs[i]})
						}
					}
				}
			}
		}
		ok, why := len(from) > 0, "no test for status 429"
		if ok {
			w := engine.Query{Fn: call, From: from, Target: func(in ssa.Instruction) bool {
				if isCallTo(in, "io.ReadAll", "json.UnmarshalStrict", "json.Unmarshal", ".adjustResponse", ".isStatusSupported") {
					return true
				}
				if ci, isC := in.(ssa.CallInstruction); isC {
					if g := engine.StaticFn(ci.Common()); g != nil && rg.site[g].Fn != nil {
						// continues in another piece of the split function — unless that piece only computes
						// (no body read, decoding, cache adjustment or status gate in it or below it)
						for h := range p.CG().ReachSet(g) {
							for _, hb := range h.Blocks {
								for _, hin := range hb.Instrs {
									if isCallTo(hin, "io.ReadAll", "json.UnmarshalStrict", "json.Unmarshal", ".adjustResponse", ".isStatusSupported") {
										return true
									}
								}
							}
						}
					}
				}
				rt, isR := in.(*ssa.Return)
				if !isR {
					return false
				}
				v := engine.ResolveLocal(engine.RetVal(rt, engine.ErrorResultIndex(call)))
				a, isA := engine.Unwrap(v).(*ssa.Alloc)
				return !isA || !strings.HasSuffix(a.Type().String(), "hooks.TooManyRequestError")
			}}.Find()
			if w != nil {
				ok, why = false, "on 429 the call reaches "+p.InstrPos(w.Instr)+" instead of returning *TooManyRequestError straight away"
			}
			if ok && call != root {
				ok, why = rg.propagates(rg.site[call])
			}
			// the 429 test precedes reading the body
			for _, cs := range rg.calls("io.ReadAll") {
				if wb := rg.unguarded(cs.Instr.(ssa.Instruction), func(l Lit) bool { return !l.Pos && is429(l) }); wb != nil {
					ok, why = false, "the body is read before the 429 test"
				}
			}
		}
		r.Check(rule, FK(root)+"[429]", p.Pos(root.Pos()), ok, "429 ⇒ *TooManyRequestError, body untouched", why)
	}
	r12_4b(r, p, rule)
	if sy := fn(r, p, rule, "controller/composite.parentController.sync"); sy != nil {
		as := callsTo(sy, false, "errors.As")
		ok, why := len(as) == 1, "composite sync does not look for TooManyRequestError with errors.As"
		if ok {
			spo := callsTo(sy, false, ".syncParentObject")
			if len(spo) != 1 || !engine.SameValue(as[0].Common().Args[0], spo[0].Instr.Value()) {
				ok, why = false, "errors.As is not applied to syncParentObject's error"
			} else if !strings.Contains(as[0].Common().Args[1].Type().String(), "TooManyRequestError") && !strings.Contains(E(as[0].Common().Args[1]), "TooManyRequestError") {
				ok, why = false, "errors.As target is not *TooManyRequestError"
			}
		}
		if ok {
			var from []engine.Point
			asv := as[0].Instr.Value()
			for _, b := range engine.BlocksInl(sy) {
				for i := range b.Succs {
					if l, has := engine.EdgeLit(b, i); has && l.Pos && engine.SameValue(l.Cond, asv) {
						from = append(from, engine.Point{B: b.Succs[i]})
					}
				}
			}
			aa := callsTo(sy, false, "TypedDelayingInterface.AddAfter")
			if len(from) == 0 || len(aa) != 1 {
				ok, why = false, "no AddAfter on the TooManyRequestError edge"
			} else {
				ai := aa[0].Instr.(ssa.Instruction)
				w := engine.Query{Fn: sy, From: from, Target: engine.IsReturn, CutInstr: func(in ssa.Instruction) bool { return in == ai }}.Find()
				if w != nil {
					ok, why = false, "on 429 a path returns without AddAfter"
				}
				if E(aa[0].Arg(0)) != "p1" {
					ok, why = false, "AddAfter re-queues "+E(aa[0].Arg(0))+", not the key being synced"
				}
				if !strings.Contains(E(aa[0].Arg(1)), ".AfterSecond") {
					ok, why = false, "AddAfter delay does not come from the error's AfterSecond: "+E(aa[0].Arg(1))
				}
				// returns nil afterwards
				w2 := engine.Query{Fn: sy, From: []engine.Point{engine.After(ai)}, Target: func(in ssa.Instruction) bool {
					rt, isR := in.(*ssa.Return)
					return isR && !engine.ReturnsNilError(rt)
				}}.Find()
				if w2 != nil {
					ok, why = false, "429 is still reported as an error (counted for back-off)"
				}
				// AddAfter only on that edge
				if wu := unguarded(sy, nil, ai, func(l Lit) bool { return l.Pos && engine.SameValue(l.Cond, asv) }); wu != nil {
					ok, why = false, "AddAfter reachable without a TooManyRequestError"
				}
			}
			// other errors are returned
			if ok {
				spo := callsTo(sy, false, ".syncParentObject")[0]
				ev := spo.Instr.Value()
				w3 := engine.Query{Fn: sy, From: []engine.Point{engine.After(spo.Instr.(ssa.Instruction))}, Target: func(in ssa.Instruction) bool {
					rt, isR := in.(*ssa.Return)
					return isR && !engine.SameValue(rt.Results[0], ev)
				}, CutEdge: func(b *ssa.BasicBlock, i int, l *Lit) bool { return l != nil && l.Pos && engine.SameValue(l.Cond, asv) }}.Find()
				if w3 != nil {
					ok, why = false, "an error other than 429 is not returned from sync (no back-off requeue)"
				}
			}
		}
		r.Check(rule, FK(sy)+"[429⇒AddAfter,nil]", p.Pos(sy.Pos()), ok, "429 ⇒ AddAfter(key, Retry-After); not an error", why)
	}
}

func r12_5(r *Report, p *Program) {
	const rule = "R12.5"
	r.Rule(rule, "queue keys parse back: the constructor of every enqueued key matches the parser of that controller's sync")
	r.Floor(rule, 10)
	type ctl struct {
		pkg, recv string
		goodKey   func(v ssa.Value) (bool, string)
	}
	fromGetOrParam := func(f *ssa.Function, v ssa.Value) bool {
		s := E(v)
		if strings.Contains(s, "TypedInterface.Get)(p0.queue)#0") {
			return true
		}
		if pv, ok := engine.ResolveLocal(v).(*ssa.Parameter); ok && pv.Type().String() == "string" && strings.HasSuffix(FK(f), ".sync") {
			return true
		}
		return false
	}
	ctls := []ctl{
		{"controller/composite", "parentController", func(v ssa.Value) (bool, string) {
			s := E(v)
			if strings.HasPrefix(s, "call(dyn:global(controller/common.KeyFunc))(") && strings.HasSuffix(s, "#0") {
				return true, "common.KeyFunc"
			}
			return false, s
		}},
		{"controller/decorator", "decoratorController", func(v ssa.Value) (bool, string) {
			s := E(v)
			if strings.HasPrefix(s, "call(controller/decorator.parentQueueKey)(") && strings.HasSuffix(s, "#0") {
				return true, "parentQueueKey"
			}
			return false, s
		}},
	}
	for _, c := range ctls {
		n := 0
		for _, f := range p.Scanned {
			if !strings.HasPrefix(FK(f), "metacontroller/pkg/"+c.pkg+"."+c.recv+".") {
				continue
			}
			for _, cs := range callsTo(f, false, "workqueue.TypedInterface.Add", "workqueue.TypedDelayingInterface.AddAfter", "workqueue.TypedRateLimitingInterface.AddRateLimited") {
				n++
				key := cs.Arg(0)
				ok, src := c.goodKey(key)
				if !ok && fromGetOrParam(f, key) {
					ok, src = true, "key being processed"
				}
				why := ""
				if !ok {
					why = "enqueues a key built by " + src + ", which this controller's sync cannot parse"
				}
				r.Check(rule, sf("%s→%s#%d", FK(f), methodOf(cs.Key), n-1), p.InstrPos(cs.Instr), ok, "key from "+src, why)
			}
		}
		if n < 3 {
			r.Fail(rule, c.pkg+" enqueue sites", "-", "anchor-lost", sf("found %d enqueue sites", n))
		}
	}
	// composite: KeyFunc is the deletion-handling namespace/name key, sync parses namespace/name
	okK := false
	for _, pk := range p.Pkgs {
		if pk.PkgPath != "metacontroller/pkg/controller/common" {
			continue
		}
		if ini := p.Prog.Package(pk.Types).Func("init"); ini != nil {
			for _, b := range engine.BlocksInl(ini) {
				for _, in := range b.Instrs {
					if st, ok := in.(*ssa.Store); ok && E(st.Addr) == "global(controller/common.KeyFunc)" {
						okK = E(st.Val) == "func(cache.DeletionHandlingMetaNamespaceKeyFunc)"
					}
				}
			}
		}
	}
	r.Check(rule, "controller/common.KeyFunc", "-", okK, "KeyFunc = cache.DeletionHandlingMetaNamespaceKeyFunc (namespace/name, tombstones handled)", "common.KeyFunc is not DeletionHandlingMetaNamespaceKeyFunc")
	if sy := p.Func("controller/composite.parentController.sync"); sy != nil {
		okP := len(callsTo(sy, false, "cache.SplitMetaNamespaceKey")) == 1 && E(callsTo(sy, false, "cache.SplitMetaNamespaceKey")[0].Common().Args[0]) == "p1"
		r.Check(rule, FK(sy)+"[parser]", p.Pos(sy.Pos()), okP, "composite sync parses namespace/name", "composite sync does not parse its key with SplitMetaNamespaceKey")
	}
	// decorator: parentQueueKey's results vs splitParentQueueKey
	pq := fn(r, p, rule, "controller/decorator.parentQueueKey")
	sp := fn(r, p, rule, "controller/decorator.splitParentQueueKey")
	if pq == nil || sp == nil {
		return
	}
	sep, nf := "", 0
	for _, cs := range callsTo(sp, false, "strings.SplitN") {
		if s, ok := constStr(cs.Common().Args[1]); ok {
			sep = s
		}
		if c, ok := cs.Common().Args[2].(*ssa.Const); ok {
			nf = int(c.Int64())
		}
	}
	okS := sep != "" && nf > 0
	// error unless exactly nf parts
	if okS {
		for _, b := range engine.BlocksInl(sp) {
			for _, in := range b.Instrs {
				if rt, isR := in.(*ssa.Return); isR && engine.ReturnsNilError(rt) {
					w := unguarded(sp, nil, rt, func(l Lit) bool {
						return l.Pos && l.Op.String() == "==" && strings.Contains(l.Atom, "builtin.len") && strings.HasSuffix(l.Atom, sf(" == %d)", nf))
					})
					if w != nil {
						okS = false
					}
				}
			}
		}
	}
	r.Check(rule, FK(sp)+"[parser]", p.Pos(sp.Pos()), okS, sf("SplitN(key, %q, %d), error unless %d fields", sep, nf, nf), "splitParentQueueKey is not a fixed-arity split with an arity check")
	// every successful return of parentQueueKey yields a string in that domain
	n := 0
	for _, b := range engine.BlocksInl(pq) {
		for _, in := range b.Instrs {
			rt, isR := in.(*ssa.Return)
			if !isR || !engine.ReturnsNilError(rt) {
				continue
			}
			n++
			v := engine.ResolveLocal(rt.Results[0])
			ok, why := false, ""
			desc := E(v)
			switch {
			case keyOf(v) == "fmt.Sprintf":
				fs, _ := constStr(callOf(v).Common().Args[0])
				ok = okS && strings.Count(fs, sep) == nf-1
				if !ok {
					why = sf("key format %q does not have %d %q-separated fields", fs, nf, sep)
				}
			case strings.HasSuffix(keyOf(v), "decorator.parentQueueKey"):
				ok = true // recursion on the wrapped object
			case strings.HasPrefix(desc, "assert<cache.ExplicitKey>(p0)"):
				ok = true // an explicit key is by definition already a queue key
			default:
				why = "returns " + desc + " as queue key: this is not in the " + sf("%d-field %q", nf, sep) + " domain that splitParentQueueKey accepts, so sync fails with 'invalid parent key' on every retry"
			}
			// construct keyed by the type-switch case
			caseName := "default"
			for _, l := range (engine.Query{Fn: pq, Target: func(x ssa.Instruction) bool { return x == in }}).Find().Lits {
				if l.Pos && strings.HasPrefix(l.Atom, "assert<") {
					caseName = l.Atom[:strings.Index(l.Atom, ">")+1]
				}
			}
			r.Check(rule, sf("%s[return %s]", FK(pq), caseName), p.InstrPos(in), ok, "key in the parser's domain", why)
		}
	}
	if n < 2 {
		r.Fail(rule, FK(pq), p.Pos(pq.Pos()), "anchor-lost", "parentQueueKey has fewer than 2 successful returns")
	}
}

// r12_10: every hook call is bounded in time. A client without timeout turns a hook
// that accepts the connection and never answers into a worker that never
// returns: no error, nothing to retry, the parent is stuck for good.
func r12_10(r *Report, p *Program) {
	const rule = "R12.10"
	r.Rule(rule, "NewWebhookExecutor builds its http.Client with Timeout = webhookTimeout()'s value on every path; webhookTimeout never returns a non-positive duration")
	r.Floor(rule, 2)
	if f := fn(r, p, rule, "hooks.NewWebhookExecutor"); f != nil {
		ok, why := false, "no http.Client literal found"
		for _, b := range engine.BlocksInl(f) {
			for _, in := range b.Instrs {
				a, isA := in.(*ssa.Alloc)
				if !isA || !strings.HasSuffix(deref(a.Type()).String(), "net/http.Client") {
					continue
				}
				sts := engine.FieldStores(a, "Timeout")
				ok, why = true, ""
				if len(sts) == 0 {
					ok, why = false, "the http.Client's Timeout is never set (0 = no timeout)"
					continue
				}
				for _, st := range sts {
					c := engine.DependsOnCall(st.Val, engine.HasSuffix("hooks.webhookTimeout"), nil)
					if c == nil || !engine.SameValue(st.Val, engine.ResultValue(c, 0)) {
						ok, why = false, "Timeout is set to "+E(st.Val)+", not to the duration webhookTimeout returns"
					}
				}
				// every use of the client (handing it on) has passed a Timeout store
				if refs := a.Referrers(); refs != nil && ok {
					for _, u := range *refs {
						ci, isCall := u.(ssa.CallInstruction)
						if !isCall {
							continue
						}
						w := bypass(f, ci.(ssa.Instruction), func(x ssa.Instruction) bool {
							for _, st := range sts {
								if x == ssa.Instruction(st) {
									return true
								}
							}
							return false
						})
						if w != nil {
							ok, why = false, "the client is handed on at "+p.InstrPos(ci)+" on a path that has not set its Timeout (e.g. only when webhookTimeout reported no error — but it returns the 10s default TOGETHER with the error for an invalid value): Timeout stays 0, a hanging hook blocks the worker forever; "+pathWhy(w)
						}
					}
				}
			}
		}
		r.Check(rule, FK(f)+"[client-timeout]", p.Pos(f.Pos()), ok, "Timeout := webhookTimeout() on every path", why)
	}
	if f := fn(r, p, rule, "hooks.webhookTimeout"); f != nil {
		paths, err := engine.EnumPaths(f, engine.EnumOpts{})
		ok, why := err == nil, ""
		for _, pa := range paths {
			if len(pa.Ret) < 1 {
				continue
			}
			v := pa.Ret[0]
			if c, isC := v.(*ssa.Const); isC {
				if c.Int64() <= 0 {
					ok, why = false, "returns the constant "+E(v)
				}
				continue
			}
			// a configured value: only behind 'not (value <= 0)'
			ev := E(v)
			if !pa.Has(false, func(a string) bool { return a == "(0 < "+ev+")" }) && !pa.Has(true, func(a string) bool { return a == "(0 < "+ev+")" }) {
				ok, why = false, "returns "+ev+" without having tested it to be positive: ["+pa.Cond()+"]"
			} else if pa.Has(false, func(a string) bool { return a == "(0 < "+ev+")" }) {
				ok, why = false, "returns "+ev+" on the path where it is not positive"
			}
		}
		r.Check(rule, FK(f)+"[positive]", p.Pos(f.Pos()), ok, "result is the positive configured value or the 10s default", why)
	}
}

var goBodiesCache = map[string]map[*ssa.Function]bool{}

// goBodiesOf: the functions (closures or named functions/methods) that the function named key starts with `go`.
func goBodiesOf(p *Program, key string) map[*ssa.Function]bool {
	if m, ok := goBodiesCache[key]; ok {
		return m
	}
	m := map[*ssa.Function]bool{}
	if f := p.Func(key); f != nil {
		for _, b := range f.Blocks {
			for _, in := range b.Instrs {
				if g, isGo := in.(*ssa.Go); isGo {
					if cl := engine.StaticFn(g.Common()); cl != nil {
						m[cl] = true
					}
				}
			}
		}
	}
	goBodiesCache[key] = m
	return m
}

// siblingStepsIndependent: in ManageChildren the create/update step of a kind does not depend on the outcome of the
// delete step: where both calls sit in one loop iteration, the update is still reached after a failed delete.
func siblingStepsIndependent(r *Report, p *Program, rule string) {
	r.Rule(rule, "ManageChildren: a failed deleteChildren does not keep updateChildren from running in the same iteration (\"we don't block recovery on a failed delete\")")
	r.Floor(rule, 1)
	f := fn(r, p, rule, "controller/common.ManageChildren")
	if f == nil {
		return
	}
	loops := engine.RangeLoops(f)
	dels := callsTo(f, false, "controller/common.deleteChildren")
	upds := callsTo(f, false, "controller/common.updateChildren")
	ok, why := len(dels) > 0 && len(upds) > 0, "ManageChildren no longer calls deleteChildren and updateChildren"
	for _, d := range dels {
		di := d.Instr.(ssa.Instruction)
		ld := engine.EnclosingLoop(loops, di)
		ev := engine.ErrValue(d.Instr)
		for _, u := range upds {
			ui := u.Instr.(ssa.Instruction)
			if ld == nil || !ld.Contains(ui) {
				continue // separate passes: independent by construction
			}
			var from []engine.Point
			for _, b := range f.Blocks {
				for i := range b.Succs {
					if l, has := engine.EdgeLit(b, i); has {
						if x, isNil, isT := l.NilTest(); isT && !isNil && ev != nil && engine.SameValue(x, ev) {
							from = append(from, engine.Point{B: b.Succs[i]})
						}
					}
				}
			}
			if len(from) == 0 {
				continue
			}
			if (engine.Query{Fn: f, From: from, Target: func(x ssa.Instruction) bool { return x == ui },
				CutInstr: func(x ssa.Instruction) bool { return x.Block() == ld.Header }}).Find() == nil {
				ok, why = false, "after a failed delete of one child the create/update step of that kind ("+p.InstrPos(ui)+") is skipped in this sync: a delete that keeps failing blocks the creation of every sibling"
			}
		}
	}
	r.Check(rule, FK(f), p.Pos(f.Pos()), ok, "update step independent of the delete step's outcome", why)
}
