package rules

import (
	"go/token"
	"strings"

	"mcvet/engine"

	"golang.org/x/tools/go/ssa"
)

func init() {
	Registry["C05"] = checkC05
	Controls["C05"] = map[string][2]string{
		"R05.11": {"badStdJSONDecode", "goodK8sJSONDecode"},
	}
}

func checkC05(r *Report, p *Program) {
	r.Explanation = "The algebraic laws of the three-way merge (containment, removal, preservation, idempotence over all JSON triples) are value-level and NOT decided. Decided are structural necessary conditions: (R05.1) purity — Merge works on a DeepCopyJSON of observed and no function of package apply (transitively) mutates its lastApplied/desired/observed parameters; ApplyUpdate does not mutate the observed object; (R05.2) contradiction rule — a nil test of the result of a failed comma-ok type assertion is vacuous, so the type-clash error it guards is dead; demanded: the clash guards test the operand; (R05.3) every unchecked type assertion in apply is reachable only behind mergeArray's list-map detection over the same three lists; (R05.4) ApplyUpdate's pipeline order and operands: GetLastApplied(orig) → strip own annotation from update → Merge(orig, lastApplied, update) → revert system metadata (⊇ uid, resourceVersion, generation, creationTimestamp, deletionTimestamp, deletionGracePeriodSeconds, selfLink) → revert status → SetLastApplied(result, the same stripped update); (R05.5) mergeObject's loops: a last-applied key is deleted exactly when absent from desired, and every desired key is assigned on every non-error iteration; applyPatch/makePatch visit every field path."
	r.NotDecided = "containment, removal, preservation, order preservation, idempotence and no-panic over all JSON triples."
	r05_1(r, p)
	vacuousAssertGuards(r, p, "R05.2")
	r05_7(r, p)
	lastAppliedIsHookAnswer(r, p, "R05.8")
	r05_9(r, p)
	jsonDecodingPreservesInts(r, p, "R05.11")
	everyCandidateTried(r, p, "R05.12")
	r05_10(r, p)
	// what ApplyUpdate's helpers touch are private copies: the objects handed in (observed child from the cache, the merge result about to be sent) are not edited behind the caller's back — shared with C17
	r17_1(r, p)
	r05_3(r, p)
	r05_4(r, p)
	r05_5(r, p)
	noWriteWhenEqual(r, p, "R05.6")
}

func r05_1(r *Report, p *Program) {
	const rule = "R05.1"
	r.Rule(rule, "purity of the merge")
	r.Floor(rule, 8)
	if m := fn(r, p, rule, "dynamic/apply.Merge"); m != nil {
		ok := false
		for _, cs := range callsTo(m, false, "apply.merge") {
			a := E(cs.Common().Args[1])
			ok = a == "call(k8s.io/apimachinery/pkg/runtime.DeepCopyJSON)(p0)"
		}
		r.Check(rule, FK(m)+"[copy-of-observed]", p.Pos(m.Pos()), ok, "merge runs on DeepCopyJSON(observed)", "Merge does not hand a deep copy of observed to merge: the observed (cached) object would be edited in place")
		// result is that copy
		for _, b := range engine.BlocksInl(m) {
			for _, in := range b.Instrs {
				if rt, isR := in.(*ssa.Return); isR && engine.ReturnsNilError(rt) && E(rt.Results[0]) != "call(k8s.io/apimachinery/pkg/runtime.DeepCopyJSON)(p0)" {
					r.Check(rule, FK(m)+"[returns-the-copy]", p.InstrPos(in), false, "", "Merge returns "+E(rt.Results[0]))
				}
			}
		}
	}
	for _, f := range p.Scanned {
		if !strings.HasPrefix(FK(f), "metacontroller/pkg/dynamic/apply.") || f.Parent() != nil {
			continue
		}
		for i, prm := range f.Params {
			n := prm.Name()
			role := ""
			switch {
			case strings.HasPrefix(n, "lastApplied"), strings.HasPrefix(n, "desired"), n == "observed", n == "lists", n == "list":
				role = n
			}
			if role == "" {
				continue
			}
			muts := p.Mutations(f, prm)
			why := ""
			if len(muts) > 0 {
				why = sf("parameter %s (#%d) is mutated: %s at %s", n, i, muts[0].What, p.InstrPos(muts[0].Instr))
			}
			r.Check(rule, sf("%s[%s unmodified]", FK(f), n), p.Pos(f.Pos()), len(muts) == 0, "no mutation of "+n+" (transitively)", why)
		}
	}
	if au := fn(r, p, rule, "controller/common.ApplyUpdate"); au != nil {
		muts := p.Mutations(au, au.Params[0])
		why := ""
		if len(muts) > 0 {
			why = "ApplyUpdate mutates the observed object: " + muts[0].What + " at " + p.InstrPos(muts[0].Instr)
		}
		r.Check(rule, FK(au)+"[orig unmodified]", p.Pos(au.Pos()), len(muts) == 0, "observed object is only read", why)
	}
}

// vacuousAssertGuards (R05.2, module-wide): `v, ok := x.(T)` … `!ok && v != nil`.
func vacuousAssertGuards(r *Report, p *Program, rule string) {
	r.Rule(rule, "contradiction: a nil test of the result of a FAILED comma-ok assertion is constant; a type-clash guard must test the operand")
	n := 0
	ord := map[string]int{}
	for _, f := range p.Scanned {
		for _, b := range engine.BlocksInl(f) {
			if len(b.Instrs) == 0 {
				continue
			}
			iff, ok := b.Instrs[len(b.Instrs)-1].(*ssa.If)
			if !ok {
				continue
			}
			l := engine.CondLit(iff.Cond, true)
			v, _, isT := l.NilTest()
			if !isT {
				continue
			}
			ex, isE := v.(*ssa.Extract)
			if !isE || ex.Index != 0 {
				continue
			}
			ta, isTA := ex.Tuple.(*ssa.TypeAssert)
			if !isTA || !ta.CommaOk {
				continue
			}
			// is this test only reachable when the assertion failed?
			w := unguarded(f, nil, iff, func(l2 Lit) bool {
				e2, ok := l2.Cond.(*ssa.Extract)
				return ok && e2.Tuple == ta && e2.Index == 1 && !l2.Pos
			})
			if w != nil {
				continue // also reachable on success: a meaningful test
			}
			n++
			key := Short(FK(f)) + "→assert<" + engine.Abbrev(ta.AssertedType.String()) + ">(" + E(ta.X) + ")"
			c := sf("%s#%d", key, ord[key])
			ord[key]++
			r.Check(rule, c, p.InstrPos(iff), false, "", "after a failed assertion the result is the zero value, so '"+l.Atom+"' is always nil-true: the branch it guards (a type-clash error) can never be taken and a value of the wrong type is silently ignored; test the operand "+E(ta.X)+" instead")
		}
	}
	// the four clash guards of merge must exist as operand tests
	if m := fn(r, p, rule, "dynamic/apply.merge"); m != nil {
		good := 0
		for _, b := range engine.BlocksInl(m) {
			for i := range b.Succs {
				l, ok := engine.EdgeLit(b, i)
				if !ok || l.Pos {
					continue
				}
				if v, isNil, isT := l.NilTest(); isT && !isNil || isT && isNil {
					_ = isNil
					if _, isP := v.(*ssa.Parameter); isP && (E(v) == "p2" || E(v) == "p3") {
						good++
					}
				}
			}
		}
		// each guard tests the operand of ITS OWN assertion: `x, ok := V.(T); if !ok && W != nil` needs W == V
		for _, b := range engine.BlocksInl(m) {
			if len(b.Instrs) == 0 {
				continue
			}
			iff, isIf := b.Instrs[len(b.Instrs)-1].(*ssa.If)
			if !isIf {
				continue
			}
			okl := engine.CondLit(iff.Cond, true)
			ex, isE := okl.Cond.(*ssa.Extract)
			if !isE || ex.Index != 1 {
				continue
			}
			ta, isTA := ex.Tuple.(*ssa.TypeAssert)
			if !isTA || !ta.CommaOk {
				continue
			}
			if _, isP := ta.X.(*ssa.Parameter); !isP {
				continue
			}
			// successor taken when the assertion failed
			fail := b.Succs[1]
			if !okl.Pos {
				fail = b.Succs[0]
			}
			if len(fail.Instrs) == 0 {
				continue
			}
			if if2, isIf2 := fail.Instrs[len(fail.Instrs)-1].(*ssa.If); isIf2 {
				l2 := engine.CondLit(if2.Cond, true)
				if v, _, isT := l2.NilTest(); isT {
					if _, isP2 := v.(*ssa.Parameter); isP2 && !engine.SameValue(v, ta.X) {
						good = -100
						r.Check(rule, FK(m)+"[clash-guard-operand="+E(ta.X)+"]", p.InstrPos(if2), false, "", "the type-clash guard of the assertion on "+E(ta.X)+" tests "+E(v)+" for nil instead: a non-nil "+E(ta.X)+" of the wrong type is not reported when "+E(v)+" is nil (and a nil one is when it is not)")
					}
				}
			}
		}
		// polarity, both directions, on the paths of merge (whatever the order of the two tests in the guard):
		// assertion on V failed ∧ V non-nil ⇒ the path ends in a clash error; assertion failed ∧ V nil ⇒ it does not
		// end in an error on V's account
		if len(m.Params) >= 4 {
			paths, perr := engine.EnumPaths(m, engine.EnumOpts{})
			for _, opnd := range []*ssa.Parameter{m.Params[2], m.Params[3]} {
				on := E(opnd)
				okV, whyV, seen := perr == nil, "", 0
				for _, pa := range paths {
					failed := pa.Has(false, func(a string) bool { return strings.HasPrefix(a, "assert<") && strings.HasSuffix(a, ">("+on+")#1") })
					if !failed {
						continue
					}
					seen++
					nilV := val(pa, -1, func(a string) bool { return a == "("+on+" == nil)" })
					rt, isR := pa.End.(*ssa.Return)
					errEnd := isR && engine.ReturnsFreshError(rt)
					otherClash := false
					for _, o2 := range []*ssa.Parameter{m.Params[2], m.Params[3]} {
						if o2 != opnd && pa.Has(false, func(a string) bool { return strings.HasPrefix(a, "assert<") && strings.HasSuffix(a, ">("+E(o2)+")#1") }) &&
							val(pa, -1, func(a string) bool { return a == "("+E(o2)+" == nil)" }) == -1 {
							otherClash = true
						}
					}
					switch {
					case nilV == -1 && !errEnd:
						okV, whyV = false, "a "+on+" of the wrong type (assertion failed, operand not nil) does not lead to the type-clash error"
					case nilV == 1 && errEnd && !otherClash:
						okV, whyV = false, "an absent (nil) "+on+" is reported as a type clash: every field that only the other sides have fails the merge"
					case nilV == 0 && !errEnd:
						okV, whyV = false, "after the assertion on "+on+" failed the operand is not tested for nil and no error follows: a value of the wrong type is silently treated as absent"
					}
				}
				if seen == 0 {
					okV, whyV = false, "no path on which the type assertion of "+on+" fails"
				}
				r.Check(rule, FK(m)+"[clash⇔failed∧non-nil:"+on+"]", p.Pos(m.Pos()), okV, "clash error exactly for failed ∧ non-nil", whyV)
			}
		}
		r.Check(rule, FK(m)+"[clash-guards-on-operand]", p.Pos(m.Pos()), good >= 4, sf("%d operand nil tests guard the clash errors", good), sf("only %d of the 4 type-clash guards test the operand (lastApplied/desired): a desired value of the wrong type is dropped without error", good))
	}
	if n == 0 {
		r.Check(rule, "module[no-vacuous-assert-guards]", "-", true, "no vacuous assertion guard anywhere in the module", "")
	}
}

func r05_3(r *Report, p *Program) {
	const rule = "R05.3"
	r.Rule(rule, "unchecked assertions are covered by list-map detection")
	r.Floor(rule, 3)
	g := p.CG()
	in := map[*ssa.Function][]*ssa.Function{}
	for f, outs := range g.Out {
		for _, t := range outs {
			in[t] = append(in[t], f)
		}
	}
	unchecked := map[*ssa.Function]bool{}
	for _, f := range p.Scanned {
		if !strings.HasPrefix(FK(f), "metacontroller/pkg/dynamic/apply.") {
			continue
		}
		for _, b := range engine.BlocksInl(f) {
			for _, ins := range b.Instrs {
				if ta, ok := ins.(*ssa.TypeAssert); ok && !ta.CommaOk {
					unchecked[f] = true
				}
			}
		}
	}
	ma := fn(r, p, rule, "dynamic/apply.mergeArray")
	for f := range unchecked {
		ok, why := true, ""
		for _, c := range in[f] {
			if unchecked[c] || c == f {
				continue
			}
			if c != ma {
				ok, why = false, "called from "+Short(FK(c))+", outside the list-map detection"
				continue
			}
			for _, cs := range callsTo(c, false, methodOf(FK(f))) {
				w := unguarded(c, nil, cs.Instr.(ssa.Instruction), func(l Lit) bool {
					return !l.Pos && strings.HasPrefix(l.Atom, "(call(dynamic/apply.detectListMapKey)(") && strings.HasSuffix(l.Atom, ` == "")`)
				})
				if w != nil {
					ok, why = false, "reachable without a detected merge key"
				}
			}
		}
		r.Check(rule, FK(f)+"[unchecked-assert-covered]", p.Pos(f.Pos()), ok, "only reachable behind detectListMapKey(...) != \"\"", "a function with unchecked item.(map[string]interface{}) is "+why+": it panics on a list that is not a list of objects")
	}
	if ma != nil {
		ok := false
		var det, ml *ssa.Call
		for _, cs := range callsTo(ma, false, "apply.detectListMapKey") {
			det = cs.Instr.(*ssa.Call)
		}
		for _, cs := range callsTo(ma, false, "apply.mergeListMap") {
			ml = cs.Instr.(*ssa.Call)
		}
		if det != nil && ml != nil {
			// detect(lists...) gets exactly p1,p2,p3; mergeListMap gets the same three
			lists := map[string]bool{}
			engine.BackSlice(det.Common().Args[0], func(x ssa.Value) bool {
				if pr, isP := x.(*ssa.Parameter); isP {
					lists[E(pr)] = true
				}
				return false
			}, nil)
			a := ml.Common().Args
			ok = lists["p1"] && lists["p2"] && lists["p3"] && len(lists) == 3 && E(a[2]) == "p1" && E(a[3]) == "p2" && E(a[4]) == "p3" && E(a[1]) == "call(dynamic/apply.detectListMapKey)(slice(new<[3][]interface{}>))"
		}
		r.Check(rule, FK(ma)+"[same-three-lists]", p.Pos(ma.Pos()), ok, "the lists checked are the lists merged, with the detected key", "detectListMapKey is not applied to exactly the three lists that are then merged with the key it returned")
	}
}

func r05_4(r *Report, p *Program) {
	const rule = "R05.4"
	r.Rule(rule, "ApplyUpdate pipeline order and operands")
	r.Floor(rule, 5)
	f := fn(r, p, rule, "controller/common.ApplyUpdate")
	if f == nil {
		return
	}
	one := func(suf string, pred func(cs engine.CallSite) bool) *engine.CallSite {
		var out []engine.CallSite
		for _, cs := range callsTo(f, false, suf) {
			if pred == nil || pred(cs) {
				out = append(out, cs)
			}
		}
		if len(out) != 1 {
			return nil
		}
		return &out[0]
	}
	gl := one("apply.GetLastApplied", nil)
	nu := one("common.nullifyLastAppliedAnnotation", nil)
	mg := one("apply.Merge", nil)
	rm := one("common.revertObjectMetaSystemFields", nil)
	rs := one("common.revertField", func(cs engine.CallSite) bool {
		return engine.BackSlice(cs.Common().Args[2], func(x ssa.Value) bool { s, ok := constStr(x); return ok && s == "status" }, nil)
	})
	sl := one("apply.SetLastApplied", nil)
	steps := []*engine.CallSite{gl, nu, mg, rm, rs, sl}
	names := []string{"GetLastApplied", "nullifyLastAppliedAnnotation", "Merge", "revertObjectMetaSystemFields", "revertField(status)", "SetLastApplied"}
	for i, s := range steps {
		if s == nil {
			r.Check(rule, FK(f)+"[pipeline]", p.Pos(f.Pos()), false, "", "step "+names[i]+" is missing (or duplicated)")
			return
		}
	}
	ok, why := true, ""
	for i := 1; i < len(steps); i++ {
		if bypass(f, steps[i].Instr.(ssa.Instruction), func(in ssa.Instruction) bool { return in == steps[i-1].Instr.(ssa.Instruction) }) != nil {
			ok, why = false, names[i]+" can run without "+names[i-1]+" before it"
		}
	}
	// success return passes all
	for _, b := range engine.BlocksInl(f) {
		for _, in := range b.Instrs {
			if rt, isR := in.(*ssa.Return); isR && engine.ReturnsNilError(rt) {
				if bypass(f, rt, func(x ssa.Instruction) bool { return x == sl.Instr.(ssa.Instruction) }) != nil {
					ok, why = false, "a success return skips SetLastApplied"
				}
			}
		}
	}
	r.Check(rule, FK(f)+"[order]", p.Pos(f.Pos()), ok, strings.Join(names, " → "), why)
	r05_4b(r, p, rule)
	// operands
	upd := nu.Common().Args[0]
	okO, whyO := true, ""
	chk := func(cond bool, msg string) {
		if !cond && okO {
			okO, whyO = false, msg
		}
	}
	chk(E(gl.Common().Args[0]) == "p0", "last-applied state is not read from the observed object")
	chk(E(upd) == "p1" || E(upd) == "call(unstructured.Unstructured.DeepCopy)(p1)", "the own annotation is stripped from "+E(upd)+", not from the desired object given (or a copy of it)")
	ma := mg.Common().Args
	chk(E(ma[0]) == "call(unstructured.Unstructured.UnstructuredContent)(p0)", "Merge's observed is "+E(ma[0]))
	chk(engine.SameValue(ma[1], engine.ResultValue(gl.Instr, 0)), "Merge's lastApplied is not GetLastApplied(orig)")
	chk(E(ma[2]) == "call(unstructured.Unstructured.UnstructuredContent)("+E(upd)+")", "Merge's desired ("+E(ma[2])+") is not the content of the object whose annotation was stripped")
	sa := sl.Common().Args
	chk(E(sa[1]) == "call(unstructured.Unstructured.UnstructuredContent)("+E(upd)+")", "the last-applied record ("+E(sa[1])+") is not the content of the very object that was stripped and merged: the record would contain the previous record / differ from what was applied")
	chk(engine.BackSlice(sa[0], func(x ssa.Value) bool { return x == engine.ResultValue(mg.Instr, 0) }, nil) || strings.Contains(E(sa[0]), "new<unstructured.Unstructured>"), "the record is not set on the merge result")
	for _, cs := range []*engine.CallSite{rm, rs} {
		chk(E(cs.Common().Args[1]) == "p0", "system fields / status are not reverted to the observed object's")
	}
	r.Check(rule, FK(f)+"[operands]", p.Pos(f.Pos()), okO, "one desired object is stripped, merged and recorded; reverts take the observed values", whyO)
	// system field list
	want := []string{"uid", "resourceVersion", "generation", "creationTimestamp", "deletionTimestamp", "deletionGracePeriodSeconds", "selfLink"}
	got := map[string]bool{}
	for _, pk := range p.Pkgs {
		if pk.PkgPath != "metacontroller/pkg/controller/common" {
			continue
		}
		if ini := p.Prog.Package(pk.Types).Func("init"); ini != nil {
			for _, b := range engine.BlocksInl(ini) {
				for _, in := range b.Instrs {
					if st, isS := in.(*ssa.Store); isS && E(st.Addr) == "global(controller/common.objectMetaSystemFields)" {
						engine.BackSlice(st.Val, func(x ssa.Value) bool {
							if s, isC := constStr(x); isC {
								got[s] = true
							}
							return false
						}, nil)
					}
				}
			}
		}
	}
	var missing []string
	for _, w := range want {
		if !got[w] {
			missing = append(missing, w)
		}
	}
	r.Check(rule, "controller/common.objectMetaSystemFields", "-", len(missing) == 0, sf("reverted system fields: %v", sortedSet(got)), sf("system metadata fields not reverted: %v", missing))
	if rf := fn(r, p, rule, "controller/common.revertObjectMetaSystemFields"); rf != nil {
		ok := len(engine.LoopOver(rf, func(x string) bool { return x == "global(controller/common.objectMetaSystemFields)" })) == 1
		for _, l := range engine.RangeLoops(rf) {
			for _, b := range l.BodyBlocks() {
				for _, in := range b.Instrs {
					if rt, isR := in.(*ssa.Return); isR && !isErrReturn(rt) {
						ok = false
					}
				}
			}
		}
		r.Check(rule, FK(rf), p.Pos(rf.Pos()), ok, "every listed field is reverted", "not every system field is reverted")
	}
}

// r05_4b: the two helpers of the pipeline do exactly what their step stands for.
func r05_4b(r *Report, p *Program, rule string) {
	// revertField: observed has the field ⇒ set it on the merge result; else ⇒ remove it there
	if rf := fn(r, p, rule, "controller/common.revertField"); rf != nil {
		look := callsTo(rf, false, "unstructured.NestedFieldNoCopy", "unstructured.NestedFieldCopy")
		set := callsTo(rf, false, "unstructured.SetNestedField")
		rem := callsTo(rf, false, "unstructured.RemoveNestedField")
		ok, why := len(look) == 1 && len(set) == 1 && len(rem) == 1, "expected one lookup in the observed object, one SetNestedField and one RemoveNestedField on the merge result"
		if ok {
			found := engine.ResultValue(look[0].Instr, 1)
			isFound := func(pos bool) func(l Lit) bool {
				return func(l Lit) bool { return l.Pos == pos && engine.SameValue(l.Cond, found) }
			}
			switch {
			case !strings.Contains(E(look[0].Common().Args[0]), "(p1)"):
				ok, why = false, "the field is not looked up in the observed object (p1)"
			case !strings.Contains(E(set[0].Common().Args[0]), "(p0)") || !strings.Contains(E(rem[0].Common().Args[0]), "(p0)"):
				ok, why = false, "set/remove do not act on the merge result (p0)"
			case !engine.SameValue(set[0].Common().Args[1], engine.ResultValue(look[0].Instr, 0)):
				ok, why = false, "the value set is not the observed value"
			case unguarded(rf, nil, set[0].Instr.(ssa.Instruction), isFound(true)) != nil:
				ok, why = false, "SetNestedField reachable although the observed object lacks the field"
			case unguarded(rf, nil, rem[0].Instr.(ssa.Instruction), isFound(false)) != nil:
				ok, why = false, "RemoveNestedField reachable although the observed object has the field"
			default:
				// every success return has passed one of them
				for _, b := range engine.BlocksInl(rf) {
					for _, in := range b.Instrs {
						if rt, isR := in.(*ssa.Return); isR && engine.ReturnsNilError(rt) {
							if bypass(rf, rt, func(x ssa.Instruction) bool {
								return x == set[0].Instr.(ssa.Instruction) || x == rem[0].Instr.(ssa.Instruction)
							}) != nil {
								ok, why = false, "a success return neither restores nor removes the field: a field absent from the observed object (e.g. no .status yet) would keep the desired value and differ forever"
							}
						}
					}
				}
			}
		}
		r.Check(rule, FK(rf)+"[present⇒restore, absent⇒remove]", p.Pos(rf.Pos()), ok, "observed has field ⇒ SetNestedField(result, observed value); else RemoveNestedField(result)", why)
	}
	// nullifyLastAppliedAnnotation: the object's annotations stay the same map, minus the one key
	if nf := fn(r, p, rule, "controller/common.nullifyLastAppliedAnnotation"); nf != nil {
		sets := callsTo(nf, false, "Unstructured.SetAnnotations")
		ok, why := len(sets) >= 1, "no SetAnnotations"
		for _, cs := range sets {
			arg := cs.Arg(0)
			if !engine.MustSlice(arg, func(x ssa.Value) bool {
				c, isC := x.(*ssa.Call)
				return isC && strings.HasSuffix(engine.CallKey(c.Common()), "Unstructured.GetAnnotations") && E(c.Common().Args[0]) == "p0"
			}, nil) {
				ok, why = false, "SetAnnotations is given "+E(arg)+", which is not on every path the object's own annotation map: stripping the bookkeeping key must not otherwise change the desired object (a nil/other map removes metadata.annotations from desired, and the merge then deletes annotations set by others)"
			}
		}
		// only the bookkeeping key is deleted, nothing is stored
		for _, b := range engine.BlocksInl(nf) {
			for _, in := range b.Instrs {
				switch x := in.(type) {
				case *ssa.MapUpdate:
					ok, why = false, "stores into a map at "+p.InstrPos(in)
				case *ssa.Call:
					if engine.CallKey(x.Common()) == "builtin.delete" && !strings.Contains(E(x.Common().Args[1]), "last-applied") && !strings.Contains(E(x.Common().Args[1]), "LastApplied") {
						ok, why = false, "deletes key "+E(x.Common().Args[1])
					}
				}
			}
		}
		r.Check(rule, FK(nf)+"[strip-footprint]", p.Pos(nf.Pos()), ok, "annotations := own map minus the last-applied key", why)
	}
}

func r05_5(r *Report, p *Program) {
	const rule = "R05.5"
	r.Rule(rule, "loop shapes of mergeObject and of the patch helpers")
	r.Floor(rule, 3)
	if f := fn(r, p, rule, "dynamic/apply.mergeObject"); f != nil {
		var delLoop, setLoop *engine.RangeLoop
		for _, l := range engine.RangeLoops(f) {
			switch E(l.X) {
			case "p2":
				delLoop = l
			case "p3":
				setLoop = l
			}
		}
		ok, why := delLoop != nil && setLoop != nil, "mergeObject must loop over lastApplied (removals) and over desired (overlay)"
		if ok {
			// removal: delete(destination,key) exactly on key ∉ desired
			paths, err := engine.EnumPaths(f, engine.EnumOpts{Start: delLoop.Body, Leave: func(b *ssa.BasicBlock) bool { return b == delLoop.Header || b == delLoop.Exit },
				Effect: func(in ssa.Instruction) bool { return isCallTo(in, "builtin.delete") }})
			if err != nil {
				ok, why = false, err.Error()
			}
			for _, pa := range paths {
				present := val(pa, -1, func(a string) bool { return strings.HasPrefix(a, "p3[") && strings.HasSuffix(a, "#1") })
				if (present == -1) != (len(pa.Effects) == 1) || present == 0 {
					ok, why = false, "a last-applied key is deleted on ["+pa.Cond()+"]; want exactly when absent from desired"
				}
				for _, e := range pa.Effects {
					c := e.(*ssa.Call)
					if E(c.Common().Args[0]) != "p1" || !engine.SameValue(c.Common().Args[1], delLoop.Key) {
						ok, why = false, "deletes "+E(c.Common().Args[0])+"["+E(c.Common().Args[1])+"], not destination[key]"
					}
				}
			}
			// overlay: every non-error iteration assigns destination[key]
			w := engine.Query{Fn: f, From: []engine.Point{{B: setLoop.Body}},
				Target: func(in ssa.Instruction) bool { return in.Block() == setLoop.Header },
				CutInstr: func(in ssa.Instruction) bool {
					mu, isMU := in.(*ssa.MapUpdate)
					return isMU && E(mu.Map) == "p1" && engine.SameValue(mu.Key, setLoop.Key) && strings.HasPrefix(E(mu.Value), "call(dynamic/apply.merge)(")
				}}.Find()
			if w != nil {
				ok, why = false, "an iteration over desired can end without assigning destination[key] = merge(...): a desired field whose value equals the last-applied one would not be written over a drifted observed value; "+pathWhy(w)
			}
			// the recursive merge gets (destination[key], lastApplied[key], desired value)
			for _, cs := range callsTo(f, false, "apply.merge") {
				a := cs.Common().Args
				if !(strings.HasPrefix(E(a[1]), "p1[") && strings.HasPrefix(E(a[2]), "p2[") && engine.SameValue(a[3], setLoop.Val)) {
					ok, why = false, "recursive merge is given ("+E(a[1])+", "+E(a[2])+", "+E(a[3])+")"
				}
			}
		}
		r.Check(rule, FK(f), p.Pos(f.Pos()), ok, "remove ⇔ in last-applied ∧ not desired; every desired key assigned", why)
	}
	for _, key := range []string{"controller/composite.applyPatch", "controller/composite.makePatch"} {
		if f := fn(r, p, rule, key); f != nil {
			ok, why := true, ""
			loops := engine.RangeLoops(f)
			if len(loops) != 1 || E(loops[0].X) != sf("p%d", len(f.Params)-1) {
				ok, why = false, "does not loop over all field paths"
			} else {
				for _, b := range loops[0].BodyBlocks() {
					for _, in := range b.Instrs {
						if rt, isR := in.(*ssa.Return); isR && !isErrReturn(rt) {
							ok, why = false, "returns successfully from inside the loop over field paths (at "+p.InstrPos(in)+"): the remaining field paths are not applied, so an old revision's parent is not fully restored"
						}
					}
				}
			}
			r.Check(rule, FK(f), p.Pos(f.Pos()), ok, "every field path is visited", why)
		}
	}
}

// detectsDuplicates: fn scans lists with a local "seen" set — a map made in fn is looked up with a key, a hit
// leads straight to a return of false, and the key is stored afterwards.
func detectsDuplicates(fn *ssa.Function) bool {
	if fn == nil || len(fn.Blocks) == 0 {
		return false
	}
	// shape 2: a local set is filled per item and its size compared with the number of items; unequal ⇒ false
	for _, b := range fn.Blocks {
		for i := range b.Succs {
			l, has := engine.EdgeLit(b, i)
			if !has || l.Op != token.EQL || l.X == nil || l.Y == nil || l.Pos {
				continue
			}
			isSetLen := func(v ssa.Value) bool {
				c, isC := v.(*ssa.Call)
				if !isC || engine.CallKey(c.Common()) != "builtin.len" || len(c.Common().Args) != 1 {
					return false
				}
				mk, isMk := engine.ResolveLocal(c.Common().Args[0]).(*ssa.MakeMap)
				if !isMk || mk.Referrers() == nil {
					return false
				}
				for _, u := range *mk.Referrers() {
					if _, isMU := u.(*ssa.MapUpdate); isMU {
						return true
					}
				}
				return false
			}
			isLen := func(v ssa.Value) bool {
				c, isC := v.(*ssa.Call)
				return isC && engine.CallKey(c.Common()) == "builtin.len"
			}
			if !(isSetLen(l.X) && isLen(l.Y) || isSetLen(l.Y) && isLen(l.X)) {
				continue
			}
			// the 'sizes differ' edge runs straight into 'return false'
			w := engine.Query{Fn: fn, From: []engine.Point{{B: b.Succs[i]}}, CutEdge: func(_ *ssa.BasicBlock, _ int, x *Lit) bool { return x != nil },
				Target: func(x ssa.Instruction) bool {
					rt, isR := x.(*ssa.Return)
					if !isR || len(rt.Results) == 0 {
						return false
					}
					c, isC := engine.RetVal(rt, 0).(*ssa.Const)
					return isC && c.Value != nil && c.Value.String() == "false"
				}}.Find()
			if w != nil {
				return true
			}
		}
	}
	for _, b := range fn.Blocks {
		for _, in := range b.Instrs {
			lk, isL := in.(*ssa.Lookup)
			if !isL {
				continue
			}
			if _, local := engine.ResolveLocal(lk.X).(*ssa.MakeMap); !local {
				continue
			}
			stored := false
			if refs := engine.ResolveLocal(lk.X).Referrers(); refs != nil {
				for _, u := range *refs {
					if mu, isMU := u.(*ssa.MapUpdate); isMU && engine.SameValue(mu.Key, lk.Index) {
						stored = true
					}
				}
			}
			if !stored {
				continue
			}
			// a hit (lookup result true) runs straight into 'return false'
			for _, bb := range fn.Blocks {
				for i := range bb.Succs {
					l, has := engine.EdgeLit(bb, i)
					if !has || !l.Pos {
						continue
					}
					if !(l.Cond == ssa.Value(lk) || engine.SameValue(l.Cond, lk)) {
						if ex, isEx := l.Cond.(*ssa.Extract); !isEx || ex.Tuple != ssa.Value(lk) {
							continue
						}
					}
					w := engine.Query{Fn: fn, From: []engine.Point{{B: bb.Succs[i]}}, CutEdge: func(*ssa.BasicBlock, int, *Lit) bool { return false },
						Target: func(x ssa.Instruction) bool {
							rt, isR := x.(*ssa.Return)
							if !isR || len(rt.Results) == 0 {
								return false
							}
							c, isC := engine.RetVal(rt, 0).(*ssa.Const)
							return isC && c.Value != nil && (c.Value.String() == "false" || c.Value.String() == `""`)
						}}.Find()
					if w != nil {
						return true
					}
				}
			}
		}
	}
	return false
}

// r05_7: a list is folded into a map by a guessed merge key only when that key identifies the items.
func r05_7(r *Report, p *Program) {
	const rule = "R05.7"
	r.Rule(rule, "detectListMapKey hands out a merge key only after a duplicate scan of every list for that key (makeListMap overwrites silently: with a non-unique key a desired entry is dropped)")
	r.Floor(rule, 1)
	f := fn(r, p, rule, "dynamic/apply.detectListMapKey")
	if f == nil {
		return
	}
	ok, why := true, ""
	n := 0
	for _, b := range f.Blocks {
		rt, isR := b.Instrs[len(b.Instrs)-1].(*ssa.Return)
		if !isR || len(rt.Results) != 1 {
			continue
		}
		if c, isC := engine.RetVal(rt, 0).(*ssa.Const); isC && c.Value != nil && c.Value.String() == `""` {
			continue
		}
		n++
		key := engine.RetVal(rt, 0)
		inline := detectsDuplicates(f)
		w := unguarded(f, nil, rt, func(l Lit) bool {
			c, isC := l.Cond.(*ssa.Call)
			if !isC || !l.Pos {
				return false
			}
			g := engine.StaticFn(c.Common())
			if g == nil || !detectsDuplicates(g) {
				return false
			}
			hasKey, hasLists := false, false
			for _, a := range c.Common().Args {
				if engine.SameValue(a, key) {
					hasKey = true
				}
				if engine.SameValue(a, f.Params[0]) || strings.HasPrefix(E(a), "p0") {
					hasLists = true
				}
			}
			return hasKey && hasLists
		})
		if w != nil && !inline {
			ok, why = false, "a merge key is handed out ("+E(key)+") without checking that its values are unique within each list: makeListMap keeps one item per key value, so of two desired entries with the same value (e.g. port 53 for TCP and UDP) one is silently dropped"
		}
	}
	if n == 0 {
		ok, why = false, "detectListMapKey never returns a key"
	}
	r.Check(rule, FK(f), p.Pos(f.Pos()), ok, "key handed out only after a duplicate scan", why)
	// and the fold itself overwrites: confirm the premise so that the rule is not vacuous
	if m := fn(r, p, rule, "dynamic/apply.makeListMap"); m != nil {
		over := false
		for _, b := range m.Blocks {
			for _, in := range b.Instrs {
				if _, isMU := in.(*ssa.MapUpdate); isMU {
					over = true
				}
			}
		}
		r.Check(rule, FK(m)+"[premise]", p.Pos(m.Pos()), over, "makeListMap stores by key (so uniqueness is what keeps entries apart)", "makeListMap no longer stores items by merge key: the premise of R05.7 changed, re-read")
	}
}

// r05_9: merge() delegates — an object destination is merged by mergeObject, an array destination by mergeArray;
// neither branch has a success return of its own (a shortcut there skips the removal of no-longer-desired keys
// and the application of desired ones).
func r05_9(r *Report, p *Program) {
	const rule = "R05.9"
	r.Rule(rule, "merge: every return that reports success is the result of mergeObject (object destination) or mergeArray (array destination), or lies in the scalar branch (both type tests failed)")
	r.Floor(rule, 1)
	m := fn(r, p, rule, "dynamic/apply.merge")
	if m == nil {
		return
	}
	ok, why := true, ""
	n := 0
	destAssert := func(l Lit) bool {
		return strings.HasPrefix(l.Atom, "assert<") && strings.HasSuffix(l.Atom, ">(p1)#1") || strings.HasPrefix(l.Atom, "typeswitch") && strings.Contains(l.Atom, "p1")
	}
	for _, b := range m.Blocks {
		rt, isR := b.Instrs[len(b.Instrs)-1].(*ssa.Return)
		if !isR || len(rt.Results) != 2 {
			continue
		}
		n++
		if engine.ReturnsFreshError(rt) {
			continue
		}
		v := engine.RetVal(rt, 0)
		if ex, isEx := v.(*ssa.Extract); isEx {
			if c, isC := ex.Tuple.(*ssa.Call); isC && (isCallTo(c, "apply.mergeObject") || isCallTo(c, "apply.mergeArray")) {
				continue
			}
		}
		// otherwise it must be in the scalar branch: reachable only with every destination type test failed
		if w := (engine.Query{Fn: m, Target: func(x ssa.Instruction) bool { return x == ssa.Instruction(rt) },
			CutEdge: func(bb *ssa.BasicBlock, i int, l *Lit) bool { return l != nil && !l.Pos && destAssert(*l) }}).Find(); w != nil {
			// reachable without crossing a failed destination type test; is it reachable across a SUCCESSFUL one?
			if w2 := unguarded(m, nil, rt, func(l Lit) bool { return !l.Pos && destAssert(l) }); w2 != nil {
				ok, why = false, "merge returns "+E(v)+" from a branch in which the destination is an object or an array, without going through mergeObject/mergeArray: keys that are no longer desired are not removed there (and desired ones not applied)"
			}
		}
	}
	if n < 3 {
		ok, why = false, "merge has fewer returns than its three branches need"
	}
	r.Check(rule, FK(m), p.Pos(m.Pos()), ok, "object ⇒ mergeObject, array ⇒ mergeArray, scalar ⇒ desired", why)
}

// r05_10: SetLastApplied records the annotation by REPLACING the annotations map (SetAnnotations of a copy or a
// fresh map). The merge result shares sub-trees with the desired object wherever the observed object had none:
// an in-place nested write would land in the caller's desired object.
func r05_10(r *Report, p *Program) {
	const rule = "R05.10"
	r.Rule(rule, "SetLastApplied edits its object only through SetAnnotations(copy-or-fresh map)")
	r.Floor(rule, 1)
	f := fn(r, p, rule, "dynamic/apply.SetLastApplied")
	if f == nil || len(f.Params) == 0 {
		return
	}
	ok, why := true, ""
	nSet := 0
	for _, m := range engine.LocalMutations(f, f.Params[0]) {
		if m.What == "SetAnnotations" || m.What == "SetNestedStringMap[metadata.annotations]" || m.What == "SetNestedField[metadata.annotations]" || m.What == "SetNestedMap[metadata.annotations]" {
			nSet++ // the annotations map is replaced as a whole
			continue
		}
		ok, why = false, "SetLastApplied edits the object through "+m.What+" ("+p.InstrPos(m.Instr)+"): a nested write in place can land in a sub-tree the merge result shares with the caller's desired object (observed child without annotations)"
	}
	if nSet == 0 && ok {
		ok, why = false, "SetLastApplied no longer replaces the annotations map"
	}
	for _, cs := range callsTo(f, false, "Unstructured.SetAnnotations") {
		a := cs.Common().Args[1]
		fresh := engine.BackSlice(a, func(x ssa.Value) bool {
			if _, isMk := x.(*ssa.MakeMap); isMk {
				return true
			}
			c, isC := x.(*ssa.Call)
			return isC && strings.HasSuffix(engine.CallKey(c.Common()), "Unstructured.GetAnnotations")
		}, nil)
		if !fresh {
			ok, why = false, "the map given to SetAnnotations is "+E(a)+", not a copy (GetAnnotations) or a fresh map"
		}
	}
	r.Check(rule, FK(f), p.Pos(f.Pos()), ok, "annotation recorded by replacing the annotations map", why)
}
