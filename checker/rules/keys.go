package rules

import (
	"go/token"
	"go/types"
	"regexp"
	"sort"
	"strconv"
	"strings"

	"golang.org/x/tools/go/ssa"

	"mcvet/engine"
)

// keyComponents decomposes a key value into the leaves it is assembled from by
// injective carriers only: fmt.Sprint*/string concatenation/strings.Join of the
// leaves, struct literals (field by field), String() of a struct literal. A leaf
// that is itself a projection of something (a field of a parsed value, a getter)
// is rendered as that projection — so a parameter counts as 'in the key' only
// when it is carried whole.
func keyComponents(v ssa.Value) []string { return keyComponentsD(v, 0) }

var paramTok = regexp.MustCompile(`\bp(\d+)\b`)

func keyComponentsD(v ssa.Value, depth int) []string {
	set := map[string]bool{}
	seen := map[ssa.Value]bool{}
	var rec func(v ssa.Value, d int)
	fields := func(a *ssa.Alloc, d int) bool {
		any := false
		if refs := a.Referrers(); refs != nil {
			for _, u := range *refs {
				switch fa := u.(type) {
				case *ssa.FieldAddr:
					for _, st := range engine.Stores(fa) {
						any = true
						rec(st.Val, d+1)
					}
				case *ssa.IndexAddr:
					for _, st := range engine.Stores(fa) {
						any = true
						rec(st.Val, d+1)
					}
				}
			}
		}
		return any
	}
	rec = func(v ssa.Value, d int) {
		if v == nil || d > 12 || seen[v] {
			return
		}
		seen[v] = true
		switch x := v.(type) {
		case *ssa.Const:
			return
		case *ssa.Phi:
			for _, e := range x.Edges {
				rec(e, d+1)
			}
			return
		case *ssa.MakeInterface:
			rec(x.X, d+1)
			return
		case *ssa.ChangeType:
			rec(x.X, d+1)
			return
		case *ssa.Convert:
			rec(x.X, d+1)
			return
		case *ssa.BinOp:
			if x.Op == token.ADD {
				rec(x.X, d+1)
				rec(x.Y, d+1)
				return
			}
		case *ssa.Slice:
			rec(x.X, d+1)
			return
		case *ssa.Alloc:
			if fields(x, d) {
				return
			}
		case *ssa.UnOp:
			if x.Op == token.MUL {
				if a, ok := x.X.(*ssa.Alloc); ok {
					if sts := engine.Stores(a); len(sts) > 0 {
						for _, st := range sts {
							rec(st.Val, d+1)
						}
						return
					}
					if fields(a, d) {
						return
					}
				}
			}
		case *ssa.Call:
			k := engine.CallKey(x.Common())
			switch {
			case k == "fmt.Sprintf" || k == "fmt.Sprint" || k == "fmt.Sprintln" || k == "strings.Join" || k == "path.Join":
				for _, a := range x.Common().Args {
					rec(a, d+1)
				}
				return
			case depth < 2 && strings.HasPrefix(k, engine.ModPrefix) && engine.StaticFn(x.Common()) != nil && len(engine.StaticFn(x.Common()).Blocks) > 0 && isStringT(x.Type()):
				// a module helper that formats part of the key: its components, with its
				// parameters replaced by the actual arguments
				g := engine.StaticFn(x.Common())
				args := x.Common().Args
				for _, b := range engine.BlocksInl(g) {
					for _, in := range b.Instrs {
						if rt, ok := in.(*ssa.Return); ok && len(rt.Results) > 0 {
							for _, c := range keyComponentsD(engine.RetVal(rt, 0), depth+1) {
								set[paramTok.ReplaceAllStringFunc(c, func(m string) string {
									i, _ := strconv.Atoi(m[1:])
									if i < len(args) {
										return E(args[i])
									}
									return m
								})] = true
							}
						}
					}
				}
				return
			case strings.HasSuffix(k, ".String") && len(x.Common().Args) == 1:
				// String() of a locally built struct literal: its fields
				arg := x.Common().Args[0]
				if u, ok := arg.(*ssa.UnOp); ok && u.Op == token.MUL {
					arg = u.X
				}
				if a, ok := arg.(*ssa.Alloc); ok && fields(a, d) {
					return
				}
			}
		}
		set[E(v)] = true
	}
	rec(v, 0)
	return sortedSet(set)
}

// keyTable: the key constructors of the caches and maps this code base keeps,
// with the components each key must be assembled from (confirmed by reading).
// A parameter (pN) must be carried whole; a field (.F) is matched by suffix, a getter (G)(p…) by containment.
var keyTable = []struct {
	fn   string
	need []string
	why  string
}{
	{"dynamic/informer.resourceKey", []string{"p0", "p1"}, "shared informers are per resource AND api version: objects of another version have another apiVersion/shape, and users index what they list by the object's own GVK"},
	{"controller/common.lastUpdateCacheKey", []string{".Group", ".Kind|GetKind)(p", "GetNamespace)(p", "GetName)(p"}, "the server-side-apply memo is per child object: group, kind, namespace, name"},
	{"controller/decorator.updateStrategyMapKey", []string{"p0", "p1"}, "strategy per (group, kind)"},
	{"controller/decorator.selectorMapKey", []string{"p0", "p1"}, "selector per (group, kind)"},
	{"controller/composite.claimMapKey", []string{"p0", "p1"}, "claims per (group, kind)"},
	{"hooks.webhookExecutorEtag.getKeyFromObject", []string{"GetKind)(p", "GetNamespace)(p", "GetName)(p"}, "ETag cache entry per root object"},
}

// keyCompleteness (shared: C17/C14/C03 informer key, C01 memo key, C06 strategy
// key, C19 etag key): a key that drops one of its identifying components makes
// two different things share one cache entry.
func keyCompleteness(r *Report, p *Program, rule string, only ...string) {
	r.Rule(rule, "cache/map keys are assembled (by injective carriers only) from all their identifying components")
	n := 0
	for _, row := range keyTable {
		if len(only) > 0 {
			hit := false
			for _, o := range only {
				hit = hit || strings.HasSuffix(row.fn, o)
			}
			if !hit {
				continue
			}
		}
		n++
		f := fn(r, p, rule, row.fn)
		if f == nil {
			continue
		}
		comps := map[string]bool{}
		for _, b := range engine.BlocksInl(f) {
			for _, in := range b.Instrs {
				if rt, ok := in.(*ssa.Return); ok && len(rt.Results) > 0 {
					for _, c := range keyComponents(engine.RetVal(rt, 0)) {
						comps[c] = true
					}
				}
			}
		}
		var missing []string
		for _, need := range row.need {
			found := false
			for c := range comps {
				for _, alt := range strings.Split(need, "|") {
					switch {
					case c == alt:
						found = true
					case strings.HasPrefix(alt, ".") && strings.HasSuffix(c, alt):
						found = true
					case strings.Contains(alt, ")(") && strings.Contains(c, alt):
						found = true
					}
				}
			}
			if !found {
				missing = append(missing, need)
			}
		}
		sort.Strings(missing)
		r.Check(rule, FK(f)+"[components]", p.Pos(f.Pos()), len(missing) == 0, "key = f("+strings.Join(sortedSet(comps), ", ")+")",
			"the key is assembled from ["+strings.Join(sortedSet(comps), ", ")+"] and does not carry "+strings.Join(missing, ", ")+" whole: "+row.why)
	}
	r.Floor(rule, n)
}

func isStringT(t types.Type) bool {
	b, ok := t.Underlying().(*types.Basic)
	return ok && b.Info()&types.IsString != 0
}
