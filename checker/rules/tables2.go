package rules

import (
	"go/types"
	"strings"

	"golang.org/x/tools/go/ssa"

	"mcvet/engine"
)

// Small two-sided tables for helpers outside the sync-path functions proper (constructors, containers,
// predicates) whose mechanical mutants survive the repository's tests — DESIGN.md 8.10, second pass.

// copyIfFound (C07/C09): makePatch / applyPatch copy a field path ⇔ it was found in the source.
func copyIfFound(r *Report, p *Program, rule string) {
	r.Rule(rule, "makePatch / applyPatch, per field path: the value is written into the target ⇔ NestedFieldNoCopy found it in the source (the written value is the one found)")
	r.Floor(rule, 2)
	for _, key := range []string{"controller/composite.makePatch", "controller/composite.applyPatch"} {
		f := fn(r, p, rule, key)
		if f == nil {
			continue
		}
		loops := engine.RangeLoops(f)
		if len(loops) != 1 {
			r.Check(rule, FK(f), p.Pos(f.Pos()), false, "", "expected one loop over the field paths")
			continue
		}
		l := loops[0]
		paths, err := engine.EnumPaths(f, engine.EnumOpts{Start: l.Body, Leave: func(b *ssa.BasicBlock) bool { return b == l.Header || b == l.Exit },
			Effect: func(in ssa.Instruction) bool { return isCallTo(in, "unstructured.SetNestedField") }})
		ok, why := err == nil, ""
		for _, pa := range paths {
			if pa.EndKind == "return" {
				continue
			}
			found := val(pa, -1, func(a string) bool {
				return strings.HasPrefix(a, "call(unstructured.NestedFieldNoCopy)(") && strings.HasSuffix(a, "#1")
			})
			switch {
			case found == 1 && len(pa.Effects) != 1:
				ok, why = false, "a field that is present in the source is not copied"
			case found != 1 && len(pa.Effects) != 0:
				ok, why = false, "a field that was not found in the source is written (as nil) into the target"
			case found == 0:
				ok, why = false, "a field path is passed over without looking at whether it was found"
			}
			for _, e := range pa.Effects {
				if a := e.(*ssa.Call).Common().Args[1]; !strings.Contains(E(a), "NestedFieldNoCopy)(") {
					ok, why = false, "the value written is "+E(a)+", not the one found"
				}
			}
		}
		r.Check(rule, FK(f), p.Pos(f.Pos()), ok, "copied ⇔ found", why)
	}
}

// anyRollingTable (C07/C09): anyRolling answers true ⇔ some strategy in the map is rolling.
func anyRollingTable(r *Report, p *Program, rule string) {
	r.Rule(rule, "updateStrategyMap.anyRolling: true ⇔ isRollingStrategy holds for some entry; isRolling(group, kind) = isRollingStrategy(get(group, kind))")
	r.Floor(rule, 1)
	f := fn(r, p, rule, "controller/composite.updateStrategyMap.anyRolling")
	if f == nil {
		return
	}
	paths, err := engine.EnumPaths(f, engine.EnumOpts{})
	ok, why := err == nil, ""
	nTrue := 0
	for _, pa := range paths {
		if len(pa.Ret) != 1 {
			continue
		}
		c, isC := pa.Ret[0].(*ssa.Const)
		if !isC || c.Value == nil {
			continue
		}
		rolling := val(pa, -1, func(a string) bool { return strings.HasPrefix(a, "call(controller/composite.isRollingStrategy)(") })
		if c.Value.String() == "true" {
			nTrue++
			if rolling != 1 {
				ok, why = false, "anyRolling answers true without having found a rolling strategy"
			}
		} else if rolling == 1 {
			ok, why = false, "anyRolling answers false although an entry is rolling"
		}
	}
	if nTrue == 0 {
		ok, why = false, "anyRolling can never answer true"
	}
	r.Check(rule, FK(f), p.Pos(f.Pos()), ok, "true ⇔ ∃ rolling entry", why)
}

// containerBuilders (C03/C07): the map constructors insert everything they are given.
func containerBuilders(r *Report, p *Program, rule string) {
	r.Rule(rule, "MakeRelativeObjectMap / MakeUniformObjectMap return a map into which InsertAll(parent, list) put every object of the list, on every path")
	r.Floor(rule, 2)
	for _, key := range []string{"controller/common/api/v1.MakeRelativeObjectMap", "controller/common/api/v2.MakeUniformObjectMap"} {
		f := fn(r, p, rule, key)
		if f == nil {
			continue
		}
		ok, why := false, "the constructor does not insert the objects it is given"
		for _, cs := range callsTo(f, false, "ObjectMap.InsertAll") {
			a := cs.Common().Args
			if len(a) == 3 && a[1] == ssa.Value(f.Params[0]) && a[2] == ssa.Value(f.Params[1]) {
				ci := cs.Instr.(ssa.Instruction)
				if (engine.Query{Fn: f, CutInstr: func(x ssa.Instruction) bool { return x == ci }, Target: func(x ssa.Instruction) bool { _, isR := x.(*ssa.Return); return isR }}).Find() == nil {
					ok = true
					for _, b := range f.Blocks {
						if rt, isR := b.Instrs[len(b.Instrs)-1].(*ssa.Return); isR && !engine.SameValue(engine.RetVal(rt, 0), a[0]) {
							ok, why = false, "the map that is returned is not the one the objects were inserted into"
						}
					}
				}
			}
		}
		r.Check(rule, FK(f), p.Pos(f.Pos()), ok, "InsertAll(parent, list) on the returned map, on every path", why)
	}
}

// relatedNotifyTable (C14/C15): every parent found for a related-object event is enqueued; namespace-scoped
// listing and the selector constructor have the right polarity.
func relatedNotifyTable(r *Report, p *Program, rule string) {
	r.Rule(rule, "customize manager: notifyRelatedParents enqueues whenever findRelatedParents found parents; listObjects lists in the namespace ⇔ one is given; toSelector: nil ⇒ Everything(), else the converted selector; the customize hook is built ⇔ the controller declares one")
	r.Floor(rule, 4)
	pkg := "controller/common/customize."
	if f := fn(r, p, rule, pkg+"Manager.notifyRelatedParents"); f != nil {
		ok, why := true, ""
		finds := callsTo(f, false, ".findRelatedParents")
		var loop *engine.RangeLoop
		for _, l := range engine.RangeLoops(f) {
			if strings.Contains(E(l.X), ".findRelatedParents)(") {
				loop = l
			}
		}
		if len(finds) != 1 || loop == nil {
			ok, why = false, "no loop over what findRelatedParents returned"
		} else {
			// a return before the loop only across len(parents) == 0
			w := engine.Query{Fn: f, From: []engine.Point{engine.After(finds[0].Instr.(ssa.Instruction))}, Target: func(x ssa.Instruction) bool { _, isR := x.(*ssa.Return); return isR },
				CutInstr: func(x ssa.Instruction) bool { return x.Block() == loop.Header },
				CutEdge: func(b *ssa.BasicBlock, i int, l *Lit) bool {
					return l != nil && l.Pos && strings.HasPrefix(l.Atom, "(call(builtin.len)(call(") && strings.Contains(l.Atom, ".findRelatedParents)(") && strings.HasSuffix(l.Atom, " == 0)")
				}}.Find()
			if w != nil {
				ok, why = false, "parents were found for the related object and none is enqueued: the change never wakes them"
			}
		}
		r.Check(rule, FK(f)+"[found⇒enqueued]", p.Pos(f.Pos()), ok, "returns early only when nothing was found", why)
	}
	if f := fn(r, p, rule, pkg+"listObjects"); f != nil {
		ok, why := true, ""
		given := func(l Lit) bool { return l.Atom == "(call(builtin.len)(p1) == 0)" }
		nNs, nAll := 0, 0
		for _, b := range f.Blocks {
			for _, in := range b.Instrs {
				if isCallTo(in, "Lister.Namespace") {
					nNs++
					if unguarded(f, nil, in, func(l Lit) bool { return !l.Pos && given(l) }) != nil {
						ok, why = false, "the namespace-scoped listing is used although no namespace is given"
					}
					if c := in.(ssa.CallInstruction).Common(); len(c.Args) == 0 || c.Args[len(c.Args)-1] != ssa.Value(f.Params[1]) {
						ok, why = false, "the listing is scoped by something other than the namespace parameter"
					}
				}
			}
		}
		for _, b := range f.Blocks {
			if rt, isR := b.Instrs[len(b.Instrs)-1].(*ssa.Return); isR {
				v := E(engine.RetVal(rt, 0))
				if !strings.Contains(v, "Lister.Namespace)(") {
					nAll++
					if unguarded(f, nil, rt, func(l Lit) bool { return l.Pos && given(l) }) != nil {
						ok, why = false, "all namespaces are listed although a namespace is given: objects of other namespaces are related"
					}
				}
			}
		}
		if nNs == 0 || nAll == 0 {
			ok, why = false, "listObjects does not distinguish 'namespace given' from 'all namespaces'"
		}
		r.Check(rule, FK(f), p.Pos(f.Pos()), ok, "namespaced ⇔ namespace given", why)
	}
	if f := fn(r, p, rule, pkg+"toSelector"); f != nil {
		ok, why := true, ""
		for _, b := range f.Blocks {
			rt, isR := b.Instrs[len(b.Instrs)-1].(*ssa.Return)
			if !isR {
				continue
			}
			v := E(engine.RetVal(rt, 0))
			isNilLit := func(pos bool) func(l Lit) bool {
				return func(l Lit) bool { return l.Atom == "(p0 == nil)" && l.Pos == pos }
			}
			switch {
			case strings.Contains(v, "labels.Everything)("):
				if unguarded(f, nil, rt, isNilLit(true)) != nil {
					ok, why = false, "a given label selector is replaced by Everything()"
				}
			case strings.Contains(v, "LabelSelectorAsSelector)(p0)"):
				if unguarded(f, nil, rt, isNilLit(false)) != nil {
					ok, why = false, "a nil selector is converted (selects nothing) instead of selecting everything"
				}
			default:
				ok, why = false, "toSelector returns "+v
			}
		}
		r.Check(rule, FK(f), p.Pos(f.Pos()), ok, "nil ⇒ Everything; else converted", why)
	}
	if f := fn(r, p, rule, pkg+"NewCustomizeManager"); f != nil {
		ok, why := true, ""
		declared := func(pos bool) func(l Lit) bool {
			return func(l Lit) bool {
				v, isNil, isT := l.NilTest()
				return isT && strings.Contains(E(v), "CustomizableController.GetCustomizeHook)(") && isNil != pos
			}
		}
		n := 0
		for _, cs := range callsTo(f, false, "hooks.NewHook") {
			n++
			if unguarded(f, nil, cs.Instr.(ssa.Instruction), declared(true)) != nil {
				ok, why = false, "a customize hook is built although the controller declares none"
			}
			// converse: a declared hook is built before the manager is returned
			ci := cs.Instr.(ssa.Instruction)
			w := engine.Query{Fn: f, Target: func(x ssa.Instruction) bool { rt, isR := x.(*ssa.Return); return isR && !isErrReturn(rt) },
				CutInstr: func(x ssa.Instruction) bool { return x == ci },
				CutEdge:  func(b *ssa.BasicBlock, i int, l *Lit) bool { return l != nil && declared(false)(*l) }}.Find()
			if w != nil {
				ok, why = false, "a declared customize hook is not built: related objects are never fetched for the hook"
			}
		}
		if n != 1 {
			ok, why = false, "expected one hooks.NewHook call"
		}
		r.Check(rule, FK(f), p.Pos(f.Pos()), ok, "hook built ⇔ declared", why)
	}
}

// benignMeansNil (C12/C04): where the release helpers excuse an error (object already gone), the excused outcome
// is success — either predicate alone suffices.
func benignMeansNil(r *Report, p *Program, rule string) {
	r.Rule(rule, "releaseChild / releaseControllerRevision: IsNotFound(err) ⇒ nil and IsGone(err) ⇒ nil (each alone), any other error is returned")
	r.Floor(rule, 2)
	for _, key := range []string{"dynamic/controllerref.UnstructuredManager.releaseChild", "dynamic/controllerref.ControllerRevisionManager.releaseControllerRevision"} {
		f := fn(r, p, rule, key)
		if f == nil {
			continue
		}
		ok, why := true, ""
		n := 0
		for _, b := range f.Blocks {
			for i := range b.Succs {
				l, has := engine.EdgeLit(b, i)
				if !has || !l.Pos || !(strings.HasPrefix(l.Atom, "call(apierrors.IsNotFound)(") || strings.HasPrefix(l.Atom, "call(apierrors.IsGone)(")) {
					continue
				}
				n++
				// from this edge, whatever the other predicate says, every return is nil
				w := engine.Query{Fn: f, From: []engine.Point{{B: b.Succs[i]}}, Target: func(x ssa.Instruction) bool {
					rt, isR := x.(*ssa.Return)
					return isR && !engine.ReturnsNilError(rt)
				}}.Find()
				if w != nil {
					ok, why = false, "after "+l.Atom[:strings.Index(l.Atom, ")(")+1]+" answered true the release still returns an error: the benign race (object already gone) fails the sync"
				}
			}
		}
		if n < 2 {
			ok, why = false, "expected both IsNotFound and IsGone to be consulted"
		}
		r.Check(rule, FK(f), p.Pos(f.Pos()), ok, "either predicate ⇒ nil", why)
	}
}

// handedMapsFilled (C14/C15): the maps a controller hands to its customize manager get entries in the constructor.
func handedMapsFilled(r *Report, p *Program, rule string) {
	r.Rule(rule, "newParentController / newDecoratorController: every map handed to NewCustomizeManager (parent informers, parent kinds) receives entries in the constructor (Set / store), for each parent resource")
	r.Floor(rule, 2)
	for _, key := range []string{"controller/composite.newParentController", "controller/decorator.newDecoratorController"} {
		f := fn(r, p, rule, key)
		if f == nil {
			continue
		}
		for _, cs := range callsTo(f, false, "customize.NewCustomizeManager") {
			ok, why := true, ""
			for _, a := range cs.Common().Args {
				if _, isMap := a.Type().Underlying().(*types.Map); !isMap {
					continue
				}
				filled := false
				for _, b := range f.Blocks {
					for _, in := range b.Instrs {
						switch x := in.(type) {
						case *ssa.MapUpdate:
							if E(x.Map) == E(a) && sameLocalMap(f, x.Map, a) {
								filled = true
							}
						case ssa.CallInstruction:
							k := engine.CallKey(x.Common())
							if (strings.HasSuffix(k, "Map.Set") || strings.HasSuffix(k, "Map.Insert")) && len(x.Common().Args) > 0 && E(x.Common().Args[0]) == E(a) && sameLocalMap(f, x.Common().Args[0], a) {
								filled = true
							}
						}
					}
				}
				if !filled {
					ok, why = false, "the map "+E(a)+" handed to the customize manager never receives an entry: related-object events find no parent kind / informer and wake nobody"
				}
			}
			r.Check(rule, FK(f)+"→NewCustomizeManager[maps-filled]", p.InstrPos(cs.Instr), ok, "every handed map is filled", why)
		}
	}
}

// parentSelectorTable (C14/C16): the composite controller's parent selector is the converted spec selector when
// one is given and Everything() otherwise.
func parentSelectorTable(r *Report, p *Program, rule string) {
	r.Rule(rule, "newParentController: parentSelector = LabelSelectorAsSelector(spec.parentResource.labelSelector) ⇔ that selector is given, else labels.Everything()")
	r.Floor(rule, 1)
	f := fn(r, p, rule, "controller/composite.newParentController")
	if f == nil {
		return
	}
	ok, why := false, "no store to the parentSelector field"
	for _, b := range f.Blocks {
		for _, in := range b.Instrs {
			st, isS := in.(*ssa.Store)
			if !isS {
				continue
			}
			fa, isFA := st.Addr.(*ssa.FieldAddr)
			if !isFA || fieldName(fa) != "parentSelector" {
				continue
			}
			given, missing, sel := selectOf(st.Val, func(a string) bool { return strings.HasSuffix(a, ".LabelSelector == nil)") })
			// selectOf keys on the atom '(… == nil)': positive polarity = selector missing
			ok = sel && strings.Contains(given, "labels.Everything)(") && strings.Contains(missing, "LabelSelectorAsSelector)(") && strings.Contains(missing, ".LabelSelector")
			if !ok {
				why = "the parent selector is " + E(st.Val) + ": not (Everything() when no selector is given, the converted selector otherwise)"
			}
		}
	}
	r.Check(rule, FK(f)+"[parentSelector]", p.Pos(f.Pos()), ok, "given ⇒ converted; missing ⇒ Everything", why)
}

// commaOkValuesUsedWhenOk (C07/C13 …): the value of `v, ok := x.(T)` is put to use (stored into an object, passed to
// a call, returned) only where ok holds — on the !ok edge v is T's zero value, and using it there means the
// test is inverted. Restricted to assertions whose ok result is branched on.
func commaOkValuesUsedWhenOk(r *Report, p *Program, rule string, floor int) {
	r.Rule(rule, "the value of a comma-ok type assertion whose ok is branched on has a use that is reachable without crossing ok == false (it is not used only where the assertion failed)")
	ord := map[string]int{}
	for _, f := range p.Scanned {
		k := FK(f)
		if !strings.HasPrefix(k, engine.ModPrefix) || strings.Contains(k, "/pkg/client/generated") || strings.Contains(k, "zzmcvetcontrols") || strings.Contains(k, "/pkg/apis/") {
			continue
		}
		for _, b := range f.Blocks {
			for _, in := range b.Instrs {
				ta, isTA := in.(*ssa.TypeAssert)
				if !isTA || !ta.CommaOk || ta.Referrers() == nil {
					continue
				}
				var v0, okv *ssa.Extract
				for _, u := range *ta.Referrers() {
					if e, isE := u.(*ssa.Extract); isE {
						if e.Index == 0 {
							v0 = e
						} else {
							okv = e
						}
					}
				}
				if v0 == nil || okv == nil || v0.Referrers() == nil || okv.Referrers() == nil {
					continue
				}
				branched := false
				for _, u := range *okv.Referrers() {
					if _, isIf := u.(*ssa.If); isIf {
						branched = true
					}
				}
				if !branched {
					continue
				}
				key := Short(k) + "→" + E(ta.X) + ".(" + engine.Abbrev(ta.AssertedType.String()) + ")"
				if len(key) > 150 {
					key = key[:150]
				}
				c := sf("%s#%d", key, ord[key])
				ord[key]++
				// inverted ⇔ the value has uses, and none of them can be reached once the ok == false edge is cut
				// (a value that is also used where ok holds — or regardless of ok, the zero value being meant — is fine)
				ok, why := true, ""
				nUses, nOkReach := 0, 0
				var first ssa.Instruction
				for _, u := range *v0.Referrers() {
					use := false
					switch x := u.(type) {
					case *ssa.Store:
						use = x.Val == ssa.Value(v0)
					case *ssa.MapUpdate:
						use = x.Value == ssa.Value(v0) || x.Key == ssa.Value(v0)
					case *ssa.Return, ssa.CallInstruction, *ssa.MakeInterface, *ssa.BinOp, *ssa.FieldAddr, *ssa.Field, *ssa.Phi:
						use = true
					}
					if !use {
						continue
					}
					nUses++
					if first == nil {
						first = u
					}
					if (engine.Query{Fn: f, From: []engine.Point{engine.After(ta)}, Target: func(x ssa.Instruction) bool { return x == u },
						CutEdge: func(_ *ssa.BasicBlock, _ int, l *Lit) bool { return l != nil && !l.Pos && l.Cond == ssa.Value(okv) }}).Find() != nil {
						nOkReach++
					}
				}
				if nUses > 0 && nOkReach == 0 {
					ok, why = false, "the asserted value is only ever used where the assertion FAILED (first use "+p.InstrPos(first)+"): the zero value stands in for the real one — the ok test is inverted"
				}
				r.Check(rule, c, p.InstrPos(ta), ok, "value used only where ok", why)
			}
		}
	}
	r.Floor(rule, floor)
}

// canAdoptTable (C04): the fresh-read check runs whenever one is configured.
func canAdoptTable(r *Report, p *Program, rule string) {
	r.Rule(rule, "BaseControllerRefManager.CanAdopt: CanAdoptFunc is called (once) ⇔ it is set; its error is what CanAdopt returns")
	r.Floor(rule, 1)
	f := fn(r, p, rule, "third_party/kubernetes.BaseControllerRefManager.CanAdopt")
	if f == nil {
		return
	}
	ok, why := false, "no sync.Once.Do in CanAdopt"
	for _, cs := range callsTo(f, false, "sync.Once.Do") {
		g := p.ResolveFuncValue(cs.Common().Args[len(cs.Common().Args)-1])
		if len(g) != 1 {
			why = "the function handed to Once.Do could not be resolved"
			continue
		}
		body := g[0]
		ok, why = true, ""
		set := func(pos bool) func(l Lit) bool {
			return func(l Lit) bool {
				v, isNil, isT := l.NilTest()
				return isT && strings.HasSuffix(E(v), ".CanAdoptFunc") && isNil != pos
			}
		}
		var calls []ssa.Instruction
		for _, b := range body.Blocks {
			for _, in := range b.Instrs {
				if c, isC := in.(*ssa.Call); isC && !c.Common().IsInvoke() && strings.HasSuffix(E(c.Common().Value), ".CanAdoptFunc") {
					calls = append(calls, in)
				}
			}
		}
		if len(calls) != 1 {
			ok, why = false, "CanAdoptFunc is not called exactly once in the Once body"
			continue
		}
		if unguarded(body, nil, calls[0], set(true)) != nil {
			ok, why = false, "CanAdoptFunc is called without having been found set (nil function call)"
		}
		if w := (engine.Query{Fn: body, Target: func(x ssa.Instruction) bool { _, isR := x.(*ssa.Return); return isR },
			CutInstr: func(x ssa.Instruction) bool { return x == calls[0] },
			CutEdge:  func(b *ssa.BasicBlock, i int, l *Lit) bool { return l != nil && set(false)(*l) }}).Find(); w != nil {
			ok, why = false, "a configured CanAdoptFunc (the fresh, uncached read of the parent) is skipped: orphans are adopted without checking that the parent still exists"
		}
	}
	r.Check(rule, FK(f), p.Pos(f.Pos()), ok, "checked ⇔ configured", why)
}

// webhookURLTable (C20/C19): an unusable service reference is an error.
func webhookURLTable(r *Report, p *Program, rule string) {
	r.Rule(rule, "webhookURL: a service reference without name or without namespace is an error (either alone); a full url wins; service and path are both required otherwise")
	r.Floor(rule, 1)
	f := fn(r, p, rule, "hooks.webhookURL")
	if f == nil {
		return
	}
	paths, err := engine.EnumPaths(f, engine.EnumOpts{})
	ok, why := err == nil, ""
	for _, pa := range paths {
		rt, isR := pa.End.(*ssa.Return)
		if !isR {
			continue
		}
		noName := val(pa, -1, func(a string) bool { return a == `(p0.Service.Name == "")` })
		noNs := val(pa, -1, func(a string) bool { return a == `(p0.Service.Namespace == "")` })
		hasURL := -val(pa, -1, func(a string) bool { return a == "(p0.URL == nil)" })
		failed := isErrReturn(rt)
		switch {
		case hasURL == 1:
			if failed {
				ok, why = false, "a full url is rejected"
			}
		case (noName == 1 || noNs == 1) && !failed:
			ok, why = false, "a service reference without name or namespace is accepted: the hook URL is built from empty parts"
		case noName == -1 && noNs == -1 && failed && val(pa, -1, func(a string) bool { return a == "(p0.Service == nil)" || a == "(p0.Path == nil)" }) != 1:
			ok, why = false, "a complete service reference is rejected"
		}
	}
	// both parts are looked at
	sawName, sawNs := false, false
	for _, pa := range paths {
		if rt, isR := pa.End.(*ssa.Return); isR && isErrReturn(rt) {
			if val(pa, -1, func(a string) bool { return a == `(p0.Service.Name == "")` }) == 1 {
				sawName = true
			}
			if val(pa, -1, func(a string) bool { return a == `(p0.Service.Namespace == "")` }) == 1 {
				sawNs = true
			}
		}
	}
	if ok && !(sawName && sawNs) {
		ok, why = false, "a service reference with an empty name or namespace is not rejected"
	}
	r.Check(rule, FK(f), p.Pos(f.Pos()), ok, "error ⇔ incomplete reference", why)
}

// timerStopTable (C18): a handler's resync timer is stopped ⇔ it has one.
func timerStopTable(r *Report, p *Program, rule string) {
	r.Rule(rule, "eventHandler.stop closes the timer's stop channel and waits for it ⇔ the handler has a timer (stopCh != nil)")
	r.Floor(rule, 1)
	f := fn(r, p, rule, "dynamic/informer.eventHandler.stop")
	if f == nil {
		return
	}
	has := func(pos bool) func(l Lit) bool {
		return func(l Lit) bool {
			v, isNil, isT := l.NilTest()
			return isT && strings.HasSuffix(E(v), ".stopCh") && isNil != pos
		}
	}
	ok, why := true, ""
	closes := callsTo(f, false, "builtin.close")
	if len(closes) != 1 {
		ok, why = false, "expected one close(stopCh)"
	} else {
		ci := closes[0].Instr.(ssa.Instruction)
		if unguarded(f, nil, ci, has(true)) != nil {
			ok, why = false, "close is reached for a handler without timer (close of nil channel panics)"
		}
		if (engine.Query{Fn: f, Target: func(x ssa.Instruction) bool { _, isR := x.(*ssa.Return); return isR },
			CutInstr: func(x ssa.Instruction) bool { return x == ci },
			CutEdge:  func(b *ssa.BasicBlock, i int, l *Lit) bool { return l != nil && has(false)(*l) }}).Find() != nil {
			ok, why = false, "a handler's resync timer is not stopped when the handler is removed: it keeps delivering resyncs to a removed subscriber"
		}
	}
	r.Check(rule, FK(f), p.Pos(f.Pos()), ok, "stopped ⇔ has a timer", why)
}

// claimToleranceConverse (C12/C04): in ClaimObject an error of adopt()/release() is handed up only after
// IsNotFound was consulted and answered false — "object already gone" is a benign race, not a failure.
func claimToleranceConverse(r *Report, p *Program, rule string) {
	r.Rule(rule, "ClaimObject: every return of an adopt()/release() error lies across IsNotFound(err) == false")
	r.Floor(rule, 1)
	f := fn(r, p, rule, "third_party/kubernetes.BaseControllerRefManager.ClaimObject")
	if f == nil {
		return
	}
	ok, why := true, ""
	n := 0
	for _, b := range f.Blocks {
		rt, isR := b.Instrs[len(b.Instrs)-1].(*ssa.Return)
		if !isR || len(rt.Results) != 2 {
			continue
		}
		ev := engine.RetVal(rt, 1)
		if c, isC := ev.(*ssa.Const); isC && c.IsNil() {
			continue
		}
		n++
		if unguarded(f, nil, rt, func(l Lit) bool {
			return !l.Pos && strings.HasPrefix(l.Atom, "call(") && strings.Contains(l.Atom, "errors.IsNotFound)(")
		}) != nil {
			ok, why = false, "an adopt/release error is returned ("+p.InstrPos(rt)+") without IsNotFound having been consulted: an object that is already gone fails the sync instead of being skipped"
		}
	}
	if n < 2 {
		ok, why = false, "expected the adopt and the release error to be returned somewhere"
	}
	r.Check(rule, FK(f)+"[error⇒¬NotFound]", p.Pos(f.Pos()), ok, "errors handed up only when not NotFound", why)
}

// discoveryDefaults (C03/C14): refresh() fills an entry's empty Group / Version from the list it is published in —
// exactly when empty (parent kinds, informer keys and GroupResource() are keyed by these fields).
func discoveryDefaults(r *Report, p *Program, rule string) {
	r.Rule(rule, "discovery refresh: entry.Group := list group ⇔ entry.Group == \"\"; same for Version; every entry is registered under its name, kinds exclude subresources")
	r.Floor(rule, 2)
	f := fn(r, p, rule, "dynamic/discovery.ResourceMap.refresh")
	if f == nil {
		return
	}
	for _, fld := range []string{"Group", "Version"} {
		ok, why := true, ""
		empty := func(l Lit) bool {
			return strings.HasSuffix(l.Atom, "."+fld+` == "")`) && strings.Contains(l.Atom, "new<dynamic/discovery.APIResource>")
		}
		n := 0
		for _, b := range f.Blocks {
			for _, in := range b.Instrs {
				st, isS := in.(*ssa.Store)
				if !isS {
					continue
				}
				fa, isFA := st.Addr.(*ssa.FieldAddr)
				if !isFA || fieldName(fa) != fld || !strings.Contains(E(fa.X), "new<dynamic/discovery.APIResource>") {
					continue
				}
				n++
				if unguarded(f, nil, in, func(l Lit) bool { return l.Pos && empty(l) }) != nil {
					ok, why = false, "an entry's own "+fld+" is overwritten although it is not empty"
				}
				if v := E(st.Val); !strings.Contains(v, "ParseGroupVersion)(") && v != "new<schema.GroupVersion>."+fld {
					ok, why = false, "the default for "+fld+" is "+E(st.Val)+", not the list's group/version"
				}
				// converse: the 'empty' edge leads to the store
				for _, bb := range f.Blocks {
					for i := range bb.Succs {
						if l, has := engine.EdgeLit(bb, i); has && l.Pos && empty(l) {
							if (engine.Query{Fn: f, From: []engine.Point{{B: bb.Succs[i]}}, Target: func(x ssa.Instruction) bool { return x == in },
								CutEdge: func(_ *ssa.BasicBlock, _ int, l2 *Lit) bool { return l2 != nil }}).Find() == nil {
								ok, why = false, "an entry with an empty "+fld+" does not get the list's"
							}
						}
					}
				}
			}
		}
		if n != 1 {
			ok, why = false, "expected one defaulting store for "+fld
		}
		r.Check(rule, FK(f)+"["+fld+"]", p.Pos(f.Pos()), ok, "defaulted ⇔ empty", why)
	}
}

// namespaceScopingTable (C02/C03): ResourceClient.Namespace picks the namespaced endpoint ⇔ the resource is
// namespaced ∧ a namespace is given.
func namespaceScopingTable(r *Report, p *Program, rule string) {
	r.Rule(rule, "ResourceClient.Namespace: cluster-scoped resource ⇒ the client itself; else rootClient.Namespace(ns) ⇔ ns != \"\", the root client otherwise")
	r.Floor(rule, 1)
	f := fn(r, p, rule, "dynamic/clientset.ResourceClient.Namespace")
	if f == nil {
		return
	}
	ok, why := true, ""
	namespaced := func(l Lit) bool { return strings.HasSuffix(l.Atom, ".Namespaced") }
	nSelf, nNew := 0, 0
	for _, b := range f.Blocks {
		rt, isR := b.Instrs[len(b.Instrs)-1].(*ssa.Return)
		if !isR {
			continue
		}
		if engine.RetVal(rt, 0) == ssa.Value(f.Params[0]) {
			nSelf++
			if unguarded(f, nil, rt, func(l Lit) bool { return !l.Pos && namespaced(l) }) != nil {
				ok, why = false, "the unscoped client is returned for a namespaced resource"
			}
		} else {
			nNew++
			if unguarded(f, nil, rt, func(l Lit) bool { return l.Pos && namespaced(l) }) != nil {
				ok, why = false, "a namespace-scoped client is built for a cluster-scoped resource (wrong request path)"
			}
		}
	}
	for _, cs := range callsTo(f, false, "NamespaceableResourceInterface.Namespace") {
		if unguarded(f, nil, cs.Instr.(ssa.Instruction), func(l Lit) bool { return !l.Pos && l.Atom == `(p1 == "")` }) != nil {
			ok, why = false, "the namespaced endpoint is chosen for an empty namespace"
		}
		if cs.Common().Args[len(cs.Common().Args)-1] != ssa.Value(f.Params[1]) {
			ok, why = false, "the endpoint is scoped by something other than the namespace asked for"
		}
	}
	if nSelf == 0 || nNew == 0 || len(callsTo(f, false, "NamespaceableResourceInterface.Namespace")) != 1 {
		ok, why = false, "Namespace() does not distinguish cluster-scoped resources / empty namespaces"
	}
	// the interface used is the namespaced one whenever a namespace is given
	for _, b := range f.Blocks {
		for _, in := range b.Instrs {
			if st, isS := in.(*ssa.Store); isS {
				if fa, isFA := st.Addr.(*ssa.FieldAddr); isFA && fieldName(fa) == "ResourceInterface" {
					t, e, sel := selectOf(st.Val, func(a string) bool { return a == `(p1 == "")` })
					if !(sel && strings.Contains(e, ".Namespace)(") && !strings.Contains(t, ".Namespace)(")) {
						ok, why = false, "the new client's endpoint is "+E(st.Val)+": not (root client for \"\", namespaced otherwise)"
					}
				}
			}
		}
	}
	r.Check(rule, FK(f), p.Pos(f.Pos()), ok, "scoped ⇔ namespaced ∧ namespace given", why)
}

// jsonDecodingPreservesInts (C05/C01): generic JSON (objects, last-applied configurations, patches) is decoded with
// apimachinery's util/json (or sigs.k8s.io/json), which keep integers as int64 — the representation the API
// machinery's own decoding produces for observed objects. encoding/json would turn them into float64: DeepEqual of
// observed and merged values never holds, and list-map keys rendered with %v stop lining up for large integers.
func jsonDecodingPreservesInts(r *Report, p *Program, rule string) {
	r.Rule(rule, "no encoding/json.Unmarshal / Decoder.Decode into untyped data (interface{}, map[string]interface{}, Unstructured) anywhere in the module: such data is decoded with k8s.io/apimachinery/pkg/util/json or sigs.k8s.io/json")
	n := 0
	ord := map[string]int{}
	for _, f := range p.Scanned {
		k := FK(f)
		if !strings.HasPrefix(k, engine.ModPrefix) || strings.Contains(k, "/pkg/client/generated") {
			continue
		}
		for _, b := range f.Blocks {
			for _, in := range b.Instrs {
				ci, isC := in.(ssa.CallInstruction)
				if !isC {
					continue
				}
				ck := engine.CallKey(ci.Common())
				std := ck == "encoding/json.Unmarshal" || ck == "encoding/json.Decoder.Decode"
				k8s := strings.HasSuffix(ck, "apimachinery/pkg/util/json.Unmarshal") || strings.HasPrefix(ck, "sigs.k8s.io/json.Unmarshal")
				if !std && !k8s {
					continue
				}
				target := ci.Common().Args[len(ci.Common().Args)-1]
				untyped := false
				t := target.Type()
				if mi, isMI := target.(*ssa.MakeInterface); isMI {
					t = mi.X.Type()
				}
				ts := t.String()
				if strings.Contains(ts, "interface{}") || strings.Contains(ts, "any") || strings.Contains(ts, "unstructured.Unstructured") || strings.HasSuffix(ts, "interface {}") {
					untyped = true
				}
				if !untyped && std {
					continue // a typed struct target: field types decide
				}
				key := Short(k) + "→" + Short(ck)
				c := sf("%s#%d", key, ord[key])
				ord[key]++
				n++
				r.Check(rule, c, p.InstrPos(in), !std, "int64-preserving decoder", "untyped JSON is decoded with encoding/json: integers become float64, unlike in the objects the API machinery delivers — comparisons and list-map keys of such values stop matching")
			}
		}
	}
	r.Floor(rule, 3)
}
