package rules

import (
	"go/ast"
	"go/constant"
	"go/token"
	"go/types"
	"strings"

	"golang.org/x/tools/go/ssa"

	"mcvet/engine"
)

// Generic, module-wide discipline rules for the reconcile paths. They are
// instances of the contradiction / pairing templates (Engler et al.): the code
// itself says what an error value or a nil test means; using it the other way
// round is wrong whatever the property. They are listed for C12 (a failure is
// reported and retried, never acted upon) and C13 (no panic on what a lookup or a
// hook may legitimately yield).

// syncPathFns: the module functions reachable from the sync entries and the
// informer event handlers (everything a worker or handler goroutine executes).
func syncPathFns(p *Program) map[*ssa.Function]bool {
	var roots []*ssa.Function
	for _, k := range []string{
		"controller/composite.parentController.sync", "controller/decorator.decoratorController.sync",
		"controller/composite.parentController.processNextWorkItem", "controller/decorator.decoratorController.processNextWorkItem",
		// the reconcilers of the CompositeController / DecoratorController objects (called by controller-runtime)
		"controller/composite.Metacontroller.Reconcile", "controller/decorator.Metacontroller.Reconcile",
	} {
		if f := p.Func(k); f != nil {
			roots = append(roots, f)
		}
	}
	roots = append(roots, p.ConcurrentRoots()...)
	out := map[*ssa.Function]bool{}
	for f := range p.CG().ReachSet(roots...) {
		if strings.HasPrefix(FK(f), engine.ModPrefix) && !strings.Contains(FK(f), "/pkg/client/generated") && !strings.Contains(FK(f), "zzmcvetcontrols") && !strings.Contains(FK(f), "/pkg/apis/") {
			out[f] = true
		}
	}
	return out
}

// errorChecksMeanWhatTheySay (R12.11): for every call in a sync-path function
// whose error result is compared with nil —
//
//	(a) on the 'err == nil' edge no return hands THAT error up as the failure
//	    (an inverted check reports success as failure and goes on after failures);
//	(b) the error is compared at all, or returned / aggregated / stored
//	    (an error check that was dropped).
func errorChecksMeanWhatTheySay(r *Report, p *Program, rule string, only ...func(f *ssa.Function) bool) {
	r.Rule(rule, "sync paths: an error result is examined (tested, returned or aggregated); on its 'err == nil' edge the function does not return that error as its failure")
	fns := syncPathFns(p)
	ord := map[string]int{}
	n := 0
	var list []*ssa.Function
	for _, f := range p.Scanned {
		if fns[f] && (len(only) == 0 || only[0](f)) {
			list = append(list, f)
		}
	}
	for _, f := range list {
		for _, b := range f.Blocks {
			for _, in := range b.Instrs {
				call, isCall := in.(*ssa.Call)
				if !isCall {
					continue
				}
				sig := call.Common().Signature()
				if sig == nil || sig.Results().Len() == 0 || !isErrorT(sig.Results().At(sig.Results().Len()-1).Type()) {
					continue
				}
				k := engine.CallKey(call.Common())
				if k == "" || strings.HasPrefix(k, "fmt.") || strings.HasPrefix(k, "errors.") || strings.Contains(k, "util/errors.") || strings.Contains(k, "logr.") {
					continue
				}
				// module functions, API writes/reads and hook calls: the steps whose failure the properties speak about
				// (explicitly discarded parse errors of values that come from discovery are the code base's idiom)
				_, _, isSink := engine.ClassifySink(k)
				isMod := false
				for _, g := range p.CalleesOf(call) {
					if strings.HasPrefix(FK(g), engine.ModPrefix) {
						isMod = true
					}
				}
				examineScope := isMod || isSink || strings.Contains(k, "dynamic.ResourceInterface.") || strings.HasSuffix(k, "hooks.Hook.Call") ||
					strings.Contains(k, "dynamiclister.") || strings.Contains(k, "/lister/") || strings.Contains(k, "unstructured.Nested")
				ev := engine.ErrValue(call)
				key := Short(FK(f)) + "→" + Short(k)
				c := sf("%s#%d", key, ord[key])
				ord[key]++
				n++
				if ev == nil && !examineScope {
					continue
				}
				if ev == nil {
					// the error component is never extracted
					used := call.Referrers() != nil && len(*call.Referrers()) > 0
					if sig.Results().Len() == 1 && used {
						continue // single error result used directly (returned / passed on)
					}
					// "v, _ := f()" followed by a nil test of v is the code base's way of treating failure as absence
					if v0 := engine.ResultValue(call, 0); v0 != nil && v0.Referrers() != nil {
						tested := false
						for _, u := range *v0.Referrers() {
							if bo, isB := u.(*ssa.BinOp); isB && (bo.Op == token.EQL || bo.Op == token.NEQ) {
								tested = true
							}
						}
						if tested {
							r.Check(rule, c+"[examined]", p.InstrPos(call), true, "error discarded, result tested for nil instead", "")
							continue
						}
					}
					r.Check(rule, c+"[examined]", p.InstrPos(call), false, "", "the error result of "+Short(k)+" is discarded: a failure of this step is not noticed and the sync goes on with whatever the other results hold")
					continue
				}
				// (b) examined: nil-tested, returned, appended, stored, passed on
				examined := false
				seenPhi := map[ssa.Value]bool{}
				var look func(v ssa.Value)
				look = func(v ssa.Value) {
					if seenPhi[v] || v.Referrers() == nil {
						return
					}
					seenPhi[v] = true
					for _, u := range *v.Referrers() {
						switch x := u.(type) {
						case *ssa.BinOp, *ssa.Return, *ssa.Store, *ssa.MakeInterface, *ssa.Call, *ssa.ChangeInterface, *ssa.TypeAssert, *ssa.Defer, *ssa.Go, *ssa.MapUpdate, *ssa.Send:
							examined = true
						case *ssa.Phi:
							look(x) // merged with the other arms' errors: is the merged variable looked at?
						}
					}
				}
				look(ev)
				// an error that was bound to a variable (not '_') and is then never looked at: in the hook transport
				// every step's failure matters (C19: any transport / read / decode failure is an error)
				if !examined && !examineScope && !(strings.Contains(FK(f), "/pkg/hooks.") && !blankErrorLHS(f, call)) {
					continue
				}
				if !examined {
					if v0 := engine.ResultValue(call, 0); v0 != nil && v0.Referrers() != nil {
						for _, u := range *v0.Referrers() {
							if bo, isB := u.(*ssa.BinOp); isB && (bo.Op == token.EQL || bo.Op == token.NEQ) {
								examined = true
							}
						}
					}
				}
				if !examined {
					r.Check(rule, c+"[examined]", p.InstrPos(call), false, "", "the error result of "+Short(k)+" is never looked at: a failure of this step is not noticed and the sync goes on with whatever the other results hold")
					continue
				}
				// (a) success edge does not return ev as failure
				var from []engine.Point
				for _, bb := range f.Blocks {
					for i := range bb.Succs {
						if l, ok := engine.EdgeLit(bb, i); ok {
							if x, isNil, isT := l.NilTest(); isT && isNil && sameOrPhiOf(x, ev) {
								from = append(from, engine.Point{B: bb.Succs[i]})
							}
						}
					}
				}
				ok, why := true, ""
				if len(from) > 0 {
					ei := engine.ErrorResultIndex(f)
					w := engine.Query{Fn: f, From: from, CutInstr: func(x ssa.Instruction) bool { return x == ssa.Instruction(call) },
						// only what the success edge leads to unconditionally: a later, separate decision
						// (result == nil …) that happens to mention the nil error in its message is not an inverted check
						CutEdge: func(bb *ssa.BasicBlock, i int, l *Lit) bool { return l != nil },
						Target: func(x ssa.Instruction) bool {
							rt, isR := x.(*ssa.Return)
							if !isR || ei < 0 {
								return false
							}
							rv := engine.RetVal(rt, ei)
							if cst, isC := rv.(*ssa.Const); isC && cst.IsNil() {
								return false
							}
							_ = rt
							// a fresh error built from ev (which is nil here) …
							if fc, isCall := rv.(*ssa.Call); isCall && strings.HasPrefix(engine.CallKey(fc.Common()), "fmt.Errorf") {
								return engine.BackSlice(rv, func(y ssa.Value) bool { return y == ev }, func(kk string) bool { return strings.HasPrefix(kk, "fmt.") })
							}
							// … or "return nil, err" with err the (nil) error just tested: the caller gets (nil, nil)
							if engine.SameValue(rv, ev) && ei > 0 {
								if c0, isC := engine.RetVal(rt, 0).(*ssa.Const); isC && c0.IsNil() && isNillableT(c0.Type()) {
									return true
								}
								// … or "return Result{}, err": the zero value of a struct result
								if isZeroStruct(engine.RetVal(rt, 0)) {
									return true
								}
							}
							return false
						}}.Find()
					if w != nil {
						ok, why = false, "on the edge where "+Short(k)+" SUCCEEDED (its error is nil) the function returns an error built from that nil error ("+p.InstrPos(w.Instr)+"): the check is inverted — success is reported as failure and a real failure falls through"
					}
				}
				// inverted check, second form: the success edge runs straight into an error return while the
				// failure edge does not (whatever the message is built from)
				if ok && len(from) > 0 && engine.ErrorResultIndex(f) >= 0 {
					var fail []engine.Point
					for _, bb := range f.Blocks {
						for i := range bb.Succs {
							if l, isL := engine.EdgeLit(bb, i); isL {
								if x, isNil, isT := l.NilTest(); isT && !isNil && sameOrPhiOf(x, ev) {
									fail = append(fail, engine.Point{B: bb.Succs[i]})
								}
							}
						}
					}
					straight := func(pts []engine.Point, want func(rt *ssa.Return) bool) bool {
						return engine.Query{Fn: f, From: pts, CutInstr: func(x ssa.Instruction) bool { return x == ssa.Instruction(call) },
							CutEdge: func(bb *ssa.BasicBlock, i int, l *Lit) bool { return l != nil },
							Target:  func(x ssa.Instruction) bool { rt, isR := x.(*ssa.Return); return isR && want(rt) }}.Find() != nil
					}
					freshErr := func(rt *ssa.Return) bool { return engine.ReturnsFreshError(rt) }
					anyErrOrHandled := func(rt *ssa.Return) bool { return isErrReturn(rt) }
					if straight(from, freshErr) && len(fail) > 0 && !straight(fail, anyErrOrHandled) {
						ok, why = false, "where "+Short(k)+" SUCCEEDED the function runs straight into an error return, where it FAILED it does not: the error check is inverted"
					}
				}
				// third form: the success edge hands THE (nil) ERROR to an error reporter (HandleError, logger.Error)
				// straight away — whatever the function's own result type is
				if ok && len(from) > 0 {
					w := engine.Query{Fn: f, From: from, CutInstr: func(x ssa.Instruction) bool { return x == ssa.Instruction(call) },
						CutEdge: func(bb *ssa.BasicBlock, i int, l *Lit) bool { return l != nil },
						Target: func(x ssa.Instruction) bool {
							ci, isCI := x.(ssa.CallInstruction)
							if !isCI {
								return false
							}
							kk := engine.CallKey(ci.Common())
							if !(strings.HasSuffix(kk, "runtime.HandleError") || strings.HasSuffix(kk, "logr.Logger.Error")) {
								return false
							}
							for _, a := range ci.Common().Args {
								if sameOrPhiOf(unwrapIface(a), ev) || a == ev {
									return true
								}
							}
							return false
						}}.Find()
					if w != nil {
						ok, why = false, "where "+Short(k)+" SUCCEEDED its (nil) error is reported at "+p.InstrPos(w.Instr)+" and the result is given up: the error check is inverted"
					}
				}
				// fourth form, for functions that report failure by an empty result: the success edge runs straight
				// into 'return <zero values>' while the failure edge goes on to use the results
				if ok && len(from) > 0 && engine.ErrorResultIndex(f) < 0 && f.Signature.Results().Len() > 0 {
					var fail []engine.Point
					for _, bb := range f.Blocks {
						for i := range bb.Succs {
							if l, isL := engine.EdgeLit(bb, i); isL {
								if x, isNil, isT := l.NilTest(); isT && !isNil && sameOrPhiOf(x, ev) {
									fail = append(fail, engine.Point{B: bb.Succs[i]})
								}
							}
						}
					}
					zeroRet := func(pts []engine.Point) bool {
						return engine.Query{Fn: f, From: pts, CutInstr: func(x ssa.Instruction) bool { return x == ssa.Instruction(call) },
							CutEdge: func(bb *ssa.BasicBlock, i int, l *Lit) bool { return l != nil },
							Target: func(x ssa.Instruction) bool {
								rt, isR := x.(*ssa.Return)
								if !isR {
									return false
								}
								for i := range rt.Results {
									cst, isC := engine.RetVal(rt, i).(*ssa.Const)
									if !isC || !(cst.Value == nil || cst.Value.String() == "false" || cst.Value.String() == "0" || cst.Value.String() == `""`) {
										return false
									}
								}
								return true
							}}.Find() != nil
					}
					if len(fail) > 0 && zeroRet(from) && !zeroRet(fail) {
						ok, why = false, "where "+Short(k)+" SUCCEEDED the function gives up with an empty result, where it FAILED it goes on: the error check is inverted"
					}
				}
				r.Check(rule, c+"[polarity]", p.InstrPos(call), ok, "error examined; success edge does not report it", why)
			}
		}
	}
	if len(only) == 0 {
		r.Floor(rule, 60)
	} else {
		r.Floor(rule, 5)
	}
	_ = n
}

// nilKnownNotDereferenced (R13.8): on the edge where a pointer/map/interface was
// just found to be nil, it is not dereferenced (field access, load, method call on
// a nil interface or through a pointer receiver that reads the object, map store).
// An inverted nil guard (`if x != nil { return }` for `if x == nil { return }`)
// produces exactly this: the "absent" case goes on and uses the absent thing.
func nilKnownNotDereferenced(r *Report, p *Program, rule string) {
	r.Rule(rule, "sync paths: a value just tested to be nil is not dereferenced on that edge")
	fns := syncPathFns(p)
	ord := map[string]int{}
	n := 0
	for _, f := range p.Scanned {
		if !fns[f] {
			continue
		}
		for _, b := range f.Blocks {
			if len(b.Instrs) == 0 {
				continue
			}
			iff, isIf := b.Instrs[len(b.Instrs)-1].(*ssa.If)
			if !isIf {
				continue
			}
			// v, ok := x.(*T): on the !ok edge v is the nil *T
			if ex, isEx := iff.Cond.(*ssa.Extract); isEx && ex.Index == 1 {
				if ta, isTA := ex.Tuple.(*ssa.TypeAssert); isTA && ta.CommaOk && isNillableT(ta.AssertedType) && len(b.Succs) == 2 {
					var v0 ssa.Value
					if refs := ta.Referrers(); refs != nil {
						for _, u := range *refs {
							if e0, ok := u.(*ssa.Extract); ok && e0.Index == 0 {
								v0 = e0
							}
						}
					}
					if v0 != nil {
						k := Short(FK(f)) + "[" + E(ta.X) + ".(T) !ok]"
						c := sf("%s#%d", k, ord[k])
						ord[k]++
						n++
						w := engine.Query{Fn: f, From: []engine.Point{{B: b.Succs[1]}}, CutInstr: func(x ssa.Instruction) bool { return x == ssa.Instruction(ta) },
							Target: func(x ssa.Instruction) bool { return derefs(x, v0) }}.Find()
						where := ""
						if w != nil {
							where = p.InstrPos(w.Instr)
						}
						r.Check(rule, c, p.InstrPos(iff), w == nil, "the zero value of a failed type assertion is not dereferenced", "on the edge where the type assertion of "+E(ta.X)+" failed its (nil) result is dereferenced at "+where+": the ok test is inverted")
					}
				}
			}
			for i := range b.Succs {
				l, ok := engine.EdgeLit(b, i)
				if !ok {
					continue
				}
				v, isNil, isT := l.NilTest()
				if !isT || !isNil || v == nil {
					continue
				}
				if isErrorT(v.Type()) {
					continue // err == nil is the success edge, not an absent object
				}
				if _, isC := v.(*ssa.Const); isC {
					continue
				}
				n++
				k := Short(FK(f)) + "[" + E(v) + " == nil]"
				if len(k) > 160 {
					k = k[:160]
				}
				c := sf("%s#%d", k, ord[k])
				ord[k]++
				var def ssa.Instruction
				if di, isI := v.(ssa.Instruction); isI {
					def = di
				}
				// v itself, or the variable it was just assigned to when the other arm makes a fresh value
				// (`m := get(); if m == nil { m = make(…) }` inverted leaves m nil on this edge)
				cands := []ssa.Value{v}
				var fresh []ssa.Instruction
				if refs := v.Referrers(); refs != nil {
					for _, u := range *refs {
						if ph, isPhi := u.(*ssa.Phi); isPhi {
							// the edge of the phi that carries v must be the one this nil edge takes: the phi's block is
							// reachable from here without passing the definition of its other operands
							cands = append(cands, ph)
							for _, e := range ph.Edges {
								if _, isPhi2 := e.(*ssa.Phi); isPhi2 {
									continue
								}
								if ei, isI := e.(ssa.Instruction); isI && e != v {
									fresh = append(fresh, ei)
								}
							}
						}
					}
				}
				w := engine.Query{Fn: f, From: []engine.Point{{B: b.Succs[i]}}, CutInstr: func(x ssa.Instruction) bool {
					if def != nil && x == def {
						return true
					}
					for _, fi := range fresh {
						if x == fi {
							return true // the other arm: the variable got a fresh value
						}
					}
					return false
				},
					Target: func(x ssa.Instruction) bool {
						for _, cv := range cands {
							if derefs(x, cv) {
								return true
							}
						}
						return false
					}}.Find()
				_ = iff
				r.Check(rule, c, p.InstrPos(iff), w == nil, "not dereferenced where known nil", "on the edge where "+E(v)+" is nil it is dereferenced at "+func() string {
					if w != nil {
						return p.InstrPos(w.Instr)
					}
					return ""
				}()+": the guard is inverted (or the wrong branch returns) — the absent case panics, the present case is skipped")
			}
		}
	}
	r.Floor(rule, 40)
	_ = n
}

// derefs: instruction x dereferences value v.
func derefs(x ssa.Instruction, v ssa.Value) bool {
	switch y := x.(type) {
	case *ssa.FieldAddr:
		return y.X == v
	case *ssa.Field:
		return y.X == v
	case *ssa.UnOp:
		return y.Op == token.MUL && y.X == v
	case *ssa.IndexAddr:
		return y.X == v
	case *ssa.MapUpdate:
		return y.Map == v
	case ssa.CallInstruction:
		cc := y.Common()
		if cc.IsInvoke() {
			return cc.Value == v // method call on a nil interface
		}
		if len(cc.Args) > 0 && cc.Args[0] == v {
			if h := engine.StaticFn(cc); h != nil && h.Signature.Recv() != nil {
				if _, isPtr := h.Signature.Recv().Type().Underlying().(*types.Pointer); isPtr {
					// pointer-receiver method: dereferences unless it guards against a nil receiver itself
					return !guardsNilReceiver(h)
				}
			}
		}
		// handed to a module function that dereferences that parameter without testing it
		if h := engine.StaticFn(cc); h != nil && strings.HasPrefix(FK(h), engine.ModPrefix) {
			for j, a := range cc.Args {
				if (a == v || unwrapIface(a) == v) && derefsParamUnguarded(h, j, 0) {
					return true
				}
			}
		}
	}
	return false
}

var nilRecvCache = map[*ssa.Function]int{}

// guardsNilReceiver: the method tests its receiver against nil (so calling it on nil is fine).
func guardsNilReceiver(h *ssa.Function) bool {
	if v, ok := nilRecvCache[h]; ok {
		return v == 1
	}
	nilRecvCache[h] = 0
	if len(h.Blocks) == 0 || len(h.Params) == 0 {
		return false // external method: assume it reads the object
	}
	for _, b := range h.Blocks {
		for i := range b.Succs {
			if l, ok := engine.EdgeLit(b, i); ok {
				if x, _, isT := l.NilTest(); isT && x == ssa.Value(h.Params[0]) {
					nilRecvCache[h] = 1
					return true
				}
			}
		}
	}
	return false
}

func isNillableT(t types.Type) bool {
	switch t.Underlying().(type) {
	case *types.Pointer, *types.Interface, *types.Map, *types.Slice, *types.Signature:
		return true
	}
	return false
}

var nilableCache = map[*ssa.Function]int{}

// nilableResult: g's first result is a pointer/map/interface and on some return
// that reports no error it may be nil — the constant nil, a plain map element
// (absent key ⇒ nil), or what another such function returned.
func nilableResult(p *Program, g *ssa.Function, depth int) bool {
	if g == nil || len(g.Blocks) == 0 || depth > 3 {
		return false
	}
	if v, ok := nilableCache[g]; ok {
		return v == 1
	}
	nilableCache[g] = 0
	res := g.Signature.Results()
	if res.Len() == 0 || !isNillableT(res.At(0).Type()) {
		return false
	}
	if _, isSlice := res.At(0).Type().Underlying().(*types.Slice); isSlice {
		return false
	}
	ei := engine.ErrorResultIndex(g)
	for _, b := range g.Blocks {
		for _, in := range b.Instrs {
			rt, ok := in.(*ssa.Return)
			if !ok {
				continue
			}
			if ei >= 0 && isErrReturn(rt) {
				continue // absent together with an error: the caller checks the error
			}
			v := engine.ResolveLocal(engine.RetVal(rt, 0))
			switch x := v.(type) {
			case *ssa.Const:
				if x.IsNil() {
					nilableCache[g] = 1
					return true
				}
			case *ssa.Lookup:
				if !x.CommaOk {
					nilableCache[g] = 1
					return true
				}
			case *ssa.Call:
				if h := engine.StaticFn(x.Common()); h != nil && h != g && nilableResult(p, h, depth+1) {
					nilableCache[g] = 1
					return true
				}
			}
		}
	}
	return false
}

// nilable results of functions outside the module that the sync paths rely on
var extNilable = map[string]bool{
	"k8s.io/apimachinery/pkg/apis/meta/v1.GetControllerOf":       true,
	"k8s.io/apimachinery/pkg/apis/meta/v1.GetControllerOfNoCopy": true,
}

// lookupResultsChecked (R13.9): what a lookup may legitimately answer with
// "absent" (nil, no error) is tested for nil before it is dereferenced.
var lookupExceptions = map[string]string{
	"controller/composite.parentController.shouldContinueRolling→controller/common/api/v1.RelativeObjectMap.FindGroupKindName": "the desired child of a name claimed by the latest revision: syncRevisionClaims (earlier in the same sync) keeps for every revision only names the latest revision desires (R09.5, listed for this property too)",
}

func lookupResultsChecked(r *Report, p *Program, rule string) {
	r.Rule(rule, "sync paths: the result of a lookup that can be nil without an error (absent key, no controller reference, unknown resource) is nil-tested on every path to a dereference")
	fns := syncPathFns(p)
	ord := map[string]int{}
	n := 0
	for _, f := range p.Scanned {
		if !fns[f] {
			continue
		}
		for _, b := range f.Blocks {
			for _, in := range b.Instrs {
				call, isCall := in.(*ssa.Call)
				if !isCall {
					continue
				}
				k := engine.CallKey(call.Common())
				g := engine.StaticFn(call.Common())
				if !(extNilable[k] || g != nil && strings.HasPrefix(FK(g), engine.ModPrefix) && nilableResult(p, g, 0)) {
					continue
				}
				v := engine.ResultValue(call, 0)
				if v == nil {
					v = call
				}
				key := Short(FK(f)) + "→" + Short(k)
				c := sf("%s#%d", key, ord[key])
				ord[key]++
				n++
				if why, exc := lookupExceptions[key]; exc {
					r.Check(rule, c+"[exception]", p.InstrPos(call), true, "reasoned exception: "+why, "")
					continue
				}
				ev := engine.ErrValue(call)
				w := engine.Query{Fn: f, From: []engine.Point{engine.After(call)}, CutInstr: func(x ssa.Instruction) bool { return x == ssa.Instruction(call) },
					CutEdge: guardCut(func(l Lit) bool {
						x, _, isT := l.NilTest()
						if isT && x != nil && engine.SameValue(x, v) {
							return true // tested (either way: the nil side is R13.8's business)
						}
						// the error edge of the same call: nothing is used there (R12.8)
						if isT && ev != nil && x != nil && engine.SameValue(x, ev) && !l.Pos {
							return true
						}
						return false
					}),
					Target: func(x ssa.Instruction) bool { return derefs(x, v) }}.Find()
				r.Check(rule, c, p.InstrPos(call), w == nil, "nil-tested before every dereference", "the result of "+Short(k)+" can be nil without an error (absent) and is dereferenced at "+func() string {
					if w != nil {
						return p.InstrPos(w.Instr)
					}
					return ""
				}()+" on a path that never tested it: the 'not found / not ours' case panics instead of being skipped")
			}
		}
	}
	r.Floor(rule, 15)
	_ = n
}

var derefParamCache = map[string]int{}

// derefsParamUnguarded: on some path from h's entry, parameter j is dereferenced
// (directly, or by a module callee it is handed to) without a nil test of it.
func derefsParamUnguarded(h *ssa.Function, j int, depth int) bool {
	if h == nil || len(h.Blocks) == 0 || j >= len(h.Params) || depth > 2 {
		return false
	}
	key := FK(h) + "#" + sf("%d", j)
	if v, ok := derefParamCache[key]; ok {
		return v == 1
	}
	derefParamCache[key] = 0
	par0 := ssa.Value(h.Params[j])
	if !isNillableT(par0.Type()) {
		return false
	}
	// the parameter and what it is when taken out of its interface wrapper (obj.(*T)): a nil *T inside a
	// non-nil interface passes the assertion
	alias := map[ssa.Value]bool{par0: true}
	for _, b := range h.Blocks {
		for _, in := range b.Instrs {
			switch y := in.(type) {
			case *ssa.TypeAssert:
				if alias[y.X] {
					alias[y] = true
				}
			case *ssa.Extract:
				if ta, ok := y.Tuple.(*ssa.TypeAssert); ok && y.Index == 0 && alias[ta.X] {
					alias[y] = true
				}
			case *ssa.ChangeInterface:
				if alias[y.X] {
					alias[y] = true
				}
			}
		}
	}
	isPar := func(v ssa.Value) bool { return alias[v] }
	w := engine.Query{Fn: h, From: []engine.Point{{B: h.Blocks[0], I: 0}},
		CutEdge: func(b *ssa.BasicBlock, i int, l *Lit) bool {
			if l == nil {
				return false
			}
			x, _, isT := l.NilTest()
			return isT && isPar(x)
		},
		Target: func(x ssa.Instruction) bool {
			switch y := x.(type) {
			case *ssa.FieldAddr:
				return isPar(y.X)
			case *ssa.Field:
				return isPar(y.X)
			case *ssa.UnOp:
				return y.Op == token.MUL && isPar(y.X)
			case *ssa.MapUpdate:
				return isPar(y.Map)
			case ssa.CallInstruction:
				cc := y.Common()
				if cc.IsInvoke() {
					return isPar(cc.Value) && cc.Value == par0
				}
				g := engine.StaticFn(cc)
				if g == nil {
					return false
				}
				for k, a := range cc.Args {
					if !isPar(a) && !isPar(unwrapIface(a)) {
						continue
					}
					if k == 0 && g.Signature.Recv() != nil {
						if _, isPtr := g.Signature.Recv().Type().Underlying().(*types.Pointer); isPtr && !guardsNilReceiver(g) {
							return true
						}
					}
					if strings.HasPrefix(FK(g), engine.ModPrefix) && g != h && derefsParamUnguarded(g, k, depth+1) {
						return true
					}
				}
			}
			return false
		}}.Find()
	if w != nil {
		derefParamCache[key] = 1
		return true
	}
	return false
}

func unwrapIface(v ssa.Value) ssa.Value {
	for i := 0; i < 4; i++ {
		switch x := v.(type) {
		case *ssa.MakeInterface:
			v = x.X
		case *ssa.ChangeInterface:
			v = x.X
		case *ssa.ChangeType:
			v = x.X
		default:
			return v
		}
	}
	return v
}

// sameOrPhiOf: x is ev, or the variable ev was assigned to on one of several arms (`a, err = f()` in
// both arms of an if, tested once after them).
func sameOrPhiOf(x, ev ssa.Value) bool {
	if engine.SameValue(x, ev) {
		return true
	}
	if ph, ok := engine.ResolveLocal(x).(*ssa.Phi); ok {
		for _, e := range ph.Edges {
			if engine.SameValue(e, ev) {
				return true
			}
		}
	}
	return false
}

// optionalFieldsChecked: a pointer-typed field of an API type (metacontroller
// v1alpha1) that the schema marks optional (`omitempty`) is absent — nil — for
// an ordinary, valid configuration. Every load of such a field, in any module
// function outside the generated code, is nil-tested on every path to a
// dereference of the loaded value (directly, or by a callee it is handed to).
func optionalFieldsChecked(r *Report, p *Program, rule string, floor int) {
	r.Rule(rule, "optional API fields (pointer-typed, package apis/metacontroller/v1alpha1 — controller specs and hook answers) are nil-tested on every path from the load to a dereference, also through callees the value is handed to")
	optional := func(fa *ssa.FieldAddr) (string, bool) {
		pt, ok := fa.X.Type().Underlying().(*types.Pointer)
		if !ok {
			return "", false
		}
		nm, _ := pt.Elem().(*types.Named)
		st, ok := pt.Elem().Underlying().(*types.Struct)
		if !ok || nm == nil || nm.Obj().Pkg() == nil || !strings.HasSuffix(nm.Obj().Pkg().Path(), "/pkg/apis/metacontroller/v1alpha1") {
			return "", false
		}
		fld := st.Field(fa.Field)
		if _, isPtr := fld.Type().Underlying().(*types.Pointer); !isPtr {
			return "", false
		}
		// (with or without omitempty: a pointer field is nil whenever the JSON leaves it out or says null —
		// hook answers such as RelatedResourceRule's embedded *LabelSelector included)
		return nm.Obj().Name() + "." + fld.Name(), true
	}
	ord := map[string]int{}
	n := 0
	for _, f := range p.Scanned {
		k := FK(f)
		if !strings.HasPrefix(k, engine.ModPrefix) || strings.Contains(k, "/pkg/client/generated") || strings.Contains(k, "zzmcvetcontrols") || strings.Contains(k, "/pkg/apis/") {
			continue
		}
		for _, b := range f.Blocks {
			for _, in := range b.Instrs {
				ld, isLd := in.(*ssa.UnOp)
				if !isLd || ld.Op != token.MUL {
					continue
				}
				fa, isFA := ld.X.(*ssa.FieldAddr)
				if !isFA {
					continue
				}
				name, opt := optional(fa)
				if !opt {
					continue
				}
				key := Short(k) + "→" + name
				c := sf("%s#%d", key, ord[key])
				ord[key]++
				n++
				v := ssa.Value(ld)
				// the same field read again and tested counts as a test of this load (no CSE in go/ssa)
				same := func(x ssa.Value) bool {
					if x == v {
						return true
					}
					if u, ok := x.(*ssa.UnOp); ok && u.Op == token.MUL {
						if fa2, ok := u.X.(*ssa.FieldAddr); ok && fa2.Field == fa.Field && engine.SameValue(fa2.X, fa.X) {
							return true
						}
					}
					return false
				}
				var at ssa.Instruction
				// backward: was the field already tested on every path to this load?
				atom := "(" + E(v) + " == nil)"
				pre := unguarded(f, []engine.Point{{B: f.Blocks[0]}}, ld, func(l Lit) bool {
					if l.Atom == atom && !l.Pos {
						return true
					}
					x, isNil, isT := l.NilTest()
					return isT && !isNil && x != nil && same(x)
				})
				if pre == nil {
					r.Check(rule, c, p.InstrPos(ld), true, "loaded behind a nil test of the same field", "")
					continue
				}
				w := engine.Query{Fn: f, From: []engine.Point{engine.After(ld)}, CutInstr: func(x ssa.Instruction) bool { return x == ssa.Instruction(ld) },
					CutEdge: guardCut(func(l Lit) bool {
						if l.Atom == atom {
							return true
						}
						x, _, isT := l.NilTest()
						return isT && x != nil && same(x)
					}),
					Target: func(x ssa.Instruction) bool {
						if derefs(x, v) {
							at = x
							return true
						}
						return false
					}}.Find()
				where := ""
				if at != nil {
					where = p.InstrPos(at)
				}
				r.Check(rule, c, p.InstrPos(ld), w == nil, "nil-tested before every dereference", "optional field "+name+" is nil when the configuration leaves it out; it is dereferenced at "+where+" on a path that never tested it: a valid configuration without it panics the worker")
			}
		}
	}
	r.Floor(rule, floor)
}

// locksReleased: every Lock/RLock in a module function is released — by the
// matching Unlock/RUnlock or a deferred one — on every path to a return and
// before the same mutex is acquired again (sync mutexes are not reentrant; a
// leaked lock blocks every other worker that shares the mutex for good).
func locksReleased(r *Report, p *Program, rule string, floor int) {
	r.Rule(rule, "every Lock/RLock is followed on every path to a return, and to any further acquisition of the same mutex, by the matching Unlock/RUnlock (or a deferred one)")
	ord := map[string]int{}
	for _, f := range p.Scanned {
		k := FK(f)
		if !strings.HasPrefix(k, engine.ModPrefix) || strings.Contains(k, "/pkg/client/generated") || strings.Contains(k, "zzmcvetcontrols") {
			continue
		}
		for _, b := range f.Blocks {
			for _, in := range b.Instrs {
				call, isCall := in.(*ssa.Call)
				if !isCall {
					continue
				}
				m, op := engine.MutexOp(call.Common())
				if op != "lock" && op != "rlock" {
					continue
				}
				want := "unlock"
				if op == "rlock" {
					want = "runlock"
				}
				key := Short(k) + "→" + op + "(" + m + ")"
				c := sf("%s#%d", key, ord[key])
				ord[key]++
				var at ssa.Instruction
				what := ""
				w := engine.Query{Fn: f, From: []engine.Point{engine.After(call)},
					CutInstr: func(x ssa.Instruction) bool {
						switch y := x.(type) {
						case *ssa.Call:
							m2, op2 := engine.MutexOp(y.Common())
							return m2 == m && op2 == want
						case *ssa.Defer:
							m2, op2 := engine.MutexOp(y.Common())
							return m2 == m && op2 == want
						}
						return false
					},
					Target: func(x ssa.Instruction) bool {
						switch y := x.(type) {
						case *ssa.Return:
							at, what = x, "the function returns"
							return true
						case *ssa.Call:
							if m2, op2 := engine.MutexOp(y.Common()); m2 == m && (op2 == "lock" || op2 == "rlock") {
								at, what = x, "the same mutex is acquired again"
								return true
							}
						}
						return false
					}}.Find()
				why := ""
				if w != nil && at != nil {
					why = sf("%s taken here is still held when %s at %s: every other goroutine that needs %s blocks for good", op, what, p.InstrPos(at), m)
				}
				r.Check(rule, c, p.InstrPos(call), w == nil, "released on every path", why)
			}
		}
	}
	r.Floor(rule, floor)
}

// resultKeptOnSuccess: where the result of v, err := f(…) is merged with a
// fallback value (v = fallback on one branch), the merged value is v on the
// success side: the edge that carries v into the merge is reachable without
// crossing 'err != nil'. An inverted test hands the fallback to the success
// case and the failed call's (nil) result to the failure case.
func resultKeptOnSuccess(r *Report, p *Program, rule string, floor int) {
	r.Rule(rule, "sync paths: where a call's result is merged with a fallback, the result (not the fallback) is what flows on when the call succeeded")
	fns := syncPathFns(p)
	ord := map[string]int{}
	for _, f := range p.Scanned {
		if !fns[f] {
			continue
		}
		for _, b := range f.Blocks {
			for _, in := range b.Instrs {
				ph, isPhi := in.(*ssa.Phi)
				if !isPhi {
					continue
				}
				for i, e := range ph.Edges {
					ex, isEx := e.(*ssa.Extract)
					if !isEx || ex.Index != 0 {
						continue
					}
					call, isCall := ex.Tuple.(*ssa.Call)
					if !isCall {
						continue
					}
					ev := engine.ErrValue(call)
					if ev == nil {
						continue
					}
					// is the error tested at all between the call and the merge? (else not this rule's business)
					tested := false
					for _, bb := range f.Blocks {
						for j := range bb.Succs {
							if l, ok := engine.EdgeLit(bb, j); ok {
								if x, _, isT := l.NilTest(); isT && engine.SameValue(x, ev) {
									tested = true
								}
							}
						}
					}
					if !tested {
						continue
					}
					pred := b.Preds[i]
					key := Short(FK(f)) + "→" + Short(engine.CallKey(call.Common()))
					c := sf("%s#%d[result-kept]", key, ord[key])
					ord[key]++
					w := engine.Query{Fn: f, From: []engine.Point{engine.After(call)},
						CutInstr: func(x ssa.Instruction) bool { return x == ssa.Instruction(call) },
						CutEdge: func(bb *ssa.BasicBlock, j int, l *Lit) bool {
							if bb.Succs[j] == b && bb != pred {
								return true
							}
							if l != nil {
								if x, isNil, isT := l.NilTest(); isT && !isNil && engine.SameValue(x, ev) {
									return true // failure side
								}
							}
							return false
						},
						Target: func(x ssa.Instruction) bool { return x == ssa.Instruction(ph) }}.Find()
					r.Check(rule, c, p.InstrPos(call), w != nil, "the call's result flows on when it succeeded", "the result of "+Short(engine.CallKey(call.Common()))+" reaches the merge at "+p.InstrPos(ph)+" only on the failure side ('err != nil'), and the fallback replaces it when the call succeeded: the test is inverted")
				}
			}
		}
	}
	r.Floor(rule, floor)
}

// isZeroStruct: v is the load of a local struct that is never written (T{}).
func isZeroStruct(v ssa.Value) bool {
	if c, isC := v.(*ssa.Const); isC && c.Value == nil {
		_, isS := c.Type().Underlying().(*types.Struct)
		return isS
	}
	u, ok := v.(*ssa.UnOp)
	if !ok || u.Op != token.MUL {
		return false
	}
	al, ok := u.X.(*ssa.Alloc)
	if !ok || al.Heap {
		return false
	}
	if _, isS := al.Type().(*types.Pointer).Elem().Underlying().(*types.Struct); !isS {
		return false
	}
	if al.Referrers() == nil {
		return true
	}
	for _, r := range *al.Referrers() {
		if r != ssa.Instruction(u) {
			if _, isLoad := r.(*ssa.UnOp); !isLoad {
				return false
			}
		}
	}
	return true
}

// blankErrorLHS: the call is the right-hand side of an assignment whose last left-hand side is '_'
// (go/ssa emits an Extract for it all the same when the statement is '=' rather than ':=').
func blankErrorLHS(f *ssa.Function, call *ssa.Call) bool {
	root := f.Syntax()
	if root == nil {
		return false
	}
	blank := false
	ast.Inspect(root, func(n ast.Node) bool {
		as, ok := n.(*ast.AssignStmt)
		if !ok || len(as.Rhs) != 1 || len(as.Lhs) < 2 {
			return true
		}
		ce, ok := as.Rhs[0].(*ast.CallExpr)
		if !ok || ce.Lparen != call.Pos() {
			return true
		}
		if id, ok := as.Lhs[len(as.Lhs)-1].(*ast.Ident); ok && id.Name == "_" {
			blank = true
		}
		return false
	})
	return blank
}

// constantSlicesBounded: s[:N] / s[M:N] with a constant upper bound N on a string or slice whose length is not a
// constant is reached only across a test that establishes len(s) ≥ N (a slice bounds panic in a worker or in
// a reconciler takes the whole process down).
func constantSlicesBounded(r *Report, p *Program, rule string, floor int) {
	r.Rule(rule, "a constant-bound slice expression s[:N] is dominated by a comparison establishing len(s) ≥ N")
	ord := map[string]int{}
	for _, f := range p.Scanned {
		k := FK(f)
		if !strings.HasPrefix(k, engine.ModPrefix) || strings.Contains(k, "/pkg/client/generated") || strings.Contains(k, "zzmcvetcontrols") || strings.Contains(k, "/pkg/apis/") {
			continue
		}
		for _, b := range f.Blocks {
			for _, in := range b.Instrs {
				sl, isSl := in.(*ssa.Slice)
				if !isSl || sl.High == nil {
					continue
				}
				hc, isC := sl.High.(*ssa.Const)
				if !isC || hc.Value == nil || hc.Value.Kind() != constant.Int {
					continue
				}
				n, _ := constant.Int64Val(hc.Value)
				if n <= 0 {
					continue
				}
				if pt, isP := sl.X.Type().Underlying().(*types.Pointer); isP {
					if _, isArr := pt.Elem().Underlying().(*types.Array); isArr {
						continue // array: length known to the compiler
					}
				}
				if _, isConstX := sl.X.(*ssa.Const); isConstX {
					continue
				}
				key := Short(k) + "→slice(" + E(sl.X) + ")[:" + hc.Value.String() + "]"
				c := sf("%s#%d", key, ord[key])
				ord[key]++
				lenOf := func(v ssa.Value) bool {
					cl, isCall := v.(*ssa.Call)
					return isCall && engine.CallKey(cl.Common()) == "builtin.len" && len(cl.Common().Args) == 1 && engine.SameValue(cl.Common().Args[0], sl.X)
				}
				w := unguarded(f, nil, in, func(l Lit) bool {
					if l.X == nil || l.Y == nil {
						return false
					}
					var lower int64 = -1
					cx, xConst := l.X.(*ssa.Const)
					cy, yConst := l.Y.(*ssa.Const)
					switch {
					case xConst && cx.Value != nil && cx.Value.Kind() == constant.Int && lenOf(l.Y): // a OP len
						a, _ := constant.Int64Val(cx.Value)
						switch {
						case l.Op == token.LSS && l.Pos:
							lower = a + 1
						case l.Op == token.LEQ && l.Pos:
							lower = a
						case l.Op == token.GTR && !l.Pos: // !(a > len) ⇒ len ≥ a
							lower = a
						case l.Op == token.GEQ && !l.Pos: // !(a ≥ len) ⇒ len > a
							lower = a + 1
						}
					case yConst && cy.Value != nil && cy.Value.Kind() == constant.Int && lenOf(l.X): // len OP a
						a, _ := constant.Int64Val(cy.Value)
						switch {
						case l.Op == token.GTR && l.Pos:
							lower = a + 1
						case l.Op == token.GEQ && l.Pos:
							lower = a
						case l.Op == token.LSS && !l.Pos:
							lower = a
						case l.Op == token.LEQ && !l.Pos:
							lower = a + 1
						}
					}
					return lower >= n
				})
				r.Check(rule, c, p.InstrPos(in), w == nil, "length established before slicing", sf("%s[:%d] is reached on a path that has not established len ≥ %d: shorter values panic (slice bounds out of range)", E(sl.X), n, n))
			}
		}
	}
	r.Floor(rule, floor)
}

// retriesReallyRetry: every retry.RetryOnConflict in the module is given a backoff that allows more than one
// attempt: client-go's own DefaultRetry/DefaultBackoff, or a module-level wait.Backoff whose Steps is a constant ≥ 2
// (Steps counts attempts, not retries).
func retriesReallyRetry(r *Report, p *Program, rule string, floor int) {
	r.Rule(rule, "every RetryOnConflict uses retry.DefaultRetry/DefaultBackoff or a backoff with constant Steps ≥ 2")
	ord := map[string]int{}
	stepsOf := func(g *ssa.Global) (int64, bool) {
		// the package initializer stores the literal's fields
		init := g.Pkg.Func("init")
		if init == nil {
			return 0, false
		}
		for _, b := range init.Blocks {
			for _, in := range b.Instrs {
				st, isS := in.(*ssa.Store)
				if !isS {
					continue
				}
				// var x = retry.DefaultBackoff / retry.DefaultRetry: a copy of client-go's own (4 resp. 5 attempts)
				if st.Addr == ssa.Value(g) {
					if u, isU := st.Val.(*ssa.UnOp); isU && u.Op == token.MUL {
						if g2, isG := u.X.(*ssa.Global); isG && g2.Pkg != nil && strings.HasSuffix(g2.Pkg.Pkg.Path(), "client-go/util/retry") {
							return 4, true
						}
					}
				}
				fa, isFA := st.Addr.(*ssa.FieldAddr)
				if !isFA || fa.X != ssa.Value(g) || fieldName(fa) != "Steps" {
					continue
				}
				if c, isC := st.Val.(*ssa.Const); isC && c.Value != nil && c.Value.Kind() == constant.Int {
					n, _ := constant.Int64Val(c.Value)
					return n, true
				}
			}
		}
		return 0, false
	}
	for _, f := range p.Scanned {
		k := FK(f)
		if !strings.HasPrefix(k, engine.ModPrefix) || strings.Contains(k, "/pkg/client/generated") || strings.Contains(k, "zzmcvetcontrols") {
			continue
		}
		for _, cs := range callsTo(f, false, "util/retry.RetryOnConflict", "util/retry.OnError") {
			key := Short(k) + "→RetryOnConflict"
			c := sf("%s#%d", key, ord[key])
			ord[key]++
			a := cs.Common().Args[0]
			ok, why := false, "the backoff is "+E(a)+": not recognisably one that allows a second attempt"
			if u, isU := a.(*ssa.UnOp); isU && u.Op == token.MUL {
				if al, isAl := u.X.(*ssa.Alloc); isAl {
					// a backoff literal built in place
					if refs := al.Referrers(); refs != nil {
						for _, rf := range *refs {
							if fa, isFA := rf.(*ssa.FieldAddr); isFA && fieldName(fa) == "Steps" && fa.Referrers() != nil {
								for _, rs := range *fa.Referrers() {
									if st, isS := rs.(*ssa.Store); isS {
										if c, isC := st.Val.(*ssa.Const); isC && c.Value != nil && c.Value.Kind() == constant.Int {
											n, _ := constant.Int64Val(c.Value)
											ok = n >= 2
											why = sf("the backoff literal has Steps = %d: Steps counts attempts, so a single conflict is final", n)
										}
									}
								}
							}
						}
					}
				}
				if g, isG := u.X.(*ssa.Global); isG {
					if g.Pkg != nil && strings.HasSuffix(g.Pkg.Pkg.Path(), "client-go/util/retry") {
						ok = true
					} else if n, found := stepsOf(g); found {
						ok = n >= 2
						why = sf("the backoff %s has Steps = %d: Steps counts attempts, so the write is tried once and a single conflict is final (no re-read, no retry)", g.Name(), n)
					}
				}
			}
			r.Check(rule, c, p.InstrPos(cs.Instr), ok, "backoff allows a retry", why)
		}
	}
	r.Floor(rule, floor)
}
