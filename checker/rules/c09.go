package rules

import (
	"go/constant"
	"go/token"
	"sort"
	"strings"

	"mcvet/engine"

	"golang.org/x/tools/go/ssa"
)

func init() {
	Registry["C09"] = checkC09
}

func checkC09(r *Report, p *Program) {
	r.Explanation = "Decides the ordering clause of the property on the CFG and call graph: (R09.1) in the composite sync entry ManageChildren is reachable only after syncRevisions succeeded; inside syncRevisions every non-error return on the rolling path passes manageRevisions' success edge, which itself follows syncRollingUpdate and receives the pruned revision list; (R09.2) in manageRevisions every ControllerRevision write aborts the function with an error on failure — no swallowing, no continue; (R09.3) no call that can execute before ManageChildren reaches a child write (dynamic-client writes outside the read-modify-write helpers used for ownership/finalizer edits); (R09.4) revision names depend only on parameters (no time, randomness, map order, globals) and hash parent UID + patch; (R09.5) claim reconciliation: latest revision first, a name already claimed is skipped, and the filtered name list is what is persisted."
	r.NotDecided = "equivalence of a crashed-and-resumed run with an uninterrupted one; what the API server accepted."
	var comp *syncEntry
	for _, e := range syncEntries(r, p, "R09.1") {
		if e.Kind == "composite" {
			e := e
			comp = &e
		}
	}
	if comp == nil {
		r.Fail("R09.1", "composite sync entry", "-", "anchor-lost", "composite caller of ManageChildren not found")
		return
	}
	r09_1(r, p, comp)
	r09_2(r, p)
	r09_3(r, p, comp)
	r09_4(r, p)
	r09_5(r, p)
	claimMovePairing(r, p, "R09.6")
	revisionCopies(r, p, "R09.7")
	keyCompleteness(r, p, "R09.8", "claimMapKey")
	// the children the sync drives are those the persisted revisions record, at the recorded revision (shared with C07)
	r07_5(r, p)
	// a failed sync comes back: error ⇒ rate-limited requeue, never Forget (shared with C12)
	r12_3(r, p)
	r09_10(r, p)
	objectMapContracts(r, p, "R09.11")
	r09_tables(r, p, "R09.12")
	r09_recordSet(r, p, "R09.13")
	claimKeepTable(r, p, "R09.14")
	claimsTables(r, p, "R09.17")
	copyIfFound(r, p, "R09.18")
	freshDecodeTargets(r, p, "R09.20")
	operandFromTheLoop(r, p, "R09.21")
	patchHelpersTable(r, p, "R09.22")
	materialisedRevisionAppended(r, p, "R09.23")
	// a revision whose recorded claims changed in any way (names added OR removed) is written (shared with C01)
	r01_revisions(r, p)
	anyRollingTable(r, p, "R09.19")
	revisionLabelsAgree(r, p, "R09.15")
	// building a revision (its name is cut to length) cannot panic the worker
	constantSlicesBounded(r, p, "R09.16", 1)
	// children are managed for a dying parent exactly when syncRevisions handled its revisions (ShouldFinalize on both sides) — shared with C10
	r10_4(r, p, syncEntries(r, p, "R10.1"))
	// a failed claim / revision write stops the sync before children are reconciled from an incomplete view (R12.1 on the revision code)
	errorRule(r, p, "R09.9", 8, func(f *ssa.Function) bool {
		file := p.File(f)
		return strings.HasSuffix(file, "composite/controller_revision.go") || strings.HasSuffix(file, "composite/rolling_update.go") || strings.HasSuffix(file, "controllerref/controller_revision.go")
	})
}

func r09_1(r *Report, p *Program, e *syncEntry) {
	const rule = "R09.1"
	r.Rule(rule, "revisions are persisted (successfully) before any child is managed")
	r.Floor(rule, 5)
	f := e.Fn
	if e.Hook == nil || !strings.HasSuffix(e.Hook.Key, ".syncRevisions") {
		r.Check(rule, FK(f)+"[syncRevisions]", p.Pos(f.Pos()), false, "", "composite sync entry does not call syncRevisions")
		return
	}
	w := notAfterSuccess(f, e.Hook.Instr, e.Manage.Instr.(ssa.Instruction))
	r.Check(rule, FK(f)+"[syncRevisions≺ManageChildren]", p.InstrPos(e.Manage.Instr), w == nil, "ManageChildren only after syncRevisions returned nil error", "ManageChildren reachable without a successful syncRevisions; "+pathWhy(w))
	// desired children handed to ManageChildren derive from syncRevisions' result
	res := engine.ResultValue(e.Hook.Instr, 0)
	okD := res != nil && engine.BackSlice(e.Manage.Common().Args[4], func(x ssa.Value) bool { return x == res }, engine.HasSuffix("MakeUniformObjectMap"))
	r.Check(rule, FK(f)+"[desired←syncRevisions]", p.InstrPos(e.Manage.Instr), okD, "desired children come from the aggregated revision result", "ManageChildren's desired children do not derive from syncRevisions' result")

	sr := fn(r, p, rule, "controller/composite.parentController.syncRevisions")
	if sr == nil {
		return
	}
	mrs := callsTo(sr, false, ".manageRevisions")
	sru := callsTo(sr, false, ".syncRollingUpdate")
	if len(mrs) != 1 || len(sru) != 1 {
		r.Fail(rule, FK(sr), p.Pos(sr.Pos()), "anchor-lost", sf("expected one manageRevisions and one syncRollingUpdate call, found %d/%d", len(mrs), len(sru)))
		return
	}
	mr := mrs[0]
	succ := successEdgeOf(mr.Instr)
	wq := engine.Query{Fn: sr,
		Target: func(in ssa.Instruction) bool { rt, ok := in.(*ssa.Return); return ok && !isErrReturn(rt) },
		CutEdge: func(b *ssa.BasicBlock, i int, l *Lit) bool {
			if l == nil {
				return false
			}
			if succ(*l) {
				return true
			}
			if !l.Pos && strings.Contains(l.Atom, "updateStrategyMap.anyRolling)(") {
				return true
			}
			return !l.Pos && isShouldFinalizeLit(*l)
		}}.Find()
	r.Check(rule, FK(sr)+"[rolling⇒manageRevisions-ok≺return]", p.InstrPos(mr.Instr), wq == nil, "on the rolling path every non-error return follows a successful manageRevisions", "syncRevisions can return a result on the rolling path without ControllerRevisions having been persisted; "+pathWhy(wq))
	w2 := notAfterSuccess(sr, sru[0].Instr, mr.Instr.(ssa.Instruction))
	r.Check(rule, FK(sr)+"[syncRollingUpdate≺manageRevisions]", p.InstrPos(mr.Instr), w2 == nil, "revisions are written after the rollout step was computed", "manageRevisions reachable without a successful syncRollingUpdate; "+pathWhy(w2))
	des := mr.Arg(2)
	okP := engine.DependsOnCall(des, engine.HasSuffix("composite.pruneParentRevisions"), nil) != nil
	r.Check(rule, FK(sr)+"[desired-revisions←prune]", p.InstrPos(mr.Instr), okP, "desired revisions are the pruned list", "desired revisions handed to manageRevisions do not come from pruneParentRevisions")
	// the aggregation of children happens after manageRevisions
	for i, cs := range callsTo(sr, false, "RelativeObjectMap.ReplaceObjectIfExists", "RelativeObjectMap.List") {
		w := notAfterSuccess(sr, mr.Instr, cs.Instr.(ssa.Instruction))
		r.Check(rule, sf("%s→%s#%d[after-persist]", FK(sr), Short(cs.Key), i), p.InstrPos(cs.Instr), w == nil, "child assignment is computed from persisted revisions", "desired children are aggregated before the revisions are persisted; "+pathWhy(w))
	}
}

// failureAborts: on the err!=nil edge of call, the function returns a fresh
// error without reaching any of `forbidden` (further writes, loop headers).
func failureAborts(p *Program, f *ssa.Function, call ssa.CallInstruction, forbidden func(in ssa.Instruction) bool) (bool, string) {
	ev := engine.ErrValue(call)
	if ev == nil {
		return false, "the call's error result is discarded"
	}
	var from []engine.Point
	for _, b := range engine.BlocksInl(f) {
		for i := range b.Succs {
			if l, ok := engine.EdgeLit(b, i); ok {
				if v, isNil, ok := l.NilTest(); ok && !isNil && engine.SameValue(v, ev) {
					from = append(from, engine.Point{B: b.Succs[i]})
				}
			}
		}
	}
	if len(from) == 0 {
		return false, "the call's error is never tested"
	}
	w := engine.Query{Fn: f, From: from, Target: func(in ssa.Instruction) bool {
		if forbidden != nil && forbidden(in) {
			return true
		}
		rt, isR := in.(*ssa.Return)
		return isR && !isErrReturn(rt) && !returnsValue(rt, ev)
	}}.Find()
	if w != nil {
		return false, "after the call failed, execution continues to " + p.InstrPos(w.Instr) + " instead of aborting with the error; " + pathWhy(w)
	}
	return true, ""
}

func returnsValue(rt *ssa.Return, ev ssa.Value) bool {
	idx := engine.ErrorResultIndex(rt.Parent())
	return idx >= 0 && engine.SameValue(rt.Results[idx], ev)
}

func r09_2(r *Report, p *Program) {
	const rule = "R09.2"
	r.Rule(rule, "manageRevisions: every revision write aborts with an error on failure")
	r.Floor(rule, 3)
	f := fn(r, p, rule, "controller/composite.parentController.manageRevisions")
	if f == nil {
		return
	}
	loops := engine.RangeLoops(f)
	for _, s := range engine.Sinks([]*ssa.Function{f}) {
		ok, why := failureAborts(p, f, s.Instr, func(in ssa.Instruction) bool {
			if isSinkInstr(in) {
				return true
			}
			for _, l := range loops {
				if in.Block() == l.Header {
					return true
				}
			}
			return false
		})
		r.Check(rule, s.Construct(), p.InstrPos(s.Instr), ok, "failure ⇒ immediate error return (no aggregation, no continue)", why)
	}
	// every revision sink reachable from the composite sync lives in manageRevisions or in the ownership helpers
	for _, s := range engine.Sinks(p.Scanned) {
		if s.Iface != "rev" || s.Fn == f {
			continue
		}
		k := FK(s.Fn)
		ok := strings.Contains(k, "dynamic/controllerref.") || strings.Contains(k, "controllerRevisions.UpdateWithRetries")
		r.Check(rule, s.Construct()+"[who-may-write-revisions]", p.InstrPos(s.Instr), ok, "revision writes happen only in manageRevisions and the adopt/release helpers", "ControllerRevision write outside manageRevisions / ownership helpers")
	}
}

func r09_3(r *Report, p *Program, e *syncEntry) {
	const rule = "R09.3"
	r.Rule(rule, "nothing that can run before ManageChildren reaches a child write")
	r.Floor(rule, 5)
	f := e.Fn
	mc := e.Manage.Instr.(ssa.Instruction)
	g := p.CG()
	sinksByFn := map[*ssa.Function][]engine.Sink{}
	for _, s := range engine.Sinks(p.Scanned) {
		sinksByFn[s.Fn] = append(sinksByFn[s.Fn], s)
	}
	n := 0
	for _, b := range engine.BlocksInl(f) {
		for _, in := range b.Instrs {
			ci, ok := in.(ssa.CallInstruction)
			if !ok || in == mc {
				continue
			}
			// can this call execute before ManageChildren?
			if (engine.Query{Fn: f, From: []engine.Point{engine.After(in)}, Target: func(x ssa.Instruction) bool { return x == mc }}).Find() == nil {
				continue
			}
			callees := p.CalleesOf(ci)
			var mod []*ssa.Function
			for _, c := range callees {
				if strings.HasPrefix(FK(c), engine.ModPrefix) {
					mod = append(mod, c)
				}
			}
			if len(mod) == 0 {
				if isSinkInstr(in) {
					n++
					r.Check(rule, sf("%s→%s", FK(f), Short(engine.CallKey(ci.Common()))), p.InstrPos(in), false, "", "direct API write in the sync entry before ManageChildren")
				}
				continue
			}
			n++
			reach := g.ReachSet(mod...)
			ok2, why := true, ""
			for fn2 := range reach {
				for _, s := range sinksByFn[fn2] {
					if s.Iface == "dyn" && !strings.HasPrefix(FK(s.Fn), "metacontroller/pkg/dynamic/clientset.") {
						chain := g.PathTo(mod[0], func(x *ssa.Function) bool { return x == s.Fn })
						ok2, why = false, "reaches child write "+s.Construct()+" via "+strings.Join(chain, " → ")
					}
				}
			}
			r.Check(rule, sf("%s→%s[pre-manage]", FK(f), Short(engine.CallKey(ci.Common()))), p.InstrPos(in), ok2, "reaches no child write", why)
		}
	}
	if n < 5 {
		r.Fail(rule, FK(f), p.Pos(f.Pos()), "anchor-lost", sf("only %d calls precede ManageChildren", n))
	}
	// the RMW helpers themselves are only used for ownership / finalizer / status edits
	for _, s := range engine.Sinks(p.Scanned) {
		if s.Iface != "rc" || s.Verb != "AtomicUpdate" {
			continue
		}
		k := FK(s.Fn)
		ok := strings.HasSuffix(k, "controllerref.atomicUpdate") || strings.Contains(k, "clientset.ResourceClient.")
		r.Check(rule, s.Construct()+"[AtomicUpdate-users]", p.InstrPos(s.Instr), ok, "AtomicUpdate used only by ownership and finalizer helpers", "AtomicUpdate used by "+Short(k)+": a content update could run before revisions are persisted")
	}
}

func r09_4(r *Report, p *Program) {
	const rule = "R09.4"
	r.Rule(rule, "controllerRevisionName/Hash are functions of their parameters only; the hash covers parent UID and patch")
	r.Floor(rule, 3)
	name := fn(r, p, rule, "controller/composite.controllerRevisionName")
	hash := fn(r, p, rule, "controller/composite.controllerRevisionHash")
	if name == nil || hash == nil {
		return
	}
	for fn2 := range p.CG().ReachSet(name) {
		if !strings.HasPrefix(FK(fn2), engine.ModPrefix) {
			continue
		}
		ok, why := true, ""
		for _, b := range engine.BlocksInl(fn2) {
			for _, in := range b.Instrs {
				switch x := in.(type) {
				case ssa.CallInstruction:
					k := engine.CallKey(x.Common())
					for _, bad := range []string{"time.", "math/rand", "crypto/rand", "os.", "github.com/google/uuid", "k8s.io/apimachinery/pkg/util/uuid", "k8s.io/apimachinery/pkg/util/rand"} {
						if strings.HasPrefix(k, bad) {
							ok, why = false, "calls "+k
						}
					}
				case *ssa.Range:
					if _, isMap := x.X.Type().Underlying().(interface{ Key() interface{} }); isMap {
						ok, why = false, "iterates over a map"
					}
					if strings.HasPrefix(x.X.Type().Underlying().String(), "map[") {
						ok, why = false, "iterates over a map (order is random)"
					}
				case *ssa.UnOp:
					if _, isG := x.X.(*ssa.Global); isG {
						ok, why = false, "reads global "+E(x.X)
					}
				}
			}
		}
		r.Check(rule, FK(fn2)+"[pure]", p.Pos(fn2.Pos()), ok, "no time/randomness/map order/global input", why)
	}
	// hash covers both parameters
	covered := map[int]bool{}
	for _, cs := range callsTo(hash, false, "hash.Hash.Write", "io.Writer.Write") {
		for i, prm := range hash.Params {
			if engine.DependsOnValue(cs.Arg(0), prm, nil) {
				covered[i] = true
			}
		}
	}
	okH := covered[0] && covered[1] && len(hash.Params) == 2
	r.Check(rule, FK(hash)+"[covers uid+patch]", p.Pos(hash.Pos()), okH, "both parent UID and patch data are hashed", "the revision hash does not cover both the parent UID and the patch")
	// name uses hash(UID(parent), patchData)
	okN := false
	for _, cs := range callsTo(name, false, "composite.controllerRevisionHash") {
		if len(cs.Common().Args) != 2 {
			continue
		}
		a0, a1 := E(cs.Common().Args[0]), E(cs.Common().Args[1])
		okN = strings.Contains(a0, "GetUID)(p1)") && a1 == "p2"
	}
	r.Check(rule, FK(name)+"[hash(uid,patch)]", p.Pos(name.Pos()), okN, "name = prefix-hash(parent UID, patch)", "revision name is not derived from hash(parent UID, patch)")
	// newControllerRevision: Name = controllerRevisionName(…, parent, json.Marshal(patch))
	if ncr := fn(r, p, rule, "controller/composite.parentController.newControllerRevision"); ncr != nil {
		ok := false
		for _, cs := range callsTo(ncr, false, "composite.controllerRevisionName") {
			ok = E(cs.Common().Args[1]) == "p1" && strings.Contains(E(cs.Common().Args[2]), "json.Marshal)(p2)#0")
		}
		r.Check(rule, FK(ncr)+"[name-from-patch]", p.Pos(ncr.Pos()), ok, "new revision named by (parent, marshalled patch)", "new revision's name is not controllerRevisionName(parent, marshal(patch))")
	}
}

func r09_5(r *Report, p *Program) {
	const rule = "R09.5"
	r.Rule(rule, "syncRevisionClaims: latest first; a name already claimed is neither claimed again nor kept; what is persisted is the filtered list")
	r.Floor(rule, 3)
	f := fn(r, p, rule, "controller/composite.parentController.syncRevisionClaims")
	if f == nil {
		return
	}
	loops := engine.RangeLoops(f)
	var outer, inner *engine.RangeLoop
	for _, l := range loops {
		x := E(l.X)
		if x == "p1" {
			outer = l
		}
		if strings.HasSuffix(x, ".Names") {
			inner = l
		}
	}
	if outer == nil || inner == nil {
		r.Fail(rule, FK(f), p.Pos(f.Pos()), "anchor-lost", "expected a loop over the revisions (parameter order = precedence) and one over each kind's Names")
		return
	}
	r.Check(rule, FK(f)+"[revisions-in-parameter-order]", p.Pos(f.Pos()), !strings.HasPrefix(E(outer.X), "slice("), "outer loop ranges over the whole revision slice, latest (index 0) first", "outer loop skips revisions")
	// callers pass the slice whose element 0 is latest: checked where syncRollingUpdate indexes [0]
	// inner loop: on 'already claimed' no claim and no keep
	paths, err := engine.EnumPaths(f, engine.EnumOpts{Start: inner.Body, Leave: func(b *ssa.BasicBlock) bool { return b == inner.Header || b == inner.Exit },
		Effect: func(in ssa.Instruction) bool {
			if _, ok := in.(*ssa.MapUpdate); ok {
				return true
			}
			return isCallTo(in, "builtin.append")
		}})
	if err != nil {
		r.Fail(rule, FK(f), p.Pos(f.Pos()), "undecided", err.Error())
		return
	}
	exists := func(a string) bool { return strings.HasPrefix(a, "makemap<") && strings.HasSuffix(a, "#1") }
	desiredNil := func(a string) bool {
		return strings.Contains(a, "FindGroupKindName)(p1[0].desiredChildMap") && strings.HasSuffix(a, " == nil)")
	}
	ok, why := true, ""
	nClaim := 0
	for _, pa := range paths {
		hasClaim, hasKeep := false, false
		for _, e := range pa.Effects {
			if mu, isMU := e.(*ssa.MapUpdate); isMU {
				if strings.Contains(mu.Map.Type().String(), "parentRevision") && !strings.Contains(mu.Value.Type().String(), "map[") {
					hasClaim = true
				}
			} else {
				hasKeep = true
			}
		}
		if hasClaim {
			nClaim++
		}
		ex := val(pa, -1, exists)
		if ex == 0 {
			// the same test on a claim map that was looked up into a local first: any comma-ok map lookup of the name
			for _, lt := range pa.Lits {
				if lk, isL := lt.Cond.(*ssa.Extract); isL && lk.Index == 1 {
					if look, isLookup := lk.Tuple.(*ssa.Lookup); isLookup && look.CommaOk && strings.Contains(look.X.Type().String(), "parentRevision") {
						ex = -1
						if lt.Pos {
							ex = 1
						}
					}
				}
			}
		}
		dn := val(pa, -1, desiredNil)
		switch {
		case ex == 1 && (hasClaim || hasKeep):
			ok, why = false, "a child already claimed by an earlier (more recent) revision is claimed or kept again: ["+pa.Cond()+"]"
		case dn == 1 && (hasClaim || hasKeep):
			ok, why = false, "a child the latest revision no longer desires keeps its claim: ["+pa.Cond()+"]"
		case ex == -1 && dn == -1 && !(hasClaim && hasKeep):
			ok, why = false, "an unclaimed, still desired child is not (claimed and kept): ["+pa.Cond()+"]"
		case ex == 0 || dn == 0 && ex != 1:
			if dn != 1 {
				ok, why = false, "an iteration does not decide both 'still desired by latest' and 'already claimed': ["+pa.Cond()+"]"
			}
		}
	}
	if nClaim == 0 {
		ok, why = false, "no claim is ever recorded"
	}
	r.Check(rule, FK(f)+"[latest-wins]", p.Pos(f.Pos()), ok, "claim ⇔ still desired ∧ not yet claimed", why)
	// what is persisted: the element appended to the children list carries the filtered names
	var names ssa.Value
	for _, b := range engine.BlocksInl(f) {
		for _, in := range b.Instrs {
			if ms, isMS := in.(*ssa.MakeSlice); isMS && ms.Type().String() == "[]string" {
				names = ms
			}
		}
	}
	okP, whyP := names != nil, "no filtered name list is built"
	if okP {
		okP, whyP = false, "the ControllerRevisionChildren entries that are kept still carry their original Names: the filtered list (duplicates and no-longer-desired names dropped) is computed but never stored, so a stale duplicate claim is persisted and later overrides the latest revision's desired state for that child"
		for _, b := range engine.BlocksInl(f) {
			for _, in := range b.Instrs {
				c, isC := in.(*ssa.Call)
				if !isC || !isCallTo(in, "builtin.append") || !strings.Contains(c.Type().String(), "ControllerRevisionChildren") {
					continue
				}
				if engine.DependsOnValue(c.Common().Args[1], names, nil) {
					okP, whyP = true, ""
				}
			}
		}
	}
	r.Check(rule, FK(f)+"[filtered-names-persisted]", p.Pos(f.Pos()), okP, "kept entries carry the filtered Names", whyP)
	// pr.revision.Children is replaced by the rebuilt list
	okS := false
	for _, b := range engine.BlocksInl(f) {
		for _, in := range b.Instrs {
			if st, isS := in.(*ssa.Store); isS && strings.HasSuffix(E(st.Addr), ".revision.Children") && strings.Contains(E(st.Val), "append") {
				okS = true
			}
		}
	}
	r.Check(rule, FK(f)+"[children:=rebuilt]", p.Pos(f.Pos()), okS, "revision.Children replaced by the rebuilt list", "the rebuilt children list is not stored back into the revision")
}

// r09_10: two more structural facts of the revision bookkeeping.
func r09_10(r *Report, p *Program) {
	const rule = "R09.10"
	r.Rule(rule, "syncRevisionClaims keeps a kind's claims exactly when the kind's strategy is rolling; a new ControllerRevision is labelled from the parent's spec.template.metadata.labels (or controller-uid when the selector is generated)")
	r.Floor(rule, 2)
	if f := fn(r, p, rule, "controller/composite.parentController.syncRevisionClaims"); f != nil {
		var names *engine.RangeLoop
		for _, l := range engine.RangeLoops(f) {
			if strings.HasSuffix(E(l.X), ".Names") {
				names = l
			}
		}
		ok, why := names != nil, "no loop over a kind's recorded names"
		if ok {
			first := names.Header.Instrs[0]
			rolling := func(l Lit) bool {
				return l.Pos && strings.Contains(l.Atom, "updateStrategyMap.isRolling)(p0.updateStrategy, ") && strings.Contains(l.Atom, ".APIGroup") && strings.HasSuffix(l.Atom, ".Kind)")
			}
			if w := unguarded(f, nil, first, rolling); w != nil {
				ok, why = false, "the claims of a child kind are processed (kept) without the kind's strategy being a rolling one: when a kind is switched to InPlace/Recreate/OnDelete mid-rollout its claims stay on the old revision for ever, the old revision never drains and is never deleted; "+pathWhy(w)
			}
		}
		r.Check(rule, FK(f)+"[kind-kept⇔rolling]", p.Pos(f.Pos()), ok, "names are processed only across isRolling(group, kind)", why)
	}
	if f := fn(r, p, rule, "controller/composite.parentController.newControllerRevision"); f != nil {
		ok, why := false, "no NestedStringMap read of the parent's labels source"
		for _, cs := range callsTo(f, false, "unstructured.NestedStringMap") {
			var path []string
			if len(cs.Common().Args) == 2 {
				engine.BackSlice(cs.Common().Args[1], func(x ssa.Value) bool {
					if s, isC := constStr(x); isC {
						path = append(path, s)
					}
					return false
				}, nil)
			}
			sort.Strings(path)
			want := []string{"labels", "metadata", "spec", "template"}
			ok = strings.Join(path, ",") == strings.Join(want, ",") && strings.Contains(E(cs.Common().Args[0]), "UnstructuredContent)(p1)")
			if !ok {
				why = sf("the new revision's labels are read from %v of %s: claimRevisions selects revisions with the parent's selector (matchLabels AND matchExpressions), which the template labels satisfy by construction but another field need not — a revision that does not match is released right after it was created and every later sync fails on AlreadyExists", path, E(cs.Common().Args[0]))
			}
		}
		r.Check(rule, FK(f)+"[labels-source]", p.Pos(f.Pos()), ok, "labels := parent.spec.template.metadata.labels", why)
	}
}

// r09_tables: the decisions of syncRevisions, each in both directions.
func r09_tables(r *Report, p *Program, rule string) {
	r.Rule(rule, "syncRevisions decisions: single-hook shortcut ⇔ no rolling kind ∨ (parent deleting ∧ nothing to finalize); an observed revision becomes latest's record ⇔ its patch equals the current parent's, else a materialised older parent; a new revision is created ⇔ latest has none; the rollout goes on ⇔ no per-revision hook call failed; a revision is persisted ⇔ it exists after pruning")
	r.Floor(rule, 5)
	f := fn(r, p, rule, "controller/composite.parentController.syncRevisions")
	if f == nil {
		return
	}
	one := func(suf string) ssa.Instruction {
		cs := callsTo(f, false, suf)
		if len(cs) != 1 {
			return nil
		}
		return cs[0].Instr.(ssa.Instruction)
	}
	hook, claim, newRev, roll, manage := one("parentController.callHook"), one("parentController.claimRevisions"), one("parentController.newControllerRevision"), one("parentController.syncRollingUpdate"), one("parentController.manageRevisions")
	if hook == nil || claim == nil || newRev == nil || roll == nil || manage == nil {
		r.Fail(rule, FK(f), p.Pos(f.Pos()), "anchor-lost", "expected exactly one direct callHook, claimRevisions, newControllerRevision, syncRollingUpdate and manageRevisions call in syncRevisions")
		return
	}
	entry := []engine.Point{{B: f.Blocks[0]}}
	anyRolling := func(l Lit) bool { return strings.Contains(l.Atom, "updateStrategyMap.anyRolling)(") }
	deleting := func(l Lit) bool { return strings.HasSuffix(l.Atom, "GetDeletionTimestamp)(p1) == nil)") }
	shouldFin := func(l Lit) bool { return strings.Contains(l.Atom, "finalizer.Manager.ShouldFinalize)(") }
	// (a) shortcut
	ok, why := true, ""
	if w := unguarded(f, entry, hook, func(l Lit) bool { return !l.Pos && (anyRolling(l) || shouldFin(l)) }); w != nil {
		ok, why = false, "the single-hook shortcut is taken although a kind is rolling and the parent has to be finalized or is alive; "+pathWhy(w)
	}
	for _, b := range f.Blocks {
		for i := range b.Succs {
			if l, has := engine.EdgeLit(b, i); has && shouldFin(l) {
				if w := unguarded(f, entry, b.Instrs[len(b.Instrs)-1], func(l Lit) bool { return !l.Pos && deleting(l) || !l.Pos && anyRolling(l) }); w != nil && ok {
					ok, why = false, "whether there is something to finalize decides the shortcut for a parent that is not being deleted: a live parent without finalize hook never gets a rollout"
				}
			}
		}
	}
	if w := unguarded(f, entry, claim, func(l Lit) bool { return l.Pos && anyRolling(l) }); w != nil {
		ok, why = false, "revisions are claimed although no kind is rolling"
	}
	if w := unguarded(f, entry, claim, func(l Lit) bool { return l.Pos && (deleting(l) || shouldFin(l)) }); w != nil {
		ok, why = false, "the rollout path is taken for a parent that is being deleted with nothing to finalize"
	}
	r.Check(rule, FK(f)+"[shortcut]", p.InstrPos(hook), ok, "shortcut ⇔ ¬anyRolling ∨ (deleting ∧ ¬shouldFinalize)", why)

	// (b) the loop over the observed revisions
	var obs *engine.RangeLoop
	var errLoop, persistLoop *engine.RangeLoop
	for _, l := range engine.RangeLoops(f) {
		x := E(l.X)
		if strings.HasSuffix(x, "parentController.claimRevisions)(p0, p1)#0") {
			obs = l
		}
	}
	ok, why = obs != nil, "the loop over the observed revisions was not found"
	isLatestStore := func(in ssa.Instruction) bool {
		st, isS := in.(*ssa.Store)
		if !isS {
			return false
		}
		fa, isFA := st.Addr.(*ssa.FieldAddr)
		if !isFA || fieldName(fa) != "revision" {
			return false
		}
		al, isAl := fa.X.(*ssa.Alloc)
		return isAl && !obs.InBody(al.Block())
	}
	if obs != nil {
		paths, err := engine.EnumPaths(f, engine.EnumOpts{Start: obs.Body, Leave: func(b *ssa.BasicBlock) bool { return b == obs.Header || b == obs.Exit },
			Effect: func(in ssa.Instruction) bool {
				if isLatestStore(in) || isCallTo(in, "composite.applyPatch") {
					return true
				}
				c, isC := in.(*ssa.Call)
				return isC && isCallTo(in, "builtin.append") && strings.Contains(c.Type().String(), "parentRevision")
			}})
		if err != nil {
			ok, why = false, err.Error()
		}
		for _, pa := range paths {
			if pa.EndKind == "return" {
				continue // error exits (checked by the error discipline)
			}
			same := val(pa, -1, func(a string) bool {
				return strings.HasPrefix(a, "call(controller/common.DeepEqual)(") && strings.Contains(a, "composite.makePatch)(")
			})
			var effs []string
			for _, e := range pa.Effects {
				switch {
				case isLatestStore(e):
					effs = append(effs, "latest.revision=")
				case isCallTo(e, "composite.applyPatch"):
					effs = append(effs, "applyPatch")
				default:
					effs = append(effs, "append")
				}
			}
			sortStrings(effs)
			got := strings.Join(effs, ",")
			want := map[int]string{1: "latest.revision=", -1: "append,applyPatch"}[same]
			if same == 0 {
				ok, why = false, "an observed revision is processed without comparing its patch with the current parent's"
			} else if got != want {
				ok, why = false, sf("for patch-equals-current=%d an iteration does [%s], want [%s]", same, got, want)
			}
		}
	}
	r.Check(rule, FK(f)+"[observed-revisions]", p.Pos(f.Pos()), ok, "equal patch ⇒ latest's record; else materialised and kept", why)

	// (c) a new revision ⇔ latest has none
	ok, why = true, ""
	noRev := func(l Lit) bool {
		return l.Atom == "(new<controller/composite.parentRevision>.revision == nil)"
	}
	if w := unguarded(f, entry, newRev, func(l Lit) bool { return l.Pos && noRev(l) }); w != nil {
		ok, why = false, "a new ControllerRevision is created although the latest parent state already has one"
	}
	if obs != nil {
		var gos []ssa.Instruction
		for _, b := range f.Blocks {
			for _, in := range b.Instrs {
				if _, isGo := in.(*ssa.Go); isGo {
					gos = append(gos, in)
				}
			}
		}
		if len(gos) != 1 {
			ok, why = false, "expected one fan-out of hook calls"
		} else if w := (engine.Query{Fn: f, From: []engine.Point{{B: obs.Exit}}, Target: func(in ssa.Instruction) bool { return in == gos[0] },
			CutInstr: func(in ssa.Instruction) bool { return in == newRev },
			CutEdge:  func(b *ssa.BasicBlock, i int, l *Lit) bool { return l != nil && !l.Pos && noRev(*l) }}).Find(); w != nil {
			ok, why = false, "the latest parent state has no ControllerRevision and none is created: the rollout's record is never persisted"
		}
	}
	r.Check(rule, FK(f)+"[new-revision]", p.InstrPos(newRev), ok, "created ⇔ latest.revision == nil", why)

	// (d) the rollout goes on ⇔ no hook call failed;  (e) persisted ⇔ revision != nil
	for _, l := range engine.RangeLoops(f) {
		for _, b := range l.BodyBlocks() {
			for i := range b.Succs {
				if lt, has := engine.EdgeLit(b, i); has {
					if strings.HasSuffix(lt.Atom, ".syncError == nil)") && errLoop == nil {
						errLoop = l
					}
					if strings.HasSuffix(lt.Atom, ".revision == nil)") && strings.Contains(lt.Atom, "pruneParentRevisions") && persistLoop == nil {
						persistLoop = l
					}
				}
			}
		}
	}
	ok, why = errLoop != nil, "no loop inspecting the per-revision hook errors before the rollout step"
	if errLoop != nil {
		if w := unguarded(f, []engine.Point{{B: errLoop.Body}}, errLoop.Header.Instrs[0], func(l Lit) bool { return l.Pos && strings.HasSuffix(l.Atom, ".syncError == nil)") }); w != nil {
			ok, why = false, "a revision whose hook call failed is passed over"
		}
		for _, b := range errLoop.BodyBlocks() {
			if rt, isR := b.Instrs[len(b.Instrs)-1].(*ssa.Return); isR {
				if w := unguarded(f, []engine.Point{{B: errLoop.Body}}, rt, func(l Lit) bool { return !l.Pos && strings.HasSuffix(l.Atom, ".syncError == nil)") }); w != nil {
					ok, why = false, "the sync is aborted for a revision whose hook call succeeded"
				}
				if !isErrReturn(rt) {
					ok, why = false, "a failed hook call ends the sync without an error"
				}
			}
		}
		if w := (engine.Query{Fn: f, From: entry, Target: func(in ssa.Instruction) bool { return in == roll }, CutInstr: func(in ssa.Instruction) bool { return in.Block() == errLoop.Header }}).Find(); w != nil {
			ok, why = false, "the rollout step can be reached without inspecting the hook errors"
		}
	}
	r.Check(rule, FK(f)+"[hook-errors]", p.InstrPos(roll), ok, "abort ⇔ some pr.syncError != nil", why)

	ok, why = persistLoop != nil, "no loop collecting the revisions to persist"
	if persistLoop != nil {
		var app ssa.Instruction
		for _, b := range persistLoop.BodyBlocks() {
			for _, in := range b.Instrs {
				if c, isC := in.(*ssa.Call); isC && isCallTo(in, "builtin.append") && strings.Contains(c.Type().String(), "ControllerRevision") {
					app = in
				}
			}
		}
		if app == nil {
			ok, why = false, "no revision is collected for persisting"
		} else {
			has := func(l Lit) bool { return strings.HasSuffix(l.Atom, ".revision == nil)") }
			if w := unguarded(f, []engine.Point{{B: persistLoop.Body}}, app, func(l Lit) bool { return !l.Pos && has(l) }); w != nil {
				ok, why = false, "a nil revision is handed to manageRevisions"
			}
			if w := (engine.Query{Fn: f, From: []engine.Point{{B: persistLoop.Body}}, Target: func(in ssa.Instruction) bool { return in.Block() == persistLoop.Header },
				CutInstr: func(in ssa.Instruction) bool { return in == app },
				CutEdge:  func(b *ssa.BasicBlock, i int, l *Lit) bool { return l != nil && l.Pos && has(*l) }}).Find(); w != nil {
				ok, why = false, "a surviving parent revision's ControllerRevision is not handed to manageRevisions: it is deleted although children are still assigned to it"
			}
		}
	}
	r.Check(rule, FK(f)+"[persisted]", p.InstrPos(manage), ok, "persisted ⇔ pr.revision != nil", why)
}

// phiIncomingOnPath: the operand phi v takes on path pa (by the block that precedes v's block on the path).
func phiIncomingOnPath(pa engine.Path, ph *ssa.Phi) ssa.Value {
	for i, b := range pa.Blocks {
		if b == ph.Block() && i > 0 {
			for j, pr := range b.Preds {
				if pr == pa.Blocks[i-1] {
					return ph.Edges[j]
				}
			}
		}
	}
	return nil
}

// feasibleByPhis: false when the path crosses a comparison of a phi with a constant whose outcome
// contradicts the constant operand the phi takes on this very path.
func feasibleByPhis(pa engine.Path) bool {
	for _, l := range pa.Lits {
		if l.X == nil || l.Y == nil {
			continue
		}
		x, y := l.X, l.Y
		ph, isPhi := x.(*ssa.Phi)
		swapped := false
		if !isPhi {
			ph, isPhi = y.(*ssa.Phi)
			x, y = y, x
			swapped = true
		}
		if !isPhi {
			continue
		}
		kc, isC := y.(*ssa.Const)
		if !isC {
			continue
		}
		inc := phiIncomingOnPath(pa, ph)
		if inc == nil {
			continue
		}
		ic, incConst := inc.(*ssa.Const)
		if kc.Value == nil { // nil test
			if l.Op != token.EQL {
				continue
			}
			isNil := incConst && ic.Value == nil
			definitelyNot := false
			switch inc.(type) {
			case *ssa.IndexAddr, *ssa.FieldAddr, *ssa.Alloc, *ssa.MakeMap, *ssa.MakeSlice:
				definitelyNot = true
			}
			if isNil && !l.Pos || definitelyNot && l.Pos {
				return false
			}
			continue
		}
		if bo, isB := inc.(*ssa.BinOp); isB && !swapped && bo.Op == token.ADD && kc.Value.Kind() == constant.Int {
			// a range index (phi starting at -1, +1 per iteration) is never negative
			if rp, isRP := bo.X.(*ssa.Phi); isRP && rp.Comment == "rangeindex" {
				if one, isOne := bo.Y.(*ssa.Const); isOne && one.Value != nil && one.Value.String() == "1" && constant.Sign(kc.Value) == 0 {
					if l.Op == token.LSS && l.Pos || l.Op == token.GEQ && !l.Pos {
						return false
					}
				}
			}
			continue
		}
		if !incConst || ic.Value == nil || kc.Value.Kind() != constant.Int || ic.Value.Kind() != constant.Int {
			continue
		}
		a, b := ic.Value, kc.Value
		if swapped {
			a, b = b, a
		}
		if constant.Compare(a, l.Op, b) != l.Pos {
			return false
		}
	}
	return true
}

// r09_recordSet: addChild / removeChild keep revision.Children a set of names per (group, kind).
func r09_recordSet(r *Report, p *Program, rule string) {
	r.Rule(rule, "parentRevision.addChild / removeChild: the entry edited is the one whose APIGroup AND Kind equal the arguments; addChild starts a new entry ⇔ none matches and appends the name ⇔ it is not listed yet; removeChild removes the name ⇔ it is listed, and does nothing without a matching entry")
	r.Floor(rule, 2)
	for _, which := range []string{"addChild", "removeChild"} {
		f := fn(r, p, rule, "controller/composite.parentRevision."+which)
		if f == nil {
			continue
		}
		storeTo := func(in ssa.Instruction) string {
			st, isS := in.(*ssa.Store)
			if !isS {
				return ""
			}
			fa, isFA := st.Addr.(*ssa.FieldAddr)
			if !isFA {
				return ""
			}
			if n := fieldName(fa); n == "Names" || n == "Children" {
				return n
			}
			return ""
		}
		paths, err := engine.EnumPaths(f, engine.EnumOpts{Effect: func(in ssa.Instruction) bool { return storeTo(in) != "" }})
		ok, why := err == nil, ""
		if err != nil {
			why = err.Error()
		}
		nFeasible := 0
		for _, pa := range paths {
			if pa.EndKind != "return" || !feasibleByPhis(pa) {
				continue
			}
			nFeasible++
			gm := val(pa, -1, func(a string) bool { return strings.HasSuffix(a, ".APIGroup == p1)") })
			km := val(pa, -1, func(a string) bool { return strings.HasSuffix(a, ".Kind == p2)") })
			found := val(pa, -1, func(a string) bool { return strings.HasPrefix(a, "(p3 == ") && strings.Contains(a, ".Names[") })
			matched := gm == 1 && km == 1
			if gm == 2 || km == 2 || found == 2 {
				continue
			}
			nNames, nChildren := 0, 0
			for _, e := range pa.Effects {
				if storeTo(e) == "Names" {
					nNames++
				} else {
					nChildren++
				}
			}
			var wantNames, wantChildren int
			if which == "addChild" {
				if !matched {
					wantChildren = 1
				}
				if found != 1 {
					wantNames = 1
				}
			} else {
				if matched && found == 1 {
					wantNames = 1
				}
			}
			if nNames != wantNames || nChildren != wantChildren {
				ok, why = false, sf("with entry-matches(group=%d, kind=%d) name-listed=%d the call stores Names %d× (want %d) and Children %d× (want %d); path: %s", gm, km, found, nNames, wantNames, nChildren, wantChildren, pa.Cond())
			}
		}
		if nFeasible < 3 {
			ok, why = false, "fewer feasible paths than the function's decisions require"
		}
		r.Check(rule, FK(f), p.Pos(f.Pos()), ok, "set semantics per (group, kind)", why)
	}
}

// revisionLabelsAgree: a new ControllerRevision is labelled so that the selector claimRevisions uses finds it again:
// under a generated selector it carries controller-uid = parent UID (what makeSelector selects by), otherwise the
// parent's template labels — the two decisions have the same polarity in newControllerRevision and makeSelector.
func revisionLabelsAgree(r *Report, p *Program, rule string) {
	r.Rule(rule, "newControllerRevision labels the revision with controller-uid ⇔ makeSelector selects by controller-uid (isUsingGeneratedLabelSelector), else with the parent's template labels; both with the parent's UID")
	r.Floor(rule, 1)
	nf := fn(r, p, rule, "controller/composite.parentController.newControllerRevision")
	ms := fn(r, p, rule, "controller/composite.parentController.makeSelector")
	if nf == nil || ms == nil {
		return
	}
	// 'the selector is generated', on the helper call or on the inlined `p != nil && *p` form
	genPos := func(l Lit) bool {
		if strings.Contains(l.Atom, "parentController.isUsingGeneratedLabelSelector)(p0)") {
			return l.Pos
		}
		if strings.Contains(l.Atom, ".GenerateSelector") {
			if _, _, isT := l.NilTest(); !isT {
				return l.Pos
			}
		}
		return false
	}
	genNeg := func(l Lit) bool {
		if strings.Contains(l.Atom, "parentController.isUsingGeneratedLabelSelector)(p0)") {
			return !l.Pos
		}
		if strings.Contains(l.Atom, ".GenerateSelector") {
			if _, isNil, isT := l.NilTest(); isT {
				return isNil
			}
			return !l.Pos
		}
		return false
	}
	ok, why := true, ""
	nUID, nTpl := 0, 0
	for _, b := range nf.Blocks {
		for _, in := range b.Instrs {
			if mu, isMU := in.(*ssa.MapUpdate); isMU && E(mu.Key) == `"controller-uid"` {
				nUID++
				if unguarded(nf, nil, in, genPos) != nil {
					ok, why = false, "the revision is labelled controller-uid although the controller does not select by it"
				}
				if !strings.Contains(E(mu.Value), "GetUID)(p1)") {
					ok, why = false, "controller-uid label is "+E(mu.Value)+", not the parent's UID"
				}
			}
			if isCallTo(in, "unstructured.NestedStringMap") {
				nTpl++
				if unguarded(nf, nil, in, genNeg) != nil {
					ok, why = false, "the revision takes the parent's template labels although the controller selects by controller-uid"
				}
			}
		}
	}
	if nUID != 1 || nTpl != 1 {
		ok, why = false, "expected one controller-uid label store and one template-labels read in newControllerRevision"
	}
	nSel := 0
	for _, cs := range callsTo(ms, false, "meta/v1.AddLabelToSelector") {
		if E(cs.Common().Args[1]) == `"controller-uid"` {
			nSel++
			if unguarded(ms, nil, cs.Instr.(ssa.Instruction), genPos) != nil {
				ok, why = false, "makeSelector selects by controller-uid without a generated selector"
			}
			if !strings.Contains(E(cs.Common().Args[2]), "GetUID)(p1)") {
				ok, why = false, "makeSelector selects controller-uid = "+E(cs.Common().Args[2])
			}
		}
	}
	for _, cs := range callsTo(ms, false, "GetNestedFieldInto") {
		if unguarded(ms, nil, cs.Instr.(ssa.Instruction), genNeg) != nil {
			ok, why = false, "makeSelector reads the parent's selector although the selector is generated"
		}
	}
	if nSel != 1 {
		ok, why = false, "makeSelector does not select by controller-uid exactly once"
	}
	r.Check(rule, FK(nf)+"↔makeSelector", p.Pos(nf.Pos()), ok, "same polarity, same UID", why)
	// the parent-type labels a new revision gets are exactly what claimRevisions requires, with the same values
	cr := fn(r, p, rule, "controller/composite.parentController.claimRevisions")
	if cr == nil {
		return
	}
	typeLabels := func(f *ssa.Function) map[string]string {
		out := map[string]string{}
		for _, b := range f.Blocks {
			for _, in := range b.Instrs {
				if mu, isMU := in.(*ssa.MapUpdate); isMU {
					if k, isC := constStr(mu.Key); isC && strings.HasPrefix(k, "metacontroller.k8s.io/") {
						out[k] = E(mu.Value)
					}
				}
			}
		}
		return out
	}
	written, required := typeLabels(nf), typeLabels(cr)
	okT, whyT := len(written) >= 2, "newControllerRevision does not label the revision with the parent's type"
	for k, v := range written {
		if rv, has := required[k]; !has {
			okT, whyT = false, "claimRevisions does not require the label "+k+" that new revisions carry: revisions of another parent type with matching user labels are adopted"
		} else if rv != v {
			okT, whyT = false, "label "+k+" is written as "+v+" but required as "+rv+": a revision the controller created itself does not match its own selector and is released (orphaned) on the next sync"
		}
	}
	for k := range required {
		if _, has := written[k]; !has {
			okT, whyT = false, "claimRevisions requires the label "+k+" that new revisions do not carry"
		}
	}
	// … and those requirements really are in the selector the claim uses
	mgrs := callsTo(cr, false, "controllerref.NewControllerRevisionManager")
	mks := callsTo(cr, false, "parentController.makeSelector")
	if len(mgrs) != 1 || len(mks) != 1 {
		okT, whyT = false, "expected one makeSelector and one NewControllerRevisionManager call in claimRevisions"
	} else {
		sel := mgrs[0].Common().Args[2]
		mk := mks[0].Instr.(*ssa.Call)
		if !engine.MustDependOnCall(sel, func(k string) bool { return strings.HasSuffix(k, "parentController.makeSelector") }, nil) {
			okT, whyT = false, "the selector handed to the revision claim ("+E(sel)+") is not what makeSelector returned"
		}
		extra := mk.Common().Args[len(mk.Common().Args)-1]
		if _, isMap := engine.ResolveLocal(extra).(*ssa.MakeMap); !isMap {
			okT, whyT = false, "makeSelector is not given the parent-type labels as extra match labels (got "+E(extra)+")"
		} else {
			for _, b := range cr.Blocks {
				for _, in := range b.Instrs {
					if mu, isMU := in.(*ssa.MapUpdate); isMU {
						if k, isC := constStr(mu.Key); isC && strings.HasPrefix(k, "metacontroller.k8s.io/") && engine.ResolveLocal(mu.Map) != engine.ResolveLocal(extra) {
							okT, whyT = false, "the requirement "+k+" is not put into the map handed to makeSelector"
						}
					}
				}
			}
		}
	}
	r.Check(rule, FK(cr)+"[type-labels: written = required]", p.Pos(cr.Pos()), okT, "same keys, same values, in the selector used", whyT)
}

// claimsTables: syncRevisionClaims' two filters and the gate's kind filter, both directions.
func claimsTables(r *Report, p *Program, rule string) {
	r.Rule(rule, "syncRevisionClaims: a recorded name stays claimed ⇔ the latest revision still desires it ∧ no earlier revision in the list claimed it; a kind's entry stays ⇔ the kind is rolling ∧ names are left. shouldContinueRolling: the names of a kind are health-checked ⇔ the kind's strategy is rolling")
	r.Floor(rule, 3)
	if f := fn(r, p, rule, "controller/composite.parentController.syncRevisionClaims"); f != nil {
		var kinds, names *engine.RangeLoop
		for _, l := range engine.RangeLoops(f) {
			switch {
			case strings.HasSuffix(E(l.X), ".revision.Children"):
				kinds = l
			case strings.HasSuffix(E(l.X), ".Names"):
				names = l
			}
		}
		if kinds == nil || names == nil {
			r.Check(rule, FK(f), p.Pos(f.Pos()), false, "", "the loops over a revision's kinds and names were not found")
		} else {
			// per name
			paths, err := engine.EnumPaths(f, engine.EnumOpts{Start: names.Body, Leave: func(b *ssa.BasicBlock) bool { return b == names.Header || b == names.Exit },
				Effect: func(in ssa.Instruction) bool {
					if mu, isMU := in.(*ssa.MapUpdate); isMU {
						return strings.Contains(mu.Value.Type().String(), "parentRevision") && !strings.Contains(mu.Value.Type().String(), "map[")
					}
					c, isC := in.(*ssa.Call)
					return isC && isCallTo(in, "builtin.append") && c.Type().String() == "[]string"
				}})
			ok, why := err == nil, ""
			for _, pa := range paths {
				desired := -val(pa, -1, func(a string) bool {
					return strings.Contains(a, "RelativeObjectMap.FindGroupKindName)(p1[0].desiredChildMap") && strings.HasSuffix(a, " == nil)")
				})
				taken := 0
				for _, lt := range pa.Lits {
					if lk, isL := lt.Cond.(*ssa.Extract); isL && lk.Index == 1 {
						if _, isLookup := lk.Tuple.(*ssa.Lookup); isLookup {
							taken = -1
							if lt.Pos {
								taken = 1
							}
						}
					}
				}
				nClaim, nKeep := 0, 0
				for _, e := range pa.Effects {
					if _, isMU := e.(*ssa.MapUpdate); isMU {
						nClaim++
					} else {
						nKeep++
					}
				}
				want := 0
				if desired == 1 && taken == -1 {
					want = 1
				}
				if nClaim != want || nKeep != want {
					ok, why = false, sf("with still-desired=%d claimed-by-earlier=%d a name is claimed %d× and kept %d× (want %d)", desired, taken, nClaim, nKeep, want)
				}
				if want == 0 && !(desired == -1 || taken == 1) {
					ok, why = false, "a recorded name is dropped without being found undesired or already claimed; path: "+pa.Cond()
				}
			}
			r.Check(rule, FK(f)+"[name-kept⇔desired∧unclaimed]", p.Pos(f.Pos()), ok, "per-name filter", why)
			// per kind: the entry is appended ⇔ rolling ∧ len(names) != 0
			ok, why = true, ""
			var app ssa.Instruction
			for _, b := range kinds.BodyBlocks() {
				if names.InBody(b) {
					continue
				}
				for _, in := range b.Instrs {
					if c, isC := in.(*ssa.Call); isC && isCallTo(in, "builtin.append") && strings.Contains(c.Type().String(), "ControllerRevisionChildren") {
						app = in
					}
				}
			}
			rolling := func(l Lit) bool { return strings.Contains(l.Atom, "updateStrategyMap.isRolling)(p0.updateStrategy") }
			empty := func(l Lit) bool {
				return strings.HasPrefix(l.Atom, "(call(builtin.len)(") && strings.HasSuffix(l.Atom, " == 0)") && strings.Contains(l.Atom, "builtin.append")
			}
			if app == nil {
				ok, why = false, "no kind entry is kept"
			} else {
				if unguarded(f, []engine.Point{{B: kinds.Body}}, app, func(l Lit) bool { return l.Pos && rolling(l) }) != nil {
					ok, why = false, "the claims of a kind that no longer uses a rolling strategy are kept"
				}
				// (keeping an entry whose names are all gone changes nothing — it claims no child and the revision is
				// pruned by its child count — so that direction is not demanded)
				if w := (engine.Query{Fn: f, From: []engine.Point{{B: kinds.Body}}, Target: func(in ssa.Instruction) bool { return in.Block() == kinds.Header },
					CutInstr: func(in ssa.Instruction) bool { return in == app },
					CutEdge: func(b *ssa.BasicBlock, i int, l *Lit) bool {
						return l != nil && (!l.Pos && rolling(*l) || l.Pos && empty(*l))
					}}).Find(); w != nil {
					ok, why = false, "a rolling kind that still has claimed names loses its entry: the children fall back to the latest revision at once"
				}
			}
			r.Check(rule, FK(f)+"[kind-kept⇔rolling∧names-left]", p.Pos(f.Pos()), ok, "per-kind filter", why)
		}
	}
	if g := fn(r, p, rule, "controller/composite.parentController.shouldContinueRolling"); g != nil {
		var outer, inner *engine.RangeLoop
		for _, l := range engine.RangeLoops(g) {
			switch {
			case strings.HasSuffix(E(l.X), ".revision.Children"):
				outer = l
			case strings.HasSuffix(E(l.X), ".Names"):
				inner = l
			}
		}
		ok, why := outer != nil && inner != nil, "the gate's loops over kinds and names were not found"
		if ok {
			rolling := func(l Lit) bool {
				return strings.Contains(l.Atom, "composite.isRollingStrategy)(") || strings.Contains(l.Atom, "updateStrategyMap.isRolling)(")
			}
			if unguarded(g, []engine.Point{{B: outer.Body}}, inner.Header.Instrs[0], func(l Lit) bool { return l.Pos && rolling(l) }) != nil {
				ok, why = false, "children of a kind without a rolling strategy hold the rollout back"
			}
			if w := (engine.Query{Fn: g, From: []engine.Point{{B: outer.Body}}, Target: func(in ssa.Instruction) bool { return in.Block() == outer.Header },
				CutInstr: func(in ssa.Instruction) bool { return in.Block() == inner.Header },
				CutEdge:  func(b *ssa.BasicBlock, i int, l *Lit) bool { return l != nil && !l.Pos && rolling(*l) }}).Find(); w != nil {
				ok, why = false, "the children of a rolling kind are not health-checked: the rollout proceeds over unhealthy children"
			}
		}
		r.Check(rule, FK(g)+"[rolling-kinds-checked]", p.Pos(g.Pos()), ok, "checked ⇔ rolling", why)
	}
}
