package rules

import (
	"go/token"
	"go/types"
	"strings"

	"mcvet/engine"

	"golang.org/x/tools/go/ssa"
)

func init() {
	Registry["C18"] = checkC18
}

func checkC18(r *Report, p *Program) {
	r.Explanation = "Decides the invariants of the shared-informer layer as shapes: (R18.1) every access to the factory's refCount/sharedInformers maps and to the fan-out handler map holds the owning mutex (exclusive for writes); (R18.2) SharedInformerFactory.Resource's path table: existing entry ⇒ refCount+1 and a fresh wrapper; new entry ⇒ both maps stored (count 1) and informer.Run started with the stop channel the close function captures; no map is touched on any error path; (R18.3) the close function: count>0 ⇒ only the count is stored; otherwise close(stopCh) and delete from both maps; Close() calls exactly that; (R18.4) handler isolation: removeHandlers deletes only the caller's entry and stops (and waits for) its timers; addHandler registers under the lock before replaying, replays on every path, starts a timer only for a shorter resync period; fan-out iterates under RLock; each subscription gets its own wrapper which is what AddEventHandler* register under; (R18.5) every acquisition by a controller is released: stored in a container its Stop releases, and on constructor error exits closed by a defer."
	r.NotDecided = "client-go's Run/replay semantics, goroutine timing, all operation orders."
	lockDiscipline(r, p, "R18.1", func(m string) bool {
		return strings.Contains(m, "dynamic/informer.")
	}, 2)
	r18_2(r, p)
	r18_4(r, p)
	informerAcquireRelease(r, p, "R18.5")
	checkThenAct(r, p, "R18.6")
	locksReleased(r, p, "R18.7", 10)
	// the customize manager takes one subscription per related resource and remembers it (shared with C15)
	relatedInformerMemo(r, p, "R18.8")
	subscriptionHandles(r, p, "R18.9")
	timerStopTable(r, p, "R18.10")
	tombstonesAreValues(r, p, "R18.11")
	fanOutReachesHandlers(r, p, "R18.12")
	oneKeyPerSharedMap(r, p, "R18.13")
	channelFieldsSetOnlyAtStart(r, p, "R18.14")
}

// lockDiscipline (A6): all accesses to the selected shared maps hold one common
// mutex, writes exclusively.
func lockDiscipline(r *Report, p *Program, rule string, sel func(mapID string) bool, floor int) {
	r.Rule(rule, "every access to a shared map holds the same mutex; writes hold it exclusively")
	type acc = engine.MapAccess
	byMap := map[string][]acc{}
	conc := p.CG().ReachSet(p.ConcurrentRoots()...)
	for _, f := range p.Scanned {
		for _, a := range engine.MapAccesses(f, nil) {
			if sel(a.Map) {
				byMap[a.Map] = append(byMap[a.Map], a)
			}
		}
	}
	var ids []string
	for id := range byMap {
		ids = append(ids, id)
	}
	sortStrings(ids)
	n := 0
	for _, id := range ids {
		accs := byMap[id]
		// is the map written from code reachable from a concurrent root?
		writtenConc, anyLocked := false, false
		for _, a := range accs {
			if a.Write && conc[a.Fn] && !isConstructorOf(a.Fn, id) {
				writtenConc = true
			}
			if len(a.Held) > 0 {
				anyLocked = true
			}
		}
		if !writtenConc && !anyLocked {
			continue // never written concurrently and never locked: not a shared map
		}
		if !anyLocked && !longLived(p, id, conc) {
			continue // objects of this type are created by the goroutine that uses them (per-call builders, responses, fresh tables)
		}
		if why, exc := lockExceptions[engine.Short(id)]; exc {
			r.Check(rule, engine.Short(id)+"[exception]", "-", true, "reasoned exception: "+why, "")
			continue
		}
		n++
		// the common mutex: intersection of held sets over locked accesses
		common := map[string]bool{}
		first := true
		for _, a := range accs {
			if isConstructorOf(a.Fn, id) {
				continue
			}
			set := map[string]bool{}
			for _, h := range a.Held {
				set[mutexField(h.Mutex)] = true
			}
			if first {
				common, first = set, false
			} else {
				for k := range common {
					if !set[k] {
						delete(common, k)
					}
				}
			}
		}
		for i, a := range accs {
			if isConstructorOf(a.Fn, id) {
				continue
			}
			kind := "read"
			if a.Write {
				kind = "write"
			}
			c := sf("%s@%s#%d", engine.Short(id), Short(FK(a.Fn)), i)
			ok, why := true, ""
			switch {
			case len(a.Held) == 0:
				ok, why = false, kind+" of shared map "+engine.Short(id)+" with no lock held (the map is written from goroutine-reachable code: concurrent map access)"
			case len(common) == 0:
				ok, why = false, kind+" holds "+heldString(a.Held)+", but other accesses of "+engine.Short(id)+" hold a different mutex"
			case a.Write:
				excl := false
				for _, h := range a.Held {
					if common[mutexField(h.Mutex)] && h.Write {
						excl = true
					}
				}
				if !excl {
					ok, why = false, "write to "+engine.Short(id)+" under a read lock ("+heldString(a.Held)+")"
				}
			}
			r.Check(rule, c, p.InstrPos(a.Instr), ok, kind+" under "+heldString(a.Held), why)
		}
	}
	if n < floor {
		r.Fail(rule, "shared maps", "-", "anchor-lost", sf("found %d lock-protected / concurrently written maps, expected >= %d", n, floor))
	}
}

// reasoned exceptions to the lock rule (map → reason)
var lockExceptions = map[string]string{
	"controller/composite.parentRevision.desiredChildMap": "each goroutine of syncRevisions writes only the parentRevision it was handed; readers run after wg.Wait (checked by R17.3)",
}

func sortStrings(s []string) {
	for i := 1; i < len(s); i++ {
		for j := i; j > 0 && s[j] < s[j-1]; j-- {
			s[j], s[j-1] = s[j-1], s[j]
		}
	}
}

// mutexField reduces a mutex rendering to its trailing field / global so that
// p0.mutex in one method and fv-bound f.mutex in a closure agree.
func mutexField(m string) string {
	m = strings.TrimPrefix(m, "load(")
	m = strings.TrimSuffix(m, ")")
	if i := strings.LastIndex(m, "."); i >= 0 && !strings.HasPrefix(m, "global(") {
		return m[i+1:]
	}
	return m
}

func heldString(h []engine.Held) string {
	if len(h) == 0 {
		return "no lock"
	}
	var s []string
	for _, x := range h {
		mode := "R"
		if x.Write {
			mode = "W"
		}
		s = append(s, x.Mutex+":"+mode)
	}
	return strings.Join(s, ",")
}

// isConstructorOf: f allocates the struct that owns the map field (accesses
// there happen before the object is shared).
func isConstructorOf(f *ssa.Function, mapID string) bool {
	if strings.HasPrefix(mapID, "global(") {
		return strings.HasSuffix(FK(f), ".init")
	}
	i := strings.LastIndex(mapID, ".")
	owner := mapID[:i]
	for _, b := range engine.BlocksInl(f) {
		for _, in := range b.Instrs {
			if a, ok := in.(*ssa.Alloc); ok && a.Heap {
				t := a.Type().String()
				if strings.HasSuffix(t, owner) || strings.HasSuffix(strings.TrimPrefix(t, "*"), owner) {
					return true
				}
			}
		}
	}
	return false
}

func r18_2(r *Report, p *Program) {
	const rule = "R18.2"
	r.Rule(rule, "factory.Resource path table and its close function (R18.3)")
	r.Floor(rule, 4)
	f := fn(r, p, rule, "dynamic/informer.SharedInformerFactory.Resource")
	if f == nil {
		return
	}
	isEff := func(in ssa.Instruction) bool {
		switch x := in.(type) {
		case *ssa.MapUpdate:
			return true
		case *ssa.Go:
			return true
		case *ssa.Call:
			k := engine.CallKey(x.Common())
			return k == "builtin.delete" || k == "builtin.close" || strings.HasSuffix(k, "informer.newResourceInformer")
		}
		return false
	}
	name := func(in ssa.Instruction) string {
		switch x := in.(type) {
		case *ssa.MapUpdate:
			m := E(x.Map)
			return "set " + m[strings.LastIndex(m, ".")+1:] + "=" + E(x.Value)
		case *ssa.Go:
			return "go " + engine.Abbrev(engine.CallKey(x.Common()))
		case *ssa.Call:
			return methodOf(engine.CallKey(x.Common()))
		}
		return "?"
	}
	paths, err := engine.EnumPaths(f, engine.EnumOpts{Effect: isEff})
	if err != nil {
		r.Fail(rule, FK(f), p.Pos(f.Pos()), "undecided", err.Error())
		return
	}
	exists := func(a string) bool { return strings.HasPrefix(a, "p0.sharedInformers[") && strings.HasSuffix(a, "#1") }
	ok, why := true, ""
	var rows []map[string]string
	nHit, nNew, nErr := 0, 0, 0
	for _, pa := range paths {
		rt, isR := pa.End.(*ssa.Return)
		if !isR {
			continue
		}
		var effs []string
		for _, e := range pa.Effects {
			if _, isD := e.(*ssa.Defer); isD {
				continue
			}
			effs = append(effs, name(e))
		}
		seq := strings.Join(effs, "; ")
		rows = append(rows, map[string]string{"when": pa.Cond(), "effects": seq, "error": E(engine.RetVal(rt, 1))})
		isErr := !isNilConst(engine.RetVal(rt, 1))
		switch {
		case isErr:
			nErr++
			for _, e := range effs {
				if strings.HasPrefix(e, "set ") || strings.HasPrefix(e, "go ") || e == "delete" {
					ok, why = false, "an error path of Resource() has already changed the subscription state ["+seq+"]: a failed subscribe leaves a phantom subscriber / running informer"
				}
			}
		case val(pa, -1, exists) == 1:
			nHit++
			want := []string{"set refCount=(p0.refCount[", "newResourceInformer"}
			if len(effs) != 2 || !strings.HasPrefix(effs[0], want[0]) || !strings.HasSuffix(effs[0], "] + 1)") || effs[1] != want[1] {
				ok, why = false, "existing informer: effects ["+seq+"], want refCount[key]+1 then a fresh wrapper"
			}
		case val(pa, -1, exists) == -1:
			nNew++
			hasSI, hasRC, hasGo := false, false, false
			for _, e := range effs {
				hasSI = hasSI || strings.HasPrefix(e, "set sharedInformers=")
				hasRC = hasRC || e == "set refCount=1"
				hasGo = hasGo || strings.HasPrefix(e, "go ") && strings.HasSuffix(e, ".Run")
			}
			if !(hasSI && hasRC && hasGo) || effs[len(effs)-1] != "newResourceInformer" {
				ok, why = false, "new informer: effects ["+seq+"], want sharedInformers[key]=…, refCount[key]=1, go Run, wrapper"
			}
		}
	}
	if nHit == 0 || nNew == 0 || nErr < 2 {
		ok, why = false, sf("table incomplete (hit=%d new=%d error=%d)", nHit, nNew, nErr)
	}
	r.Table("R18.2 Resource", rows)
	r.Check(rule, FK(f)+"[table]", p.Pos(f.Pos()), ok, "hit ⇒ +1; miss ⇒ store both, run; errors touch nothing", why)
	// same key everywhere; Run gets the stop channel that the close function closes
	var cl *ssa.Function
	for _, c := range f.AnonFuncs {
		if len(callsTo(c, false, "builtin.close")) == 1 {
			cl = c
		}
	}
	okC, whyC := cl != nil, "close function not found"
	if okC {
		// table of the close function
		cpaths, err := engine.EnumPaths(cl, engine.EnumOpts{Effect: isEff})
		if err != nil {
			okC, whyC = false, err.Error()
		}
		positive := func(a string) bool {
			return strings.HasPrefix(a, "(0 < (") && strings.Contains(a, ".refCount[") && strings.HasSuffix(a, " - 1))")
		}
		for _, pa := range cpaths {
			var effs []string
			for _, e := range pa.Effects {
				if _, isD := e.(*ssa.Defer); isD {
					continue
				}
				effs = append(effs, name(e))
			}
			seq := strings.Join(effs, "; ")
			switch val(pa, -1, positive) {
			case 1:
				if len(effs) != 1 || !strings.HasPrefix(effs[0], "set refCount=") || !strings.HasSuffix(effs[0], " - 1)") {
					okC, whyC = false, "other subscribers remain: effects ["+seq+"], want only refCount[key] = count-1"
				}
			case -1:
				if seq != "close; delete; delete" {
					okC, whyC = false, "last subscriber: effects ["+seq+"], want close(stopCh), delete from refCount and sharedInformers"
				}
			default:
				okC, whyC = false, "close function does not branch on count > 0"
			}
		}
		if okC {
			// deletes hit both maps with the key
			dels := callsTo(cl, false, "builtin.delete")
			seen := map[string]bool{}
			for _, d := range dels {
				m := E(d.Common().Args[0])
				seen[m[strings.LastIndex(m, ".")+1:]] = true
			}
			if !(seen["refCount"] && seen["sharedInformers"]) {
				okC, whyC = false, "last close does not delete from both maps"
			}
			// the stop channel closed is the one Run received
			cs := callsTo(cl, false, "builtin.close")[0]
			var runCh ssa.Value
			for _, b := range engine.BlocksInl(f) {
				for _, in := range b.Instrs {
					if g, isGo := in.(*ssa.Go); isGo && len(g.Common().Args) > 0 {
						runCh = g.Common().Args[len(g.Common().Args)-1]
					}
				}
			}
			if runCh == nil || E(cs.Common().Args[0]) != E(runCh) {
				okC, whyC = false, "the channel closed on last Close is not the one informer.Run was started with"
			}
		}
	}
	r.Check(rule, FK(f)+"$close[table]", p.Pos(f.Pos()), okC, "count>0 ⇒ store count; else close(stopCh)+delete both", whyC)
	// the close function is what newSharedResourceInformer receives, and ResourceInformer.Close calls exactly it
	okW := false
	for _, cs := range callsTo(f, false, "informer.newSharedResourceInformer") {
		if mc, isMC := engine.ResolveLocal(cs.Common().Args[2]).(*ssa.MakeClosure); isMC && mc.Fn == ssa.Value(cl) {
			okW = true
		}
	}
	r.Check(rule, FK(f)+"[close-fn-wired]", p.Pos(f.Pos()), okW, "shared informer is created with this close function", "the close function is not handed to newSharedResourceInformer")
	if cf := fn(r, p, rule, "dynamic/informer.ResourceInformer.Close"); cf != nil {
		// every path through Close calls the close field of the shared informer — itself, or through one
		// module method of the shared informer that does so on every path
		callsCloseField := func(g *ssa.Function, recv string) func(in ssa.Instruction) bool {
			return func(in ssa.Instruction) bool {
				c, isC := in.(*ssa.Call)
				return isC && !c.Common().IsInvoke() && E(c.Common().Value) == recv+".close"
			}
		}
		alwaysCloses := func(g *ssa.Function, recv string) bool {
			return len(g.Blocks) > 0 && engine.Query{Fn: g, CutInstr: callsCloseField(g, recv), Target: func(in ssa.Instruction) bool { _, isR := in.(*ssa.Return); return isR }}.Find() == nil
		}
		okX := alwaysCloses(cf, "p0.sharedResourceInformer")
		if !okX {
			okX = engine.Query{Fn: cf, CutInstr: func(in ssa.Instruction) bool {
				c, isC := in.(*ssa.Call)
				if !isC {
					return false
				}
				g := engine.StaticFn(c.Common())
				return g != nil && strings.HasPrefix(FK(g), engine.ModPrefix) && len(c.Common().Args) > 0 && E(c.Common().Args[0]) == "p0.sharedResourceInformer" && alwaysCloses(g, "p0")
			}, Target: func(in ssa.Instruction) bool { _, isR := in.(*ssa.Return); return isR }}.Find() == nil
		}
		r.Check(rule, FK(cf), p.Pos(cf.Pos()), okX, "every Close() reaches sharedResourceInformer.close()", "ResourceInformer.Close does not reach the shared close function on every path")
	}
}

func r18_4(r *Report, p *Program) {
	const rule = "R18.4"
	r.Rule(rule, "handler isolation and replay")
	r.Floor(rule, 9)
	if f := fn(r, p, rule, "dynamic/informer.sharedEventHandler.removeHandlers"); f != nil {
		dels := callsTo(f, false, "builtin.delete")
		ok, why := len(dels) == 1 && E(dels[0].Common().Args[0]) == "p0.handlers" && E(dels[0].Common().Args[1]) == "p1", "must delete exactly handlers[iw]"
		loops := engine.LoopOver(f, func(x string) bool { return x == "p0.handlers[p1]" })
		stops := callsTo(f, false, "informer.eventHandler.stop")
		if ok && (len(loops) != 1 || len(stops) != 1 || !loops[0].Contains(stops[0].Instr.(ssa.Instruction))) {
			ok, why = false, "must stop exactly the timers of handlers[iw]"
		}
		if ok && len(engine.LoopOver(f, func(x string) bool { return x == "p0.handlers" })) > 0 {
			ok, why = false, "iterates over all subscribers' handlers"
		}
		// the timers are stopped BEFORE the entry is deleted (the loop ranges over the entry)
		if ok {
			di := dels[0].Instr.(ssa.Instruction)
			hdr := loops[0].Header
			if w := bypass(f, di, func(in ssa.Instruction) bool { return in.Block() == loops[0].Exit || in.Block() == hdr }); w != nil {
				ok, why = false, "the entry is deleted before its handlers' timers are stopped: the loop then ranges over nothing, the timer goroutines keep calling the removed handlers"
			}
		}
		r.Check(rule, FK(f), p.Pos(f.Pos()), ok, "stops and deletes only the caller's handlers", why)
	}
	// RemoveEventHandlers always reaches removeHandlers (no remembered 'nothing registered' shortcut)
	if f := fn(r, p, rule, "dynamic/informer.informerWrapper.RemoveEventHandlers"); f != nil {
		rm := callsTo(f, false, "sharedEventHandler.removeHandlers")
		ok, why := len(rm) == 1, "RemoveEventHandlers does not call removeHandlers"
		if ok {
			ri := rm[0].Instr.(ssa.Instruction)
			for _, b := range engine.BlocksInl(f) {
				for _, in := range b.Instrs {
					if rt, isR := in.(*ssa.Return); isR && !isErrReturn(rt) {
						if w := bypass(f, rt, func(x ssa.Instruction) bool { return x == ri }); w != nil {
							ok, why = false, "RemoveEventHandlers can return successfully without calling removeHandlers ("+pathWhy(w)+"): handlers registered through another add path stay subscribed and their timers keep running"
						}
					}
				}
			}
			if E(rm[0].Arg(0)) != "p0" {
				ok, why = false, "removeHandlers is not given this wrapper"
			}
		}
		r.Check(rule, FK(f)+"[always-removes]", p.Pos(f.Pos()), ok, "every successful return has removed this wrapper's handlers", why)
	}
	// removeHandlers waits (under the write lock) for the timer goroutines to exit: those must never
	// take the fan-out lock themselves, in any mode — a reader queued behind the pending writer never gets in
	if st := p.Func("dynamic/informer.eventHandler.start"); st != nil {
		ok, why := true, ""
		n := 0
		for _, cl := range engine.Closures(st) {
			// statically reachable code only: the handler callbacks it invokes through the embedded
			// interface are the subscriber's, never the fan-out object itself
			reach := map[*ssa.Function]bool{}
			var dfs func(g *ssa.Function)
			dfs = func(g *ssa.Function) {
				if g == nil || reach[g] || !strings.HasPrefix(FK(g), engine.ModPrefix) {
					return
				}
				reach[g] = true
				for _, b := range g.Blocks {
					for _, in := range b.Instrs {
						if c, isC := in.(ssa.CallInstruction); isC {
							dfs(engine.StaticFn(c.Common()))
						}
					}
				}
			}
			dfs(cl)
			for g := range reach {
				if !strings.HasPrefix(FK(g), engine.ModPrefix) {
					continue
				}
				for _, b := range engine.BlocksInl(g) {
					for _, in := range b.Instrs {
						c, isC := in.(ssa.CallInstruction)
						if !isC {
							continue
						}
						n++
						if m, op := engine.MutexOp(c.Common()); (op == "lock" || op == "rlock") && strings.Contains(m, "sharedEventHandler") || (op == "lock" || op == "rlock") && strings.HasSuffix(m, ".mutex") && strings.Contains(FK(g), "dynamic/informer.") {
							ok, why = false, "the resync timer goroutine acquires "+m+" ("+op+") at "+p.InstrPos(in)+": removeHandlers holds that lock exclusively while it waits for this goroutine to exit, so a tick that lands behind the pending writer blocks for ever — RemoveEventHandlers never returns and every other subscriber stops receiving events"
						}
					}
				}
			}
		}
		if n == 0 {
			ok, why = false, "timer goroutine not found"
		}
		r.Check(rule, FK(st)+"[timer-takes-no-fanout-lock]", p.Pos(st.Pos()), ok, "the goroutine that removeHandlers waits for never locks the fan-out mutex", why)
	}
	if f := fn(r, p, rule, "dynamic/informer.eventHandler.stop"); f != nil {
		var cl, wt ssa.Instruction
		for _, b := range engine.BlocksInl(f) {
			for _, in := range b.Instrs {
				if c, ok := in.(*ssa.Call); ok && engine.CallKey(c.Common()) == "builtin.close" && E(c.Common().Args[0]) == "p0.stopCh" {
					cl = in
				}
				if u, ok := in.(*ssa.UnOp); ok && u.Op == token.ARROW && E(u.X) == "p0.doneCh" {
					wt = in
				}
			}
		}
		ok, why := cl != nil && wt != nil, "stop must close stopCh and wait for doneCh: otherwise a resync round in flight keeps delivering to a handler after RemoveEventHandlers() has returned"
		if ok && escapes(f, cl, nil, func(in ssa.Instruction) bool { return in == wt }) != nil {
			ok, why = false, "a path returns after close(stopCh) without waiting for the timer goroutine"
		}
		r.Check(rule, FK(f), p.Pos(f.Pos()), ok, "close(stopCh) then <-doneCh", why)
	}
	if f := fn(r, p, rule, "dynamic/informer.eventHandler.start"); f != nil {
		ok := false
		for _, cl := range f.AnonFuncs {
			for _, b := range engine.BlocksInl(cl) {
				for _, in := range b.Instrs {
					if d, isD := in.(*ssa.Defer); isD && engine.CallKey(d.Common()) == "builtin.close" && strings.HasSuffix(E(d.Common().Args[0]), ".doneCh") {
						ok = true
					}
				}
			}
		}
		r.Check(rule, FK(f), p.Pos(f.Pos()), ok, "timer goroutine closes doneCh when it exits", "timer goroutine does not close doneCh on exit")
	}
	if f := fn(r, p, rule, "dynamic/informer.sharedEventHandler.addHandler"); f != nil {
		var reg ssa.Instruction
		for _, b := range engine.BlocksInl(f) {
			for _, in := range b.Instrs {
				if mu, ok := in.(*ssa.MapUpdate); ok && E(mu.Map) == "p0.handlers" && E(mu.Key) == "p1" {
					reg = in
				}
			}
		}
		rs := callsTo(f, false, "informer.eventHandler.resync")
		ok, why := reg != nil && len(rs) == 1, "addHandler must register under handlers[iw] and replay once"
		if ok {
			ri := rs[0].Instr.(ssa.Instruction)
			ls := engine.Locksets(f, nil)
			switch {
			case bypass(f, ri, func(in ssa.Instruction) bool { return in == reg }) != nil:
				ok, why = false, "the add-time replay runs before the handler is registered: an event dispatched in between reaches neither the replay nor the handler (lost event)"
			case !ls[ri]["p0.mutex"] || !ls[reg]["p0.mutex"]:
				ok, why = false, "registration and replay must both happen under the exclusive handler lock (otherwise a live event can interleave with the replay)"
			case escapes(f, nil, nil, func(in ssa.Instruction) bool { return in == ri }) != nil:
				ok, why = false, "a path through addHandler skips the replay"
			}
			// the appended handler wraps the caller's handler
			if ok && !strings.Contains(E(reg.(*ssa.MapUpdate).Value), "builtin.append)(p0.handlers[p1]") {
				ok, why = false, "handlers[iw] is overwritten rather than appended to"
			}
		}
		r.Check(rule, FK(f)+"[register≺replay,locked]", p.Pos(f.Pos()), ok, "register, then replay, both under the lock", why)
		st := callsTo(f, false, "informer.eventHandler.start")
		okT, whyT := len(st) == 1, "no per-handler timer"
		if okT {
			w := unguarded(f, nil, st[0].Instr.(ssa.Instruction), func(l Lit) bool { return l.Pos && l.Atom == "(p3 < p0.relistPeriod)" })
			if w != nil {
				okT, whyT = false, "timer started although the requested period is not shorter than the relist period"
			}
			if E(st[0].Arg(0)) != "p3" {
				okT, whyT = false, "timer uses "+E(st[0].Arg(0))+" as period"
			}
		}
		r.Check(rule, FK(f)+"[timer]", p.Pos(f.Pos()), okT, "timer ⇔ resyncPeriod < relistPeriod", whyT)
	}
	for _, m := range []string{"OnAdd", "OnUpdate", "OnDelete"} {
		if f := fn(r, p, rule, "dynamic/informer.sharedEventHandler."+m); f != nil {
			loops := engine.LoopOver(f, func(x string) bool { return x == "p0.handlers" })
			ok, why := len(loops) == 1, "must iterate over all subscribers' handlers"
			if !ok && len(loops) == 0 {
				// delegation form: one call h(seh, func(handler){ handler.OnX(…) }) where h iterates all
				// handlers with the read lock held around the calls of its function argument
				for _, b := range f.Blocks {
					for _, in := range b.Instrs {
						c, isC := in.(*ssa.Call)
						if !isC {
							continue
						}
						h := engine.StaticFn(c.Common())
						if h == nil || !strings.HasPrefix(FK(h), engine.ModPrefix) || len(c.Common().Args) != 2 || E(c.Common().Args[0]) != "p0" {
							continue
						}
						cls := p.ResolveFuncValue(c.Common().Args[1])
						if len(cls) != 1 || len(callsTo(cls[0], false, "cache.ResourceEventHandler."+m)) != 1 {
							continue
						}
						fwd := callsTo(cls[0], false, "cache.ResourceEventHandler."+m)[0]
						if !strings.HasPrefix(E(fwd.Common().Value), "p0") {
							continue // must forward to the handler it is given
						}
						hl := engine.LoopOver(h, func(x string) bool { return x == "p0.handlers" })
						if len(hl) != 1 {
							continue
						}
						hls := engine.Locksets(h, nil)
						okH := false
						for _, hb := range h.Blocks {
							for _, hin := range hb.Instrs {
								if hc, isHC := hin.(*ssa.Call); isHC && hc.Common().Value == ssa.Value(h.Params[1]) && hl[0].Contains(hin) {
									if _, held := hls[hin]["p0.mutex"]; held {
										okH = true
									}
								}
							}
						}
						if okH {
							ok, why = true, ""
						}
					}
				}
				r.Check(rule, FK(f), p.Pos(f.Pos()), ok, "forwards to every handler of every subscriber under RLock (through an iteration helper)", why)
				continue
			}
			if ok {
				ls := engine.Locksets(f, nil)
				if _, held := ls[loops[0].Header.Instrs[0]]["p0.mutex"]; !held {
					ok, why = false, "fan-out iterates the handler map without holding the lock"
				}
				n := len(callsTo(f, false, "cache.ResourceEventHandler."+m))
				if n != 1 {
					ok, why = false, "fan-out does not forward "+m+" to each handler"
				}
			}
			r.Check(rule, FK(f), p.Pos(f.Pos()), ok, "forwards to every handler of every subscriber under RLock", why)
		}
	}
	for _, m := range []string{"AddEventHandler", "AddEventHandlerWithResyncPeriod", "RemoveEventHandlers"} {
		if f := fn(r, p, rule, "dynamic/informer.informerWrapper."+m); f != nil {
			ok := false
			for _, cs := range callsTo(f, false, "sharedEventHandler.addHandler", "sharedEventHandler.removeHandlers") {
				ok = E(cs.Arg(0)) == "p0" && E(cs.Recv()) == "p0.sharedResourceInformer.eventHandlers"
			}
			r.Check(rule, FK(f), p.Pos(f.Pos()), ok, "acts under the wrapper's own identity on the shared handler set", "wrapper does not register/remove under its own identity")
		}
	}
	if f := fn(r, p, rule, "dynamic/informer.newResourceInformer"); f != nil {
		n := 0
		for _, b := range engine.BlocksInl(f) {
			for _, in := range b.Instrs {
				if a, ok := in.(*ssa.Alloc); ok && a.Heap && strings.HasSuffix(a.Type().String(), "informer.informerWrapper") {
					n++
				}
			}
		}
		r.Check(rule, FK(f), p.Pos(f.Pos()), n == 1, "a fresh wrapper per subscription", "subscriptions do not get their own wrapper (handlers of different subscribers would share an identity)")
	}
}

// informerAcquireRelease (C18 R18.5 / C20 R20.3).
func informerAcquireRelease(r *Report, p *Program, rule string) {
	r.Rule(rule, "every dynInformers.Resource(...) result is kept where Stop releases it, and closed by a defer on constructor error exits")
	n := 0
	for _, f := range p.Scanned {
		if strings.Contains(FK(f), "dynamic/informer.") {
			continue
		}
		acqs := callsTo(f, false, "informer.SharedInformerFactory.Resource")
		for i, a := range acqs {
			n++
			ai := a.Instr.(ssa.Instruction)
			inf := engine.ResultValue(a.Instr, 0)
			c := sf("%s→Resource#%d", FK(f), i)
			if inf == nil {
				r.Check(rule, c, p.InstrPos(ai), false, "", "the acquired informer is discarded (never closed)")
				continue
			}
			// where is it kept?
			var container ssa.Value // map local/field it is Set into, or nil when kept as a single value
			kept := false
			for _, cs := range callsTo(f, false, "common.InformerMap.Set") {
				if engine.DependsOnValue(cs.Common().Args[2], inf, nil) {
					container = engine.ResolveLocal(cs.Common().Args[0])
					kept = true
				}
			}
			if !kept {
				// stored in a struct field (parentInformer) or returned
				if refs := inf.Referrers(); refs != nil {
					for _, u := range *refs {
						if st, ok := u.(*ssa.Store); ok && st.Val == inf {
							kept = true
						}
						if ph, ok := u.(*ssa.Phi); ok {
							_ = ph
							kept = true
						}
					}
				}
			}
			if !kept {
				r.Check(rule, c+"[kept]", p.InstrPos(ai), false, "", "the acquired informer is stored nowhere Stop could release it")
				continue
			}
			// error exits after a successful acquisition
			succ := successEdgeOf(a.Instr)
			var from []engine.Point
			for _, b := range engine.BlocksInl(f) {
				for j := range b.Succs {
					if l, ok := engine.EdgeLit(b, j); ok && succ(l) {
						from = append(from, engine.Point{B: b.Succs[j]})
					}
				}
			}
			// defers that close the container / the informer
			var closers []ssa.Instruction
			for _, b := range engine.BlocksInl(f) {
				for _, in := range b.Instrs {
					d, ok := in.(*ssa.Defer)
					if !ok {
						continue
					}
					dc := engine.StaticFn(d.Common())
					if dc == nil {
						continue
					}
					for _, cl := range callsTo(dc, false, "informer.ResourceInformer.Close") {
						recv := cl.Recv()
						if container != nil {
							// closes elements of the same container
							for _, l := range engine.RangeLoops(dc) {
								if l.Contains(cl.Instr.(ssa.Instruction)) && engine.DependsOnValue(l.X, containerRoot(container), nil) {
									closers = append(closers, in)
								}
							}
							if E(containerRootExpr(container)) != "" {
								for _, l := range engine.RangeLoops(dc) {
									if l.Contains(cl.Instr.(ssa.Instruction)) && sameField(E(l.X), E(container)) && sameLocalMap(dc, l.X, container) {
										closers = append(closers, in)
									}
								}
							}
						} else if engine.DependsOnValue(recv, inf, nil) {
							closers = append(closers, in)
						}
						// the informer itself, captured by the cleanup closure, closed there (whatever container it also sits in)
						if engine.PointsInto(recv, inf) {
							closers = append(closers, in)
						}
					}
				}
			}
			isCloser := func(in ssa.Instruction) bool {
				for _, x := range closers {
					if x == in {
						return true
					}
				}
				// closing on the spot
				if ci, ok := in.(*ssa.Call); ok && strings.HasSuffix(engine.CallKey(ci.Common()), "informer.ResourceInformer.Close") && engine.DependsOnValue(ci.Common().Args[0], inf, nil) {
					return true
				}
				return false
			}
			// feasible error returns: cut the err!=nil edges of calls whose module callees always return a nil error
			infeasible := func(l *Lit) bool {
				if l == nil {
					return false
				}
				v, isNil, ok := l.NilTest()
				if !ok || isNil {
					return false
				}
				call := callOf(v)
				if call == nil {
					return false
				}
				cs := p.CalleesOf(call)
				if len(cs) == 0 {
					return false
				}
				for _, g := range cs {
					if !alwaysNilError(g) {
						return false
					}
				}
				return true
			}
			ok, why := true, ""
			if len(from) > 0 {
				w := engine.Query{Fn: f, From: from,
					Target:   func(in ssa.Instruction) bool { rt, isR := in.(*ssa.Return); return isR && isErrReturn(rt) },
					CutInstr: isCloser,
					CutEdge:  func(b *ssa.BasicBlock, j int, l *Lit) bool { return infeasible(l) }}.Find()
				if w != nil {
					// acceptable if a closing defer was registered before the acquisition
					dominated := false
					for _, d := range closers {
						if bypass(f, ai, func(in ssa.Instruction) bool { return in == d }) == nil {
							dominated = true
						}
					}
					if !dominated {
						ok, why = false, "after this informer was acquired the function can fail (return at "+p.InstrPos(w.Instr)+") without closing it: the subscription leaks and the shared informer never stops; "+pathWhy(w)
					}
				}
			}
			r.Check(rule, c+"[error-exits-release]", p.InstrPos(ai), ok, "error exits after acquisition close it (defer) or are infeasible", why)
		}
	}
	if n < 5 {
		r.Fail(rule, "Resource() acquisitions", "-", "anchor-lost", sf("found %d acquisition sites, expected >= 5", n))
	}
	// the constructors' cleanup defers are conditional on the named error result only
	for _, key := range []string{"controller/composite.newParentController", "controller/decorator.newDecoratorController"} {
		f := fn(r, p, rule, key)
		if f == nil {
			continue
		}
		okD := false
		for _, b := range engine.BlocksInl(f) {
			for _, in := range b.Instrs {
				if d, ok := in.(*ssa.Defer); ok {
					if dc := engine.StaticFn(d.Common()); dc != nil && len(callsTo(dc, false, "informer.ResourceInformer.Close")) > 0 {
						// every Close in the defer is guarded by newErr != nil
						okD = true
						for _, cl := range callsTo(dc, false, "informer.ResourceInformer.Close") {
							if unguarded(dc, nil, cl.Instr.(ssa.Instruction), func(l Lit) bool {
								v, isNil, isT := l.NilTest()
								if !isT || isNil {
									return false
								}
								// the tested variable must be the function's error result itself: every
								// return of the constructor yields exactly that variable
								ld, isLd := v.(*ssa.UnOp)
								if !isLd {
									return false
								}
								fv, isFV := ld.X.(*ssa.FreeVar)
								if !isFV {
									return false
								}
								cell := engine.FreeVarBinding(fv)
								if cell == nil {
									return false
								}
								idx := engine.ErrorResultIndex(f)
								for _, b2 := range engine.BlocksInl(f) {
									for _, in2 := range b2.Instrs {
										if rt, isR := in2.(*ssa.Return); isR && b2.Comment != "recover" {
											rl, isL := rt.Results[idx].(*ssa.UnOp)
											if !isL || rl.X != cell {
												return false
											}
										}
									}
								}
								return true
							}) != nil {
								okD = false
							}
						}
					}
				}
			}
		}
		r.Check(rule, FK(f)+"[cleanup-defer]", p.Pos(f.Pos()), okD, "deferred cleanup closes informers iff the constructor fails", "constructor has no deferred cleanup that closes acquired informers exactly when it fails (the cleanup must test the error that is actually returned — a named result —, not a local that some error returns bypass)")
	}
}

func containerRoot(v ssa.Value) ssa.Value { return v }

func containerRootExpr(v ssa.Value) ssa.Value { return v }

// sameField: both renderings end in the same field name (p0.x vs fv-bound c.x).
func sameField(a, b string) bool {
	ia, ib := strings.LastIndex(a, "."), strings.LastIndex(b, ".")
	return ia >= 0 && ib >= 0 && a[ia:] == b[ib:]
}

// alwaysNilError: every return of f has a constant nil error.
func alwaysNilError(f *ssa.Function) bool {
	idx := engine.ErrorResultIndex(f)
	if idx < 0 || len(f.Blocks) == 0 {
		return false
	}
	for _, b := range engine.BlocksInl(f) {
		for _, in := range b.Instrs {
			if rt, ok := in.(*ssa.Return); ok && !isNilConst(engine.RetVal(rt, idx)) {
				return false
			}
		}
	}
	return true
}

// longLived: the struct owning the map field is allocated somewhere outside the
// goroutine-reachable code (constructors run from Reconcile / main), or it is a
// package variable: such objects outlive a single call and are shared.
func longLived(p *Program, mapID string, conc map[*ssa.Function]bool) bool {
	if strings.HasPrefix(mapID, "global(") {
		return true
	}
	i := strings.LastIndex(mapID, ".")
	owner := mapID[:i]
	called := map[*ssa.Function]bool{}
	for _, outs := range p.CG().Out {
		for _, t := range outs {
			called[t] = true
		}
	}
	for _, f := range p.Scanned {
		if conc[f] || !called[f] {
			continue // goroutine-side allocation, or dead code
		}
		for _, b := range engine.BlocksInl(f) {
			for _, in := range b.Instrs {
				if a, ok := in.(*ssa.Alloc); ok {
					t := strings.TrimPrefix(a.Type().String(), "*")
					if t == owner {
						return true
					}
				}
			}
		}
	}
	return false
}

// checkThenAct (C17 R17.4, C18): a shared map that is consulted and then, depending
// on what was found, written (lazy creation: lookup → nil → create → store) must
// keep the guarding mutex from the lookup to the store. If the mutex is released
// in between, every access is still "under the lock" (no data race) but two
// callers can both see 'absent' and both create: the second store overwrites the
// first — a leaked informer subscription, doubled event handlers, a lost refcount.
func checkThenAct(r *Report, p *Program, rule string) {
	r.Rule(rule, "lookup-then-store on a shared map is one critical section: no release of the guarding mutex between the read and the write that depends on it")
	n := 0
	for _, f := range p.Scanned {
		accs := engine.MapAccesses(f, nil)
		if len(accs) < 2 {
			continue
		}
		ord := map[string]int{}
		for _, a := range accs {
			if a.Write || len(a.Held) == 0 {
				continue
			}
			rv, _ := a.Instr.(ssa.Value)
			if rv == nil {
				continue
			}
			for _, b := range accs {
				if !b.Write || b.Map != a.Map || b.Instr == a.Instr {
					continue
				}
				// the write is reachable from the read, and only across a branch on what was read
				from := []engine.Point{engine.After(a.Instr)}
				// within one iteration: do not follow the back edge of an enclosing loop
				var hdr *ssa.BasicBlock
				if l := engine.EnclosingLoop(engine.RangeLoops(f), a.Instr); l != nil {
					hdr = l.Header
				}
				noBack := func(x ssa.Instruction) bool { return hdr != nil && x.Block() == hdr }
				if (engine.Query{Fn: f, From: from, Target: func(in ssa.Instruction) bool { return in == b.Instr }, CutInstr: noBack}).Find() == nil {
					continue
				}
				dep := func(l Lit) bool {
					return l.Cond != nil && engine.BackSlice(l.Cond, func(x ssa.Value) bool { return x == rv }, nil)
				}
				if unguarded(f, from, b.Instr, dep) != nil {
					continue // not conditional on the value read: not a check-then-act pair
				}
				// only where the stored value is a live resource created in between (an informer,
				// a subscription, something with goroutines/handlers attached): creating it twice
				// leaks one. A memo of plain data written after a slow call (the server-side-apply
				// hash) is last-writer-wins and must NOT hold the lock across the call.
				var stored ssa.Value
				switch w := b.Instr.(type) {
				case *ssa.MapUpdate:
					stored = w.Value
				case ssa.CallInstruction:
					if args := w.Common().Args; len(args) > 0 {
						stored = args[len(args)-1]
					}
				}
				if stored == nil || !createsLiveResource(p, stored) {
					continue
				}
				n++
				k := engine.Short(a.Map) + "@" + Short(FK(f))
				c := sf("%s#%d[check-then-act]", k, ord[k])
				ord[k]++
				// is some release of a mutex held at the read on a path read → … → write?
				released := ""
				for _, blk := range engine.BlocksInl(f) {
					for _, in := range blk.Instrs {
						call, isCall := in.(*ssa.Call)
						if !isCall {
							continue
						}
						m, op := engine.MutexOp(call.Common())
						if op != "unlock" && op != "runlock" {
							continue
						}
						held := false
						for _, h := range a.Held {
							held = held || h.Mutex == m
						}
						if !held {
							continue
						}
						toU := engine.Query{Fn: f, From: from, Target: func(x ssa.Instruction) bool { return x == in }, CutInstr: noBack}.Find()
						fromU := engine.Query{Fn: f, From: []engine.Point{engine.After(in)}, Target: func(x ssa.Instruction) bool { return x == b.Instr }, CutInstr: noBack}.Find()
						if toU != nil && fromU != nil {
							released = p.InstrPos(in)
						}
					}
				}
				r.Check(rule, c, p.InstrPos(b.Instr), released == "", "lookup and dependent store in one critical section ("+heldString(a.Held)+")",
					"the mutex guarding "+engine.Short(a.Map)+" is released (at "+released+") between the lookup at "+p.InstrPos(a.Instr)+" and the store that depends on its result: two concurrent callers can both find the entry absent and both create it; the second store overwrites the first")
			}
		}
	}
	r.Floor(rule, 2)
	_ = n
}

// createsLiveResource: v was produced by a module call that (transitively)
// starts a goroutine or registers an event handler.
func createsLiveResource(p *Program, v ssa.Value) bool {
	live := false
	engine.BackSlice(v, func(x ssa.Value) bool {
		c, ok := x.(*ssa.Call)
		if !ok {
			return false
		}
		for _, g := range p.CalleesOf(c) {
			for h := range p.CG().ReachSet(g) {
				for _, b := range engine.BlocksInl(h) {
					for _, in := range b.Instrs {
						if _, isGo := in.(*ssa.Go); isGo {
							live = true
						}
						if isCallTo(in, "AddEventHandler", "AddEventHandlerWithResyncPeriod") {
							live = true
						}
					}
				}
			}
		}
		return live
	}, nil)
	return live
}

// subscriptionHandles: what identifies one subscription is never shared state of the underlying informer:
// the close function the factory hands in is stored and called as it is (every Close() must reach the factory's
// reference count), and AddEventHandler* do not hand out the registration of the shared fan-out handler.
func subscriptionHandles(r *Report, p *Program, rule string) {
	r.Rule(rule, "newSharedResourceInformer stores the factory's close function unwrapped; informerWrapper.AddEventHandler* return no handle derived from the shared informer's own registration")
	r.Floor(rule, 3)
	if f := fn(r, p, rule, "dynamic/informer.newSharedResourceInformer"); f != nil {
		ok, why := false, "the close function handed in by the factory is not stored in the shared informer"
		for _, b := range f.Blocks {
			for _, in := range b.Instrs {
				st, isS := in.(*ssa.Store)
				if !isS {
					continue
				}
				fa, isFA := st.Addr.(*ssa.FieldAddr)
				if !isFA || fieldName(fa) != "close" {
					continue
				}
				if len(f.Params) >= 3 && st.Val == ssa.Value(f.Params[2]) {
					ok = true
				} else if mc, isMC := st.Val.(*ssa.MakeClosure); isMC && len(f.Params) >= 3 && closureAlwaysCalls(mc, f.Params[2]) {
					ok = true // a plain wrapper (e.g. logging) that calls the factory's close on every path, every time
				} else {
					ok, why = false, "the stored close function is "+E(st.Val)+", not the factory's own: a wrapper (once-only, conditional …) keeps later Close() calls from reaching the reference count, so the shared informer is never stopped"
				}
			}
		}
		r.Check(rule, FK(f)+"[close-unwrapped]", p.Pos(f.Pos()), ok, "close stored as handed in", why)
	}
	for _, m := range []string{"AddEventHandler", "AddEventHandlerWithResyncPeriod"} {
		f := fn(r, p, rule, "dynamic/informer.informerWrapper."+m)
		if f == nil {
			continue
		}
		ok, why := true, ""
		for _, b := range f.Blocks {
			if rt, isR := b.Instrs[len(b.Instrs)-1].(*ssa.Return); isR && len(rt.Results) == 2 {
				v := engine.RetVal(rt, 0)
				if c, isC := v.(*ssa.Const); isC && c.IsNil() {
					continue
				}
				if engine.BackSlice(v, func(x ssa.Value) bool {
					fa, isFA := x.(*ssa.FieldAddr)
					return isFA && (fieldName(fa) == "registration" || fieldName(fa) == "informer")
				}, nil) {
					ok, why = false, "the handle returned to a subscriber is "+E(v)+" — the registration of the shared fan-out handler: removing it (informer.RemoveEventHandler(handle)) cuts every other subscriber off"
				}
			}
		}
		r.Check(rule, FK(f)+"[own-handle]", p.Pos(f.Pos()), ok, "no shared registration handed out", why)
	}
}

// closureAlwaysCalls: the closure captures v and every path through its body calls v (no state, no early exit).
func closureAlwaysCalls(mc *ssa.MakeClosure, v ssa.Value) bool {
	fn, ok := mc.Fn.(*ssa.Function)
	if !ok || len(fn.Blocks) == 0 {
		return false
	}
	var fv *ssa.FreeVar
	for i, b := range mc.Bindings {
		if b == v && i < len(fn.FreeVars) {
			fv = fn.FreeVars[i]
		}
	}
	if fv == nil {
		return false
	}
	for _, fvo := range fn.FreeVars {
		if fvo != fv {
			if _, isPtr := fvo.Type().Underlying().(*types.Pointer); isPtr {
				return false // captures other state (a flag, a sync.Once …)
			}
		}
	}
	calls := func(in ssa.Instruction) bool {
		c, isC := in.(*ssa.Call)
		return isC && !c.Common().IsInvoke() && c.Common().Value == ssa.Value(fv)
	}
	// no return reachable without passing a call of v
	return engine.Query{Fn: fn, CutInstr: calls, Target: func(in ssa.Instruction) bool { _, isR := in.(*ssa.Return); return isR }}.Find() == nil
}

// sameLocalMap: two expressions that render alike denote the same map — when both resolve to a make(map) they must
// be the same one (two local maps of one type render identically).
func sameLocalMap(inner *ssa.Function, a, b ssa.Value) bool {
	ra, rb := engine.ResolveLocal(a), engine.ResolveLocal(b)
	if fv, isFV := ra.(*ssa.FreeVar); isFV {
		if bnd := engine.FreeVarBinding(fv); bnd != nil {
			ra = engine.ResolveLocal(bnd)
		}
	}
	ma, okA := ra.(*ssa.MakeMap)
	mb, okB := rb.(*ssa.MakeMap)
	if okA && okB {
		return ma == mb
	}
	return true
}
