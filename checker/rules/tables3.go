package rules

import (
	"go/types"
	"strings"

	"golang.org/x/tools/go/ssa"

	"mcvet/engine"
)

// Rules written for the fifth round of seeded changes (DESIGN.md 8.6d).

// everyCandidateTried (C05/C01): detectListMapKey leaves its candidate loop only with a key or after the last
// candidate — a candidate that fails (not common, not unique) does not end the search.
func everyCandidateTried(r *Report, p *Program, rule string) {
	r.Rule(rule, "detectListMapKey: the loop over the conventional merge keys is left only by returning a key or by exhausting the candidates (no break on a failed candidate)")
	r.Floor(rule, 1)
	f := fn(r, p, rule, "dynamic/apply.detectListMapKey")
	if f == nil {
		return
	}
	var loop *engine.RangeLoop
	for _, l := range engine.RangeLoops(f) {
		if strings.Contains(E(l.X), "knownMergeKeys") {
			loop = l
		}
	}
	if loop == nil {
		r.Check(rule, FK(f), p.Pos(f.Pos()), false, "", "no loop over knownMergeKeys")
		return
	}
	// from inside the body, a return of "" (or any exit) without passing the loop header
	w := engine.Query{Fn: f, From: []engine.Point{{B: loop.Body}}, CutInstr: func(x ssa.Instruction) bool { return x.Block() == loop.Header },
		Target: func(x ssa.Instruction) bool {
			rt, isR := x.(*ssa.Return)
			if !isR || len(rt.Results) != 1 {
				return false
			}
			c, isC := engine.RetVal(rt, 0).(*ssa.Const)
			return isC && c.Value != nil && c.Value.String() == `""`
		}}.Find()
	r.Check(rule, FK(f), p.Pos(f.Pos()), w == nil, "every candidate is tried", "a candidate key that fails ends the search (the list is then replaced as a whole although a later candidate — e.g. name — identifies its items): observed-only fields of the items are dropped on every sync")
}

// matchIsSelectorOnly (C04/C02): the match predicate handed to ClaimObject decides adoption AND release; it is the
// selector test on the object's labels and nothing else.
func matchIsSelectorOnly(r *Report, p *Program, rule string) {
	r.Rule(rule, "ClaimChildren / ClaimControllerRevisions: the match closure returns Selector.Matches(labels of the object) on every path (no further condition: the same closure decides releases)")
	r.Floor(rule, 2)
	for _, key := range []string{"dynamic/controllerref.UnstructuredManager.ClaimChildren", "dynamic/controllerref.ControllerRevisionManager.ClaimControllerRevisions"} {
		f := fn(r, p, rule, key)
		if f == nil {
			continue
		}
		for _, cs := range callsTo(f, false, ".ClaimObject") {
			a := cs.Common().Args
			if len(a) < 4 {
				continue
			}
			gs := p.ResolveFuncValue(a[len(a)-3])
			ok, why := len(gs) == 1, "the match function handed to ClaimObject could not be resolved"
			if ok {
				g := gs[0]
				for _, b := range g.Blocks {
					rt, isR := b.Instrs[len(b.Instrs)-1].(*ssa.Return)
					if !isR || len(rt.Results) != 1 {
						continue
					}
					v := E(engine.RetVal(rt, 0))
					if !(strings.HasPrefix(v, "call(labels.Selector.Matches)(") && strings.Contains(v, ".Selector") && strings.Contains(v, "GetLabels)(p0)")) {
						ok, why = false, "the match function can answer "+v+": a condition other than the selector decides — an owned child for which it answers false is RELEASED although its labels still match"
					}
				}
			}
			r.Check(rule, FK(f)+"→match", p.InstrPos(cs.Instr), ok, "match = Selector.Matches(labels(obj))", why)
		}
	}
}

// freshDecodeTargets (C07/C09/C13): a JSON document is decoded into a target made for it — inside a loop, in
// the same iteration (Unmarshal into a non-empty map keeps the entries the document does not mention).
func freshDecodeTargets(r *Report, p *Program, rule string) {
	r.Rule(rule, "every json Unmarshal inside a loop decodes into a map/struct that was made in the same iteration")
	n := 0
	for _, f := range p.Scanned {
		k := FK(f)
		if !strings.HasPrefix(k, engine.ModPrefix) || strings.Contains(k, "/pkg/client/generated") || strings.Contains(k, "zzmcvetcontrols") {
			continue
		}
		loops := engine.RangeLoops(f)
		for _, b := range f.Blocks {
			for _, in := range b.Instrs {
				ci, isC := in.(ssa.CallInstruction)
				if !isC || !(strings.HasSuffix(engine.CallKey(ci.Common()), "json.Unmarshal") || strings.HasSuffix(engine.CallKey(ci.Common()), "json.UnmarshalStrict")) {
					continue
				}
				l := engine.EnclosingLoop(loops, in)
				if l == nil {
					continue
				}
				n++
				target := engine.ResolveLocal(ci.Common().Args[len(ci.Common().Args)-1])
				if mi, isMI := target.(*ssa.MakeInterface); isMI {
					target = engine.ResolveLocal(mi.X)
				}
				ok, why := true, ""
				var made []ssa.Instruction
				switch t := target.(type) {
				case *ssa.Alloc:
					// a variable: what is stored into it before the call must be made in this iteration
					if refs := t.Referrers(); refs != nil {
						for _, u := range *refs {
							if st, isS := u.(*ssa.Store); isS && st.Addr == ssa.Value(t) {
								if mk, isI := st.Val.(ssa.Instruction); isI {
									made = append(made, mk)
								}
							}
						}
					}
					if !l.Contains(t) && len(made) == 0 {
						made = append(made, t)
					}
				case ssa.Instruction:
					made = append(made, t)
				}
				for _, m := range made {
					if !l.Contains(m) {
						ok, why = false, "the decode target is made once, outside the loop ("+p.InstrPos(m)+"), and reused for every document: keys of an earlier document that a later one does not mention leak into it"
					}
				}
				r.Check(rule, sf("%s→Unmarshal@loop", Short(k)), p.InstrPos(in), ok, "fresh target per iteration", why)
			}
		}
	}
	r.Floor(rule, 1)
}

// staleParentAfterFinalizerSync (C03/C10): in the composite sync entry nothing that is computed from the parent as
// it came from the cache is used after finalizer.SyncObject returned the (possibly newer, live) parent.
func staleParentAfterFinalizerSync(r *Report, p *Program, rule string) {
	r.Rule(rule, "syncParentObject (both controllers): values derived from the entry's parent parameter are not handed to claimChildren / getChildren / makeSelector consumers / hooks / ManageChildren after finalizer.SyncObject — those work on the parent SyncObject returned")
	r.Floor(rule, 2)
	for _, e := range syncEntries(r, p, rule) {
		f := e.Fn
		if e.SyncObj == nil || len(f.Params) < 2 {
			continue
		}
		soi := e.SyncObj.Instr.(ssa.Instruction)
		upd := engine.ResultValue(e.SyncObj.Instr, 0)
		orig := ssa.Value(f.Params[1])
		ok, why := upd != nil, "SyncObject's result is not used"
		through := func(k string) bool { return strings.HasPrefix(k, engine.ModPrefix) || strings.Contains(k, "labels.") }
		for _, b := range f.Blocks {
			for _, in := range b.Instrs {
				ci, isC := in.(*ssa.Call)
				if !isC || in == soi {
					continue
				}
				k := engine.CallKey(ci.Common())
				if !(strings.HasSuffix(k, ".claimChildren") || strings.HasSuffix(k, ".getChildren") || strings.HasSuffix(k, ".syncRevisions") || strings.HasSuffix(k, ".callHook") ||
					strings.HasSuffix(k, "common.ManageChildren") || strings.HasSuffix(k, "labels.Selector.Matches") || strings.HasSuffix(k, ".updateParentStatus") || strings.HasSuffix(k, "Manager.GetRelatedObjects")) {
					continue
				}
				if (engine.Query{Fn: f, From: []engine.Point{engine.After(soi)}, Target: func(x ssa.Instruction) bool { return x == in }}).Find() == nil {
					continue // before the finalizer sync
				}
				args := append([]ssa.Value{}, ci.Common().Args...)
				if ci.Common().IsInvoke() {
					args = append(args, ci.Common().Value)
				}
				for _, a := range args {
					if !isNillableT(a.Type()) {
						continue
					}
					fromOrig := engine.BackSlice(a, func(x ssa.Value) bool { return x == orig }, through)
					fromUpd := upd != nil && engine.BackSlice(a, func(x ssa.Value) bool { return x == upd }, through)
					if fromOrig && !fromUpd {
						ok, why = false, Short(k)+" at "+p.InstrPos(in)+" is given "+E(a)+", computed from the parent as it entered the sync, after finalizer.SyncObject may have replaced it by the live object: what the hook is sent and what was computed (selector …) belong to two versions of the parent"
					}
				}
			}
		}
		r.Check(rule, FK(f)+"[no-stale-parent]", p.InstrPos(soi), ok, "consumers after SyncObject use the returned parent", why)
	}
}

// finalizerNameInjective (C10): the finalizer a controller owns is an injective function of its name.
func finalizerNameInjective(r *Report, p *Program, rule string) {
	r.Rule(rule, "finalizer.NewManager keeps the name it is given (no slicing / trimming); the controllers build it by concatenating a per-kind prefix and the controller's name")
	r.Floor(rule, 3)
	if f := fn(r, p, rule, "controller/common/finalizer.NewManager"); f != nil {
		ok, why := false, "the Name field is not set from the name parameter"
		for _, b := range f.Blocks {
			for _, in := range b.Instrs {
				if st, isS := in.(*ssa.Store); isS {
					if fa, isFA := st.Addr.(*ssa.FieldAddr); isFA && fieldName(fa) == "Name" {
						ok = st.Val == ssa.Value(f.Params[0])
						if !ok {
							why = "the finalizer name stored is " + E(st.Val) + ", not the name given: two controllers whose names agree in what is kept share one finalizer, and each removes the other's"
						}
					}
				}
			}
		}
		r.Check(rule, FK(f), p.Pos(f.Pos()), ok, "Name := name", why)
	}
	for _, key := range []string{"controller/composite.newParentController", "controller/decorator.newDecoratorController"} {
		f := fn(r, p, rule, key)
		if f == nil {
			continue
		}
		for _, cs := range callsTo(f, false, "finalizer.NewManager") {
			comps := keyComponents(cs.Common().Args[0])
			ok := false
			for _, c := range comps {
				if strings.HasSuffix(c, ".Name") || strings.Contains(c, ".ObjectMeta.Name") {
					ok = true
				}
			}
			why := sf("the finalizer name is built from %v: the controller's name is not carried whole", comps)
			// … and nothing on the way cuts it (a slice expression on a string, a Trim*)
			var cut func(v ssa.Value, d int) bool
			cut = func(v ssa.Value, d int) bool {
				return engine.BackSlice(v, func(x ssa.Value) bool {
					if sl, isSl := x.(*ssa.Slice); isSl {
						if bt, isB := sl.X.Type().Underlying().(*types.Basic); isB && bt.Kind() == types.String {
							return true
						}
					}
					if c, isC := x.(*ssa.Call); isC {
						if strings.HasPrefix(engine.CallKey(c.Common()), "strings.Trim") {
							return true
						}
						// a helper of this module that builds the name: look at what it returns
						if g := c.Common().StaticCallee(); g != nil && d < 3 && len(g.Blocks) > 0 && strings.HasPrefix(engine.CallKey(c.Common()), engine.ModPrefix) {
							for _, gb := range g.Blocks {
								if ret, isR := gb.Instrs[len(gb.Instrs)-1].(*ssa.Return); isR {
									for _, rv := range ret.Results {
										if cut(rv, d+1) {
											return true
										}
									}
								}
							}
						}
					}
					return false
				}, func(k string) bool {
					return strings.HasPrefix(k, engine.ModPrefix) || strings.HasPrefix(k, "fmt.") || strings.HasPrefix(k, "strings.")
				})
			}
			if cut(cs.Common().Args[0], 0) {
				ok, why = false, "the finalizer name is cut (sliced or trimmed) on its way into NewManager: two controllers whose names agree in the part that is kept share one finalizer"
			}
			r.Check(rule, FK(f)+"→NewManager[name]", p.InstrPos(cs.Instr), ok, "the whole controller name is part of the finalizer", why)
		}
	}
}

// resultNotUsedBeforeErrorCheck (C12/C13): between `v, err := f(…)` and the first look at err (or at v itself),
// v is not dereferenced — `defer v.Body.Close()` in front of the error check panics exactly when the call failed.
func resultNotUsedBeforeErrorCheck(r *Report, p *Program, rule string) {
	r.Rule(rule, "sync paths: a pointer-like result of a call that also returns an error is not dereferenced (field access, method call, defer on its field) before that error or the result itself has been tested")
	fns := syncPathFns(p)
	ord := map[string]int{}
	n := 0
	for _, f := range p.Scanned {
		if !fns[f] {
			continue
		}
		for _, b := range f.Blocks {
			for _, in := range b.Instrs {
				call, isCall := in.(*ssa.Call)
				if !isCall {
					continue
				}
				sig := call.Common().Signature()
				if sig == nil || sig.Results().Len() < 2 || !isErrorT(sig.Results().At(sig.Results().Len()-1).Type()) || !isNillableT(sig.Results().At(0).Type()) {
					continue
				}
				if _, isSlice := sig.Results().At(0).Type().Underlying().(*types.Slice); isSlice {
					continue
				}
				ev, v := engine.ErrValue(call), engine.ResultValue(call, 0)
				if ev == nil || v == nil {
					continue
				}
				k := Short(FK(f)) + "→" + Short(engine.CallKey(call.Common()))
				c := sf("%s#%d[used-before-check]", k, ord[k])
				ord[k]++
				n++
				var at ssa.Instruction
				w := engine.Query{Fn: f, From: []engine.Point{engine.After(call)}, CutInstr: func(x ssa.Instruction) bool { return x == ssa.Instruction(call) },
					CutEdge: func(_ *ssa.BasicBlock, _ int, l *Lit) bool {
						if l == nil {
							return false
						}
						x, _, isT := l.NilTest()
						return isT && x != nil && (sameOrPhiOf(x, ev) || engine.SameValue(x, v))
					},
					Target: func(x ssa.Instruction) bool {
						if derefs(x, v) {
							at = x
							return true
						}
						if d, isD := x.(*ssa.Defer); isD {
							for _, a := range d.Common().Args {
								if engine.PointsInto(a, v) && a != v {
									at = x
									return true
								}
							}
							if d.Common().IsInvoke() && engine.PointsInto(d.Common().Value, v) && d.Common().Value != v {
								at = x
								return true
							}
						}
						return false
					}}.Find()
				where := ""
				if at != nil {
					where = p.InstrPos(at)
				}
				r.Check(rule, c, p.InstrPos(call), w == nil, "result untouched until the error was looked at", "the result of "+Short(engine.CallKey(call.Common()))+" is dereferenced at "+where+" before its error is tested: when the call fails the result is nil and the worker panics instead of reporting the error")
			}
		}
	}
	r.Floor(rule, 20)
	_ = n
}

// foundValuesGuarded (C13/C19): the value half of a (value, found) pair returned by a module lookup is a zero
// value when found is false — a nil pointer for pointer-typed values; it is dereferenced only across found == true
// (or a nil test of the value).
func foundValuesGuarded(r *Report, p *Program, rule string) {
	r.Rule(rule, "a pointer-like value returned together with a 'found' bool by a module lookup (cache.Get …) is dereferenced only on paths that established found (or tested the value for nil)")
	ord := map[string]int{}
	for _, f := range p.Scanned {
		k := FK(f)
		if !strings.HasPrefix(k, engine.ModPrefix) || strings.Contains(k, "/pkg/client/generated") || strings.Contains(k, "zzmcvetcontrols") {
			continue
		}
		for _, b := range f.Blocks {
			for _, in := range b.Instrs {
				call, isCall := in.(*ssa.Call)
				if !isCall {
					continue
				}
				sig := call.Common().Signature()
				if sig == nil || sig.Results().Len() != 2 || !isNillableT(sig.Results().At(0).Type()) {
					continue
				}
				if bt, isB := sig.Results().At(1).Type().Underlying().(*types.Basic); !isB || bt.Kind() != types.Bool {
					continue
				}
				g := engine.StaticFn(call.Common())
				if g == nil || !strings.HasPrefix(FK(g), engine.ModPrefix) {
					continue
				}
				v, found := engine.ResultValue(call, 0), engine.ResultValue(call, 1)
				if v == nil {
					continue
				}
				key := Short(k) + "→" + Short(engine.CallKey(call.Common()))
				c := sf("%s#%d[found-guarded]", key, ord[key])
				ord[key]++
				var at ssa.Instruction
				w := engine.Query{Fn: f, From: []engine.Point{engine.After(call)}, CutInstr: func(x ssa.Instruction) bool { return x == ssa.Instruction(call) },
					CutEdge: guardCut(func(l Lit) bool {
						if found != nil && l.Cond == found && l.Pos {
							return true
						}
						x, _, isT := l.NilTest()
						return isT && x != nil && engine.SameValue(x, v)
					}),
					Target: func(x ssa.Instruction) bool {
						if derefs(x, v) {
							at = x
							return true
						}
						return false
					}}.Find()
				where := ""
				if at != nil {
					where = p.InstrPos(at)
				}
				r.Check(rule, c, p.InstrPos(call), w == nil, "dereferenced only where found", "the value returned by "+Short(engine.CallKey(call.Common()))+" is dereferenced at "+where+" on a path that did not establish 'found': a missing entry yields a nil pointer and the worker panics")
			}
		}
	}
	r.Floor(rule, 1)
}

// tombstonesAreValues (C14/C15/C18): client-go delivers cache.DeletedFinalStateUnknown by value.
func tombstonesAreValues(r *Report, p *Program, rule string) {
	r.Rule(rule, "no type assertion or type switch case on *cache.DeletedFinalStateUnknown (a pointer) anywhere in the module: informers deliver the tombstone as a value, the pointer form never matches")
	n := 0
	for _, f := range p.Scanned {
		k := FK(f)
		if !strings.HasPrefix(k, engine.ModPrefix) || strings.Contains(k, "/pkg/client/generated") || strings.Contains(k, "zzmcvetcontrols") {
			continue
		}
		for _, b := range f.Blocks {
			for _, in := range b.Instrs {
				ta, isTA := in.(*ssa.TypeAssert)
				if !isTA || !strings.HasSuffix(ta.AssertedType.String(), "cache.DeletedFinalStateUnknown") {
					continue
				}
				n++
				_, isPtr := ta.AssertedType.(*types.Pointer)
				r.Check(rule, sf("%s→assert(DeletedFinalStateUnknown)#%d", Short(k), n), p.InstrPos(in), !isPtr, "asserted as a value", "the tombstone is asserted as *cache.DeletedFinalStateUnknown: client-go hands it over as a value, so the assertion never holds and the deletion is dropped")
			}
		}
	}
	r.Floor(rule, 4)
}

// fanOutReachesHandlers (C18): every event the shared handler receives reaches the loop over the subscribers.
func fanOutReachesHandlers(r *Report, p *Program, rule string) {
	r.Rule(rule, "sharedEventHandler.OnAdd/OnUpdate/OnDelete: no return before the loop over the registered handlers (an event is never dropped by the fan-out itself)")
	r.Floor(rule, 3)
	for _, m := range []string{"OnAdd", "OnUpdate", "OnDelete"} {
		f := fn(r, p, rule, "dynamic/informer.sharedEventHandler."+m)
		if f == nil {
			continue
		}
		isRet := func(x ssa.Instruction) bool { _, isR := x.(*ssa.Return); return isR }
		// fans(g): g loops over the registered handlers and cannot return in front of that loop
		fans := func(g *ssa.Function) (bool, bool) {
			var loop *engine.RangeLoop
			for _, l := range engine.RangeLoops(g) {
				if strings.HasSuffix(E(l.X), ".handlers") {
					loop = l
				}
			}
			if loop == nil {
				return false, false
			}
			return true, (engine.Query{Fn: g, CutInstr: func(x ssa.Instruction) bool { return x.Block() == loop.Header }, Target: isRet}).Find() == nil
		}
		has, ok := fans(f)
		why := "the event can be dropped before any subscriber is called (a return in front of the loop over the handlers)"
		if !has {
			// the loop may live in a helper of the same type that is called on every path
			why = "no loop over the registered handlers"
			for _, cs := range engine.CallsIn(f, false, func(k string) bool { return strings.Contains(k, "dynamic/informer.sharedEventHandler.") }) {
				g := cs.Common().StaticCallee()
				if g == nil || len(g.Blocks) == 0 {
					continue
				}
				if hasG, okG := fans(g); hasG {
					call := cs.Instr
					ok = okG && (engine.Query{Fn: f, CutInstr: func(x ssa.Instruction) bool { return x == call }, Target: isRet}).Find() == nil
					if !ok {
						why = "the event can be dropped before any subscriber is called (the helper that walks the handlers is not reached on every path, or returns in front of its loop)"
					}
				}
			}
		}
		r.Check(rule, FK(f), p.Pos(f.Pos()), ok, "always reaches the subscribers", why)
	}
}

// createTable (C10/C01/C06): updateChildren, per desired child: not among the observed children ⇒ the body ends in
// a Create/apply request or a recorded error. No other condition (the parent's deletion timestamp, a label, the
// strategy) may stand between "desired and absent" and the creation: during finalization the children are still
// reconciled to the finalize hook's answer, and convergence needs every desired child to come into being.
func createTable(r *Report, p *Program, rule string) {
	r.Rule(rule, "updateChildren, per desired child: absent from the observed children ⇒ Create (or server-side apply) is sent, or an error is recorded; nothing else decides it")
	r.Floor(rule, 1)
	f := fn(r, p, rule, "controller/common.updateChildren")
	if f == nil {
		return
	}
	var l *engine.RangeLoop
	for _, x := range engine.RangeLoops(f) {
		if E(x.X) == "p4" {
			l = x
		}
	}
	if l == nil {
		r.Check(rule, FK(f), p.Pos(f.Pos()), false, "", "expected a loop over the desired children (parameter 4)")
		return
	}
	paths, err := engine.EnumPaths(f, engine.EnumOpts{Start: l.Body, Leave: func(b *ssa.BasicBlock) bool { return b == l.Header || b == l.Exit },
		Effect: func(in ssa.Instruction) bool {
			if isSinkOrThinWrapper(p, in, "Create") || isSinkOrThinWrapper(p, in, "Patch") || isCallTo(in, "builtin.append") {
				return true
			}
			// a helper that carries the create / apply request is that request
			if ci, isC := in.(ssa.CallInstruction); isC {
				if h := engine.StaticFn(ci.Common()); h != nil && h != f {
					for _, sg := range calleeVerbSigs(p, h, 1) {
						if strings.Contains(sg, "Create") || strings.Contains(sg, "Patch") {
							return true
						}
					}
				}
			}
			return false
		}})
	ok, why := err == nil, ""
	if err != nil {
		why = err.Error()
	}
	key := E(l.Key)
	seen := 0
	for _, pa := range paths {
		if val(pa, -1, func(a string) bool { return a == "(p3["+key+"] == nil)" }) != 1 {
			continue
		}
		seen++
		if len(pa.Effects) == 0 {
			ok, why = false, "a desired child that does not exist is neither created nor reported as failed; path: "+pa.Cond()
		}
	}
	if ok && seen == 0 {
		ok, why = false, "no path on which the desired child is found absent from the observed children (looked up under its own key "+key+")"
	}
	r.Check(rule, FK(f), p.Pos(f.Pos()), ok, "absent ⇒ Create ∨ error", why)
}

// hookAnswerFrozenAfterGate (C08/C07/C01): the rollout gate decides "is this child up to date" by comparing the
// observed child with ApplyUpdate(observed, the hook's child as the revision code saw it). Whatever is applied and
// recorded as last-applied afterwards must therefore be that same object: an edit of a desired child between the
// rollout decision (syncRollingUpdate, inside syncRevisions) and ManageChildren makes the recorded configuration
// differ from what the next sync's gate recomputes, and the rollout waits for ever for a child that is fine.
func hookAnswerFrozenAfterGate(r *Report, p *Program, rule string) {
	r.Rule(rule, "composite sync: after the rollout decision (syncRollingUpdate in syncRevisions; syncRevisions in syncParentObject) no desired child that came from the hook is edited before ManageChildren records it")
	r.Floor(rule, 2)
	isUnstr := func(t types.Type) bool {
		pt, ok := t.(*types.Pointer)
		if !ok {
			return false
		}
		n, ok := pt.Elem().(*types.Named)
		return ok && n.Obj().Name() == "Unstructured" && n.Obj().Pkg() != nil && strings.HasSuffix(n.Obj().Pkg().Path(), "apis/meta/v1/unstructured")
	}
	through := func(k string) bool {
		return strings.HasPrefix(k, engine.ModPrefix) || strings.HasPrefix(k, engine.KUnstructured)
	}
	for _, c := range []struct {
		fn, gate string
		src      func(x ssa.Value) bool
	}{
		{"controller/composite.parentController.syncRevisions", "composite.parentController.syncRollingUpdate", func(x ssa.Value) bool {
			fa, ok := x.(*ssa.FieldAddr)
			return ok && (fieldName(fa) == "desiredChildMap" || fieldName(fa) == "syncResult")
		}},
		{"controller/composite.parentController.syncParentObject", "composite.parentController.syncRevisions", func(x ssa.Value) bool {
			cl, ok := x.(*ssa.Call)
			return ok && strings.HasSuffix(engine.CallKey(cl.Common()), "composite.parentController.syncRevisions")
		}},
	} {
		f := fn(r, p, rule, c.fn)
		if f == nil {
			continue
		}
		gates := callsTo(f, false, c.gate)
		if len(gates) == 0 {
			r.Check(rule, FK(f), p.Pos(f.Pos()), false, "", "the call that makes the rollout decision ("+c.gate+") was not found")
			continue
		}
		gate := gates[0].Instr
		ok, why := true, ""
		seenM := map[ssa.Instruction]bool{}
		for _, b := range f.Blocks {
			for _, in := range b.Instrs {
				v, isV := in.(ssa.Value)
				if !isV || !isUnstr(v.Type()) || !engine.BackSlice(v, c.src, through) {
					continue
				}
				for _, m := range p.Mutations(f, v) {
					if seenM[m.Instr] {
						continue
					}
					mi := m.Instr
					if (engine.Query{Fn: f, From: []engine.Point{engine.After(gate)}, Target: func(x ssa.Instruction) bool { return x == mi }}).Find() == nil {
						continue
					}
					seenM[mi] = true
					ok, why = false, sf("a desired child is edited (%s at %s) after the rollout decision was taken on the unedited hook answer: what ManageChildren records as last-applied is not what the next sync's rollout gate recomputes, so a healthy child looks \"not updated yet\" for ever", m.What, p.InstrPos(mi))
				}
			}
		}
		r.Check(rule, FK(f)+"[after:"+Short(c.gate)+"]", p.InstrPos(gate), ok, "desired children only read after the rollout decision", why)
	}
}

// stopChannelHandedOut (C20): a hosted controller is stopped by closing ONE channel (the receiver field that Stop
// closes before it waits for the workers). Everything Start hands a channel to — cache-sync waits, worker loops,
// the customize manager, whose lazily created related informers wait on it — must get that channel: a wait that
// is given the "done" channel (closed only after the workers returned) or no channel at all cannot be interrupted,
// the worker never returns, Stop blocks for ever and the reconciler that called it with it.
func stopChannelHandedOut(r *Report, p *Program, rule string) {
	r.Rule(rule, "hosted controllers: the only receiver channel Start (and its goroutines) pass on is the one Stop closes; a controller that asks its customize manager for related objects hands it that channel in Start")
	r.Floor(rule, 6)
	for _, typ := range []string{"controller/composite.parentController", "controller/decorator.decoratorController"} {
		start, stop := fn(r, p, rule, typ+".Start"), fn(r, p, rule, typ+".Stop")
		if start == nil || stop == nil {
			continue
		}
		recvField := func(f *ssa.Function, v ssa.Value) string {
			// v is a load of a field of f's (or its enclosing function's) receiver
			u, ok := v.(*ssa.UnOp)
			if !ok {
				return ""
			}
			fa, ok := u.X.(*ssa.FieldAddr)
			if !ok {
				return ""
			}
			if e := E(fa.X); e != "p0" && !strings.HasPrefix(e, "free") && !strings.Contains(e, "p0") {
				return ""
			}
			return fieldName(fa)
		}
		stopField := ""
		for _, b := range stop.Blocks {
			for _, in := range b.Instrs {
				if isCallTo(in, "builtin.close") {
					if f := recvField(stop, in.(ssa.CallInstruction).Common().Args[0]); f != "" && stopField == "" {
						stopField = f
					}
				}
			}
		}
		r.Check(rule, FK(stop)+"[closes-a-channel]", p.Pos(stop.Pos()), stopField != "", "Stop closes "+stopField, "Stop closes no channel field of the controller")
		if stopField == "" {
			continue
		}
		ok, why := true, ""
		handed := false
		fns := append([]*ssa.Function{start}, engine.Closures(start)...)
		for _, g := range fns {
			for _, b := range g.Blocks {
				for _, in := range b.Instrs {
					ci, isC := in.(ssa.CallInstruction)
					if !isC || isCallTo(in, "builtin.close") {
						continue
					}
					for _, a := range ci.Common().Args {
						if _, isCh := a.Type().Underlying().(*types.Chan); !isCh {
							continue
						}
						f := recvField(g, a)
						if f == "" {
							continue
						}
						if f != stopField {
							ok, why = false, sf("%s is given the controller's %s at %s, but Stop closes %s: the wait behind it is not released by Stop (and if %s is closed only when the workers are done, Stop deadlocks on it)", engine.Short(engine.CallKey(ci.Common())), f, p.InstrPos(in), stopField, f)
						} else if strings.HasSuffix(engine.CallKey(ci.Common()), "customize.Manager.Start") {
							handed = true
						}
					}
				}
			}
		}
		r.Check(rule, FK(start)+"[only-the-stop-channel]", p.Pos(start.Pos()), ok, "every channel passed on is "+stopField, why)
		// does this controller use related objects at all?
		uses := false
		for _, f := range p.Scanned {
			if strings.HasPrefix(Short(FK(f)), typ+".") && len(callsTo(f, true, "customize.Manager.GetRelatedObjects")) > 0 {
				uses = true
			}
		}
		if uses {
			r.Check(rule, FK(start)+"[customize-gets-the-stop-channel]", p.Pos(start.Pos()), handed, "customize.Start("+stopField+")",
				"the controller asks its customize manager for related objects but never hands it the stop channel: the manager waits for a related informer's first sync on a nil channel, so a related resource that cannot be listed blocks the worker for ever and Stop (which waits for the workers) never returns — the controller cannot be stopped, updated or deleted")
		}
	}
}

// responseTypesDecodePlainly (C19/C13): strict / loose decoding of a hook answer is decided by the decoder
// webhookExecutor.Call picks (UnmarshalStrict vs Unmarshal). encoding/json-style decoders hand the whole document
// to a type's own UnmarshalJSON when it has one — unknown and duplicate fields are then whatever that method makes
// of them, whatever mode was configured. So no module type that a hook answer is decoded into may bring its own
// UnmarshalJSON / UnmarshalText (the k8s types — Unstructured, metav1 — are arbitrary content by design).
func responseTypesDecodePlainly(r *Report, p *Program, rule string) {
	r.Rule(rule, "no module type reachable from a hook response type (the second argument of Hook.Call) declares UnmarshalJSON/UnmarshalText: the configured decoding mode is what decides how the answer is read")
	r.Floor(rule, 3)
	seen := map[string]bool{}
	var walk func(t types.Type, d int) (string, bool)
	walk = func(t types.Type, d int) (string, bool) {
		if d > 8 {
			return "", true
		}
		switch x := t.(type) {
		case *types.Pointer:
			return walk(x.Elem(), d+1)
		case *types.Slice:
			return walk(x.Elem(), d+1)
		case *types.Array:
			return walk(x.Elem(), d+1)
		case *types.Map:
			if s, ok := walk(x.Key(), d+1); !ok {
				return s, false
			}
			return walk(x.Elem(), d+1)
		case *types.Named:
			if x.Obj().Pkg() == nil || !strings.HasPrefix(x.Obj().Pkg().Path()+"/", strings.TrimSuffix(engine.ModPrefix, "/")+"/") && !strings.HasPrefix(x.Obj().Pkg().Path(), strings.TrimSuffix(engine.ModPrefix, "/")) {
				return "", true
			}
			k := x.Obj().Pkg().Path() + "." + x.Obj().Name()
			if seen[k] {
				return "", true
			}
			seen[k] = true
			ms := types.NewMethodSet(types.NewPointer(x))
			for i := 0; i < ms.Len(); i++ {
				if n := ms.At(i).Obj().Name(); n == "UnmarshalJSON" || n == "UnmarshalText" {
					// promoted from an embedded non-module type (metav1.TypeMeta has none; Unstructured is not embedded): report only own methods
					if fn, isF := ms.At(i).Obj().(*types.Func); isF && fn.Pkg() != nil && strings.HasPrefix(fn.Pkg().Path(), strings.TrimSuffix(engine.ModPrefix, "/")) {
						return k + "." + n, false
					}
				}
			}
			return walk(x.Underlying(), d+1)
		case *types.Struct:
			for i := 0; i < x.NumFields(); i++ {
				if s, ok := walk(x.Field(i).Type(), d+1); !ok {
					return s, false
				}
			}
		}
		return "", true
	}
	n := 0
	done := map[string]bool{}
	for _, f := range p.Scanned {
		for _, cs := range callsTo(f, true, "hooks.Hook.Call") {
			if len(cs.Common().Args) < 2 {
				continue
			}
			resp := engine.Unwrap(cs.Arg(1))
			t := resp.Type()
			if done[t.String()] {
				continue
			}
			done[t.String()] = true
			n++
			bad, ok := walk(t, 0)
			r.Check(rule, sf("response-type %s", strings.TrimPrefix(strings.TrimPrefix(t.String(), "*"), engine.ModPrefix)), p.InstrPos(cs.Instr), ok, "decoded field by field by the configured decoder",
				"the hook answer is decoded into a type with its own "+bad+": the strict decoder hands the document to that method, so unknown/duplicate fields are no longer rejected in strict mode (and loose mode reads whatever the method reads)")
		}
	}
	if n == 0 {
		r.Check(rule, "hook response types", "-", false, "", "no Hook.Call site with a typed response found")
	}
}
