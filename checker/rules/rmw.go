package rules

import (
	"go/types"
	"strings"

	"golang.org/x/tools/go/ssa"

	"mcvet/engine"
)

// identityGetters: reads of a cached object that cannot go stale.
var identityGetters = map[string]bool{"GetUID": true, "GetName": true, "GetNamespace": true, "GetKind": true,
	"GetAPIVersion": true, "GroupVersionKind": true, "GetObjectKind": true}

// rmwUpdateClosures lists the closures handed as update function to the
// read-modify-write helpers (the helper GETs the live object and hands it to the closure).
func rmwUpdateClosures(p *Program) (out []*ssa.Function, sites []engine.CallSite) {
	for _, f := range p.Scanned {
		for _, cs := range callsTo(f, false, "clientset.ResourceClient.AtomicUpdate", "clientset.ResourceClient.AtomicStatusUpdate", "controllerref.atomicUpdate", ".UpdateWithRetries") {
			for _, a := range cs.Common().Args {
				if mc, ok := engine.ResolveLocal(a).(*ssa.MakeClosure); ok {
					cl := mc.Fn.(*ssa.Function)
					if len(cl.Params) == 1 && cl.Signature.Results().Len() == 1 && isBoolT(cl.Signature.Results().At(0).Type()) {
						out = append(out, cl)
						sites = append(sites, cs)
					}
				}
			}
		}
	}
	return
}

// rmwClosuresReadLive (C02 R02.7, C04 R04.5, C11): inside a read-modify-write
// update closure the new state is computed from the live object the helper
// fetched (the closure's parameter). A captured object of the same type is the
// caller's cached copy: reading anything but its identity from it writes stale
// state back under the live resourceVersion — optimistic concurrency does not
// catch that.
func rmwClosuresReadLive(r *Report, p *Program, rule string) {
	r.Rule(rule, "update closures of AtomicUpdate/AtomicStatusUpdate/atomicUpdate/UpdateWithRetries read mutable state only from the live object they are given, never from a captured (cached) object of the same type")
	r.Floor(rule, 7)
	cls, _ := rmwUpdateClosures(p)
	for _, cl := range cls {
		pt := cl.Params[0].Type()
		ok, why := true, ""
		for _, fv := range cl.FreeVars {
			t := fv.Type()
			same := types.Identical(t, pt)
			if pp, isP := t.Underlying().(*types.Pointer); isP && types.Identical(pp.Elem(), pt) {
				same = true
			}
			if !same {
				continue
			}
			// every use of the captured object
			seen := map[ssa.Value]bool{}
			var walk func(v ssa.Value)
			walk = func(v ssa.Value) {
				if seen[v] || !ok {
					return
				}
				seen[v] = true
				refs := v.Referrers()
				if refs == nil {
					return
				}
				for _, u := range *refs {
					switch x := u.(type) {
					case *ssa.UnOp:
						walk(x)
					case *ssa.FieldAddr:
						// reading a field of the cached object (ObjectMeta embedding is followed to the getter)
						if strings.HasSuffix(E(x), ".ObjectMeta") || strings.HasSuffix(E(x), ".TypeMeta") {
							walk(x)
						} else {
							ok, why = false, "reads field "+E(x)+" of the captured object"
						}
					case *ssa.MakeInterface:
						walk(x)
					case *ssa.ChangeType:
						walk(x)
					case *ssa.ChangeInterface:
						walk(x)
					case *ssa.Phi:
						walk(x)
					case ssa.CallInstruction:
						k := engine.CallKey(x.Common())
						name := k
						if i := strings.LastIndex(k, "."); i >= 0 {
							name = k[i+1:]
						}
						if identityGetters[name] || strings.Contains(k, "logr.") || strings.Contains(k, "logging.") {
							continue
						}
						ok, why = false, "calls "+Short(k)+" on the captured (cached) object "+E(fv)+" at "+p.InstrPos(x)+": the value written back must come from the live object passed to the closure"
					case *ssa.Store:
						if x.Val == v {
							ok, why = false, "stores the captured object"
						}
					case *ssa.MakeClosure:
						// handed on to an inner closure: follow the binding
						inner := x.Fn.(*ssa.Function)
						for i, b := range x.Bindings {
							if b == v && i < len(inner.FreeVars) {
								walk(inner.FreeVars[i])
							}
						}
					}
				}
			}
			walk(fv)
		}
		r.Check(rule, FK(cl)+"[reads-live]", p.Pos(cl.Pos()), ok, "no mutable state read from a captured object of the parameter's type", why)
	}
}

// adoptAlwaysWrites (C03/C04): an adoption's update closure reports 'changed' on
// every path, or 'unchanged' only where it found the adopting controller's own
// reference. The helpers treat 'unchanged' as success, and ClaimObject treats a
// successful adopt as 'this object is ours now'.
func adoptAlwaysWrites(r *Report, p *Program, rule string) {
	r.Rule(rule, "the update closure of every adopt callback returns true on every path (false only across a comparison with the adopting controller's own UID): a skipped write still counts as a successful adoption")
	r.Floor(rule, 2)
	adopters, _, _ := claimCallbacks(p)
	cls, sites := rmwUpdateClosures(p)
	for i, cl := range cls {
		isAdopt := false
		for _, a := range adopters {
			if sites[i].Fn == a {
				isAdopt = true
			}
		}
		if !isAdopt {
			continue
		}
		w := engine.Query{Fn: cl, Target: func(in ssa.Instruction) bool {
			rt, isR := in.(*ssa.Return)
			if !isR {
				return false
			}
			c, isC := engine.RetVal(rt, 0).(*ssa.Const)
			return !isC || c.Value == nil || c.Value.String() != "true"
		}, CutEdge: func(b *ssa.BasicBlock, i int, l *Lit) bool {
			return l != nil && l.Pos && l.Op.String() == "==" && strings.Contains(l.Atom, ".UID") && strings.Contains(l.Atom, ".Controller")
		}}.Find()
		r.Check(rule, FK(cl)+"[always-writes]", p.Pos(cl.Pos()), w == nil, "adopt closure returns true on every path", "the adoption's update closure can report 'nothing to do' "+pathWhy(w)+": AtomicUpdate then returns success without writing and ClaimObject counts the object as adopted although its controller is someone else")
	}
}

// rmwResultSet (C12 R12.7, C13 R13.5, C10): the read-modify-write helpers
// return the object callers go on working with (finalizer.SyncObject hands it
// back as "the updated parent"). Whenever the retry closure can end without an
// error it must have assigned the named result — also on the 'nothing to do'
// branch, which is exactly the branch taken when a failed sync is retried with a
// stale cache.
func rmwResultSet(r *Report, p *Program, rule string) {
	r.Rule(rule, "AtomicUpdate/AtomicStatusUpdate: every path of the retry closure that may end without error has assigned the named result (callers dereference it)")
	r.Floor(rule, 2)
	for _, key := range []string{"dynamic/clientset.ResourceClient.AtomicUpdate", "dynamic/clientset.ResourceClient.AtomicStatusUpdate",
		"client/generated/clientset/internalclientset/typed/metacontroller/v1alpha1.controllerRevisions.UpdateWithRetries"} {
		f := p.Func(key)
		if f == nil {
			if !strings.Contains(key, "UpdateWithRetries") {
				r.Fail(rule, key, "-", "anchor-lost", "function not found")
			}
			continue
		}
		// is the object result used by any caller?
		used := false
		for _, cs := range p.CallersOf(f) {
			if v := cs.Instr.Value(); v != nil {
				if refs := v.Referrers(); refs != nil {
					for _, u := range *refs {
						if ex, ok := u.(*ssa.Extract); ok && ex.Index == 0 && ex.Referrers() != nil && len(*ex.Referrers()) > 0 {
							used = true
						}
						if _, ok := u.(*ssa.Return); ok {
							used = true
						}
					}
				}
			}
		}
		if !used {
			r.Check(rule, FK(f)+"[result-unused]", p.Pos(f.Pos()), true, "no caller uses the object result", "")
			continue
		}
		// the named result cell
		var cell *ssa.Alloc
		for _, b := range engine.BlocksInl(f) {
			for _, in := range b.Instrs {
				if a, ok := in.(*ssa.Alloc); ok && a.Comment == "result" {
					cell = a
				}
			}
		}
		if cell == nil {
			// result is not captured: it is assigned in f itself — require a non-nil store before each maybe-nil-error return
			r.Check(rule, FK(f)+"[result-set]", p.Pos(f.Pos()), false, "", "cannot find the named result cell 'result' captured by the retry closure")
			continue
		}
		ok, why := true, ""
		ncl := 0
		for _, cl := range engine.Closures(f) {
			var fv *ssa.FreeVar
			for _, v := range cl.FreeVars {
				if engine.FreeVarBinding(v) == ssa.Value(cell) {
					fv = v
				}
			}
			if fv == nil || engine.ErrorResultIndex(cl) < 0 {
				continue
			}
			ncl++
			w := engine.Query{Fn: cl, Target: func(in ssa.Instruction) bool {
				rt, isR := in.(*ssa.Return)
				return isR && !isErrReturn(rt)
			}, CutInstr: func(in ssa.Instruction) bool {
				st, isS := in.(*ssa.Store)
				if !isS || st.Addr != ssa.Value(fv) {
					return false
				}
				c, isC := st.Val.(*ssa.Const)
				return !(isC && c.IsNil())
			}}.Find()
			// what is handed back is the LIVE object (what GET returned, or what the write returned),
			// never the caller's original: callers continue with it as "the current parent"
			for _, b := range engine.BlocksInl(cl) {
				for _, in := range b.Instrs {
					st, isS := in.(*ssa.Store)
					if !isS || st.Addr != ssa.Value(fv) {
						continue
					}
					if c, isC := st.Val.(*ssa.Const); isC && c.IsNil() {
						continue
					}
					live := engine.BackSlice(st.Val, func(x ssa.Value) bool {
						call, isCall := x.(*ssa.Call)
						if !isCall {
							return false
						}
						_, verb, isSink := engine.ClassifySink(engine.CallKey(call.Common()))
						k := engine.CallKey(call.Common())
						return isSink && (verb == "Update" || verb == "UpdateStatus") || strings.HasSuffix(k, "ResourceInterface.Get") || strings.HasSuffix(k, ".Get") && strings.Contains(k, "ControllerRevision")
					}, nil)
					if !live {
						ok, why = false, "result is assigned "+E(st.Val)+" at "+p.InstrPos(in)+", which is not the object just read from or written to the API server: on the nothing-to-do branch the caller gets its own stale copy back and goes on with it (e.g. a parent without the deletionTimestamp/finalizer the live one has)"
					}
				}
			}
			if w != nil {
				ok, why = false, "the retry closure can end without error and without assigning result ("+pathWhy(w)+"): the helper then returns (nil, nil) and finalizer.SyncObject hands a nil parent to the sync, which dereferences it"
			}
		}
		if ncl == 0 {
			ok, why = false, "no retry closure captures the named result"
		}
		r.Check(rule, FK(f)+"[result-set]", p.Pos(f.Pos()), ok, "result assigned on every path that may succeed", why)
	}
}
