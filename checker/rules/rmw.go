package rules

import (
	"go/types"
	"strings"

	"golang.org/x/tools/go/ssa"

	"mcvet/engine"
)

// identityGetters: reads of a cached object that cannot go stale.
var identityGetters = map[string]bool{"GetUID": true, "GetName": true, "GetNamespace": true, "GetKind": true,
	"GetAPIVersion": true, "GroupVersionKind": true, "GetObjectKind": true}

// rmwUpdateClosures lists the closures handed as update function to the
// read-modify-write helpers (the helper GETs the live object and hands it to the closure).
func rmwUpdateClosures(p *Program) (out []*ssa.Function, sites []engine.CallSite) {
	for _, f := range p.Scanned {
		for _, cs := range callsTo(f, false, "clientset.ResourceClient.AtomicUpdate", "clientset.ResourceClient.AtomicStatusUpdate", "controllerref.atomicUpdate", ".UpdateWithRetries") {
			for _, a := range cs.Common().Args {
				if mc, ok := engine.ResolveLocal(a).(*ssa.MakeClosure); ok {
					cl := mc.Fn.(*ssa.Function)
					if len(cl.Params) == 1 && cl.Signature.Results().Len() == 1 && isBoolT(cl.Signature.Results().At(0).Type()) {
						out = append(out, cl)
						sites = append(sites, cs)
					}
				}
			}
		}
	}
	return
}

// rmwClosuresReadLive (C02 R02.7, C04 R04.5, C11): inside a read-modify-write
// update closure the new state is computed from the live object the helper
// fetched (the closure's parameter). A captured object of the same type is the
// caller's cached copy: reading anything but its identity from it writes stale
// state back under the live resourceVersion — optimistic concurrency does not
// catch that.
func rmwClosuresReadLive(r *Report, p *Program, rule string) {
	r.Rule(rule, "update closures of AtomicUpdate/AtomicStatusUpdate/atomicUpdate/UpdateWithRetries read mutable state only from the live object they are given, never from a captured (cached) object of the same type")
	r.Floor(rule, 7)
	cls, _ := rmwUpdateClosures(p)
	for _, cl := range cls {
		pt := cl.Params[0].Type()
		ok, why := true, ""
		for _, fv := range cl.FreeVars {
			t := fv.Type()
			same := types.Identical(t, pt)
			if pp, isP := t.Underlying().(*types.Pointer); isP && types.Identical(pp.Elem(), pt) {
				same = true
			}
			if !same {
				continue
			}
			// every use of the captured object
			seen := map[ssa.Value]bool{}
			var walk func(v ssa.Value)
			walk = func(v ssa.Value) {
				if seen[v] || !ok {
					return
				}
				seen[v] = true
				refs := v.Referrers()
				if refs == nil {
					return
				}
				for _, u := range *refs {
					switch x := u.(type) {
					case *ssa.UnOp:
						walk(x)
					case *ssa.FieldAddr:
						// reading a field of the cached object (ObjectMeta embedding is followed to the getter)
						if strings.HasSuffix(E(x), ".ObjectMeta") || strings.HasSuffix(E(x), ".TypeMeta") {
							walk(x)
						} else {
							ok, why = false, "reads field "+E(x)+" of the captured object"
						}
					case *ssa.MakeInterface:
						walk(x)
					case *ssa.ChangeType:
						walk(x)
					case *ssa.ChangeInterface:
						walk(x)
					case *ssa.Phi:
						walk(x)
					case ssa.CallInstruction:
						k := engine.CallKey(x.Common())
						name := k
						if i := strings.LastIndex(k, "."); i >= 0 {
							name = k[i+1:]
						}
						if identityGetters[name] || strings.Contains(k, "logr.") || strings.Contains(k, "logging.") {
							continue
						}
						ok, why = false, "calls "+Short(k)+" on the captured (cached) object "+E(fv)+" at "+p.InstrPos(x)+": the value written back must come from the live object passed to the closure"
					case *ssa.Store:
						if x.Val == v {
							ok, why = false, "stores the captured object"
						}
					case *ssa.MakeClosure:
						// handed on to an inner closure: follow the binding
						inner := x.Fn.(*ssa.Function)
						for i, b := range x.Bindings {
							if b == v && i < len(inner.FreeVars) {
								walk(inner.FreeVars[i])
							}
						}
					}
				}
			}
			walk(fv)
		}
		r.Check(rule, FK(cl)+"[reads-live]", p.Pos(cl.Pos()), ok, "no mutable state read from a captured object of the parameter's type", why)
	}
}

// adoptAlwaysWrites (C03/C04): an adoption's update closure reports 'changed' on
// every path, or 'unchanged' only where it found the adopting controller's own
// reference. The helpers treat 'unchanged' as success, and ClaimObject treats a
// successful adopt as 'this object is ours now'.
func adoptAlwaysWrites(r *Report, p *Program, rule string) {
	r.Rule(rule, "the update closure of every adopt callback returns true on every path (false only across a comparison with the adopting controller's own UID): a skipped write still counts as a successful adoption")
	r.Floor(rule, 2)
	adopters, _, _ := claimCallbacks(p)
	cls, sites := rmwUpdateClosures(p)
	for i, cl := range cls {
		isAdopt := false
		for _, a := range adopters {
			if sites[i].Fn == a {
				isAdopt = true
			}
		}
		if !isAdopt {
			continue
		}
		w := engine.Query{Fn: cl, Target: func(in ssa.Instruction) bool {
			rt, isR := in.(*ssa.Return)
			if !isR {
				return false
			}
			c, isC := engine.RetVal(rt, 0).(*ssa.Const)
			return !isC || c.Value == nil || c.Value.String() != "true"
		}, CutEdge: func(b *ssa.BasicBlock, i int, l *Lit) bool {
			return l != nil && l.Pos && l.Op.String() == "==" && strings.Contains(l.Atom, ".UID") && strings.Contains(l.Atom, ".Controller")
		}}.Find()
		r.Check(rule, FK(cl)+"[always-writes]", p.Pos(cl.Pos()), w == nil, "adopt closure returns true on every path", "the adoption's update closure can report 'nothing to do' "+pathWhy(w)+": AtomicUpdate then returns success without writing and ClaimObject counts the object as adopted although its controller is someone else")
	}
}
