package rules

import (
	"strings"

	"mcvet/engine"

	"golang.org/x/tools/go/ssa"
)

func init() {
	Registry["C11"] = checkC11
}

func checkC11(r *Report, p *Program) {
	rmwOperands(r, p, "R11.9")
	smallVerbClauses(r, p, "R11.11")
	failedResultNotUsed(r, p, "R11.10") // a panic in child reconciliation unwinds past the status write
	r.Explanation = "Decides how the parent status write is wired, on all paths: (R11.1) once the composite sync entry has got past the hook and label checks, every path to a return passes updateParentStatus — whether ManageChildren ran, failed or was skipped — and ManageChildren's error is only returned afterwards; (R11.2) updateParentStatus stores observedGeneration = generation of the parent it was given (the one sent to the hook) into the hook's status (an empty map when null) before AtomicStatusUpdate; the status handed in is syncResult.Status, which on the rolling path is the latest revision's; the update closure's only mutation is content[\"status\"] = status and it reports no change when DeepEqual; (R11.3) AtomicStatusUpdate: live Get (zero GetOptions), UID comparison and write all inside the RetryOnConflict callback, UpdateStatus exactly on HasSubresource(\"status\"), Update otherwise; Reconcile starts no controller for a parent CRD without status subresource; discovery registers subresources only after a group's resource table is complete; (R11.4) the status-write error is dropped only under IsNotFound/IsConflict."
	r.NotDecided = "equality of the stored status with the hook's value; behaviour under injected conflicts; API-server semantics of the status endpoint."
	var comp *syncEntry
	for _, e := range syncEntries(r, p, "R11.1") {
		if e.Kind == "composite" {
			e := e
			comp = &e
		}
	}
	if comp == nil {
		return
	}
	r11_1(r, p, comp)
	r11_2(r, p, comp)
	r11_3(r, p)
	r11_4(r, p, comp)
	// the status decision compares with the LIVE object inside the read-modify-write, not with a memo of earlier syncs
	rmwClosuresReadLive(r, p, "R11.5")
	noNewCrossSyncState(r, p, "R11.6")
	// the status write's errors keep their identity (conflict ⇒ retried on a fresh read; not-found/conflict recognised by the caller) — R12.1 on the helpers
	errorRule(r, p, "R11.7", 4, func(f *ssa.Function) bool {
		return strings.HasSuffix(p.File(f), "dynamic/clientset/clientset.go") || strings.HasSuffix(FK(f), "parentController.updateParentStatus")
	})
}

func r11_1(r *Report, p *Program, e *syncEntry) {
	const rule = "R11.1"
	r.Rule(rule, "status update is attempted on every path once children are (or would be) reconciled")
	r.Floor(rule, 3)
	f := e.Fn
	if e.StatusUpd == nil {
		r.Check(rule, FK(f)+"[updateParentStatus]", p.Pos(f.Pos()), false, "", "composite sync entry never calls updateParentStatus")
		return
	}
	su := e.StatusUpd.Instr.(ssa.Instruction)
	mc := e.Manage.Instr.(ssa.Instruction)
	w := escapes(f, mc, nil, func(in ssa.Instruction) bool { return in == su })
	r.Check(rule, FK(f)+"[manage≺status]", p.InstrPos(mc), w == nil, "after ManageChildren every path passes updateParentStatus", "a path returns after ManageChildren without attempting the status update; "+pathWhy(w))
	// skipping ManageChildren (dying parent) still updates status: from the gate's blocks
	var from []engine.Point
	for _, b := range engine.BlocksInl(f) {
		for i := range b.Succs {
			if l, ok := engine.EdgeLit(b, i); ok && !l.Pos && isShouldFinalizeLit(l) {
				from = append(from, engine.Point{B: b.Succs[i]})
			}
		}
	}
	ok, why := len(from) > 0, "no ShouldFinalize gate found"
	if ok {
		if w := (engine.Query{Fn: f, From: from, Target: engine.IsReturn, CutInstr: func(in ssa.Instruction) bool { return in == su }}).Find(); w != nil {
			ok, why = false, "when children are not managed (dying parent) the status update is skipped; "+pathWhy(w)
		}
	}
	r.Check(rule, FK(f)+"[skip-manage≺status]", p.InstrPos(su), ok, "status updated also when ManageChildren is skipped", why)
	// ManageChildren's error reaches a return only after the status update, and is returned
	ev := engine.ErrValue(e.Manage.Instr)
	okR := false
	for _, b := range engine.BlocksInl(f) {
		for _, in := range b.Instrs {
			if rt, isR := in.(*ssa.Return); isR && ev != nil && engine.BackSlice(rt.Results[0], func(x ssa.Value) bool { return x == ev }, engine.Is("fmt.Errorf")) {
				okR = true
				if bypass(f, rt, func(x ssa.Instruction) bool { return x == su }) != nil {
					okR = false
				}
			}
		}
	}
	r.Check(rule, FK(f)+"[manageErr-returned-after-status]", p.InstrPos(mc), okR, "ManageChildren's error is returned, after the status update", "ManageChildren's error is lost or returned before the status update")
}

func r11_2(r *Report, p *Program, e *syncEntry) {
	const rule = "R11.2"
	r.Rule(rule, "what is written: hook status (+observedGeneration of the parent sent to the hook), nothing else")
	r.Floor(rule, 5)
	ups := fn(r, p, rule, "controller/composite.parentController.updateParentStatus")
	if ups == nil {
		return
	}
	asus := callsTo(ups, false, "ResourceClient.AtomicStatusUpdate")
	if len(asus) != 1 {
		r.Fail(rule, FK(ups), p.Pos(ups.Pos()), "anchor-lost", "expected exactly one AtomicStatusUpdate call")
		return
	}
	asu := asus[0].Instr.(ssa.Instruction)
	var og *ssa.MapUpdate
	for _, b := range engine.BlocksInl(ups) {
		for _, in := range b.Instrs {
			if mu, ok := in.(*ssa.MapUpdate); ok {
				if k, isC := constStr(mu.Key); isC && k == "observedGeneration" {
					og = mu
				}
			}
		}
	}
	ok, why := og != nil, "observedGeneration is not stored in updateParentStatus (it must be taken from the parent that was sent to the hook, not from the live object)"
	if ok {
		if E(og.Value) != "call(unstructured.Unstructured.GetGeneration)(p1)" {
			ok, why = false, "observedGeneration = "+E(og.Value)+", want the generation of the parent given to updateParentStatus"
		} else if bypass(ups, asu, func(in ssa.Instruction) bool { return in == ssa.Instruction(og) }) != nil {
			ok, why = false, "AtomicStatusUpdate reachable without observedGeneration set"
		} else if !engine.DependsOnValue(og.Map, ups.Params[2], nil) {
			ok, why = false, "observedGeneration is not stored into the hook's status map"
		}
	}
	r.Check(rule, FK(ups)+"[observedGeneration]", p.Pos(ups.Pos()), ok, "status[observedGeneration] = parent.GetGeneration() before the write", why)
	// nil status replaced by an empty map
	okN := false
	for _, b := range engine.BlocksInl(ups) {
		for i := range b.Succs {
			if l, has := engine.EdgeLit(b, i); has {
				if v, isNil, isT := l.NilTest(); isT && isNil && engine.DependsOnValue(v, ups.Params[2], nil) {
					for _, in := range b.Succs[i].Instrs {
						if _, isMM := in.(*ssa.MakeMap); isMM {
							okN = true
						}
					}
				}
			}
		}
	}
	r.Check(rule, FK(ups)+"[nil-status→{}]", p.Pos(ups.Pos()), okN, "null status becomes an empty map", "a null hook status is not replaced by an empty map before observedGeneration is stored (nil map write panics)")
	// the same parent is used for the identity check
	okP := E(asus[0].Arg(0)) == "p1"
	r.Check(rule, FK(ups)+"[orig=parent]", p.InstrPos(asu), okP, "AtomicStatusUpdate(orig = parent)", "AtomicStatusUpdate is given "+E(asus[0].Arg(0))+" as the original object")
	// the closure
	if mc, isMC := engine.ResolveLocal(asus[0].Arg(1)).(*ssa.MakeClosure); isMC {
		cl := mc.Fn.(*ssa.Function)
		muts := p.Mutations(cl, cl.Params[0])
		okM, whyM := len(muts) == 1, sf("closure performs %d mutations of the live object, want exactly one", len(muts))
		for _, m := range muts {
			if !strings.HasPrefix(m.What, "mapupdate ") || !strings.HasSuffix(m.What, `["status"]`) {
				okM, whyM = false, "closure mutates the live parent via "+m.What+" (only content[\"status\"] may change)"
			} else if mu := m.Instr.(*ssa.MapUpdate); !engine.DependsOnValue(mu.Value, ups.Params[2], nil) {
				okM, whyM = false, "content[\"status\"] is assigned "+E(mu.Value)+", not the hook status"
			}
		}
		r.Check(rule, FK(cl)+"[writes-only-status]", p.Pos(cl.Pos()), okM, "closure's only mutation: content[status] = status", whyM)
		paths, err := engine.EnumPaths(cl, engine.EnumOpts{Effect: func(in ssa.Instruction) bool { _, ok := in.(*ssa.MapUpdate); return ok }})
		okT, whyT := err == nil, ""
		for _, pa := range paths {
			rt, isR := pa.End.(*ssa.Return)
			if !isR {
				continue
			}
			eq := 0
			for _, l := range pa.Lits {
				if isDeepEqualLit(l) {
					c := l.Cond.(*ssa.Call)
					a0, a1 := E(c.Common().Args[0]), E(c.Common().Args[1])
					if !(strings.HasSuffix(a0, `["status"]`) && engine.DependsOnValue(c.Common().Args[1], ups.Params[2], nil) || strings.HasSuffix(a1, `["status"]`) && engine.DependsOnValue(c.Common().Args[0], ups.Params[2], nil)) {
						okT, whyT = false, "closure compares "+a0+" with "+a1+", not the live status with the desired one"
					}
					if l.Pos {
						eq = 1
					} else {
						eq = -1
					}
				}
			}
			ret := E(rt.Results[0])
			switch {
			case eq == 1 && (ret != "false" || len(pa.Effects) > 0):
				okT, whyT = false, "equal status still reports a change / writes"
			case eq == -1 && (ret != "true" || len(pa.Effects) != 1):
				okT, whyT = false, "different status is not written"
			case eq == 0:
				okT, whyT = false, "a path does not compare old and new status"
			}
		}
		r.Check(rule, FK(cl)+"[skip-when-equal]", p.Pos(cl.Pos()), okT, "false ⇔ DeepEqual(live status, desired status)", whyT)
	} else {
		r.Fail(rule, FK(ups)+"[closure]", p.InstrPos(asu), "undecided", "update function is not a closure literal")
	}
	// call site: status argument is the hook result's Status
	f := e.Fn
	a := E(e.StatusUpd.Arg(1))
	okS := strings.HasSuffix(a, "#0.Status") && strings.Contains(a, ".syncRevisions)(")
	r.Check(rule, FK(f)+"[status=syncResult.Status]", p.InstrPos(e.StatusUpd.Instr), okS, "status argument is syncResult.Status", "updateParentStatus receives "+a)
	// the parent given is the one the sync worked on
	okPar := engine.SameValue(e.StatusUpd.Arg(0), e.Manage.Common().Args[2])
	r.Check(rule, FK(f)+"[status-parent=managed-parent]", p.InstrPos(e.StatusUpd.Instr), okPar, "same parent object for children and status", "status is written for a different parent value than the one managed")
	// rolling path: aggregated Status is latest's
	if sr := fn(r, p, rule, "controller/composite.parentController.syncRevisions"); sr != nil {
		okL := false
		for _, b := range engine.BlocksInl(sr) {
			for _, in := range b.Instrs {
				if st, isS := in.(*ssa.Store); isS && strings.HasSuffix(E(st.Addr), "CompositeHookResponse>.Status") {
					okL = strings.HasSuffix(E(st.Val), ".syncResult.Status") && strings.Contains(E(st.Val), "parentRevision>")
					if !okL {
						r.Check(rule, FK(sr)+"[status=latest]", p.InstrPos(in), false, "", "aggregated status is "+E(st.Val))
					}
				}
			}
		}
		if okL {
			r.Check(rule, FK(sr)+"[status=latest]", p.Pos(sr.Pos()), true, "aggregate takes the latest revision's status", "")
		}
	}
}

func r11_3(r *Report, p *Program) {
	retriesReallyRetry(r, p, "R11.8", 1)
	const rule = "R11.3"
	r.Rule(rule, "endpoint selection, identity check and re-read inside the retry loop; no controller without status subresource")
	r.Floor(rule, 6)
	asu := fn(r, p, rule, "dynamic/clientset.ResourceClient.AtomicStatusUpdate")
	if asu != nil {
		rcs := callsTo(asu, false, "retry.RetryOnConflict")
		if len(rcs) != 1 {
			r.Fail(rule, FK(asu), p.Pos(asu.Pos()), "anchor-lost", "expected one RetryOnConflict call")
		} else if mc, ok := engine.ResolveLocal(rcs[0].Common().Args[1]).(*ssa.MakeClosure); ok {
			cl := mc.Fn.(*ssa.Function)
			sinks := engine.Sinks([]*ssa.Function{cl})
			gets := callsTo(cl, false, "dynamic.ResourceInterface.Get")
			outer := engine.Sinks([]*ssa.Function{asu})
			okIn := len(gets) == 1 && len(sinks) == 2 && len(outer) == 0 && len(callsTo(asu, false, "dynamic.ResourceInterface.Get")) == 0
			r.Check(rule, FK(asu)+"[get+write-inside-retry]", p.Pos(asu.Pos()), okIn, "Get and both writes are inside the retried function", sf("Get/writes are not all inside the RetryOnConflict callback (inside: %d gets, %d writes; outside: %d writes)", len(gets), len(sinks), len(outer)))
			if len(gets) == 1 {
				opt := gets[0].Arg(2)
				okZ := E(opt) == "nil" || strings.Contains(opt.String(), "GetOptions{}")
				if al := literalAlloc(opt); al != nil {
					okZ = al.Referrers() == nil || len(*al.Referrers()) <= 1
				}
				r.Check(rule, FK(cl)+"[live-read]", p.InstrPos(gets[0].Instr), okZ, "Get with zero GetOptions (a quorum read, not the watch cache)", "the read-modify-write Get passes non-default GetOptions ("+opt.String()+"): a cached read defeats the conflict retry and the equality skip")
			}
			hasSub := func(pos bool) func(l Lit) bool {
				return func(l Lit) bool {
					return l.Pos == pos && strings.Contains(l.Atom, "APIResource.HasSubresource)(") && strings.HasSuffix(l.Atom, `"status")`)
				}
			}
			for _, s := range sinks {
				in := s.Instr.(ssa.Instruction)
				switch s.Verb {
				case "UpdateStatus":
					w := unguarded(cl, nil, in, hasSub(true))
					r.Check(rule, s.Construct()+"[endpoint]", p.InstrPos(in), w == nil, "UpdateStatus only when the status subresource exists", "UpdateStatus reachable without HasSubresource(\"status\"); "+pathWhy(w))
				case "Update":
					w := unguarded(cl, nil, in, hasSub(false))
					r.Check(rule, s.Construct()+"[endpoint]", p.InstrPos(in), w == nil, "whole-object Update only when there is no status subresource", "whole-object Update reachable although the status subresource exists (spec/metadata could be altered); "+pathWhy(w))
				default:
					r.Check(rule, s.Construct()+"[endpoint]", p.InstrPos(in), false, "", "unexpected write verb in AtomicStatusUpdate")
				}
				// the object written is the one read, after update()
				okO := engine.DependsOnValue(s.Arg(1), engine.ResultValue(gets[0].Instr, 0), nil)
				r.Check(rule, s.Construct()+"[writes-what-was-read]", p.InstrPos(in), okO, "the freshly read object is what is written", "the object written is not the freshly read one")
			}
		} else {
			r.Fail(rule, FK(asu), p.Pos(asu.Pos()), "undecided", "RetryOnConflict callback is not a closure literal")
		}
	}
	// Reconcile gate
	if rec := fn(r, p, rule, "controller/composite.Metacontroller.Reconcile"); rec != nil {
		rcs := callsTo(rec, false, ".reconcileCompositeController")
		ok, why := len(rcs) == 1, "Reconcile does not call reconcileCompositeController exactly once"
		if ok {
			w := unguarded(rec, nil, rcs[0].Instr.(ssa.Instruction), func(l Lit) bool {
				return l.Pos && strings.HasPrefix(l.Atom, "call(controller/common.HasStatusSubresource)(")
			})
			if w != nil {
				ok, why = false, "a controller can be started for a parent CRD without status subresource; "+pathWhy(w)
			}
		}
		r.Check(rule, FK(rec)+"[status-subresource-gate]", p.Pos(rec.Pos()), ok, "controller started only if the parent CRD has the status subresource", why)
	}
	if hs := fn(r, p, rule, "controller/common.HasStatusSubresource"); hs != nil {
		paths, err := engine.EnumPaths(hs, engine.EnumOpts{})
		ok, why := err == nil, ""
		for _, pa := range paths {
			if rt, isR := pa.End.(*ssa.Return); isR && E(rt.Results[0]) != "false" {
				v := val(pa, -1, func(a string) bool { return strings.HasSuffix(a, ".Name == p1)") })
				s1 := val(pa, -1, func(a string) bool { return strings.HasSuffix(a, ".Subresources == nil)") })
				s2 := val(pa, -1, func(a string) bool { return strings.HasSuffix(a, ".Subresources.Status == nil)") })
				if !(v == 1 && s1 == -1 && s2 == -1) {
					ok, why = false, "returns true without version match ∧ Subresources != nil ∧ Status != nil: ["+pa.Cond()+"]"
				}
			}
		}
		r.Check(rule, FK(hs), p.Pos(hs.Pos()), ok, "true ⇒ requested version has subresources.status", why)
	}
	// discovery: subresource registration after the resource table is complete
	if rf := fn(r, p, rule, "dynamic/discovery.ResourceMap.refresh"); rf != nil {
		var subMU, resMU ssa.Instruction
		for _, b := range engine.BlocksInl(rf) {
			for _, in := range b.Instrs {
				if mu, ok := in.(*ssa.MapUpdate); ok {
					m := E(mu.Map)
					if strings.HasSuffix(m, ".subresourceMap") {
						subMU = in
					}
					if strings.HasSuffix(m, ".resources") {
						resMU = in
					}
				}
			}
		}
		ok, why := subMU != nil && resMU != nil, "cannot find the resource table / subresourceMap stores"
		if ok {
			loops := engine.RangeLoops(rf)
			l1, l2 := engine.EnclosingLoop(loops, resMU), engine.EnclosingLoop(loops, subMU)
			switch {
			case l1 == nil || l2 == nil:
				ok, why = false, "stores are not inside loops"
			case l1 == l2 || l1.InBody(l2.Header):
				ok, why = false, "subresources are registered while the resource table is still being built: a '<resource>/status' entry listed before '<resource>' is dropped and HasSubresource(\"status\") stays false"
			default:
				if w := bypass(rf, subMU, func(in ssa.Instruction) bool { return in.Block() == l1.Exit }); w != nil {
					ok, why = false, "subresource registration can run before the resource loop has finished"
				}
			}
		}
		r.Check(rule, FK(rf)+"[subresources-second-pass]", p.Pos(rf.Pos()), ok, "subresources registered in a second pass", why)
	}
	if hs := fn(r, p, rule, "dynamic/discovery.APIResource.HasSubresource"); hs != nil {
		ok := false
		for _, b := range engine.BlocksInl(hs) {
			for _, in := range b.Instrs {
				if rt, isR := in.(*ssa.Return); isR && E(rt.Results[0]) == "p0.subresourceMap[p1]" {
					ok = true
				}
			}
		}
		r.Check(rule, FK(hs), p.Pos(hs.Pos()), ok, "HasSubresource(k) = subresourceMap[k]", "HasSubresource no longer answers from the registered subresources")
	}
}

func r11_4(r *Report, p *Program, e *syncEntry) {
	const rule = "R11.4"
	r.Rule(rule, "status-write error dropped only under IsNotFound / IsConflict")
	r.Floor(rule, 1)
	ok, why := errorDiscipline(p, e.Fn, e.StatusUpd.Instr, []string{"IsNotFound", "IsConflict"}, nil)
	r.Check(rule, FK(e.Fn)+"→updateParentStatus[error]", p.InstrPos(e.StatusUpd.Instr), ok, "error returned unless NotFound/Conflict", why)
	if ups := fn(r, p, rule, "controller/composite.parentController.updateParentStatus"); ups != nil {
		for _, cs := range callsTo(ups, false, "ResourceClient.AtomicStatusUpdate") {
			ok, why := errorDiscipline(p, ups, cs.Instr, nil, nil)
			r.Check(rule, FK(ups)+"→AtomicStatusUpdate[error]", p.InstrPos(cs.Instr), ok, "error propagated", why)
		}
	}
}
