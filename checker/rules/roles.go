package rules

import (
	"go/ast"
	"go/types"
	"golang.org/x/tools/go/ssa"
	"sort"
	"strings"

	"golang.org/x/tools/go/types/typeutil"

	"mcvet/engine"
)

// argumentRolesAgree — a belief rule (Engler et al.): parameter names state the role of each position. At a call,
// an argument that carries the NAME of another parameter of identical type (swap), or that is passed where a
// same-named, same-typed variable (or sibling field) of the caller is in reach (wrong operand), contradicts the
// roles both sides have written down. The rule does not use source text: identifiers are resolved through
// go/types, names are compared case- and punctuation-insensitively, only positions whose types are identical can
// be confused. It is listed under every property whose anchored files contain the call.
type roleFinding struct {
	pos, construct, why string
	file                string
}

// genericParamNames: parameter names of dependency functions that state no role.
var genericParamNames = map[string]bool{"obj": true, "object": true, "o": true, "v": true, "x": true, "y": true, "s": true, "b": true, "in": true, "out": true,
	"data": true, "value": true, "val": true, "item": true, "e": true, "err": true, "ctx": true, "a": true, "i": true, "n": true, "t": true, "src": true, "dst": true, "elems": true}

// roleExceptions: callee / parameter / argument name → reason (confirmed by reading; one symbol each).
var roleExceptions = map[string]string{
	"childClaimMap.setParentRevision/pr/latest": "moving the claim to the latest revision is the purpose of these calls; the caller's pr is the previous claimant",
}

func normName(s string) string {
	var b strings.Builder
	for _, r := range strings.ToLower(s) {
		if r >= 'a' && r <= 'z' || r >= '0' && r <= '9' {
			b.WriteRune(r)
		}
	}
	return b.String()
}

// roleSitesByFunc: call sites examined per "file:function" (for the controls).
var roleSitesByFunc = map[string]int{}

var roleMemo = map[*Program]struct {
	fs    []roleFinding
	sites int
}{}

func roleFindings(p *Program) ([]roleFinding, int) {
	if m, ok := roleMemo[p]; ok {
		return m.fs, m.sites
	}
	fs, sites := roleFindingsUncached(p)
	roleMemo[p] = struct {
		fs    []roleFinding
		sites int
	}{fs, sites}
	return fs, sites
}

func roleFindingsUncached(p *Program) ([]roleFinding, int) {
	var out []roleFinding
	sites := 0
	roleSitesByFunc = map[string]int{}
	for _, pkg := range p.Pkgs {
		if pkg.TypesInfo == nil || strings.Contains(pkg.PkgPath, "/client/generated") || strings.Contains(pkg.PkgPath, "/internal/testutils") {
			continue
		}
		info := pkg.TypesInfo
		for fi, file := range pkg.Syntax {
			fname := ""
			if fi < len(pkg.CompiledGoFiles) {
				fname = pkg.CompiledGoFiles[fi]
			}
			if strings.Contains(fname, "zz_generated") {
				continue
			}
			rel := strings.TrimPrefix(fname, p.Repo+"/")
			for _, d := range file.Decls {
				fd, ok := d.(*ast.FuncDecl)
				if !ok || fd.Body == nil {
					continue
				}
				ord := map[string]int{}
				// what each local variable was made from (its defining / assigning right-hand sides)
				madeFrom := map[types.Object][]ast.Expr{}
				ast.Inspect(fd.Body, func(n ast.Node) bool {
					switch x := n.(type) {
					case *ast.AssignStmt:
						for i, l := range x.Lhs {
							if id, isI := l.(*ast.Ident); isI {
								if o := info.ObjectOf(id); o != nil {
									if len(x.Rhs) == len(x.Lhs) {
										madeFrom[o] = append(madeFrom[o], x.Rhs[i])
									} else if len(x.Rhs) == 1 {
										madeFrom[o] = append(madeFrom[o], x.Rhs[0])
									}
								}
							}
						}
					case *ast.ValueSpec:
						for i, id := range x.Names {
							if o := info.ObjectOf(id); o != nil && i < len(x.Values) {
								madeFrom[o] = append(madeFrom[o], x.Values[i])
							}
						}
					}
					return true
				})
				var derived func(o, from types.Object, d int) bool
				derived = func(o, from types.Object, d int) bool {
					if d > 3 {
						return false
					}
					for _, e := range madeFrom[o] {
						hit := false
						ast.Inspect(e, func(n ast.Node) bool {
							if id, isI := n.(*ast.Ident); isI {
								if u := info.ObjectOf(id); u != nil && (u == from || (u != o && derived(u, from, d+1))) {
									hit = true
								}
							}
							return !hit
						})
						if hit {
							return true
						}
					}
					return false
				}
				results := map[types.Object]bool{}
				if fo, isF := info.Defs[fd.Name].(*types.Func); isF {
					rs := fo.Type().(*types.Signature).Results()
					for i := 0; i < rs.Len(); i++ {
						results[rs.At(i)] = true
					}
				}
				sameVar := func(a, b ast.Expr) bool {
					ia, okA := a.(*ast.Ident)
					ib, okB := b.(*ast.Ident)
					if !okA || !okB {
						return false
					}
					oa, ob := info.ObjectOf(ia), info.ObjectOf(ib)
					return oa != nil && oa == ob
				}
				ast.Inspect(fd.Body, func(n ast.Node) bool {
					switch x := n.(type) {
					case *ast.AssignStmt:
						// (E) x = append(y, …): the slice that grows is the one that is kept
						if len(x.Lhs) == 1 && len(x.Rhs) == 1 && x.Tok.String() == "=" {
							if c, isC := x.Rhs[0].(*ast.CallExpr); isC && len(c.Args) >= 1 {
								if id, isI := c.Fun.(*ast.Ident); isI && id.Name == "append" && info.Uses[id] == types.Universe.Lookup("append") {
									li, okL := x.Lhs[0].(*ast.Ident)
									ai, okA := c.Args[0].(*ast.Ident)
									if okL && okA && !sameVar(li, ai) && li.Name != "_" {
										pos := p.Fset.Position(x.Pos())
										ord["append"]++
										out = append(out, roleFinding{rel + ":" + itoaN(pos.Line), fd.Name.Name + "→append#" + itoaN(ord["append"]-1), li.Name + " = append(" + ai.Name + ", …): the elements are added to one slice and the result is kept in another — what " + li.Name + " held is lost", rel})
									}
								}
							}
						}
					case *ast.CallExpr:
						// (K) append(xs, e): when the caller has a variable named like the singular of xs (names / name,
						// matchingParents / parent) of the element type, that is what is appended
						if id, isI := x.Fun.(*ast.Ident); isI && id.Name == "append" && info.Uses[id] == types.Universe.Lookup("append") && len(x.Args) == 2 && !x.Ellipsis.IsValid() {
							sn := ""
							switch s := x.Args[0].(type) {
							case *ast.Ident:
								sn = s.Name
							case *ast.SelectorExpr:
								sn = s.Sel.Name
							}
							el, isEl := x.Args[1].(*ast.Ident)
							sing := strings.TrimSuffix(normName(sn), "s")
							if isEl && len(sing) >= 4 {
								eo, _ := info.Uses[el].(*types.Var)
								if eo != nil && !sameRole(normName(el.Name), sing) {
									for sc := pkg.Types.Scope().Innermost(x.Pos()); sc != nil && sc != pkg.Types.Scope() && sc != types.Universe; sc = sc.Parent() {
										for _, n := range sc.Names() {
											v, isV := sc.Lookup(n).(*types.Var)
											if !isV || v == eo || v.Pos() >= x.Pos() || !sameRole(normName(n), sing) || !types.Identical(v.Type(), eo.Type()) {
												continue
											}
											if _, got := sc.LookupParent(n, x.Pos()); got != v {
												continue
											}
											pos := p.Fset.Position(x.Pos())
											ord["appendel"]++
											out = append(out, roleFinding{rel + ":" + itoaN(pos.Line), fd.Name.Name + "→append-element#" + itoaN(ord["appendel"]-1), el.Name + " is appended to " + sn + " although the caller has " + n + " of the same type in scope: wrong operand", rel})
										}
									}
								}
							}
						}
					case *ast.BinaryExpr:
						// (G) x == x / x != x
						if (x.Op.String() == "==" || x.Op.String() == "!=") && sameVar(x.X, x.Y) {
							pos := p.Fset.Position(x.Pos())
							ord["cmp"]++
							out = append(out, roleFinding{rel + ":" + itoaN(pos.Line), fd.Name.Name + "→compare#" + itoaN(ord["cmp"]-1), "a value is compared with itself: the test is constant", rel})
						}
					}
					ce, ok := n.(*ast.CallExpr)
					if !ok {
						return true
					}
					// (G) DeepEqual(x, x)
					if len(ce.Args) == 2 && sameVar(ce.Args[0], ce.Args[1]) {
						if f, _ := typeutil.Callee(info, ce).(*types.Func); f != nil && strings.Contains(f.Name(), "Equal") {
							pos := p.Fset.Position(ce.Pos())
							ord["cmp"]++
							out = append(out, roleFinding{rel + ":" + itoaN(pos.Line), fd.Name.Name + "→compare#" + itoaN(ord["cmp"]-1), f.Name() + " is given the same value twice: the test is constant", rel})
						}
					}
					callee, _ := typeutil.Callee(info, ce).(*types.Func)
					if callee == nil || callee.Pkg() == nil {
						return true
					}
					inModule := strings.HasPrefix(callee.Pkg().Path(), strings.TrimSuffix(engine.ModPrefix, "/"))
					sig := callee.Type().(*types.Signature)
					np := sig.Params().Len()
					if sig.Variadic() {
						np--
					}
					if np > len(ce.Args) {
						np = len(ce.Args)
					}
					if np < 1 {
						return true
					}
					sites++
					roleSitesByFunc[rel+":"+fd.Name.Name]++
					ckey := callee.Name()
					if recv := sig.Recv(); recv != nil {
						t := recv.Type()
						if pt, isP := t.(*types.Pointer); isP {
							t = pt.Elem()
						}
						if nt, isN := t.(*types.Named); isN {
							ckey = nt.Obj().Name() + "." + ckey
						}
					}
					ord[ckey]++
					construct := fd.Name.Name + "→" + ckey + "#" + string(rune('0'+ord[ckey]-1))
					argName := func(e ast.Expr) string {
						switch x := e.(type) {
						case *ast.Ident:
							return x.Name
						case *ast.SelectorExpr:
							return x.Sel.Name
						}
						return ""
					}
					for i := 0; i < np; i++ {
						pi := sig.Params().At(i)
						pn := normName(pi.Name())
						an := normName(argName(ce.Args[i]))
						if pn == "" || an == "" || an == pn {
							continue
						}
						soft := sameRole(an, pn)
						pos := p.Fset.Position(ce.Args[i].Pos())
						where := rel + ":" + itoaN(pos.Line)
						// (A) the argument is named like ANOTHER parameter of identical type
						for j := 0; j < sig.Params().Len() && !soft; j++ {
							pj := sig.Params().At(j)
							if j != i && sameRole(an, normName(pj.Name())) && types.Identical(pj.Type(), pi.Type()) {
								out = append(out, roleFinding{where, construct + "[arg" + itoaN(i) + "]", "argument " + argName(ce.Args[i]) + " is passed as parameter " + pi.Name() + " of " + ckey + ", which has a parameter " + pj.Name() + " of the same type: swapped roles", rel})
							}
						}
						switch x := ce.Args[i].(type) {
						case *ast.Ident:
							// (B) a same-named, same-typed variable of the caller is in reach, yet another one is passed
							obj, _ := info.Uses[x].(*types.Var)
							if obj == nil || (!inModule && genericParamNames[pn]) || !types.Identical(obj.Type(), pi.Type()) {
								continue // a derived / more specific value handed to a wider parameter is not a mix-up of two like operands
							}
							for sc := pkg.Types.Scope().Innermost(x.Pos()); sc != nil && sc != pkg.Types.Scope() && sc != types.Universe; sc = sc.Parent() {
								for _, n := range sc.Names() {
									if !(normName(n) == pn || (!soft && inModule && sameRole(normName(n), pn))) || roleExceptions[ckey+"/"+pi.Name()+"/"+x.Name] != "" {
										continue
									}
									v, isV := sc.Lookup(n).(*types.Var)
									if !isV || v == obj || v.Pos() >= x.Pos() || !types.Identical(v.Type(), pi.Type()) {
										continue
									}
									if _, got := sc.LookupParent(n, x.Pos()); got != v {
										continue
									}
									if results[v] || derived(obj, v, 0) {
										continue // a named result (not a value yet), or the operand was made from the same-named one
									}
									out = append(out, roleFinding{where, construct + "[arg" + itoaN(i) + "]", "parameter " + pi.Name() + " of " + ckey + " is given " + x.Name + " although the caller has its own " + n + " of the same type in scope: wrong operand", rel})
								}
							}
						case *ast.SelectorExpr:
							// (D) a sibling field named like the parameter exists, yet another field is passed
							sel := info.Selections[x]
							if sel == nil || sel.Kind() != types.FieldVal || soft || (!inModule && genericParamNames[pn]) {
								continue
							}
							rt := sel.Recv()
							if pt, isP := rt.Underlying().(*types.Pointer); isP {
								rt = pt.Elem()
							}
							st, isS := rt.Underlying().(*types.Struct)
							if !isS {
								continue
							}
							var fields []*types.Var
							for k := 0; k < st.NumFields(); k++ {
								fields = append(fields, st.Field(k))
								if est, isE := derefStruct(st.Field(k).Type()); isE && st.Field(k).Embedded() {
									for q := 0; q < est.NumFields(); q++ {
										fields = append(fields, est.Field(q)) // promoted
									}
								}
							}
							for _, fl := range fields {
								if fl.Name() != x.Sel.Name && normName(fl.Name()) == pn && types.Identical(fl.Type(), pi.Type()) {
									out = append(out, roleFinding{where, construct + "[arg" + itoaN(i) + "]", "parameter " + pi.Name() + " of " + ckey + " is given field " + x.Sel.Name + " although the same value has a field " + fl.Name() + " of the same type: wrong operand", rel})
								}
							}
						}
					}
					return true
				})
			}
		}
	}
	sort.Slice(out, func(i, j int) bool { return out[i].pos+out[i].construct < out[j].pos+out[j].construct })
	return out, sites
}

// sameRole: two normalised names denote the same role — equal, or one extends the other (related / relatedObjects,
// observed / observedChildren); names shorter than four letters only by equality.
func sameRole(a, b string) bool {
	if a == b {
		return true
	}
	if len(a) < 4 || len(b) < 4 {
		return false
	}
	return strings.HasPrefix(a, b) || strings.HasPrefix(b, a) || strings.HasSuffix(a, b) || strings.HasSuffix(b, a)
}

func derefStruct(t types.Type) (*types.Struct, bool) {
	if pt, ok := t.Underlying().(*types.Pointer); ok {
		t = pt.Elem()
	}
	st, ok := t.Underlying().(*types.Struct)
	return st, ok
}

func itoaN(i int) string {
	if i == 0 {
		return "0"
	}
	s := ""
	for i > 0 {
		s = string(rune('0'+i%10)) + s
		i /= 10
	}
	return s
}

// argumentRolesAgree lists the findings in the files given (repo-relative); floor = call sites examined.
func argumentRolesAgree(r *Report, p *Program, rule string, files ...string) {
	r.Rule(rule, "calls into the module: no argument carries the name of another same-typed parameter, and no parameter is given a differently named operand while the caller has a same-named, same-typed variable (or sibling field) in reach")
	fs, sites := roleFindings(p)
	in := func(f string) bool {
		if strings.Contains(f, "zzmcvetcontrols") {
			return true
		}
		for _, x := range files {
			if f == x {
				return true
			}
		}
		return len(files) == 0
	}
	r.Floor(rule, 1)
	n := 0
	seen := map[string]bool{}
	for _, f := range fs {
		if !in(f.file) || seen[f.construct+f.why] {
			continue
		}
		seen[f.construct+f.why] = true
		n++
		r.Check(rule, f.file+":"+f.construct, f.pos, false, "", f.why)
	}
	// controls: functions of the control package that were examined and have no finding are recorded as passing
	bad := map[string]bool{}
	for _, f := range fs {
		if i := strings.Index(f.construct, "→"); i > 0 {
			bad[f.file+":"+f.construct[:i]] = true
		}
	}
	for k := range roleSitesByFunc {
		if strings.Contains(k, "zzmcvetcontrols") && !bad[k] {
			r.Check(rule, k, "-", true, "roles agree", "")
		}
	}
	r.Check(rule, sf("argument roles (%d call sites with named parameters examined)", sites), "-", sites >= 300, "names of arguments and parameters agree", sf("only %d call sites examined (expected ≥ 300)", sites))
	_ = n
}

// getObjectTable (C14/C03/C11): common.GetObject — the one place that decides how an object is looked up in an
// informer: namespace == "" ⇒ Lister().Get(name); otherwise Lister().Namespace(namespace).Get(name).
func getObjectTable(r *Report, p *Program, rule string) {
	r.Rule(rule, "common.GetObject: cluster-wide lookup exactly when the namespace is empty, namespaced lookup with that namespace otherwise, both by the name given")
	r.Floor(rule, 1)
	f := fn(r, p, rule, "controller/common.GetObject")
	if f == nil {
		return
	}
	paths, err := engine.EnumPaths(f, engine.EnumOpts{})
	ok, why := err == nil && len(paths) >= 2, "expected two ways through GetObject"
	if err != nil {
		why = err.Error()
	}
	for _, pa := range paths {
		empty := val(pa, -1, func(a string) bool { return a == `(p1 == "")` })
		if len(pa.Ret) == 0 {
			continue
		}
		v := E(pa.Ret[0])
		if ex, isE := pa.Ret[0].(*ssa.Extract); isE {
			v = E(ex.Tuple)
		}
		byNs := strings.Contains(v, ".Namespace)(") || strings.Contains(v, "ByNamespace)(")
		switch {
		case empty == 0:
			ok, why = false, "a lookup is chosen without testing the namespace for emptiness; path: "+pa.Cond()
		case empty == 1 && byNs:
			ok, why = false, "an empty namespace leads to a namespaced lookup (cluster-scoped objects are never found)"
		case empty == -1 && !(byNs && strings.Contains(v, ", p1)")):
			ok, why = false, "a non-empty namespace does not lead to Lister().Namespace(namespace): "+v
		}
		if !strings.HasSuffix(v, ", p2)") {
			ok, why = false, "the lookup is not by the name given: "+v
		}
	}
	r.Check(rule, FK(f), p.Pos(f.Pos()), ok, `namespace == "" ⇔ cluster-wide Get(name)`, why)
}

// stopDoneProtocol (C20/C18): the two-channel stop protocol, wherever a type has Start and Stop and Stop closes one
// receiver channel and then waits on another: the closed one (stop) is closed nowhere else and is what the
// goroutine started by Start selects on; the awaited one (done) is closed by that goroutine (and only there) and
// is not the one Stop closes. Swapping the two deadlocks Stop or panics on a double close.
func stopDoneProtocol(r *Report, p *Program, rule string) {
	r.Rule(rule, "Start/Stop pairs with a stop and a done channel: Stop closes stop then waits for done; only Stop closes stop; only the goroutine of Start closes done")
	r.Floor(rule, 3)
	for _, typ := range []string{"controller/composite.parentController", "controller/decorator.decoratorController", "dynamic/discovery.ResourceMap"} {
		start, stop := fn(r, p, rule, typ+".Start"), fn(r, p, rule, typ+".Stop")
		if start == nil || stop == nil {
			continue
		}
		fieldOf := func(v ssa.Value) string {
			if u, ok := v.(*ssa.UnOp); ok {
				if fa, ok := u.X.(*ssa.FieldAddr); ok {
					return fieldName(fa)
				}
			}
			return ""
		}
		closes := func(fs []*ssa.Function) map[string]int {
			out := map[string]int{}
			for _, g := range fs {
				for _, b := range g.Blocks {
					for _, in := range b.Instrs {
						if isCallTo(in, "builtin.close") {
							out[fieldOf(in.(ssa.CallInstruction).Common().Args[0])]++
						}
					}
				}
			}
			return out
		}
		stopCloses := closes([]*ssa.Function{stop})
		startCloses := closes(append([]*ssa.Function{start}, engine.Closures(start)...))
		waits := map[string]bool{}
		for _, b := range stop.Blocks {
			for _, in := range b.Instrs {
				if u, ok := in.(*ssa.UnOp); ok && u.Op.String() == "<-" {
					waits[fieldOf(u.X)] = true
				}
			}
		}
		ok, why := true, ""
		stopF, doneF := "", ""
		for f := range stopCloses {
			if f != "" {
				stopF = f
			}
		}
		for f := range waits {
			if f != "" {
				doneF = f
			}
		}
		switch {
		case len(stopCloses) != 1 || stopF == "":
			ok, why = false, sf("Stop closes %v (expected exactly one channel field)", stopCloses)
		case len(waits) != 1 || doneF == "":
			ok, why = false, "Stop does not wait for exactly one channel field"
		case stopF == doneF:
			ok, why = false, "Stop waits on the channel it has just closed: it does not wait for the workers"
		case startCloses[stopF] > 0:
			ok, why = false, "the goroutine of Start closes "+stopF+", which Stop closes too: a double close panics (and nothing closes "+doneF+", so Stop never returns)"
		case startCloses[doneF] != 1:
			ok, why = false, sf("the goroutine of Start closes %s %d times (expected once, deferred): Stop waits for it", doneF, startCloses[doneF])
		}
		r.Check(rule, Short(typ)+"[stop/done]", p.Pos(stop.Pos()), ok, "close("+stopF+"); <-"+doneF+" ; goroutine: defer close("+doneF+")", why)
	}
}

// noOpTestOperands (C07/C08/C01/C06): "would applying the desired state change this child?" is asked as
// DeepEqual(child, ApplyUpdate(child, desired)). The test means that only if its other operand is the very object
// ApplyUpdate started from; compared with anything else (the desired child, the result itself) it is constant or
// unrelated, and the rollout gate / the immediate move / the no-op detection decide on nothing.
func noOpTestOperands(r *Report, p *Program, rule string) {
	r.Rule(rule, "every DeepEqual one of whose operands is the result of ApplyUpdate(x, ·) has x as its other operand")
	r.Floor(rule, 2)
	n := 0
	for _, f := range p.Scanned {
		for _, cs := range callsTo(f, true, "controller/common.DeepEqual") {
			args := cs.Common().Args
			if len(args) != 2 {
				continue
			}
			core := func(v ssa.Value) ssa.Value {
				v = engine.Unwrap(v)
				if c, isC := v.(*ssa.Call); isC && strings.HasSuffix(engine.CallKey(c.Common()), "Unstructured.UnstructuredContent") && len(c.Common().Args) == 1 {
					return engine.Unwrap(c.Common().Args[0])
				}
				return v
			}
			for i := 0; i < 2; i++ {
				au := engine.DependsOnCall(args[i], engine.HasSuffix("controller/common.ApplyUpdate"), nil)
				if au == nil {
					continue
				}
				if ex, isE := core(args[i]).(*ssa.Extract); !isE || ex.Tuple != ssa.Value(au) {
					continue
				}
				n++
				from := au.Common().Args[0]
				other := core(args[1-i])
				ok := engine.SameValue(other, engine.Unwrap(from)) || E(other) == E(from)
				r.Check(rule, sf("%s→DeepEqual#%d", Short(FK(cs.Fn)), n), p.InstrPos(cs.Instr), ok, "compares "+E(from)+" with ApplyUpdate of it",
					"the result of ApplyUpdate("+E(from)+", …) is compared with "+E(other)+", not with the object the update was applied to: the no-op test does not say whether that object would change")
			}
		}
	}
}

// rmwOperands (C02/C10/C11/C16): the read-modify-write helpers apply the caller's update function to, and write
// back, the object they have just read — not the (possibly nil, possibly previous-attempt) result variable and
// not the stale original.
func rmwOperands(r *Report, p *Program, rule string) {
	r.Rule(rule, "AtomicUpdate / AtomicStatusUpdate: the update callback and every Update/UpdateStatus request get the object returned by the Get of the same attempt")
	r.Floor(rule, 2)
	for _, key := range []string{"dynamic/clientset.ResourceClient.AtomicUpdate", "dynamic/clientset.ResourceClient.AtomicStatusUpdate"} {
		f := fn(r, p, rule, key)
		if f == nil {
			continue
		}
		for _, cl := range engine.Closures(f) {
			gets := callsTo(cl, false, "ResourceInterface.Get", "ResourceClient.Get")
			if len(gets) != 1 {
				continue
			}
			get := gets[0].Instr.(ssa.Value)
			isCur := func(v ssa.Value) bool {
				ex, ok := engine.Unwrap(v).(*ssa.Extract)
				return ok && ex.Tuple == get && ex.Index == 0
			}
			ok, why := true, ""
			n := 0
			for _, b := range cl.Blocks {
				for _, in := range b.Instrs {
					ci, isC := in.(ssa.CallInstruction)
					if !isC {
						continue
					}
					k := engine.CallKey(ci.Common())
					dyn := ci.Common().StaticCallee() == nil && !ci.Common().IsInvoke() // the update callback
					if !(dyn || strings.HasSuffix(k, ".Update") || strings.HasSuffix(k, ".UpdateStatus")) {
						continue
					}
					for _, a := range ci.Common().Args {
						if strings.HasSuffix(a.Type().String(), "unstructured.Unstructured") {
							n++
							if !isCur(a) {
								ok, why = false, sf("%s at %s is given %s, not the object read by this attempt's Get", Short(k), p.InstrPos(in), E(a))
							}
						}
					}
				}
			}
			if n < 2 {
				ok, why = false, "the update callback and the write were not both found in the retry closure"
			}
			r.Check(rule, FK(f)+"[callback-and-write-get-the-fresh-object]", p.Pos(f.Pos()), ok, "update(current); Update(current)", why)
		}
	}
}

// oneKeyPerSharedMap (C18/C20): SharedInformerFactory.Resource and its close function address refCount and
// sharedInformers with ONE key (the resourceKey of the two parameters): an access under another key subscribes,
// counts or releases a different informer than the one handed out.
func oneKeyPerSharedMap(r *Report, p *Program, rule string) {
	r.Rule(rule, "SharedInformerFactory.Resource (and its close closure): every lookup, update and delete on refCount / sharedInformers uses the same key variable, which is resourceKey(apiVersion, resource)")
	r.Floor(rule, 1)
	f := fn(r, p, rule, "dynamic/informer.SharedInformerFactory.Resource")
	if f == nil {
		return
	}
	var canon func(v ssa.Value, g *ssa.Function, d int) ssa.Value
	canon = func(v ssa.Value, g *ssa.Function, d int) ssa.Value {
		if d > 6 {
			return v
		}
		switch x := v.(type) {
		case *ssa.UnOp:
			if x.Op.String() == "*" {
				return canon(x.X, g, d+1)
			}
		case *ssa.FreeVar:
			// binding in the enclosing function
			if par := g.Parent(); par != nil {
				for _, b := range par.Blocks {
					for _, in := range b.Instrs {
						if mc, ok := in.(*ssa.MakeClosure); ok && mc.Fn == ssa.Value(g) {
							for i, fv := range g.FreeVars {
								if fv == x && i < len(mc.Bindings) {
									return canon(mc.Bindings[i], par, d+1)
								}
							}
						}
					}
				}
			}
		}
		return v
	}
	keys := map[ssa.Value]int{}
	n := 0
	var keyVal ssa.Value
	for _, g := range append([]*ssa.Function{f}, engine.Closures(f)...) {
		for _, b := range g.Blocks {
			for _, in := range b.Instrs {
				var m, k ssa.Value
				switch x := in.(type) {
				case *ssa.Lookup:
					m, k = x.X, x.Index
				case *ssa.MapUpdate:
					m, k = x.Map, x.Key
				case ssa.CallInstruction:
					if isCallTo(in, "builtin.delete") {
						m, k = x.Common().Args[0], x.Common().Args[1]
					}
				}
				if m == nil {
					continue
				}
				if e := E(m); !(strings.HasSuffix(e, ".refCount") || strings.HasSuffix(e, ".sharedInformers")) {
					continue
				}
				n++
				c := canon(k, g, 0)
				keys[c]++
				keyVal = c
			}
		}
	}
	ok, why := n >= 6 && len(keys) == 1, sf("%d accesses to refCount/sharedInformers use %d different keys", n, len(keys))
	if ok {
		// the one key is resourceKey(p1, p2)
		src := ""
		if al, isA := keyVal.(*ssa.Alloc); isA {
			if refs := al.Referrers(); refs != nil {
				for _, u := range *refs {
					if st, isS := u.(*ssa.Store); isS && st.Addr == ssa.Value(al) {
						src = E(st.Val)
					}
				}
			}
		} else {
			src = E(keyVal)
		}
		if !(strings.Contains(src, "resourceKey)(p1, p2)")) {
			ok, why = false, "the key is "+src+", not resourceKey(apiVersion, resource)"
		}
	}
	r.Check(rule, FK(f)+"[one-key]", p.Pos(f.Pos()), ok, sf("%d accesses, one key", n), why)
}
