package rules

import (
	"go/ast"
	"go/token"
	"go/types"
	"golang.org/x/tools/go/ssa"
	"sort"
	"strings"

	"golang.org/x/tools/go/types/typeutil"

	"mcvet/engine"
)

// argumentRolesAgree — a belief rule (Engler et al.): parameter names state the role of each position. At a call,
// an argument that carries the NAME of another parameter of identical type (swap), or that is passed where a
// same-named, same-typed variable (or sibling field) of the caller is in reach (wrong operand), contradicts the
// roles both sides have written down. The rule does not use source text: identifiers are resolved through
// go/types, names are compared case- and punctuation-insensitively, only positions whose types are identical can
// be confused. It is listed under every property whose anchored files contain the call.
type roleFinding struct {
	pos, construct, why string
	file                string
}

// genericParamNames: parameter names of dependency functions that state no role.
var genericParamNames = map[string]bool{"obj": true, "object": true, "o": true, "v": true, "x": true, "y": true, "s": true, "b": true, "in": true, "out": true,
	"data": true, "value": true, "val": true, "item": true, "e": true, "err": true, "ctx": true, "a": true, "i": true, "n": true, "t": true, "src": true, "dst": true, "elems": true}

// namedOperand: single-operand constructors of apimachinery → what the operand's name must contain.
var namedOperand = map[string]string{
	"schema.ParseGroupVersion":         "version|gv",
	"schema.GroupVersion.WithResource": "resource|name|plural",
	"schema.GroupVersion.WithKind":     "kind",
}

// roleExceptions: callee / parameter / argument name → reason (confirmed by reading; one symbol each).
var roleExceptions = map[string]string{
	"childClaimMap.setParentRevision/pr/latest": "moving the claim to the latest revision is the purpose of these calls; the caller's pr is the previous claimant",
	"GroupVersion.WithResource/resource/Name":   "metav1.APIResource.Name IS the plural resource name",
}

func normName(s string) string {
	var b strings.Builder
	for _, r := range strings.ToLower(s) {
		if r >= 'a' && r <= 'z' || r >= '0' && r <= '9' {
			b.WriteRune(r)
		}
	}
	return b.String()
}

// roleSitesByFunc: call sites examined per "file:function" (for the controls).
var roleSitesByFunc = map[string]int{}

var roleMemo = map[*Program]struct {
	fs    []roleFinding
	sites int
}{}

func roleFindings(p *Program) ([]roleFinding, int) {
	if m, ok := roleMemo[p]; ok {
		return m.fs, m.sites
	}
	fs, sites := roleFindingsUncached(p)
	roleMemo[p] = struct {
		fs    []roleFinding
		sites int
	}{fs, sites}
	return fs, sites
}

func roleFindingsUncached(p *Program) ([]roleFinding, int) {
	var out []roleFinding
	sites := 0
	roleSitesByFunc = map[string]int{}
	for _, pkg := range p.Pkgs {
		if pkg.TypesInfo == nil || strings.Contains(pkg.PkgPath, "/client/generated") || strings.Contains(pkg.PkgPath, "/internal/testutils") {
			continue
		}
		info := pkg.TypesInfo
		for fi, file := range pkg.Syntax {
			fname := ""
			if fi < len(pkg.CompiledGoFiles) {
				fname = pkg.CompiledGoFiles[fi]
			}
			if strings.Contains(fname, "zz_generated") {
				continue
			}
			rel := strings.TrimPrefix(fname, p.Repo+"/")
			for _, d := range file.Decls {
				fd, ok := d.(*ast.FuncDecl)
				if !ok || fd.Body == nil {
					continue
				}
				ord := map[string]int{}
				// what each local variable was made from (its defining / assigning right-hand sides)
				madeFrom := map[types.Object][]ast.Expr{}
				ast.Inspect(fd.Body, func(n ast.Node) bool {
					switch x := n.(type) {
					case *ast.AssignStmt:
						for i, l := range x.Lhs {
							if id, isI := l.(*ast.Ident); isI {
								if o := info.ObjectOf(id); o != nil {
									if len(x.Rhs) == len(x.Lhs) {
										madeFrom[o] = append(madeFrom[o], x.Rhs[i])
									} else if len(x.Rhs) == 1 {
										madeFrom[o] = append(madeFrom[o], x.Rhs[0])
									}
								}
							}
						}
					case *ast.ValueSpec:
						for i, id := range x.Names {
							if o := info.ObjectOf(id); o != nil && i < len(x.Values) {
								madeFrom[o] = append(madeFrom[o], x.Values[i])
							}
						}
					}
					return true
				})
				var derived func(o, from types.Object, d int) bool
				derived = func(o, from types.Object, d int) bool {
					if d > 3 {
						return false
					}
					for _, e := range madeFrom[o] {
						hit := false
						ast.Inspect(e, func(n ast.Node) bool {
							if id, isI := n.(*ast.Ident); isI {
								if u := info.ObjectOf(id); u != nil && (u == from || (u != o && derived(u, from, d+1))) {
									hit = true
								}
							}
							return !hit
						})
						if hit {
							return true
						}
					}
					return false
				}
				results := map[types.Object]bool{}
				if fo, isF := info.Defs[fd.Name].(*types.Func); isF {
					rs := fo.Type().(*types.Signature).Results()
					for i := 0; i < rs.Len(); i++ {
						results[rs.At(i)] = true
					}
				}
				// (T)(V)(W) what a function builds is what it returns
				{
					var sigT *types.Signature
					if fo, isF := info.Defs[fd.Name].(*types.Func); isF {
						sigT = fo.Type().(*types.Signature)
					}
					// accumulators: v = append(v, …) inside a loop
					accs := map[types.Object]bool{}
					accEnd := map[types.Object]token.Pos{} // end of the (last) loop that appends to the accumulator
					assigned := map[types.Object]bool{}
					var walk func(n ast.Node, inLoop bool)
					walk = func(n ast.Node, inLoop bool) {
						ast.Inspect(n, func(m ast.Node) bool {
							switch y := m.(type) {
							case *ast.ForStmt:
								if m != n {
									walk(y.Body, true)
									return false
								}
							case *ast.RangeStmt:
								if m != n {
									walk(y.Body, true)
									return false
								}
							case *ast.AssignStmt:
								for i, l := range y.Lhs {
									id, isI := l.(*ast.Ident)
									if !isI {
										continue
									}
									o := info.ObjectOf(id)
									if o == nil {
										continue
									}
									assigned[o] = true
									if inLoop && len(y.Rhs) == len(y.Lhs) {
										if c, isC := y.Rhs[i].(*ast.CallExpr); isC && len(c.Args) >= 1 {
											if fi, isFI := c.Fun.(*ast.Ident); isFI && fi.Name == "append" {
												if ai, isAI := c.Args[0].(*ast.Ident); isAI && info.ObjectOf(ai) == o {
													accs[o] = true
													if n.End() > accEnd[o] {
														accEnd[o] = n.End()
													}
												}
											}
										}
									}
								}
							}
							return true
						})
					}
					walk(fd.Body, false)
					if sigT != nil && sigT.Results().Len() > 0 {
						named := map[types.Object]int{}
						for i := 0; i < sigT.Results().Len(); i++ {
							if sigT.Results().At(i).Name() != "" && sigT.Results().At(i).Name() != "_" {
								named[sigT.Results().At(i)] = i
							}
						}
						errIdx := -1
						for i := 0; i < sigT.Results().Len(); i++ {
							if types.Identical(sigT.Results().At(i).Type(), types.Universe.Lookup("error").Type()) {
								errIdx = i
							}
						}
						ast.Inspect(fd.Body, func(m ast.Node) bool {
							if _, isLit := m.(*ast.FuncLit); isLit {
								return false // returns of closures are not this function's
							}
							ret, isR := m.(*ast.ReturnStmt)
							if !isR || len(ret.Results) != sigT.Results().Len() {
								return true
							}
							errNil := errIdx >= 0
							if errIdx >= 0 {
								if id, isI := ret.Results[errIdx].(*ast.Ident); !isI || id.Name != "nil" {
									errNil = false
								}
							}
							for i, e := range ret.Results {
								id, isI := e.(*ast.Ident)
								if !isI || id.Name == "nil" {
									continue
								}
								ro := info.ObjectOf(id)
								rt := sigT.Results().At(i).Type()
								pos := p.Fset.Position(e.Pos())
								where := rel + ":" + itoaN(pos.Line)
								// (T) exactly one accumulator of this result's type: that is what is returned
								var acc types.Object
								nAcc := 0
								for a := range accs {
									if types.Identical(a.Type(), rt) {
										acc = a
										nAcc++
									}
								}
								if nAcc == 1 && ro != acc && ret.Pos() > accEnd[acc] {
									if _, isSl := rt.Underlying().(*types.Slice); isSl {
										out = append(out, roleFinding{where, fd.Name.Name + "→return[" + itoaN(i) + "]", "the function collects its result in " + acc.Name() + " but returns " + id.Name, rel})
									}
								}
								// (V) a named result that the function assigns is what is returned at its position
								for no, ni := range named {
									if ni == i && assigned[no] && ro != no && !(errIdx == i) && types.Identical(no.Type(), rt) {
										if _, isN := named[ro]; !isN {
											out = append(out, roleFinding{where, fd.Name.Name + "→return[" + itoaN(i) + "]", "the function assigns its named result " + no.Name() + " but returns " + id.Name + " in its place", rel})
										}
									}
								}
								// (W) a named result that is never assigned is returned together with a nil error
								if ni, isN := named[ro]; isN && ni == i && !assigned[ro] && errNil && errIdx != i {
									out = append(out, roleFinding{where, fd.Name.Name + "→return[" + itoaN(i) + "]", "named result " + id.Name + " is never assigned, yet it is returned with a nil error: the caller gets a zero value as a success", rel})
								}
							}
							return true
						})
					}
				}
				sameVar := func(a, b ast.Expr) bool {
					ia, okA := a.(*ast.Ident)
					ib, okB := b.(*ast.Ident)
					if !okA || !okB {
						return false
					}
					oa, ob := info.ObjectOf(ia), info.ObjectOf(ib)
					return oa != nil && oa == ob
				}
				ast.Inspect(fd.Body, func(n ast.Node) bool {
					switch x := n.(type) {
					case *ast.KeyValueExpr:
						// (X') Field: recv.GetOther() although recv has GetField() of that type
						if kid, isK := x.Key.(*ast.Ident); isK {
							if f := wrongGetter(info, normName(kid.Name), x.Value); f != "" {
								pos := p.Fset.Position(x.Pos())
								ord["kv"]++
								out = append(out, roleFinding{rel + ":" + itoaN(pos.Line), fd.Name.Name + "→field(" + kid.Name + ")#" + itoaN(ord["kv"]-1), "field " + kid.Name + " is filled with " + f, rel})
							}
						}
					case *ast.BlockStmt:
						// (Q) `…, err := call(…)` followed at once by `if otherErr != nil`: the test is about another error
						for si := 0; si+1 < len(x.List); si++ {
							as, isA := x.List[si].(*ast.AssignStmt)
							ifs, isIf := x.List[si+1].(*ast.IfStmt)
							if !isA || !isIf || ifs.Init != nil || len(as.Rhs) != 1 {
								continue
							}
							if _, isCall := as.Rhs[0].(*ast.CallExpr); !isCall {
								continue
							}
							last, isI := as.Lhs[len(as.Lhs)-1].(*ast.Ident)
							if !isI || last.Name == "_" {
								continue
							}
							lo := info.ObjectOf(last)
							if lo == nil || !types.Identical(lo.Type(), types.Universe.Lookup("error").Type()) {
								continue
							}
							be, isB := ifs.Cond.(*ast.BinaryExpr)
							if !isB || (be.Op.String() != "!=" && be.Op.String() != "==") {
								continue
							}
							ci, isCI := be.X.(*ast.Ident)
							ni, isNI := be.Y.(*ast.Ident)
							if !isCI || !isNI || ni.Name != "nil" {
								continue
							}
							co := info.ObjectOf(ci)
							if co == nil || co == lo || !types.Identical(co.Type(), lo.Type()) {
								continue
							}
							pos := p.Fset.Position(ifs.Pos())
							ord["errnext"]++
							out = append(out, roleFinding{rel + ":" + itoaN(pos.Line), fd.Name.Name + "→error-test#" + itoaN(ord["errnext"]-1), "the call just before assigns its error to " + last.Name + ", but the test that follows looks at " + ci.Name + ": a failure of that call is not noticed here", rel})
						}
					case *ast.AssignStmt:
						// (X') name := recv.GetOther() / x.Field = recv.GetOther()
						if len(x.Lhs) == len(x.Rhs) {
							for i := range x.Lhs {
								ln := ""
								switch l := x.Lhs[i].(type) {
								case *ast.Ident:
									ln = l.Name
								case *ast.SelectorExpr:
									ln = l.Sel.Name
								}
								if ln == "" || ln == "_" {
									continue
								}
								if f := wrongGetter(info, normName(ln), x.Rhs[i]); f != "" {
									pos := p.Fset.Position(x.Pos())
									ord["asgget"]++
									out = append(out, roleFinding{rel + ":" + itoaN(pos.Line), fd.Name.Name + "→assign(" + ln + ")#" + itoaN(ord["asgget"]-1), ln + " is given " + f, rel})
								}
							}
						}
						// (U) x = x
						if x.Tok.String() == "=" && len(x.Lhs) == len(x.Rhs) {
							for i := range x.Lhs {
								if sameVar(x.Lhs[i], x.Rhs[i]) {
									pos := p.Fset.Position(x.Pos())
									ord["selfasg"]++
									out = append(out, roleFinding{rel + ":" + itoaN(pos.Line), fd.Name.Name + "→self-assignment#" + itoaN(ord["selfasg"]-1), "a variable is assigned to itself: the value that was meant to be kept is lost", rel})
								}
							}
						}
						// (E) x = append(y, …): the slice that grows is the one that is kept
						if len(x.Lhs) == 1 && len(x.Rhs) == 1 && x.Tok.String() == "=" {
							if c, isC := x.Rhs[0].(*ast.CallExpr); isC && len(c.Args) >= 1 {
								if id, isI := c.Fun.(*ast.Ident); isI && id.Name == "append" && info.Uses[id] == types.Universe.Lookup("append") {
									li, okL := x.Lhs[0].(*ast.Ident)
									ai, okA := c.Args[0].(*ast.Ident)
									if okL && okA && !sameVar(li, ai) && li.Name != "_" {
										pos := p.Fset.Position(x.Pos())
										ord["append"]++
										out = append(out, roleFinding{rel + ":" + itoaN(pos.Line), fd.Name.Name + "→append#" + itoaN(ord["append"]-1), li.Name + " = append(" + ai.Name + ", …): the elements are added to one slice and the result is kept in another — what " + li.Name + " held is lost", rel})
									}
								}
							}
						}
					case *ast.IfStmt:
						// (N) if x == nil { y = make(…) }: the variable that is initialised is the one found nil
						if be, isB := x.Cond.(*ast.BinaryExpr); isB && be.Op.String() == "==" && x.Init == nil && x.Else == nil && len(x.Body.List) == 1 {
							ci, isCI := be.X.(*ast.Ident)
							ni, isNI := be.Y.(*ast.Ident)
							if as, isA := x.Body.List[0].(*ast.AssignStmt); isA && isCI && isNI && ni.Name == "nil" && len(as.Lhs) == 1 && len(as.Rhs) == 1 && as.Tok.String() == "=" {
								li, isLI := as.Lhs[0].(*ast.Ident)
								fresh := false
								switch rv := as.Rhs[0].(type) {
								case *ast.CallExpr:
									if fi, isFI := rv.Fun.(*ast.Ident); isFI && fi.Name == "make" {
										fresh = true
									}
								case *ast.CompositeLit:
									fresh = true
								}
								if isLI && fresh && !sameVar(ci, li) {
									co, lo := info.ObjectOf(ci), info.ObjectOf(li)
									if co != nil && lo != nil && types.Identical(co.Type(), lo.Type()) {
										pos := p.Fset.Position(x.Pos())
										ord["nilinit"]++
										out = append(out, roleFinding{rel + ":" + itoaN(pos.Line), fd.Name.Name + "→nil-init#" + itoaN(ord["nilinit"]-1), ci.Name + " is found nil but " + li.Name + " is what gets a fresh value: the nil one stays nil (a write into it panics) and the other loses its content", rel})
									}
								}
							}
						}
						// (P) if v, err := f(); COND — COND tests what the init statement has just produced
						if as, isA := x.Init.(*ast.AssignStmt); isA && len(as.Rhs) == 1 {
							if _, isCall := as.Rhs[0].(*ast.CallExpr); isCall {
								defs := map[types.Object]bool{}
								for _, l := range as.Lhs {
									if id, isI := l.(*ast.Ident); isI && id.Name != "_" {
										if o := info.ObjectOf(id); o != nil {
											defs[o] = true
										}
									}
								}
								uses := false
								ast.Inspect(x.Cond, func(m ast.Node) bool {
									if id, isI := m.(*ast.Ident); isI && defs[info.ObjectOf(id)] {
										uses = true
									}
									return !uses
								})
								if len(defs) > 0 && !uses {
									pos := p.Fset.Position(x.Pos())
									ord["ifinit"]++
									out = append(out, roleFinding{rel + ":" + itoaN(pos.Line), fd.Name.Name + "→if-init#" + itoaN(ord["ifinit"]-1), "the condition of `if … := call(); cond` tests none of the values the call has just returned: its outcome (an error, a found flag) is not what decides the branch", rel})
								}
							}
						}
					case *ast.CallExpr:
						// (K) append(xs, e): when the caller has a variable named like the singular of xs (names / name,
						// matchingParents / parent) of the element type, that is what is appended
						if id, isI := x.Fun.(*ast.Ident); isI && id.Name == "append" && info.Uses[id] == types.Universe.Lookup("append") && len(x.Args) == 2 && !x.Ellipsis.IsValid() {
							sn := ""
							switch s := x.Args[0].(type) {
							case *ast.Ident:
								sn = s.Name
							case *ast.SelectorExpr:
								sn = s.Sel.Name
							}
							el, isEl := x.Args[1].(*ast.Ident)
							sing := strings.TrimSuffix(normName(sn), "s")
							if isEl && len(sing) >= 4 {
								eo, _ := info.Uses[el].(*types.Var)
								if eo != nil && !sameRole(normName(el.Name), sing) {
									for sc := pkg.Types.Scope().Innermost(x.Pos()); sc != nil && sc != pkg.Types.Scope() && sc != types.Universe; sc = sc.Parent() {
										for _, n := range sc.Names() {
											v, isV := sc.Lookup(n).(*types.Var)
											if !isV || v == eo || v.Pos() >= x.Pos() || !sameRole(normName(n), sing) || !types.Identical(v.Type(), eo.Type()) {
												continue
											}
											if _, got := sc.LookupParent(n, x.Pos()); got != v {
												continue
											}
											pos := p.Fset.Position(x.Pos())
											ord["appendel"]++
											out = append(out, roleFinding{rel + ":" + itoaN(pos.Line), fd.Name.Name + "→append-element#" + itoaN(ord["appendel"]-1), el.Name + " is appended to " + sn + " although the caller has " + n + " of the same type in scope: wrong operand", rel})
										}
									}
								}
							}
						}
					case *ast.BinaryExpr:
						// (M) a.F == b.G with F ≠ G although a has a field G (or b a field F) of that type
						if x.Op.String() == "==" || x.Op.String() == "!=" {
							sx, okX := x.X.(*ast.SelectorExpr)
							sy, okY := x.Y.(*ast.SelectorExpr)
							if okX && okY && sx.Sel.Name != sy.Sel.Name {
								lx, ly := info.Selections[sx], info.Selections[sy]
								if lx != nil && ly != nil && lx.Kind() == types.FieldVal && ly.Kind() == types.FieldVal && types.Identical(lx.Obj().Type(), ly.Obj().Type()) {
									hasField := func(recv types.Type, name string, t types.Type) bool {
										st, isS := derefStruct(recv)
										if !isS {
											return false
										}
										for k := 0; k < st.NumFields(); k++ {
											if st.Field(k).Name() == name && types.Identical(st.Field(k).Type(), t) {
												return true
											}
											if est, isE := derefStruct(st.Field(k).Type()); isE && st.Field(k).Embedded() {
												for q := 0; q < est.NumFields(); q++ {
													if est.Field(q).Name() == name && types.Identical(est.Field(q).Type(), t) {
														return true
													}
												}
											}
										}
										return false
									}
									if hasField(lx.Recv(), sy.Sel.Name, ly.Obj().Type()) && hasField(ly.Recv(), sx.Sel.Name, lx.Obj().Type()) {
										pos := p.Fset.Position(x.Pos())
										ord["fieldcmp"]++
										out = append(out, roleFinding{rel + ":" + itoaN(pos.Line), fd.Name.Name + "→field-compare#" + itoaN(ord["fieldcmp"]-1), "field " + sx.Sel.Name + " of one value is compared with field " + sy.Sel.Name + " of the other although both values have both fields: unlike things are compared", rel})
									}
								}
							}
						}
						// (M') a.GetF() op b.GetG() with F ≠ G
						if x.Op.String() == "==" || x.Op.String() == "!=" {
							gx, okGX := x.X.(*ast.CallExpr)
							gy, okGY := x.Y.(*ast.CallExpr)
							if okGX && okGY && len(gx.Args) == 0 && len(gy.Args) == 0 {
								sx, okSX := gx.Fun.(*ast.SelectorExpr)
								sy, okSY := gy.Fun.(*ast.SelectorExpr)
								if okSX && okSY && sx.Sel.Name != sy.Sel.Name && strings.HasPrefix(sx.Sel.Name, "Get") && strings.HasPrefix(sy.Sel.Name, "Get") {
									if wrongGetter(info, normName(strings.TrimPrefix(sx.Sel.Name, "Get")), x.Y) != "" || wrongGetter(info, normName(strings.TrimPrefix(sy.Sel.Name, "Get")), x.X) != "" {
										pos := p.Fset.Position(x.Pos())
										ord["getcmp"]++
										out = append(out, roleFinding{rel + ":" + itoaN(pos.Line), fd.Name.Name + "→getter-compare#" + itoaN(ord["getcmp"]-1), sx.Sel.Name + "() of one object is compared with " + sy.Sel.Name + "() of the other although both have both: unlike things are compared", rel})
									}
								}
							}
						}
						// (G) x == x / x != x
						if (x.Op.String() == "==" || x.Op.String() == "!=") && sameVar(x.X, x.Y) {
							pos := p.Fset.Position(x.Pos())
							ord["cmp"]++
							out = append(out, roleFinding{rel + ":" + itoaN(pos.Line), fd.Name.Name + "→compare#" + itoaN(ord["cmp"]-1), "a value is compared with itself: the test is constant", rel})
						}
					}
					ce, ok := n.(*ast.CallExpr)
					if !ok {
						return true
					}
					// (G) DeepEqual(x, x)
					if len(ce.Args) == 2 && sameVar(ce.Args[0], ce.Args[1]) {
						if f, _ := typeutil.Callee(info, ce).(*types.Func); f != nil && strings.Contains(f.Name(), "Equal") {
							pos := p.Fset.Position(ce.Pos())
							ord["cmp"]++
							out = append(out, roleFinding{rel + ":" + itoaN(pos.Line), fd.Name.Name + "→compare#" + itoaN(ord["cmp"]-1), f.Name() + " is given the same value twice: the test is constant", rel})
						}
					}
					callee, _ := typeutil.Callee(info, ce).(*types.Func)
					if callee == nil || callee.Pkg() == nil {
						return true
					}
					inModule := strings.HasPrefix(callee.Pkg().Path(), strings.TrimSuffix(engine.ModPrefix, "/"))
					sig := callee.Type().(*types.Signature)
					np := sig.Params().Len()
					if sig.Variadic() {
						np--
					}
					if np > len(ce.Args) {
						np = len(ce.Args)
					}
					if np < 1 {
						return true
					}
					sites++
					roleSitesByFunc[rel+":"+fd.Name.Name]++
					ckey := callee.Name()
					if recv := sig.Recv(); recv != nil {
						t := recv.Type()
						if pt, isP := t.(*types.Pointer); isP {
							t = pt.Elem()
						}
						if nt, isN := t.(*types.Named); isN {
							ckey = nt.Obj().Name() + "." + ckey
						}
					}
					ord[ckey]++
					construct := fd.Name.Name + "→" + ckey + "#" + string(rune('0'+ord[ckey]-1))
					argName := func(e ast.Expr) string {
						switch x := e.(type) {
						case *ast.Ident:
							return x.Name
						case *ast.SelectorExpr:
							return x.Sel.Name
						case *ast.CallExpr:
							// x.GetFoo() names its result
							if gs, isSel := x.Fun.(*ast.SelectorExpr); isSel && len(x.Args) == 0 && strings.HasPrefix(gs.Sel.Name, "Get") && len(gs.Sel.Name) > 3 {
								return strings.TrimPrefix(gs.Sel.Name, "Get")
							}
						}
						return ""
					}
					// (S) a few apimachinery constructors whose parameter names say nothing (gv, resource): what they are
					// given must at least be called the thing they parse / attach
					if want, isS := namedOperand[callee.Pkg().Name()+"."+ckey]; isS && len(ce.Args) == 1 {
						an := normName(argName(ce.Args[0]))
						hit := an == ""
						for _, w := range strings.Split(want, "|") {
							if strings.Contains(an, w) {
								hit = true
							}
						}
						if !hit {
							pos := p.Fset.Position(ce.Args[0].Pos())
							out = append(out, roleFinding{rel + ":" + itoaN(pos.Line), construct + "[operand-name]", ckey + " is given " + argName(ce.Args[0]) + ", which is not called anything like " + want + ": wrong operand", rel})
						}
					}
					// (R) one variable for two parameters of a module function
					if inModule {
						for i := 0; i < np; i++ {
							for j := i + 1; j < np; j++ {
								if sameVar(ce.Args[i], ce.Args[j]) {
									pos := p.Fset.Position(ce.Args[j].Pos())
									out = append(out, roleFinding{rel + ":" + itoaN(pos.Line), construct + "[arg" + itoaN(i) + "=arg" + itoaN(j) + "]", "the same variable is passed as " + sig.Params().At(i).Name() + " and as " + sig.Params().At(j).Name() + " of " + ckey, rel})
								}
							}
						}
					}
					for i := 0; i < np; i++ {
						pi := sig.Params().At(i)
						pn := normName(pi.Name())
						an := normName(argName(ce.Args[i]))
						if xc, isXC := ce.Args[i].(*ast.CallExpr); isXC && pn != "" {
							pos := p.Fset.Position(ce.Args[i].Pos())
							where := rel + ":" + itoaN(pos.Line)
							// (X) parameter p is given recv.GetQ() although recv has a GetP() of the same type: wrong accessor
							if gs, isSel := xc.Fun.(*ast.SelectorExpr); isSel && len(xc.Args) == 0 && strings.HasPrefix(gs.Sel.Name, "Get") {
								if q := normName(strings.TrimPrefix(gs.Sel.Name, "Get")); q == pn || (len(q) >= 4 && strings.HasSuffix(pn, q)) {
									goto afterX
								}
								if rt := info.TypeOf(gs.X); rt != nil {
									ms := types.NewMethodSet(rt)
									for q := 0; q < ms.Len(); q++ {
										m := ms.At(q).Obj()
										mn := strings.TrimPrefix(normName(m.Name()), "get")
										if !strings.HasPrefix(m.Name(), "Get") || m.Name() == gs.Sel.Name || !(mn == pn || (len(mn) >= 4 && strings.HasSuffix(pn, mn))) {
											continue
										}
										msig, isSig := m.Type().(*types.Signature)
										if !isSig || msig.Params().Len() != 0 || msig.Results().Len() != 1 || !types.Identical(msig.Results().At(0).Type(), pi.Type()) {
											continue
										}
										out = append(out, roleFinding{where, construct + "[arg" + itoaN(i) + "]", "parameter " + pi.Name() + " of " + ckey + " is given " + gs.Sel.Name + "() although the same object has " + m.Name() + "(): wrong accessor", rel})
									}
								}
							}
						}
					afterX:
						if pn == "" || an == "" || an == pn {
							continue
						}
						// (Y) the argument is called one kind of identifier (resource, kind, namespace, apiversion, group),
						// the string parameter another
						if pw, aw := roleWord(pn), roleWord(an); pw != "" && aw != "" && pw != aw && !strings.Contains(an, pw) && roleExceptions[ckey+"/"+pi.Name()+"/"+argName(ce.Args[i])] == "" {
							if at := info.TypeOf(ce.Args[i]); at != nil && types.Identical(at, pi.Type()) && types.Identical(at.Underlying(), types.Typ[types.String]) {
								pos := p.Fset.Position(ce.Args[i].Pos())
								out = append(out, roleFinding{rel + ":" + itoaN(pos.Line), construct + "[arg" + itoaN(i) + "]", "parameter " + pi.Name() + " of " + ckey + " is given " + argName(ce.Args[i]) + ": a " + aw + " where a " + pw + " is expected", rel})
							}
						}
						soft := sameRole(an, pn)
						pos := p.Fset.Position(ce.Args[i].Pos())
						where := rel + ":" + itoaN(pos.Line)
						// (A) the argument is named like ANOTHER parameter of identical type
						for j := 0; j < sig.Params().Len() && !soft; j++ {
							pj := sig.Params().At(j)
							at := info.TypeOf(ce.Args[i])
							if j != i && an == normName(pj.Name()) && at != nil && (types.Identical(pj.Type(), pi.Type()) || (types.AssignableTo(at, pj.Type()) && types.AssignableTo(at, pi.Type()))) {
								out = append(out, roleFinding{where, construct + "[arg" + itoaN(i) + "]", "argument " + argName(ce.Args[i]) + " is passed as parameter " + pi.Name() + " of " + ckey + ", which has a parameter " + pj.Name() + " of the same type: swapped roles", rel})
							}
						}
						switch x := ce.Args[i].(type) {
						case *ast.Ident:
							// (B) a same-named, same-typed variable of the caller is in reach, yet another one is passed
							obj, _ := info.Uses[x].(*types.Var)
							if obj == nil || (!inModule && genericParamNames[pn]) || !types.Identical(obj.Type(), pi.Type()) {
								continue // a derived / more specific value handed to a wider parameter is not a mix-up of two like operands
							}
							for sc := pkg.Types.Scope().Innermost(x.Pos()); sc != nil && sc != pkg.Types.Scope() && sc != types.Universe; sc = sc.Parent() {
								for _, n := range sc.Names() {
									if !(normName(n) == pn || (!soft && inModule && sameRole(normName(n), pn))) || roleExceptions[ckey+"/"+pi.Name()+"/"+x.Name] != "" {
										continue
									}
									v, isV := sc.Lookup(n).(*types.Var)
									if !isV || v == obj || v.Pos() >= x.Pos() || !types.Identical(v.Type(), pi.Type()) {
										continue
									}
									if _, got := sc.LookupParent(n, x.Pos()); got != v {
										continue
									}
									if results[v] || derived(obj, v, 0) {
										continue // a named result (not a value yet), or the operand was made from the same-named one
									}
									out = append(out, roleFinding{where, construct + "[arg" + itoaN(i) + "]", "parameter " + pi.Name() + " of " + ckey + " is given " + x.Name + " although the caller has its own " + n + " of the same type in scope: wrong operand", rel})
								}
							}
						case *ast.SelectorExpr:
							// (D) a sibling field named like the parameter exists, yet another field is passed
							sel := info.Selections[x]
							if sel == nil || sel.Kind() != types.FieldVal || soft || (!inModule && genericParamNames[pn]) {
								continue
							}
							rt := sel.Recv()
							if pt, isP := rt.Underlying().(*types.Pointer); isP {
								rt = pt.Elem()
							}
							st, isS := rt.Underlying().(*types.Struct)
							if !isS {
								continue
							}
							var fields []*types.Var
							for k := 0; k < st.NumFields(); k++ {
								fields = append(fields, st.Field(k))
								if est, isE := derefStruct(st.Field(k).Type()); isE && st.Field(k).Embedded() {
									for q := 0; q < est.NumFields(); q++ {
										fields = append(fields, est.Field(q)) // promoted
									}
								}
							}
							for _, fl := range fields {
								if fl.Name() != x.Sel.Name && normName(fl.Name()) == pn && types.Identical(fl.Type(), pi.Type()) {
									out = append(out, roleFinding{where, construct + "[arg" + itoaN(i) + "]", "parameter " + pi.Name() + " of " + ckey + " is given field " + x.Sel.Name + " although the same value has a field " + fl.Name() + " of the same type: wrong operand", rel})
								}
							}
						}
					}
					return true
				})
			}
		}
	}
	sort.Slice(out, func(i, j int) bool { return out[i].pos+out[i].construct < out[j].pos+out[j].construct })
	return out, sites
}

// sameRole: two normalised names denote the same role — equal, or one extends the other (related / relatedObjects,
// observed / observedChildren); names shorter than four letters only by equality.
func sameRole(a, b string) bool {
	if a == b {
		return true
	}
	if len(a) < 4 || len(b) < 4 {
		return false
	}
	return strings.HasPrefix(a, b) || strings.HasPrefix(b, a) || strings.HasSuffix(a, b) || strings.HasSuffix(b, a)
}

func derefStruct(t types.Type) (*types.Struct, bool) {
	if pt, ok := t.Underlying().(*types.Pointer); ok {
		t = pt.Elem()
	}
	st, ok := t.Underlying().(*types.Struct)
	return st, ok
}

// roleWord: the kind of Kubernetes identifier a (normalised) name speaks of, "" if none or several.
func roleWord(n string) string {
	found := ""
	for _, w := range []string{"apiversion", "namespace", "resource", "kind", "group"} {
		if strings.Contains(n, w) {
			if found != "" {
				return ""
			}
			found = w
		}
	}
	return found
}

func itoaN(i int) string {
	if i == 0 {
		return "0"
	}
	s := ""
	for i > 0 {
		s = string(rune('0'+i%10)) + s
		i /= 10
	}
	return s
}

// argumentRolesAgree lists the findings in the files given (repo-relative); floor = call sites examined.
func argumentRolesAgree(r *Report, p *Program, rule string, files ...string) {
	r.Rule(rule, "calls into the module: no argument carries the name of another same-typed parameter, and no parameter is given a differently named operand while the caller has a same-named, same-typed variable (or sibling field) in reach")
	fs, sites := roleFindings(p)
	in := func(f string) bool {
		if strings.Contains(f, "zzmcvetcontrols") {
			return true
		}
		// a file no property names (equality.go, finalizer.go …) concerns all of them
		covered := false
		for _, fl := range propertyFiles {
			for _, x := range fl {
				if x == f {
					covered = true
				}
			}
		}
		if !covered {
			return true
		}
		for _, x := range files {
			if f == x {
				return true
			}
		}
		return len(files) == 0
	}
	r.Floor(rule, 1)
	n := 0
	seen := map[string]bool{}
	for _, f := range fs {
		if !in(f.file) || seen[f.construct+f.why] {
			continue
		}
		seen[f.construct+f.why] = true
		n++
		r.Check(rule, f.file+":"+f.construct, f.pos, false, "", f.why)
	}
	// controls: functions of the control package that were examined and have no finding are recorded as passing
	bad := map[string]bool{}
	for _, f := range fs {
		if i := strings.Index(f.construct, "→"); i > 0 {
			bad[f.file+":"+f.construct[:i]] = true
		}
	}
	for k := range roleSitesByFunc {
		if strings.Contains(k, "zzmcvetcontrols") && !bad[k] {
			r.Check(rule, k, "-", true, "roles agree", "")
		}
	}
	r.Check(rule, sf("argument roles (%d call sites with named parameters examined)", sites), "-", sites >= 300, "names of arguments and parameters agree", sf("only %d call sites examined (expected ≥ 300)", sites))
	_ = n
}

// getObjectTable (C14/C03/C11): common.GetObject — the one place that decides how an object is looked up in an
// informer: namespace == "" ⇒ Lister().Get(name); otherwise Lister().Namespace(namespace).Get(name).
func getObjectTable(r *Report, p *Program, rule string) {
	r.Rule(rule, "common.GetObject: cluster-wide lookup exactly when the namespace is empty, namespaced lookup with that namespace otherwise, both by the name given")
	r.Floor(rule, 1)
	f := fn(r, p, rule, "controller/common.GetObject")
	if f == nil {
		return
	}
	paths, err := engine.EnumPaths(f, engine.EnumOpts{})
	ok, why := err == nil && len(paths) >= 2, "expected two ways through GetObject"
	if err != nil {
		why = err.Error()
	}
	for _, pa := range paths {
		empty := val(pa, -1, func(a string) bool { return a == `(p1 == "")` })
		if len(pa.Ret) == 0 {
			continue
		}
		v := E(pa.Ret[0])
		if ex, isE := pa.Ret[0].(*ssa.Extract); isE {
			v = E(ex.Tuple)
		}
		byNs := strings.Contains(v, ".Namespace)(") || strings.Contains(v, "ByNamespace)(")
		switch {
		case empty == 0:
			ok, why = false, "a lookup is chosen without testing the namespace for emptiness; path: "+pa.Cond()
		case empty == 1 && byNs:
			ok, why = false, "an empty namespace leads to a namespaced lookup (cluster-scoped objects are never found)"
		case empty == -1 && !(byNs && strings.Contains(v, ", p1)")):
			ok, why = false, "a non-empty namespace does not lead to Lister().Namespace(namespace): "+v
		}
		if !strings.HasSuffix(v, ", p2)") {
			ok, why = false, "the lookup is not by the name given: "+v
		}
	}
	r.Check(rule, FK(f), p.Pos(f.Pos()), ok, `namespace == "" ⇔ cluster-wide Get(name)`, why)
}

// stopDoneProtocol (C20/C18): the two-channel stop protocol, wherever a type has Start and Stop and Stop closes one
// receiver channel and then waits on another: the closed one (stop) is closed nowhere else and is what the
// goroutine started by Start selects on; the awaited one (done) is closed by that goroutine (and only there) and
// is not the one Stop closes. Swapping the two deadlocks Stop or panics on a double close.
func stopDoneProtocol(r *Report, p *Program, rule string) {
	r.Rule(rule, "Start/Stop pairs with a stop and a done channel: Stop closes stop then waits for done; only Stop closes stop; only the goroutine of Start closes done")
	r.Floor(rule, 3)
	for _, typ := range []string{"controller/composite.parentController", "controller/decorator.decoratorController", "dynamic/discovery.ResourceMap"} {
		start, stop := fn(r, p, rule, typ+".Start"), fn(r, p, rule, typ+".Stop")
		if start == nil || stop == nil {
			continue
		}
		fieldOf := func(v ssa.Value) string {
			if u, ok := v.(*ssa.UnOp); ok {
				if fa, ok := u.X.(*ssa.FieldAddr); ok {
					return fieldName(fa)
				}
			}
			return ""
		}
		closes := func(fs []*ssa.Function) map[string]int {
			out := map[string]int{}
			for _, g := range fs {
				for _, b := range g.Blocks {
					for _, in := range b.Instrs {
						if isCallTo(in, "builtin.close") {
							out[fieldOf(in.(ssa.CallInstruction).Common().Args[0])]++
						}
					}
				}
			}
			return out
		}
		stopCloses := closes([]*ssa.Function{stop})
		startCloses := closes(append([]*ssa.Function{start}, engine.Closures(start)...))
		waits := map[string]bool{}
		for _, b := range stop.Blocks {
			for _, in := range b.Instrs {
				if u, ok := in.(*ssa.UnOp); ok && u.Op.String() == "<-" {
					waits[fieldOf(u.X)] = true
				}
			}
		}
		ok, why := true, ""
		stopF, doneF := "", ""
		for f := range stopCloses {
			if f != "" {
				stopF = f
			}
		}
		for f := range waits {
			if f != "" {
				doneF = f
			}
		}
		switch {
		case len(stopCloses) != 1 || stopF == "":
			ok, why = false, sf("Stop closes %v (expected exactly one channel field)", stopCloses)
		case len(waits) != 1 || doneF == "":
			ok, why = false, "Stop does not wait for exactly one channel field"
		case stopF == doneF:
			ok, why = false, "Stop waits on the channel it has just closed: it does not wait for the workers"
		case startCloses[stopF] > 0:
			ok, why = false, "the goroutine of Start closes "+stopF+", which Stop closes too: a double close panics (and nothing closes "+doneF+", so Stop never returns)"
		case startCloses[doneF] != 1:
			ok, why = false, sf("the goroutine of Start closes %s %d times (expected once, deferred): Stop waits for it", doneF, startCloses[doneF])
		}
		r.Check(rule, Short(typ)+"[stop/done]", p.Pos(stop.Pos()), ok, "close("+stopF+"); <-"+doneF+" ; goroutine: defer close("+doneF+")", why)
	}
}

// noOpTestOperands (C07/C08/C01/C06): "would applying the desired state change this child?" is asked as
// DeepEqual(child, ApplyUpdate(child, desired)). The test means that only if its other operand is the very object
// ApplyUpdate started from; compared with anything else (the desired child, the result itself) it is constant or
// unrelated, and the rollout gate / the immediate move / the no-op detection decide on nothing.
func noOpTestOperands(r *Report, p *Program, rule string) {
	r.Rule(rule, "every DeepEqual one of whose operands is the result of ApplyUpdate(x, ·) has x as its other operand")
	r.Floor(rule, 2)
	n := 0
	for _, f := range p.Scanned {
		for _, cs := range callsTo(f, true, "controller/common.DeepEqual") {
			args := cs.Common().Args
			if len(args) != 2 {
				continue
			}
			core := func(v ssa.Value) ssa.Value {
				v = engine.Unwrap(v)
				if c, isC := v.(*ssa.Call); isC && strings.HasSuffix(engine.CallKey(c.Common()), "Unstructured.UnstructuredContent") && len(c.Common().Args) == 1 {
					return engine.Unwrap(c.Common().Args[0])
				}
				return v
			}
			for i := 0; i < 2; i++ {
				au := engine.DependsOnCall(args[i], engine.HasSuffix("controller/common.ApplyUpdate"), nil)
				if au == nil {
					continue
				}
				if ex, isE := core(args[i]).(*ssa.Extract); !isE || ex.Tuple != ssa.Value(au) {
					continue
				}
				n++
				from := au.Common().Args[0]
				other := core(args[1-i])
				ok := engine.SameValue(other, engine.Unwrap(from)) || E(other) == E(from)
				r.Check(rule, sf("%s→DeepEqual#%d", Short(FK(cs.Fn)), n), p.InstrPos(cs.Instr), ok, "compares "+E(from)+" with ApplyUpdate of it",
					"the result of ApplyUpdate("+E(from)+", …) is compared with "+E(other)+", not with the object the update was applied to: the no-op test does not say whether that object would change")
			}
		}
	}
}

// rmwOperands (C02/C10/C11/C16): the read-modify-write helpers apply the caller's update function to, and write
// back, the object they have just read — not the (possibly nil, possibly previous-attempt) result variable and
// not the stale original.
func rmwOperands(r *Report, p *Program, rule string) {
	r.Rule(rule, "AtomicUpdate / AtomicStatusUpdate: the update callback and every Update/UpdateStatus request get the object returned by the Get of the same attempt")
	r.Floor(rule, 2)
	for _, key := range []string{"dynamic/clientset.ResourceClient.AtomicUpdate", "dynamic/clientset.ResourceClient.AtomicStatusUpdate"} {
		f := fn(r, p, rule, key)
		if f == nil {
			continue
		}
		for _, cl := range engine.Closures(f) {
			gets := callsTo(cl, false, "ResourceInterface.Get", "ResourceClient.Get")
			if len(gets) != 1 {
				continue
			}
			get := gets[0].Instr.(ssa.Value)
			isCur := func(v ssa.Value) bool {
				ex, ok := engine.Unwrap(v).(*ssa.Extract)
				return ok && ex.Tuple == get && ex.Index == 0
			}
			ok, why := true, ""
			n := 0
			for _, b := range cl.Blocks {
				for _, in := range b.Instrs {
					ci, isC := in.(ssa.CallInstruction)
					if !isC {
						continue
					}
					k := engine.CallKey(ci.Common())
					dyn := ci.Common().StaticCallee() == nil && !ci.Common().IsInvoke() // the update callback
					if !(dyn || strings.HasSuffix(k, ".Update") || strings.HasSuffix(k, ".UpdateStatus")) {
						continue
					}
					for _, a := range ci.Common().Args {
						if strings.HasSuffix(a.Type().String(), "unstructured.Unstructured") {
							n++
							if !isCur(a) {
								ok, why = false, sf("%s at %s is given %s, not the object read by this attempt's Get", Short(k), p.InstrPos(in), E(a))
							}
						}
					}
				}
			}
			if n < 2 {
				ok, why = false, "the update callback and the write were not both found in the retry closure"
			}
			r.Check(rule, FK(f)+"[callback-and-write-get-the-fresh-object]", p.Pos(f.Pos()), ok, "update(current); Update(current)", why)
		}
	}
}

// oneKeyPerSharedMap (C18/C20): SharedInformerFactory.Resource and its close function address refCount and
// sharedInformers with ONE key (the resourceKey of the two parameters): an access under another key subscribes,
// counts or releases a different informer than the one handed out.
func oneKeyPerSharedMap(r *Report, p *Program, rule string) {
	r.Rule(rule, "SharedInformerFactory.Resource (and its close closure): every lookup, update and delete on refCount / sharedInformers uses the same key variable, which is resourceKey(apiVersion, resource)")
	r.Floor(rule, 1)
	f := fn(r, p, rule, "dynamic/informer.SharedInformerFactory.Resource")
	if f == nil {
		return
	}
	var canon func(v ssa.Value, g *ssa.Function, d int) ssa.Value
	canon = func(v ssa.Value, g *ssa.Function, d int) ssa.Value {
		if d > 6 {
			return v
		}
		switch x := v.(type) {
		case *ssa.UnOp:
			if x.Op.String() == "*" {
				return canon(x.X, g, d+1)
			}
		case *ssa.FreeVar:
			// binding in the enclosing function
			if par := g.Parent(); par != nil {
				for _, b := range par.Blocks {
					for _, in := range b.Instrs {
						if mc, ok := in.(*ssa.MakeClosure); ok && mc.Fn == ssa.Value(g) {
							for i, fv := range g.FreeVars {
								if fv == x && i < len(mc.Bindings) {
									return canon(mc.Bindings[i], par, d+1)
								}
							}
						}
					}
				}
			}
		}
		return v
	}
	keys := map[ssa.Value]int{}
	n := 0
	var keyVal ssa.Value
	for _, g := range append([]*ssa.Function{f}, engine.Closures(f)...) {
		for _, b := range g.Blocks {
			for _, in := range b.Instrs {
				var m, k ssa.Value
				switch x := in.(type) {
				case *ssa.Lookup:
					m, k = x.X, x.Index
				case *ssa.MapUpdate:
					m, k = x.Map, x.Key
				case ssa.CallInstruction:
					if isCallTo(in, "builtin.delete") {
						m, k = x.Common().Args[0], x.Common().Args[1]
					}
				}
				if m == nil {
					continue
				}
				if e := E(m); !(strings.HasSuffix(e, ".refCount") || strings.HasSuffix(e, ".sharedInformers")) {
					continue
				}
				n++
				c := canon(k, g, 0)
				keys[c]++
				keyVal = c
			}
		}
	}
	ok, why := n >= 6 && len(keys) == 1, sf("%d accesses to refCount/sharedInformers use %d different keys", n, len(keys))
	if ok {
		// the one key is resourceKey(p1, p2)
		src := ""
		if al, isA := keyVal.(*ssa.Alloc); isA {
			if refs := al.Referrers(); refs != nil {
				for _, u := range *refs {
					if st, isS := u.(*ssa.Store); isS && st.Addr == ssa.Value(al) {
						src = E(st.Val)
					}
				}
			}
		} else {
			src = E(keyVal)
		}
		if !(strings.Contains(src, "resourceKey)(p1, p2)")) {
			ok, why = false, "the key is "+src+", not resourceKey(apiVersion, resource)"
		}
	}
	r.Check(rule, FK(f)+"[one-key]", p.Pos(f.Pos()), ok, sf("%d accesses, one key", n), why)
}

// errorValuesUsed (C12/C20/C13): an error a call returns into a variable (not `_`) is looked at — compared,
// returned, wrapped or passed on — before it is lost. (`x, err := f(); if otherErr != nil` type-checks as long as
// err is assigned again later.)
func errorValuesUsed(r *Report, p *Program, rule string) {
	r.Rule(rule, "module-wide: every error result that is bound to a variable has at least one use (comparison, return, argument, store)")
	r.Floor(rule, 1)
	n := 0
	errT := types.Universe.Lookup("error").Type()
	for _, f := range p.Scanned {
		k := FK(f)
		if strings.Contains(k, "/pkg/client/generated") || strings.Contains(k, "zzmcvetcontrols") {
			continue
		}
		ord := 0
		for _, b := range f.Blocks {
			for _, in := range b.Instrs {
				var v ssa.Value
				var call *ssa.Call
				switch x := in.(type) {
				case *ssa.Extract:
					if c, isC := x.Tuple.(*ssa.Call); isC && types.Identical(x.Type(), errT) {
						v, call = x, c
					}
				case *ssa.Call:
					if types.Identical(x.Type(), errT) {
						v, call = x, x
					}
				}
				if v == nil {
					continue
				}
				n++
				used := false
				if refs := v.Referrers(); refs != nil {
					for _, u := range *refs {
						if _, isD := u.(*ssa.DebugRef); !isD {
							used = true
						}
					}
				}
				if used || blankErrorLHS(f, call) {
					continue
				}
				// a single-result call used as a statement (`f()`) is errcheck's business (R12.1), not this rule's
				if _, isEx := v.(*ssa.Extract); !isEx {
					continue
				}
				ord++
				r.Check(rule, sf("%s→%s#%d[error-looked-at]", Short(k), Short(engine.CallKey(call.Common())), ord), p.InstrPos(in), false, "",
					"the error returned by this call is bound to a variable and never looked at (the test that follows examines another variable): a failure here goes unnoticed and the nil/zero results are used")
			}
		}
	}
	r.Check(rule, sf("error results bound to variables (%d examined)", n), "-", n >= 150, "all looked at", sf("only %d error results found", n))
}

// hookWiring (C10/C20/C03): hooks.NewHook(spec.Hooks.<X>, …, common.<X>Hook) and the result is kept as <x>Hook —
// the three names agree (the finalize hook is not built from the sync hook's URL, nor reported under its type).
func hookWiring(r *Report, p *Program, rule string) {
	r.Rule(rule, "every hooks.NewHook call: the spec field, the HookType constant and the field the hook is stored in name the same hook")
	r.Floor(rule, 4)
	n := 0
	for _, f := range p.Scanned {
		if strings.Contains(FK(f), "zzmcvetcontrols") {
			continue
		}
		for _, cs := range callsTo(f, false, "hooks.NewHook") {
			args := cs.Common().Args
			if len(args) != 4 {
				continue
			}
			n++
			kind := ""
			if c, isC := args[3].(*ssa.Const); isC && c.Value != nil {
				kind = strings.Trim(c.Value.ExactString(), `"`)
			}
			src := E(args[0])
			okSrc := strings.HasSuffix(strings.ToLower(src), ".hooks."+kind) || strings.Contains(strings.ToLower(src), "get"+kind+"hook)")
			// where the result goes
			okDst, dst := true, ""
			if v, isV := cs.Instr.(ssa.Value); isV {
				forwardUses(v, 0, map[ssa.Value]bool{}, func(u ssa.Instruction) {
					if st, isS := u.(*ssa.Store); isS {
						if fa, isFA := st.Addr.(*ssa.FieldAddr); isFA {
							dst = fieldName(fa)
							if strings.HasSuffix(strings.ToLower(dst), "hook") && strings.ToLower(dst) != kind+"hook" {
								okDst = false
							}
						}
					}
				})
			}
			r.Check(rule, sf("%s→NewHook(%s)", Short(FK(f)), kind), p.InstrPos(cs.Instr), kind != "" && okSrc && okDst, "spec field, hook type and destination agree",
				sf("hook type %q is built from %s and kept in %q: the names do not agree — a hook is wired to another hook's URL / reported as another hook", kind, src, dst))
		}
	}
	if n == 0 {
		r.Check(rule, "hooks.NewHook", "-", false, "", "no NewHook call found")
	}
}

// setterGetsOwnMap (C16/C01/C06): o.SetLabels(m) / o.SetAnnotations(m): when m comes from a GetLabels/GetAnnotations/
// NestedStringMap at all, it comes from one on o itself — not from the parent's (or another child's) map.
func setterGetsOwnMap(r *Report, p *Program, rule string) {
	r.Rule(rule, "SetLabels/SetAnnotations(m) on x: a getter in m's history that reads another object than x is matched by one that reads x (maps are edited in place and written back to their owner)")
	r.Floor(rule, 3)
	n := 0
	for _, f := range p.Scanned {
		if strings.Contains(FK(f), "zzmcvetcontrols") || strings.Contains(FK(f), "/pkg/client/generated") {
			continue
		}
		for _, cs := range callsTo(f, true, "Unstructured.SetLabels", "Unstructured.SetAnnotations") {
			if len(cs.Common().Args) < 2 {
				continue
			}
			recv, m := engine.Unwrap(cs.Common().Args[0]), cs.Common().Args[1]
			want := "Unstructured.GetLabels"
			if strings.HasSuffix(cs.Key, "SetAnnotations") {
				want = "Unstructured.GetAnnotations"
			}
			own, foreign := false, ""
			engine.BackSlice(m, func(x ssa.Value) bool {
				c, isC := x.(*ssa.Call)
				if !isC || len(c.Common().Args) == 0 {
					return false
				}
				k := engine.CallKey(c.Common())
				if strings.HasSuffix(k, want) || strings.HasSuffix(k, "Unstructured.GetLabels") || strings.HasSuffix(k, "Unstructured.GetAnnotations") {
					if g := engine.Unwrap(c.Common().Args[0]); engine.SameValue(g, recv) || E(g) == E(recv) {
						if strings.HasSuffix(k, want) {
							own = true
						} else {
							foreign = E(g) + " (its " + methodOf(k) + ", the other kind of map)"
						}
					} else {
						foreign = E(g)
					}
				}
				return false
			}, func(k string) bool { return strings.HasPrefix(k, "builtin.") || strings.HasPrefix(k, engine.ModPrefix) })
			if foreign == "" && !own {
				continue
			}
			n++
			r.Check(rule, sf("%s→%s#%d", Short(FK(cs.Fn)), Short(cs.Key), n), p.InstrPos(cs.Instr), own || foreign == "", "the map written back is the object's own",
				"the map handed to the setter was read from "+foreign+", not from the object it is set on: that object's own labels/annotations are replaced by another object's")
		}
	}
}

// operandFromTheLoop (C09/C16/C14): small operand-exactness clauses of existing tables.
func operandFromTheLoop(r *Report, p *Program, rule string) {
	r.Rule(rule, "manageRevisions writes the desired revision of the iteration; decorator getChildren asks for the controller of the listed object; child handlers enqueue what resolveControllerRef / findPotentialParents returned")
	r.Floor(rule, 6)
	if f := fn(r, p, rule, "controller/composite.parentController.manageRevisions"); f != nil {
		for _, l := range engine.RangeLoops(f) {
			if E(l.X) != "p3" {
				continue
			}
			for i, cs := range callsTo(f, false, "ControllerRevisionInterface.Update", "ControllerRevisionInterface.Create") {
				if !l.Contains(cs.Instr.(ssa.Instruction)) || len(cs.Common().Args) < 2 {
					continue
				}
				a := cs.Common().Args[1]
				r.Check(rule, sf("%s→%s#%d[desired-revision]", Short(FK(f)), Short(cs.Key), i), p.InstrPos(cs.Instr), engine.PointsInto(a, l.Val) || engine.SameValue(a, l.Val), "the revision of this iteration",
					"the ControllerRevision request carries "+E(a)+", not the desired revision of this iteration: what was computed is never persisted")
			}
		}
	}
	if f := fn(r, p, rule, "controller/decorator.decoratorController.getChildren"); f != nil {
		for i, cs := range callsTo(f, false, "meta/v1.GetControllerOf") {
			a := engine.Unwrap(cs.Common().Args[0])
			ok := false
			for _, l := range engine.RangeLoops(f) {
				if l.Contains(cs.Instr.(ssa.Instruction)) && (engine.SameValue(a, l.Val) || engine.PointsInto(a, l.Val)) {
					ok = true
				}
			}
			r.Check(rule, sf("%s→GetControllerOf#%d", Short(FK(f)), i), p.InstrPos(cs.Instr), ok, "controller of the listed object", "ownership is judged on "+E(a)+", not on the object being listed")
		}
	}
	for _, typ := range []string{"controller/composite.parentController", "controller/decorator.decoratorController"} {
		for _, m := range []string{"onChildAdd", "onChildUpdate", "onChildDelete"} {
			f := p.Func(typ + "." + m)
			if f == nil {
				continue
			}
			for i, cs := range callsTo(f, false, typ[strings.LastIndex(typ, ".")+1:]+".enqueueParentObject") {
				a := cs.Common().Args[len(cs.Common().Args)-1]
				ok := engine.DependsOnCall(a, engine.HasSuffix(".resolveControllerRef", ".findPotentialParents"), nil) != nil
				r.Check(rule, sf("%s→enqueueParentObject#%d", Short(FK(f)), i), p.InstrPos(cs.Instr), ok, "the resolved parent is enqueued", "what is enqueued ("+E(a)+") is not the parent that resolveControllerRef / findPotentialParents returned (the child itself?): the parent is never woken")
			}
		}
	}
}

// forwardUses visits the instructions that use v, through extracts, interface conversions and phis.
func forwardUses(v ssa.Value, d int, seen map[ssa.Value]bool, visit func(ssa.Instruction)) {
	if d > 6 || seen[v] {
		return
	}
	seen[v] = true
	refs := v.Referrers()
	if refs == nil {
		return
	}
	for _, u := range *refs {
		visit(u)
		switch x := u.(type) {
		case *ssa.Extract:
			if x.Index == 0 {
				forwardUses(x, d+1, seen, visit)
			}
		case *ssa.MakeInterface:
			forwardUses(x, d+1, seen, visit)
		case *ssa.ChangeInterface:
			forwardUses(x, d+1, seen, visit)
		case *ssa.Phi:
			forwardUses(x, d+1, seen, visit)
		}
	}
}

// patchHelpersTable (C09/C07/C08): makePatch(src, paths) reads every path from src and writes it, under the same
// path, into the fresh map it returns; applyPatch(dest, patch, paths) reads from patch and writes into dest. The
// path of a read and of its write is one value: the split of the loop's own field path.
func patchHelpersTable(r *Report, p *Program, rule string) {
	r.Rule(rule, "makePatch / applyPatch: source and target of each field copy, and the path used on both sides")
	r.Floor(rule, 2)
	for _, c := range []struct{ key, from, to, paths string }{
		{"controller/composite.makePatch", "p0", "make<map>", "p1"},
		{"controller/composite.applyPatch", "p1", "p0", "p2"},
	} {
		f := fn(r, p, rule, c.key)
		if f == nil {
			continue
		}
		reads, writes := callsTo(f, false, "unstructured.NestedFieldNoCopy"), callsTo(f, false, "unstructured.SetNestedField")
		ok, why := len(reads) == 1 && len(writes) == 1, "expected one NestedFieldNoCopy and one SetNestedField"
		if ok {
			rd, wr := reads[0].Common().Args, writes[0].Common().Args
			isTo := func(v ssa.Value) bool {
				if c.to == "p0" {
					return E(v) == "p0"
				}
				_, isMk := engine.Unwrap(v).(*ssa.MakeMap)
				return isMk
			}
			pathOf := func(v ssa.Value) string {
				if c := engine.DependsOnCall(v, engine.HasSuffix("strings.Split"), nil); c != nil {
					return E(c.Common().Args[0])
				}
				return "?" + E(v)
			}
			switch {
			case E(rd[0]) != c.from:
				ok, why = false, "fields are read from "+E(rd[0])+", not from "+c.from
			case !isTo(wr[0]):
				ok, why = false, "fields are written into "+E(wr[0])+", not into "+c.to
			case !engine.SameValue(rd[len(rd)-1], wr[len(wr)-1]) || strings.HasPrefix(pathOf(rd[len(rd)-1]), "?") || !(strings.HasPrefix(pathOf(rd[len(rd)-1]), c.paths+"[") || strings.Contains(pathOf(rd[len(rd)-1]), "range("+c.paths)):
				ok, why = false, "the path read ("+pathOf(rd[len(rd)-1])+") and the path written ("+pathOf(wr[len(wr)-1])+") are not the split of this iteration's field path"
			case E(wr[1]) != E(reads[0].Instr.(ssa.Value))+"#0" && !strings.Contains(E(wr[1]), "NestedFieldNoCopy"):
				ok, why = false, "the value written is "+E(wr[1])+", not the value read"
			}
			if c.to != "p0" {
				// the map written into is the one returned
				for _, b := range f.Blocks {
					if ret, isR := b.Instrs[len(b.Instrs)-1].(*ssa.Return); isR && len(ret.Results) == 2 && !isNilConst(ret.Results[0]) && !engine.SameValue(engine.Unwrap(ret.Results[0]), engine.Unwrap(wr[0])) {
						ok, why = false, "the map returned is not the map the fields were written into"
					}
				}
			}
		}
		r.Check(rule, FK(f), p.Pos(f.Pos()), ok, c.from+" → "+c.to+" under one path", why)
	}
}

// materialisedRevisionAppended (C07/C09): in syncRevisions the loop over the observed ControllerRevisions appends,
// per revision that is not the latest, the parentRevision it has just built (a fresh allocation of that
// iteration) — not `latest` again, not a value from outside the loop.
func materialisedRevisionAppended(r *Report, p *Program, rule string) {
	r.Rule(rule, "syncRevisions: what the materialisation loop appends to parentRevisions is the parentRevision allocated in that iteration")
	r.Floor(rule, 1)
	f := fn(r, p, rule, "controller/composite.parentController.syncRevisions")
	if f == nil {
		return
	}
	n := 0
	for _, l := range engine.RangeLoops(f) {
		for _, cs := range callsTo(f, false, "builtin.append") {
			in := cs.Instr.(ssa.Instruction)
			if !l.Contains(in) || len(cs.Common().Args) != 2 || !strings.Contains(cs.Common().Args[0].Type().String(), "parentRevision") {
				continue
			}
			n++
			ok, what := false, "?"
			if sl, isSl := cs.Common().Args[1].(*ssa.Slice); isSl {
				if arr, isA := sl.X.(*ssa.Alloc); isA && arr.Referrers() != nil {
					for _, u := range *arr.Referrers() {
						ia, isIA := u.(*ssa.IndexAddr)
						if !isIA || ia.Referrers() == nil {
							continue
						}
						for _, uu := range *ia.Referrers() {
							if st, isS := uu.(*ssa.Store); isS {
								what = E(st.Val)
								if al, isAl := st.Val.(*ssa.Alloc); isAl && l.Contains(al) {
									ok = true
								}
							}
						}
					}
				}
			}
			r.Check(rule, sf("%s→append(parentRevisions)#%d", Short(FK(f)), n), p.InstrPos(in), ok, "the revision built in this iteration", "the loop appends "+what+", not the parentRevision it has just materialised: the old revisions' desired children are never asked for and never kept")
		}
	}
	if n == 0 {
		r.Check(rule, FK(f), p.Pos(f.Pos()), false, "", "no append to parentRevisions inside a loop")
	}
}

// rmwAddressedByObjectNamespace (C04/C02/C10): every read-modify-write helper call on a ResourceClient
// (AtomicUpdate, AtomicStatusUpdate, AddFinalizer, RemoveFinalizer) is made on client.Namespace(x.GetNamespace())
// where x is the object handed to it. A client "already scoped" somewhere else (to the parent's namespace, which
// is empty for a cluster-scoped parent) reads another object, or none — and NotFound is taken for "gone".
func rmwAddressedByObjectNamespace(r *Report, p *Program, rule string) {
	r.Rule(rule, "AtomicUpdate / AtomicStatusUpdate / AddFinalizer / RemoveFinalizer(obj, …) are called on rc.Namespace(obj.GetNamespace()) for that same obj")
	r.Floor(rule, 4)
	n := 0
	for _, f := range p.Scanned {
		k := FK(f)
		if strings.Contains(k, "zzmcvetcontrols") || strings.Contains(k, "/pkg/client/generated") || strings.HasSuffix(engine.Short(k), "ResourceClient.AddFinalizer") || strings.HasSuffix(engine.Short(k), "ResourceClient.RemoveFinalizer") {
			continue
		}
		for _, cs := range callsTo(f, true, "clientset.ResourceClient.AtomicUpdate", "clientset.ResourceClient.AtomicStatusUpdate", "clientset.ResourceClient.AddFinalizer", "clientset.ResourceClient.RemoveFinalizer") {
			args := cs.Common().Args
			if len(args) < 2 {
				continue
			}
			n++
			recv, obj := args[0], engine.Unwrap(args[1])
			ok, why := false, "the client is "+E(recv)+": not scoped to the namespace of the object that is read and written"
			if ns := engine.DependsOnCall(recv, engine.HasSuffix("clientset.ResourceClient.Namespace"), nil); ns != nil && len(ns.Common().Args) == 2 {
				if g, isC := engine.Unwrap(ns.Common().Args[1]).(*ssa.Call); isC && strings.HasSuffix(engine.CallKey(g.Common()), "Unstructured.GetNamespace") && len(g.Common().Args) == 1 {
					if x := engine.Unwrap(g.Common().Args[0]); engine.SameValue(x, obj) || E(x) == E(obj) {
						ok = true
					} else {
						why = "the client is scoped to the namespace of " + E(x) + ", but the object read and written is " + E(obj)
					}
				}
			}
			r.Check(rule, sf("%s→%s#%d", Short(k), methodOf(cs.Key), n), p.InstrPos(cs.Instr), ok, "client.Namespace(obj.GetNamespace())", why)
		}
	}
}

// fanOutLoopsDoNotReturn (C14): findPotentialParents / findRelatedParents walk all candidate parents; one
// candidate that cannot be judged (unusable selector, failing rule) is skipped — a return inside the loop throws
// away the matches already collected and the candidates not yet looked at.
func fanOutLoopsDoNotReturn(r *Report, p *Program, rule string) {
	r.Rule(rule, "the loops over the listed candidate parents in findPotentialParents and findRelatedParents contain no return")
	r.Floor(rule, 2)
	for _, key := range []string{"controller/composite.parentController.findPotentialParents", "controller/common/customize.Manager.findRelatedParents"} {
		f := fn(r, p, rule, key)
		if f == nil {
			continue
		}
		ok, why := true, ""
		var loops []*engine.RangeLoop
		for _, l := range engine.RangeLoops(f) {
			// the loop over the candidates themselves: what is ranged over is what a lister returned
			if engine.DependsOnCall(l.X, engine.HasSuffix(".List"), nil) != nil {
				loops = append(loops, l)
			}
		}
		for _, l := range loops {
			for _, b := range l.BodyBlocks() {
				if ret, isR := b.Instrs[len(b.Instrs)-1].(*ssa.Return); isR {
					ok, why = false, "a return inside the loop over the candidates (at "+p.InstrPos(ret)+"): one candidate that cannot be judged makes the event wake nobody"
				}
			}
		}
		if len(loops) == 0 {
			ok, why = false, "no loop over the candidates"
		}
		r.Check(rule, FK(f), p.Pos(f.Pos()), ok, "every candidate is looked at", why)
	}
}

// channelFieldsSetOnlyAtStart (C18/C20): a stop / done channel that a goroutine selects on is stored into its
// struct field only by the function that starts the goroutine (Start / start / a constructor). Clearing or
// replacing it in stop() races with the goroutine re-reading the field: it then waits on nil and never stops.
func channelFieldsSetOnlyAtStart(r *Report, p *Program, rule string) {
	r.Rule(rule, "struct fields of type chan struct{} are assigned only in Start/start/constructors")
	r.Floor(rule, 6)
	n := 0
	for _, f := range p.Scanned {
		k := engine.Short(FK(f))
		if strings.Contains(k, "zzmcvetcontrols") || strings.Contains(k, "client/generated") {
			continue
		}
		root := f
		for root.Parent() != nil {
			root = root.Parent()
		}
		name := root.Name()
		for _, b := range f.Blocks {
			for _, in := range b.Instrs {
				st, isS := in.(*ssa.Store)
				if !isS {
					continue
				}
				fa, isFA := st.Addr.(*ssa.FieldAddr)
				if !isFA {
					continue
				}
				ch, isCh := fa.Type().(*types.Pointer).Elem().Underlying().(*types.Chan)
				if !isCh {
					continue
				}
				if _, isStruct := ch.Elem().Underlying().(*types.Struct); !isStruct {
					continue
				}
				if _, isAlloc := fa.X.(*ssa.Alloc); isAlloc {
					continue // composite literal under construction
				}
				n++
				ok := name == "Start" || name == "start" || strings.HasPrefix(strings.ToLower(name), "new")
				r.Check(rule, sf("%s→store(%s)#%d", k, fieldName(fa), n), p.InstrPos(in), ok, "set where the goroutine is started", "the channel field "+fieldName(fa)+" is assigned in "+name+": a goroutine that selects on the field sees another (or a nil) channel than the one that is closed")
			}
		}
	}
}

// wrongGetter: value is recv.GetQ() while target (a field, variable or parameter name, normalised) names another
// getter GetP of recv with the same result type (P equal to the target name, or the target name ends in P).
// Returns a description of the mix-up, or "".
func wrongGetter(info *types.Info, target string, value ast.Expr) string {
	c, ok := value.(*ast.CallExpr)
	if ok && len(c.Args) == 1 {
		if tv, has := info.Types[c.Fun]; has && tv.IsType() {
			return wrongGetter(info, target, c.Args[0]) // T(x.GetFoo())
		}
	}
	if !ok || len(c.Args) != 0 {
		return ""
	}
	gs, ok := c.Fun.(*ast.SelectorExpr)
	if !ok || !strings.HasPrefix(gs.Sel.Name, "Get") || len(gs.Sel.Name) <= 3 {
		return ""
	}
	q := normName(strings.TrimPrefix(gs.Sel.Name, "Get"))
	if q == target || (len(q) >= 4 && strings.HasSuffix(target, q)) {
		return ""
	}
	rt := info.TypeOf(gs.X)
	vt := info.TypeOf(value)
	if rt == nil || vt == nil {
		return ""
	}
	ms := types.NewMethodSet(rt)
	for i := 0; i < ms.Len(); i++ {
		m := ms.At(i).Obj()
		if !strings.HasPrefix(m.Name(), "Get") || m.Name() == gs.Sel.Name {
			continue
		}
		mn := strings.TrimPrefix(normName(m.Name()), "get")
		if !(mn == target || (len(mn) >= 4 && strings.HasSuffix(target, mn))) {
			continue
		}
		sig, isSig := m.Type().(*types.Signature)
		if !isSig || sig.Params().Len() != 0 || sig.Results().Len() != 1 || !types.Identical(sig.Results().At(0).Type(), vt) {
			continue
		}
		return gs.Sel.Name + "() although the same object has " + m.Name() + "(): wrong accessor"
	}
	return ""
}

// smallVerbClauses (C10/C12/C14/C15): four one-line contracts that the method-swap mutants showed nothing held:
// the worker loops call processNextWorkItem; ResourceClient.AddFinalizer adds and RemoveFinalizer removes (and both
// go through AtomicUpdate, not the status endpoint); what is handed to AtomicStatusUpdate edits status only;
// nothing lists with labels.Nothing().
func smallVerbClauses(r *Report, p *Program, rule string) {
	r.Rule(rule, "worker loops call processNextWorkItem; AddFinalizer adds / RemoveFinalizer removes through AtomicUpdate; AtomicStatusUpdate callbacks edit status only; no labels.Nothing()")
	r.Floor(rule, 4)
	for _, typ := range []string{"controller/composite.parentController", "controller/decorator.decoratorController"} {
		if f := fn(r, p, rule, typ+".worker"); f != nil {
			ok := len(callsTo(f, false, typ[strings.LastIndex(typ, ".")+1:]+".processNextWorkItem")) == 1
			r.Check(rule, FK(f)+"[loop]", p.Pos(f.Pos()), ok, "for processNextWorkItem() {}", "the worker does not call processNextWorkItem: nothing is ever taken off the queue")
		}
	}
	for _, c := range []struct{ fn, verb, other string }{
		{"dynamic/clientset.ResourceClient.AddFinalizer", "controllerutil.AddFinalizer", "controllerutil.RemoveFinalizer"},
		{"dynamic/clientset.ResourceClient.RemoveFinalizer", "controllerutil.RemoveFinalizer", "controllerutil.AddFinalizer"},
	} {
		f := fn(r, p, rule, c.fn)
		if f == nil {
			continue
		}
		ok, why := true, ""
		if len(callsTo(f, true, c.verb)) != 1 || len(callsTo(f, true, c.other)) != 0 {
			ok, why = false, "the callback does not call "+c.verb+" (or calls "+c.other+")"
		}
		if len(callsTo(f, false, "ResourceClient.AtomicUpdate")) != 1 || len(callsTo(f, false, "ResourceClient.AtomicStatusUpdate")) != 0 {
			ok, why = false, "the finalizer list is metadata: it is written with AtomicUpdate, not through the status endpoint (which ignores metadata changes)"
		}
		r.Check(rule, FK(f), p.Pos(f.Pos()), ok, c.verb+" through AtomicUpdate", why)
	}
	n := 0
	for _, f := range p.Scanned {
		k := FK(f)
		if strings.Contains(k, "zzmcvetcontrols") || strings.Contains(k, "/pkg/client/generated") {
			continue
		}
		for _, cs := range callsTo(f, true, "labels.Nothing") {
			if strings.HasSuffix(engine.Short(k), "decorator.newDecoratorSelector") {
				continue
			}
			n++
			r.Check(rule, sf("%s→labels.Nothing#%d", Short(k), n), p.InstrPos(cs.Instr), false, "", "labels.Nothing() selects no object: a lister asked with it returns nothing, a selector built from it matches nothing")
		}
		for _, cs := range callsTo(f, true, "ResourceClient.AtomicStatusUpdate", "ResourceClient.AtomicUpdate") {
			isStatus := strings.HasSuffix(cs.Key, "AtomicStatusUpdate")
			args := cs.Common().Args
			if len(args) < 3 || strings.HasSuffix(engine.Short(k), "ResourceClient.AddFinalizer") || strings.HasSuffix(engine.Short(k), "ResourceClient.RemoveFinalizer") {
				continue
			}
			cl := p.ResolveFuncValue(args[2])
			for _, g := range cl {
				if g == nil || len(g.Params) == 0 {
					continue
				}
				par := g.Params[len(g.Params)-1]
				meta, status := "", false
				for _, m := range p.Mutations(g, par) {
					if strings.Contains(m.What, "status") {
						status = true
					} else {
						meta = m.What
					}
				}
				if isStatus && meta != "" {
					n++
					r.Check(rule, sf("%s→AtomicStatusUpdate[callback]#%d", Short(k), n), p.InstrPos(cs.Instr), false, "", "the callback handed to AtomicStatusUpdate edits "+meta+": the status endpoint ignores everything but status, the edit is lost")
				}
				if !isStatus && status && meta == "" {
					n++
					r.Check(rule, sf("%s→AtomicUpdate[callback]#%d", Short(k), n), p.InstrPos(cs.Instr), false, "", "the callback handed to AtomicUpdate edits only status: with a status subresource the main endpoint ignores it")
				}
			}
		}
	}
}
