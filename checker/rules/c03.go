package rules

import (
	"go/types"
	"strings"

	"mcvet/engine"

	"golang.org/x/tools/go/ssa"
)

func init() {
	Registry["C03"] = checkC03
}

func checkC03(r *Report, p *Program) {
	r.Explanation = "Decides how the children map handed to the hook is constructed: (R03.1) every declared child resource gets its (possibly empty) group on every non-error path of the observe loops and of Convert, and InitGroup never replaces an existing group; (R03.2) the cache is listed in the parent's namespace exactly when the parent is namespaced (composite, decorator, related-by-label); (R03.3) Convert confines a namespaced parent to objects of its own namespace, InsertAll of everything only for a cluster-scoped parent; (R03.4) relativeName/qualifiedName tables: namespace/name exactly for cluster-scoped parent ∧ namespaced object (resp. namespaced object); (R03.5) both callHooks default the namespace of every non-nil returned child with empty namespace to the parent's, on every path that returns a hook answer; (R03.6) request wiring: the builder receives the observed map, the related map and the parent, and Build converts both maps relative to the parent; (R03.7) only owned∧matching or freshly adopted objects are claimed (shared with C02/C04)."
	r.NotDecided = "which objects exist in the cluster; the Kind.apiVersion key text (covered by MarshalText tests)."
	r03_1(r, p)
	r03_2(r, p)
	r03_3(r, p)
	r03_4(r, p)
	r03_5(r, p)
	r03_6(r, p)
	if co := fn(r, p, "R03.7", "third_party/kubernetes.BaseControllerRefManager.ClaimObject"); co != nil {
		claimTable(r, p, "R03.7", co, true)
	}
	// the observed set handed to the hook: the decorator's ownership/marker filter, and the
	// claimed set being what ManageChildren and the hook receive (shared with C02)
	r02_4(r, p, computeChildRoles(p))
	adoptAlwaysWrites(r, p, "R03.8")
	// objects listed for a declared child type come from an informer of exactly that resource and version
	keyCompleteness(r, p, "R03.9", "informer.resourceKey")
	cachesSyncedBeforeWorkers(r, p, "R03.10")
	objectMapContracts(r, p, "R03.11")
	// exactly the claimed objects are what the hook is shown (shared with C04)
	claimKeepTable(r, p, "R03.12")
	namespaceDefaulted(r, p, "R03.13")
	gvkFromDeclaredVersion(r, p, "R03.14")
	containerBuilders(r, p, "R03.15")
	discoveryDefaults(r, p, "R03.16")
	namespaceScopingTable(r, p, "R03.17")
	staleParentAfterFinalizerSync(r, p, "R03.18")
	matchIsSelectorOnly(r, p, "R03.20") // a controlled, selected child is shown to the hook whatever else is true of it (terminating …)
	ownerRefEdits(r, p, "R03.19")       // what the hook is shown as "claimed" is controlled: adoption replaces an existing plain reference by the controller reference
	// the children are listed from informers that stay alive while subscribed to (shared with C18)
	r18_2(r, p)
	// which children are claimed (and so shown to the hook) is decided by makeSelector: generated ⇒ controller-uid only (shared with C04)
	r04_4(r, p)
}

func r03_1(r *Report, p *Program) {
	const rule = "R03.1"
	r.Rule(rule, "every declared group initialised; InitGroup non-destructive")
	r.Floor(rule, 5)
	for _, key := range []string{"controller/composite.parentController.claimChildren", "controller/decorator.decoratorController.getChildren"} {
		f := fn(r, p, rule, key)
		if f == nil {
			continue
		}
		var loop *engine.RangeLoop
		for _, l := range engine.RangeLoops(f) {
			x := E(l.X)
			if strings.HasSuffix(x, ".Spec.ChildResources") || strings.HasSuffix(x, ".Spec.Attachments") {
				loop = l
			}
		}
		if loop == nil {
			r.Check(rule, FK(f)+"[loop]", p.Pos(f.Pos()), false, "", "no loop over the declared child resources")
			continue
		}
		w := engine.Query{Fn: f, From: []engine.Point{{B: loop.Body}},
			Target:   func(in ssa.Instruction) bool { return in.Block() == loop.Header },
			CutInstr: func(in ssa.Instruction) bool { return isCallTo(in, "UniformObjectMap.InitGroup") }}.Find()
		r.Check(rule, FK(f)+"[InitGroup-every-iteration]", p.Pos(f.Pos()), w == nil, "each declared resource gets its group before the next iteration", "an iteration can finish without InitGroup: a declared child type would be missing from the hook request when it has no objects; "+pathWhy(w))
		// the map returned on success is the one being filled; loop covers the whole list
		r.Check(rule, FK(f)+"[whole-list]", p.Pos(f.Pos()), !strings.HasPrefix(E(loop.X), "slice("), "ranges over all declared resources", "skips declared resources")
	}
	for _, key := range []string{"controller/common/api/v2.UniformObjectMap.InitGroup", "controller/common/api/v1.RelativeObjectMap.InitGroup"} {
		f := fn(r, p, rule, key)
		if f == nil {
			continue
		}
		n := 0
		ok := true
		for _, b := range engine.BlocksInl(f) {
			for _, in := range b.Instrs {
				if mu, isMU := in.(*ssa.MapUpdate); isMU {
					n++
					w := unguarded(f, nil, in, func(l Lit) bool {
						v, isNil, isT := l.NilTest()
						return isT && isNil && strings.HasPrefix(E(v), "p0[")
					})
					if w != nil || E(mu.Map) != "p0" {
						ok = false
					}
				}
			}
		}
		r.Check(rule, FK(f)+"[non-destructive]", p.Pos(f.Pos()), ok && n == 1, "group created only if absent", "InitGroup can replace an existing group: objects inserted earlier for the same kind (e.g. by a previous related rule) are lost")
	}
	if f := fn(r, p, rule, "controller/common/api/v2.UniformObjectMap.Convert"); f != nil {
		ok := false
		for _, l := range engine.RangeLoops(f) {
			if E(l.X) == "p0" {
				for _, cs := range callsTo(f, false, "RelativeObjectMap.InitGroup") {
					if l.Contains(cs.Instr.(ssa.Instruction)) {
						ok = true
					}
				}
			}
		}
		// and that loop precedes every return
		r.Check(rule, FK(f)+"[groups-carried-over]", p.Pos(f.Pos()), ok, "every group of the source map exists in the converted map", "Convert does not initialise every source group in the result")
	}
}

func r03_2(r *Report, p *Program) {
	const rule = "R03.2"
	r.Rule(rule, "list scoping follows the parent's scope")
	r.Floor(rule, 6)
	type site struct {
		key     string
		nsAtom  func(l Lit) (namespaced bool, ok bool)
		nsValue string
	}
	sites := []site{
		{"controller/composite.parentController.claimChildren", func(l Lit) (bool, bool) {
			if strings.HasSuffix(l.Atom, ".parentResource.APIResource.Namespaced") {
				return l.Pos, true
			}
			return false, false
		}, "call(unstructured.Unstructured.GetNamespace)(p1)"},
		{"controller/decorator.decoratorController.getChildren", func(l Lit) (bool, bool) {
			if l.Atom == `(call(unstructured.Unstructured.GetNamespace)(p1) == "")` {
				return !l.Pos, true
			}
			return false, false
		}, "call(unstructured.Unstructured.GetNamespace)(p1)"},
		{"controller/common/customize.Manager.GetRelatedObjects", func(l Lit) (bool, bool) {
			if strings.HasSuffix(l.Atom, ".APIResource.Namespaced") && strings.Contains(l.Atom, "GroupKindMap.Get)(p0.parentKinds") {
				return l.Pos, true
			}
			return false, false
		}, "call(unstructured.Unstructured.GetNamespace)(p1)"},
	}
	for _, s := range sites {
		f := fn(r, p, rule, s.key)
		if f == nil {
			continue
		}
		lists := callsTo(f, false, "dynamiclister.NamespaceLister.List", "dynamiclister.Lister.List")
		nN, nC := 0, 0
		for i, cs := range lists {
			in := cs.Instr.(ssa.Instruction)
			nsd := strings.HasSuffix(cs.Key, "NamespaceLister.List")
			w := unguarded(f, nil, in, func(l Lit) bool {
				v, ok := s.nsAtom(l)
				return ok && v == nsd
			})
			ok, why := w == nil, ""
			if !ok {
				if nsd {
					why = "namespaced List reachable for a cluster-scoped parent; " + pathWhy(w)
				} else {
					why = "cluster-wide List reachable for a namespaced parent: objects of other namespaces would be observed; " + pathWhy(w)
				}
			}
			if nsd {
				nN++
				if ok && !strings.Contains(E(cs.Recv()), "Namespace)(") || ok && !strings.Contains(E(cs.Recv()), s.nsValue) {
					ok, why = false, "namespaced List is not scoped to the parent's namespace: "+E(cs.Recv())
				}
			} else {
				nC++
			}
			r.Check(rule, sf("%s→List#%d", FK(f), i), p.InstrPos(in), ok, "scope follows the parent", why)
		}
		if nN == 0 || nC == 0 {
			r.Check(rule, FK(f)+"[both-scopes]", p.Pos(f.Pos()), false, "", sf("expected one namespaced and one cluster-wide List (found %d/%d): the parent's scope is ignored", nN, nC))
		}
	}
}

func r03_3(r *Report, p *Program) {
	const rule = "R03.3"
	r.Rule(rule, "wire confinement in Convert")
	r.Floor(rule, 2)
	f := fn(r, p, rule, "controller/common/api/v2.UniformObjectMap.Convert")
	if f == nil {
		return
	}
	cluster := func(l Lit, want bool) bool {
		return l.Atom == `(call(unstructured.Unstructured.GetNamespace)(p1) == "")` && l.Pos == want
	}
	n := 0
	for i, cs := range callsTo(f, false, "RelativeObjectMap.InsertAll", "RelativeObjectMap.Insert") {
		n++
		in := cs.Instr.(ssa.Instruction)
		if strings.HasSuffix(cs.Key, ".InsertAll") {
			w := unguarded(f, nil, in, func(l Lit) bool { return cluster(l, true) })
			r.Check(rule, sf("%s→InsertAll#%d", FK(f), i), p.InstrPos(in), w == nil, "everything is passed on only for a cluster-scoped parent", "all objects are passed to a namespaced parent's hook; "+pathWhy(w))
			continue
		}
		w1 := unguarded(f, nil, in, func(l Lit) bool { return cluster(l, false) })
		w2 := unguarded(f, nil, in, func(l Lit) bool {
			return l.Pos && l.Op.String() == "==" && strings.Contains(l.Atom, "GetNamespace)(p1)") && strings.Count(l.Atom, "GetNamespace)(") == 2
		})
		ok := w2 == nil
		_ = w1
		r.Check(rule, sf("%s→Insert#%d", FK(f), i), p.InstrPos(in), ok, "namespaced parent: only objects of its own namespace", "an object of another namespace (or a cluster-scoped one) can be sent to a namespaced parent's hook; "+pathWhy(w2))
		if E(cs.Arg(0)) != "p1" {
			r.Check(rule, sf("%s→Insert#%d[relative-to-parent]", FK(f), i), p.InstrPos(in), false, "", "names are not made relative to the parent")
		}
	}
	if n < 2 {
		r.Fail(rule, FK(f), p.Pos(f.Pos()), "anchor-lost", "Convert has fewer than two insertion sites")
	}
}

func r03_4(r *Report, p *Program) {
	const rule = "R03.4"
	r.Rule(rule, "relative naming tables")
	r.Floor(rule, 2)
	check := func(key string, needParent bool) {
		f := fn(r, p, rule, key)
		if f == nil {
			return
		}
		paths, err := engine.EnumPaths(f, engine.EnumOpts{})
		ok, why := err == nil, ""
		objI := len(f.Params) - 1
		obj := sf("p%d", objI)
		nQ, nB := 0, 0
		for _, pa := range paths {
			rt, isR := pa.End.(*ssa.Return)
			if !isR {
				continue
			}
			ret := E(rt.Results[0])
			objNs := val(pa, -1, func(a string) bool { return a == `(call(unstructured.Unstructured.GetNamespace)(`+obj+`) == "")` })
			parNs := 0
			if needParent {
				parNs = val(pa, -1, func(a string) bool { return a == `(call(metav1.Object.GetNamespace)(p0) == "")` })
			}
			qualified := strings.HasPrefix(ret, `call(fmt.Sprintf)("%s/%s"`)
			bare := ret == "call(unstructured.Unstructured.GetName)("+obj+")"
			wantQ := objNs == -1 && (!needParent || parNs == 1)
			switch {
			case wantQ && !qualified:
				ok, why = false, "returns "+ret+" where namespace/name is required: ["+pa.Cond()+"]"
			case !wantQ && !bare:
				ok, why = false, "returns "+ret+" where the bare name is required: ["+pa.Cond()+"]"
			}
			if qualified {
				nQ++
				thr := func(k string) bool { return k == "fmt.Sprintf" }
				ns := engine.DependsOnCall(rt.Results[0], engine.HasSuffix("Unstructured.GetNamespace"), thr)
				nm := engine.DependsOnCall(rt.Results[0], engine.HasSuffix("Unstructured.GetName"), thr)
				if ns == nil || nm == nil || E(ns.Common().Args[0]) != obj || E(nm.Common().Args[0]) != obj {
					ok, why = false, "qualified name is not built from the object's namespace and name"
				}
			} else {
				nB++
			}
		}
		if nQ == 0 || nB == 0 {
			ok, why = false, "table degenerate"
		}
		r.Check(rule, FK(f), p.Pos(f.Pos()), ok, "namespace/name exactly when required, bare name otherwise", why)
	}
	check("controller/common/api/v1.relativeName", true)
	check("controller/common/api/v2.UniformObjectMap.qualifiedName", false)
}

func r03_5(r *Report, p *Program) {
	const rule = "R03.5"
	r.Rule(rule, "namespace defaulting of returned children, both siblings")
	r.Floor(rule, 4)
	for _, key := range []string{"controller/composite.parentController.callHook", "controller/decorator.decoratorController.callHook"} {
		f := fn(r, p, rule, key)
		if f == nil {
			continue
		}
		var loop *engine.RangeLoop
		for _, l := range engine.RangeLoops(f) {
			if strings.HasSuffix(E(l.X), "HookResponse>.Children") || strings.HasSuffix(E(l.X), "HookResponse>.Attachments") {
				loop = l
			}
		}
		if loop == nil {
			r.Check(rule, FK(f)+"[defaulting-loop]", p.Pos(f.Pos()), false, "", "no loop over the returned children")
			continue
		}
		// table of the loop body
		paths, err := engine.EnumPaths(f, engine.EnumOpts{Start: loop.Body, Leave: func(b *ssa.BasicBlock) bool { return b == loop.Header || b == loop.Exit },
			Effect: func(in ssa.Instruction) bool { return isCallTo(in, "Unstructured.SetNamespace") }})
		ok, why := err == nil, ""
		child := E(loop.Val)
		for _, pa := range paths {
			nn := val(pa, -1, func(a string) bool { return a == "("+child+" == nil)" })
			empty := val(pa, -1, func(a string) bool { return a == `(call(unstructured.Unstructured.GetNamespace)(`+child+`) == "")` })
			want := nn == -1 && empty == 1
			if want != (len(pa.Effects) == 1) {
				ok, why = false, "SetNamespace happens on ["+pa.Cond()+"] = "+sf("%v", len(pa.Effects) == 1)+", want exactly for a non-nil child with empty namespace"
			}
			for _, e := range pa.Effects {
				c := e.(*ssa.Call)
				if !engine.SameValue(c.Common().Args[0], loop.Val) || E(c.Common().Args[1]) != "call(unstructured.Unstructured.GetNamespace)(p1)" {
					ok, why = false, "SetNamespace("+E(c.Common().Args[0])+", "+E(c.Common().Args[1])+") is not child.SetNamespace(parent.GetNamespace())"
				}
			}
		}
		r.Check(rule, FK(f)+"[default-table]", p.Pos(f.Pos()), ok, "SetNamespace(parent ns) ⇔ child != nil ∧ child ns == \"\"", why)
		// every hook answer passes the loop before being returned
		for i, cs := range callsTo(f, false, "hooks.Hook.Call") {
			succ := successEdgeOf(cs.Instr)
			var from []engine.Point
			for _, b := range engine.BlocksInl(f) {
				for j := range b.Succs {
					if l, has := engine.EdgeLit(b, j); has && succ(l) {
						from = append(from, engine.Point{B: b.Succs[j]})
					}
				}
			}
			w := engine.Query{Fn: f, From: from, Target: func(in ssa.Instruction) bool { rt, isR := in.(*ssa.Return); return isR && engine.ReturnsNilError(rt) },
				CutInstr: func(in ssa.Instruction) bool { return in.Block() == loop.Header }}.Find()
			r.Check(rule, sf("%s→Hook.Call#%d[answer-passes-defaulting]", FK(f), i), p.InstrPos(cs.Instr), len(from) > 0 && w == nil, "every answer of this hook goes through the namespace defaulting", "an answer of this hook is returned without namespace defaulting: its children keep an empty namespace and no longer line up with the observed ones")
		}
	}
}

func r03_6(r *Report, p *Program) {
	const rule = "R03.6"
	r.Rule(rule, "request wiring")
	r.Floor(rule, 4)
	for _, key := range []string{"controller/composite/api/v1.requestBuilder.Build", "controller/decorator/api/v1.requestBuilder.Build"} {
		f := fn(r, p, rule, key)
		if f == nil {
			continue
		}
		got := map[string]string{}
		for _, b := range engine.BlocksInl(f) {
			for _, in := range b.Instrs {
				if st, ok := in.(*ssa.Store); ok {
					a := E(st.Addr)
					got[a[strings.LastIndex(a, ".")+1:]] = E(st.Val)
				}
			}
		}
		conv := func(fld string) string {
			return "call(controller/common/api/v2.UniformObjectMap.Convert)(p0." + fld + ", p0.parent)"
		}
		ch := got["Children"]
		if ch == "" {
			ch = got["Attachments"]
		}
		par := got["Parent"]
		if par == "" {
			par = got["Object"]
		}
		ok := ch == conv("children") && got["Related"] == conv("related") && par == "p0.parent" && got["Controller"] == "p0.controller"
		r.Check(rule, FK(f), p.Pos(f.Pos()), ok, "children/related converted relative to the parent; parent and controller passed through", sf("request is built as %v", got))
	}
	for _, key := range []string{"controller/composite.parentController.callHook", "controller/decorator.decoratorController.callHook"} {
		f := fn(r, p, rule, key)
		if f == nil {
			continue
		}
		ok := true
		for suf, want := range map[string]string{"WebhookRequestBuilder.WithParent": "p1", "WebhookRequestBuilder.WithChildren": "p2", "WebhookRequestBuilder.WithRelatedObjects": "p3"} {
			cs := callsTo(f, false, suf)
			if len(cs) != 1 || E(cs[0].Arg(0)) != want {
				ok = false
			}
		}
		r.Check(rule, FK(f)+"[builder-args]", p.Pos(f.Pos()), ok, "builder gets (parent, observed children, related)", "the request builder is not given (parent, observedChildren, related) in their roles")
	}
	for _, key := range []string{"controller/composite/api/v1.requestBuilder", "controller/decorator/api/v1.requestBuilder"} {
		for m, fld := range map[string]string{"WithChildren": "children", "WithRelatedObjects": "related", "WithParent": "parent"} {
			f := fn(r, p, rule, key+"."+m)
			if f == nil {
				continue
			}
			ok := false
			for _, b := range engine.BlocksInl(f) {
				for _, in := range b.Instrs {
					if st, isS := in.(*ssa.Store); isS && E(st.Addr) == "p0."+fld && E(st.Val) == "p1" {
						ok = true
					}
				}
			}
			r.Check(rule, FK(f), p.Pos(f.Pos()), ok, m+" stores its argument in ."+fld, m+" does not store its argument in ."+fld)
		}
	}
}

// cachesSyncedBeforeWorkers (C03 R03.10, C14): what a sync observes is what the
// informer caches hold, so no worker may run before EVERY informer the controller
// reads has delivered its initial list: a cache that is still empty makes owned
// children look absent (the hook is told there are none and ManageChildren
// re-creates them). In each controller's Start the workers are reachable only
// across a successful WaitForNamedCacheSync whose HasSynced list is fed from each
// informer-holding field of the controller.
func cachesSyncedBeforeWorkers(r *Report, p *Program, rule string) {
	r.Rule(rule, "Start: workers run only after WaitForNamedCacheSync over the HasSynced of every informer field of the controller (parent and child/attachment informers)")
	r.Floor(rule, 2)
	for _, key := range []string{"controller/composite.parentController", "controller/decorator.decoratorController"} {
		start := fn(r, p, rule, key+".Start")
		if start == nil {
			continue
		}
		fns := append([]*ssa.Function{start}, engine.Closures(start)...)
		var wait *engine.CallSite
		var workers []engine.CallSite
		for _, f := range fns {
			for _, cs := range callsTo(f, false, "cache.WaitForNamedCacheSync") {
				cs := cs
				wait = &cs
			}
			workers = append(workers, callsTo(f, false, "wait.Until")...)
		}
		if wait == nil || len(workers) == 0 {
			r.Check(rule, key+".Start[synced≺workers]", p.Pos(start.Pos()), false, "", "WaitForNamedCacheSync or the worker start (wait.Until) not found in Start")
			continue
		}
		ok, why := true, ""
		// (a) workers only across the positive outcome of the wait
		for _, w := range workers {
			wf := w.Fn
			// the worker goroutine is a closure created in the function that waited, or that function itself
			target := w.Instr.(ssa.Instruction)
			if wf != wait.Fn {
				// find the MakeClosure / go statement in wait.Fn that starts wf (or its parent chain)
				g := wf
				for g != nil && g.Parent() != wait.Fn {
					g = g.Parent()
				}
				target = nil
				if g != nil {
					for _, b := range engine.BlocksInl(wait.Fn) {
						for _, in := range b.Instrs {
							if mc, isMC := in.(*ssa.MakeClosure); isMC && mc.Fn == ssa.Value(g) {
								target = in
							}
						}
					}
				}
			}
			if target == nil {
				ok, why = false, "cannot relate the worker start to the function that waits for the caches"
				continue
			}
			if wq := unguarded(wait.Fn, nil, target, func(l Lit) bool { return l.Pos && engine.SameValue(l.Cond, wait.Instr.Value()) }); wq != nil {
				ok, why = false, "a worker can start without a successful WaitForNamedCacheSync; "+pathWhy(wq)
			}
		}
		// (b) every informer field of the controller feeds the HasSynced list
		recvT := deref(start.Params[0].Type())
		st, _ := recvT.Underlying().(*types.Struct)
		var need []string
		if st != nil {
			for i := 0; i < st.NumFields(); i++ {
				ts := st.Field(i).Type().String()
				if strings.HasSuffix(ts, "controller/common.InformerMap") || strings.HasSuffix(ts, "dynamic/informer.ResourceInformer") {
					need = append(need, st.Field(i).Name())
				}
			}
		}
		if len(need) < 2 {
			ok, why = false, sf("expected at least two informer-holding fields on %s, found %v", key, need)
		}
		args := wait.Common().Args
		list := args[len(args)-1]
		for _, fld := range need {
			fed := engine.BackSlice(list, func(x ssa.Value) bool {
				fa, isFA := x.(*ssa.FieldAddr)
				return isFA && fieldNameOf(deref(fa.X.Type()), fa.Field) == fld
			}, func(k string) bool {
				return strings.HasSuffix(k, "ResourceInformer.Informer") || strings.HasSuffix(k, "HasSynced")
			})
			if !fed {
				ok, why = false, "the HasSynced list given to WaitForNamedCacheSync is not fed from the controller's "+fld+": workers can start while that cache is still empty, and a sync then sees none of the objects it owns there"
			}
		}
		r.Check(rule, key+".Start[synced≺workers]", p.InstrPos(wait.Instr), ok, sf("workers only after all of %v have synced", need), why)
	}
}

// namespaceDefaulted: in both callHook siblings every desired child that is kept has a namespace: either it
// came with one, or it was given the parent's.
func namespaceDefaulted(r *Report, p *Program, rule string) {
	r.Rule(rule, "callHook (composite, decorator): a desired child/attachment is kept only with a namespace — its own, or the parent's set with SetNamespace(parent.GetNamespace())")
	r.Floor(rule, 2)
	for _, key := range []string{"controller/composite.parentController.callHook", "controller/decorator.decoratorController.callHook"} {
		f := fn(r, p, rule, key)
		if f == nil {
			continue
		}
		var loop *engine.RangeLoop
		for _, l := range engine.RangeLoops(f) {
			if strings.HasSuffix(E(l.X), ".Children") || strings.HasSuffix(E(l.X), ".Attachments") {
				loop = l
			}
		}
		if loop == nil {
			r.Check(rule, FK(f), p.Pos(f.Pos()), false, "", "no loop over the hook's children/attachments")
			continue
		}
		ok, why := true, ""
		n := 0
		for _, b := range loop.BodyBlocks() {
			for _, in := range b.Instrs {
				c, isC := in.(*ssa.Call)
				if !isC || !isCallTo(in, "builtin.append") || !engine.DependsOnValue(c.Common().Args[1], loop.Val, func(k string) bool { return strings.HasPrefix(k, engine.ModPrefix) }) {
					continue
				}
				n++
				w := engine.Query{Fn: f, From: []engine.Point{{B: loop.Body}}, Target: func(x ssa.Instruction) bool { return x == in },
					CutInstr: func(x ssa.Instruction) bool {
						ci, isCI := x.(ssa.CallInstruction)
						if !isCI {
							return false
						}
						a := ci.Common().Args
						if strings.HasSuffix(engine.CallKey(ci.Common()), "Unstructured.SetNamespace") {
							return len(a) == 2 && engine.SameValue(a[0], loop.Val) && E(a[1]) == "call(unstructured.Unstructured.GetNamespace)(p1)"
						}
						// a module helper (child, namespace) that leaves no path on which the child keeps an empty namespace
						if g := engine.StaticFn(ci.Common()); g != nil && strings.HasPrefix(FK(g), engine.ModPrefix) && len(g.Blocks) > 0 && len(a) == 2 && len(g.Params) == 2 &&
							engine.SameValue(a[0], loop.Val) && E(a[1]) == "call(unstructured.Unstructured.GetNamespace)(p1)" {
							return engine.Query{Fn: g, Target: func(y ssa.Instruction) bool { _, isR := y.(*ssa.Return); return isR },
								CutInstr: func(y ssa.Instruction) bool {
									yc, isYC := y.(ssa.CallInstruction)
									return isYC && strings.HasSuffix(engine.CallKey(yc.Common()), "Unstructured.SetNamespace") && len(yc.Common().Args) == 2 &&
										yc.Common().Args[0] == ssa.Value(g.Params[0]) && yc.Common().Args[1] == ssa.Value(g.Params[1])
								},
								CutEdge: func(_ *ssa.BasicBlock, _ int, l *Lit) bool {
									return l != nil && !l.Pos && l.Atom == `(call(unstructured.Unstructured.GetNamespace)(p0) == "")`
								}}.Find() == nil
						}
						return false
					},
					CutEdge: func(bb *ssa.BasicBlock, i int, l *Lit) bool {
						return l != nil && !l.Pos && l.Atom == `(call(unstructured.Unstructured.GetNamespace)(`+E(loop.Val)+`) == "")`
					}}.Find()
				if w != nil {
					ok, why = false, "a desired child without a namespace is kept as it is: it is not placed in the parent's namespace (it is looked up, keyed and created under the empty namespace)"
				}
			}
		}
		if n == 0 {
			ok, why = false, "no child is kept"
		}
		r.Check(rule, FK(f), p.Pos(f.Pos()), ok, "kept ⇒ has a namespace or got the parent's", why)
	}
}

// gvkFromDeclaredVersion: the group/version of a resource's kind (the key of the hook's children map and of the
// observed maps) is the one of the apiVersion the resource is published and declared under — GroupVersionKind,
// GroupVersionResource and GroupVersion all derive from APIResource.APIVersion, the field Get() looks resources up by.
func gvkFromDeclaredVersion(r *Report, p *Program, rule string) {
	r.Rule(rule, "discovery.APIResource: GroupVersionKind() and GroupVersionResource() are GroupVersion().With…, and GroupVersion() parses the entry's APIVersion (the apiVersion a controller declares the resource under)")
	r.Floor(rule, 3)
	for _, m := range []string{"GroupVersionKind", "GroupVersionResource"} {
		f := fn(r, p, rule, "dynamic/discovery.APIResource."+m)
		if f == nil {
			continue
		}
		ok := true
		for _, b := range f.Blocks {
			if rt, isR := b.Instrs[len(b.Instrs)-1].(*ssa.Return); isR {
				through := func(k string) bool {
					return strings.Contains(k, "schema.GroupVersion.With") || strings.HasSuffix(k, "schema.ParseGroupVersion")
				}
				viaGV := engine.MustDependOnCall(engine.RetVal(rt, 0), func(k string) bool { return strings.HasSuffix(k, "discovery.APIResource.GroupVersion") }, through)
				viaField := engine.MustSlice(engine.RetVal(rt, 0), func(x ssa.Value) bool {
					fa, isFA := x.(*ssa.FieldAddr)
					return isFA && fieldName(fa) == "APIVersion"
				}, through)
				if !viaGV && !viaField {
					ok = false
				}
			}
		}
		r.Check(rule, FK(f), p.Pos(f.Pos()), ok, "derives from GroupVersion()", "the "+m+" of a resource is not built from GroupVersion() (the declared apiVersion): an entry whose own group/version fields differ from the list it is published in keys the children map under an undeclared type")
	}
	if f := fn(r, p, rule, "dynamic/discovery.APIResource.GroupVersion"); f != nil {
		ok := false
		for _, cs := range callsTo(f, false, "schema.ParseGroupVersion") {
			if strings.HasSuffix(E(cs.Common().Args[0]), ".APIVersion") {
				ok = true
			}
		}
		r.Check(rule, FK(f), p.Pos(f.Pos()), ok, "parses the entry's APIVersion", "GroupVersion() does not parse the entry's APIVersion")
	}
}
