package rules

import (
	"strings"

	"mcvet/engine"

	"golang.org/x/tools/go/ssa"
)

// errorDiscipline decides what can happen to the error returned by `call` in
// f: on every path after a failure it must be (a) returned — directly or
// wrapped by fmt.Errorf with %w —, (b) appended to an error slice, (c) stored
// in a field/variable named by `sinkFields` (e.g. pr.syncError), or (d) dropped
// only across an edge on which one of the allowed predicates (apierrors.IsX
// applied to that very error) holds. A path that reaches a return, or the next
// loop iteration, without any of these is reported.
func errorDiscipline(p *Program, f *ssa.Function, call ssa.CallInstruction, allowed []string, sinkFields []string, excuse ...func(l *Lit) bool) (bool, string) {
	ev := engine.ErrValue(call)
	if ev == nil {
		if call.Value() == nil || call.Value().Referrers() == nil || len(*call.Value().Referrers()) == 0 {
			return false, "the error result is discarded"
		}
		return false, "the error component of the result is never extracted"
	}
	dependsOnEv := func(v ssa.Value) bool {
		return engine.BackSlice(v, func(x ssa.Value) bool { return x == ev }, func(k string) bool {
			return k == "fmt.Errorf" || strings.HasSuffix(k, "errors.NewAggregate") || k == "errors.Join"
		})
	}
	// wrapping must keep the chain: every fmt.Errorf that takes ev uses %w
	for _, b := range f.Blocks {
		for _, in := range b.Instrs {
			c, ok := in.(*ssa.Call)
			if !ok || engine.CallKey(c.Common()) != "fmt.Errorf" {
				continue
			}
			uses := false
			for _, a := range c.Common().Args[1:] {
				if engine.BackSlice(a, func(x ssa.Value) bool { return x == ev }, nil) {
					uses = true
				}
			}
			if uses {
				if fs, isC := constStr(c.Common().Args[0]); isC && !strings.Contains(fs, "%w") {
					return false, "the error is re-wrapped with " + strings.TrimSpace(fs) + " (no %w): callers can no longer recognise it (errors.Is/As, apierrors.IsX)"
				}
			}
		}
	}
	handled := func(in ssa.Instruction) bool {
		switch x := in.(type) {
		case *ssa.Call:
			if engine.CallKey(x.Common()) == "builtin.append" && len(x.Common().Args) == 2 && dependsOnEv(x.Common().Args[1]) {
				return true
			}
			if engine.ErrorResultIndex(f) < 0 {
				// a function that cannot return the error (queue worker): requeue with back-off is the handling
				if strings.HasSuffix(engine.CallKey(x.Common()), "TypedRateLimitingInterface.AddRateLimited") {
					return true
				}
			}
		case *ssa.Store:
			for _, fld := range sinkFields {
				if strings.HasSuffix(E(x.Addr), fld) && dependsOnEv(x.Val) {
					return true
				}
			}
		}
		return false
	}
	allowedEdge := func(l *Lit) bool {
		if l == nil || !l.Pos {
			return false
		}
		c, ok := l.Cond.(*ssa.Call)
		if !ok || len(c.Common().Args) != 1 || !engine.SameValue(c.Common().Args[0], ev) {
			return false
		}
		k := engine.CallKey(c.Common())
		for _, a := range allowed {
			if k == engine.KAPIErr+a {
				return true
			}
		}
		return false
	}
	var from []engine.Point
	for _, b := range f.Blocks {
		for i := range b.Succs {
			if l, ok := engine.EdgeLit(b, i); ok {
				if v, isNil, ok := l.NilTest(); ok && !isNil && engine.SameValue(v, ev) {
					from = append(from, engine.Point{B: b.Succs[i]})
				}
			}
		}
	}
	loops := engine.RangeLoops(f)
	loop := engine.EnclosingLoop(loops, call.(ssa.Instruction))
	target := func(in ssa.Instruction) bool {
		if rt, ok := in.(*ssa.Return); ok {
			idx := engine.ErrorResultIndex(f)
			if idx < 0 {
				return true // function cannot report: any return drops it
			}
			// returning this error, or any other non-nil error, reports the failure
			return !dependsOnEv(engine.RetVal(rt, idx)) && !isErrReturn(rt)
		}
		return loop != nil && in.Block() == loop.Header
	}
	if len(from) == 0 {
		// never compared with nil: start right after the call; the allowed predicates may still be applied directly
		from = []engine.Point{engine.After(call.(ssa.Instruction))}
	}
	w := engine.Query{Fn: f, From: from, Target: target, CutInstr: handled,
		CutEdge: func(b *ssa.BasicBlock, i int, l *Lit) bool {
			if allowedEdge(l) {
				return true
			}
			for _, ex := range excuse {
				if ex(l) {
					return true
				}
			}
			return false
		}}.Find()
	if w != nil {
		what := "returns without it"
		if _, isR := w.Instr.(*ssa.Return); !isR {
			what = "goes on to the next loop iteration"
		}
		return false, "after the call failed, a path " + what + " (at " + p.InstrPos(w.Instr) + ") with the error neither returned, aggregated nor excused by " + strings.Join(allowed, "/") + "; " + pathWhy(w)
	}
	// the allowed predicates must actually be applied to this error (not to another one)
	return true, ""
}
