package rules

import (
	"go/types"
	"strings"

	"mcvet/engine"

	"golang.org/x/tools/go/ssa"
)

// errorDiscipline decides what can happen to the error returned by `call` in
// f: on every path after a failure it must be (a) returned — directly or
// wrapped by fmt.Errorf with %w —, (b) appended to an error slice, (c) stored
// in a field/variable named by `sinkFields` (e.g. pr.syncError), or (d) dropped
// only across an edge on which one of the allowed predicates (apierrors.IsX
// applied to that very error) holds. A path that reaches a return, or the next
// loop iteration, without any of these is reported.
func errorDiscipline(p *Program, f *ssa.Function, call ssa.CallInstruction, allowed []string, sinkFields []string, excuse ...func(l *Lit) bool) (bool, string) {
	ev := engine.ErrValue(call)
	if ev == nil {
		if call.Value() == nil || call.Value().Referrers() == nil || len(*call.Value().Referrers()) == 0 {
			return false, "the error result is discarded"
		}
		return false, "the error component of the result is never extracted"
	}
	dependsOnEv := func(v ssa.Value) bool {
		return engine.BackSlice(v, func(x ssa.Value) bool { return x == ev }, func(k string) bool {
			return k == "fmt.Errorf" || strings.HasSuffix(k, "errors.NewAggregate") || k == "errors.Join"
		})
	}
	// wrapping must keep the chain: every fmt.Errorf that takes ev uses %w
	for _, b := range engine.BlocksInl(f) {
		for _, in := range b.Instrs {
			c, ok := in.(*ssa.Call)
			if !ok || engine.CallKey(c.Common()) != "fmt.Errorf" {
				continue
			}
			uses := false
			for _, a := range c.Common().Args[1:] {
				if engine.BackSlice(a, func(x ssa.Value) bool { return x == ev }, nil) {
					uses = true
				}
			}
			if uses {
				if fs, isC := constStr(c.Common().Args[0]); isC && !strings.Contains(fs, "%w") {
					return false, "the error is re-wrapped with " + strings.TrimSpace(fs) + " (no %w): callers can no longer recognise it (errors.Is/As, apierrors.IsX)"
				}
			}
		}
	}
	handled := func(in ssa.Instruction) bool {
		switch x := in.(type) {
		case *ssa.Call:
			if engine.CallKey(x.Common()) == "builtin.append" && len(x.Common().Args) == 2 && dependsOnEv(x.Common().Args[1]) {
				return true
			}
			if engine.ErrorResultIndex(f) < 0 {
				// a function that cannot return the error (queue worker): requeue with back-off is the handling
				if strings.HasSuffix(engine.CallKey(x.Common()), "TypedRateLimitingInterface.AddRateLimited") {
					return true
				}
			}
		case *ssa.Store:
			for _, fld := range sinkFields {
				if strings.HasSuffix(E(x.Addr), fld) && dependsOnEv(x.Val) {
					return true
				}
			}
		}
		return false
	}
	allowedEdge := func(l *Lit) bool {
		if l == nil || !l.Pos {
			return false
		}
		c, ok := l.Cond.(*ssa.Call)
		if !ok || len(c.Common().Args) != 1 || !engine.SameValue(c.Common().Args[0], ev) {
			return false
		}
		k := engine.CallKey(c.Common())
		for _, a := range allowed {
			if k == engine.KAPIErr+a {
				return true
			}
		}
		return false
	}
	var from []engine.Point
	for _, b := range engine.BlocksInl(f) {
		for i := range b.Succs {
			if l, ok := engine.EdgeLit(b, i); ok {
				if v, isNil, ok := l.NilTest(); ok && !isNil && engine.SameValue(v, ev) {
					from = append(from, engine.Point{B: b.Succs[i]})
				}
			}
		}
	}
	loops := engine.RangeLoops(engine.InlineRoot(f))
	loop := engine.EnclosingLoop(loops, call.(ssa.Instruction))
	target := func(in ssa.Instruction) bool {
		if rt, ok := in.(*ssa.Return); ok {
			idx := engine.ErrorResultIndex(f)
			if idx < 0 {
				return true // function cannot report: any return drops it
			}
			// returning this error, or any other non-nil error, reports the failure
			return !dependsOnEv(engine.RetVal(rt, idx)) && !isErrReturn(rt)
		}
		return loop != nil && in.Block() == loop.Header
	}
	if len(from) == 0 {
		// never compared with nil: start right after the call; the allowed predicates may still be applied directly
		from = []engine.Point{engine.After(call.(ssa.Instruction))}
	}
	w := engine.Query{Fn: f, From: from, Target: target, CutInstr: handled,
		CutEdge: func(b *ssa.BasicBlock, i int, l *Lit) bool {
			if allowedEdge(l) {
				return true
			}
			for _, ex := range excuse {
				if ex(l) {
					return true
				}
			}
			return false
		}}.Find()
	if w != nil {
		what := "returns without it"
		if _, isR := w.Instr.(*ssa.Return); !isR {
			what = "goes on to the next loop iteration"
		}
		return false, "after the call failed, a path " + what + " (at " + p.InstrPos(w.Instr) + ") with the error neither returned, aggregated nor excused by " + strings.Join(allowed, "/") + "; " + pathWhy(w)
	}
	// the allowed predicates must actually be applied to this error (not to another one)
	return true, ""
}

// nilOnError: g has results (T, …, error) with T pointer-like, and on every
// return that is an error return the first result is the nil constant.
var nilOnErrCache = map[*ssa.Function]int{}

func nilOnError(g *ssa.Function) bool {
	if v, ok := nilOnErrCache[g]; ok {
		return v == 1
	}
	nilOnErrCache[g] = 0
	if g == nil || len(g.Blocks) == 0 || engine.ErrorResultIndex(g) < 1 {
		return false
	}
	res := g.Signature.Results()
	switch res.At(0).Type().Underlying().(type) {
	case *types.Pointer, *types.Map, *types.Slice, *types.Interface:
	default:
		return false
	}
	n := 0
	for _, b := range engine.BlocksInl(g) {
		for _, in := range b.Instrs {
			rt, ok := in.(*ssa.Return)
			if !ok || !isErrReturn(rt) {
				continue
			}
			n++
			c, isC := engine.RetVal(rt, 0).(*ssa.Const)
			if !isC || !c.IsNil() {
				return false
			}
		}
	}
	if n == 0 {
		return false
	}
	nilOnErrCache[g] = 1
	return true
}

// failedResultNotUsed (C12 R12.8, C13): where a call failed (its error is non-nil)
// the object result of a callee that returns nil on error is not dereferenced —
// typically in the very message that reports the failure, after the result was
// assigned over the variable that held the valid object.
func failedResultNotUsed(r *Report, p *Program, rule string) {
	r.Rule(rule, "on the error branch of v, err := f(…) where f returns nil on error, v is not dereferenced (method call, field access): the failure must be reported and retried, not turned into a panic")
	n := 0
	ord := map[string]int{}
	for _, f := range p.Scanned {
		for _, b := range engine.BlocksInl(f) {
			for _, in := range b.Instrs {
				call, isCall := in.(*ssa.Call)
				if !isCall {
					continue
				}
				// callee returns (object pointer, …, error): module functions proven nil-on-error, and —
				// by Go convention, which client-go and this module follow — any function whose first
				// result is a pointer to an object when the call's error is non-nil
				g := engine.StaticFn(call.Common())
				sig := call.Common().Signature()
				if sig == nil || sig.Results().Len() < 2 || !isErrorT(sig.Results().At(sig.Results().Len()-1).Type()) {
					continue
				}
				if !isNillableT(sig.Results().At(0).Type()) && !(g != nil && nilOnError(g)) {
					continue
				}
				if _, isSlice := sig.Results().At(0).Type().Underlying().(*types.Slice); isSlice {
					continue // ranging over / len of a nil slice is fine
				}
				gname := engine.CallKey(call.Common())
				ev := engine.ErrValue(call)
				v := engine.ResultValue(call, 0)
				if ev == nil || v == nil {
					continue
				}
				var from []engine.Point
				for _, bb := range engine.BlocksInl(f) {
					for i := range bb.Succs {
						if l, ok := engine.EdgeLit(bb, i); ok {
							if x, isNil, isT := l.NilTest(); isT && !isNil && engine.SameValue(x, ev) {
								from = append(from, engine.Point{B: bb.Succs[i]})
							}
						}
					}
				}
				if len(from) == 0 {
					continue
				}
				n++
				k := Short(FK(f)) + "→" + Short(gname)
				c := sf("%s#%d[failed-result-unused]", k, ord[k])
				ord[k]++
				w := engine.Query{Fn: f, From: from, CutInstr: func(x ssa.Instruction) bool {
					if isCallTo(x, "os.Exit", "log.Fatal", "log.Fatalf", "klog.Fatal", "klog.Fatalf") {
						return true // does not return
					}
					return x == ssa.Instruction(call) // executed again (next loop iteration): a new result
				}, Target: func(x ssa.Instruction) bool { return derefs(x, v) }}.Find()
				r.Check(rule, c, p.InstrPos(call), w == nil, "the nil result of the failed call is not dereferenced on its error branch", "after "+Short(gname)+" failed, its (nil) result is dereferenced at "+func() string {
					if w != nil {
						return p.InstrPos(w.Instr)
					}
					return ""
				}()+": the worker panics instead of reporting the error and requeueing")
			}
		}
	}
	r.Floor(rule, 10)
	_ = n
}

func isErrorT(t types.Type) bool {
	n, ok := t.(*types.Named)
	return ok && n.Obj().Pkg() == nil && n.Obj().Name() == "error"
}

// toleranceScope (C12 R12.9): a benign-race predicate (apierrors.IsNotFound /
// IsGone / IsConflict / IsAlreadyExists) applied to the error of a module call
// only ever sees errors of the write it excuses. Traced backwards by identity
// (direct returns, %w wraps, variables, fields, resolved function values), the
// API errors that can reach the predicate must originate inside the
// read-modify-write helpers (ResourceClient.Atomic*, UpdateWithRetries) or in the
// function that applies the predicate. An error from elsewhere (the live re-read of
// the PARENT before an adoption, a discovery lookup …) that newly travels by %w
// into such a predicate is swallowed as if the child were gone.
func toleranceScope(r *Report, p *Program, rule string) {
	r.Rule(rule, "errors excused by IsNotFound/IsGone/IsConflict/IsAlreadyExists at a call of a module function originate (by identity) only in the read-modify-write helpers or in the excusing function itself")
	inHelper := func(f *ssa.Function) bool {
		for g := f; g != nil; g = g.Parent() {
			k := FK(g)
			if strings.Contains(k, "/pkg/dynamic/clientset.ResourceClient.") || strings.HasSuffix(k, "controllerRevisions.UpdateWithRetries") {
				return true
			}
		}
		return false
	}
	ord := map[string]int{}
	n := 0
	for _, f := range p.Scanned {
		for _, b := range engine.BlocksInl(f) {
			for _, in := range b.Instrs {
				pc, isCall := in.(*ssa.Call)
				if !isCall {
					continue
				}
				k := engine.CallKey(pc.Common())
				if !strings.HasPrefix(k, engine.KAPIErr+"Is") || len(pc.Common().Args) != 1 {
					continue
				}
				ev := pc.Common().Args[0]
				// only errors that come out of a module call (directly API-call errors are excused at their own site)
				src := engine.ResolveLocal(ev)
				var origin ssa.CallInstruction
				switch x := src.(type) {
				case *ssa.Extract:
					origin, _ = x.Tuple.(ssa.CallInstruction)
				case *ssa.Call:
					origin = x
				}
				if origin == nil {
					continue
				}
				if _, _, isSink := engine.ClassifySink(engine.CallKey(origin.Common())); isSink {
					if g := engine.StaticFn(origin.Common()); g == nil || !strings.HasPrefix(FK(g), engine.ModPrefix) {
						continue // direct API call
					}
				}
				modCallee := false
				for _, g := range p.CalleesOf(origin) {
					if strings.HasPrefix(FK(g), engine.ModPrefix) {
						modCallee = true
					}
				}
				if !modCallee {
					continue
				}
				n++
				key := Short(FK(f)) + "→" + strings.TrimPrefix(k, engine.KAPIErr) + "(" + Short(engine.CallKey(origin.Common())) + ")"
				if engine.CallKey(origin.Common()) == "" {
					key = Short(FK(f)) + "→" + strings.TrimPrefix(k, engine.KAPIErr) + "(" + E(origin.Common().Value) + ")"
				}
				c := sf("%s#%d", key, ord[key])
				ord[key]++
				bad := ""
				nsrc := 0
				for _, s := range p.ErrSourcesOf(f, ev) {
					if !strings.HasPrefix(s.Kind, "ext:") {
						continue // fresh / unknown errors are not API status errors of another object
					}
					nsrc++
					if s.Fn == f || inHelper(s.Fn) {
						continue
					}
					direct := false
					for _, g := range p.CalleesOf(origin) {
						direct = direct || g == s.Fn
					}
					if direct {
						continue // the excused call's own request (a lookup/write wrapper one call away)
					}
					// a thin wrapper around the write
					if ws := thinWrapperSink(p, s.Fn); ws != nil && ws.Instr == s.Call {
						continue
					}
					bad = sf("%s in %s (%s)", strings.TrimPrefix(s.Kind, "ext:"), Short(FK(s.Fn)), p.InstrPos(s.Call))
				}
				r.Check(rule, c, p.InstrPos(pc), bad == "", sf("%d API error source(s), all inside the write helpers / the excusing function", nsrc),
					"the predicate can also see the error of "+bad+", which reaches it with its identity intact (returned directly or wrapped with %w): a failure of THAT request is excused as if the object being written were gone/conflicting, the sync reports success and nothing is retried")
			}
		}
	}
	r.Floor(rule, 4)
	_ = n
}
