// Package rules holds the per-property rule sets (DESIGN.md section 3).
package rules

import (
	"sort"

	"mcvet/engine"
)

// Registry maps property id -> check.
var Registry = map[string]func(r *engine.Report, p *engine.Program){}

// Controls maps property id -> rule id -> {bad construct substring, good construct substring}.
var Controls = map[string]map[string][2]string{}

func IDs() []string {
	var ids []string
	for id := range Registry {
		ids = append(ids, id)
	}
	sort.Strings(ids)
	return ids
}
