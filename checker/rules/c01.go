package rules

import (
	"go/token"
	"strings"

	"mcvet/engine"

	"golang.org/x/tools/go/ssa"
)

func init() {
	Registry["C01"] = checkC01
	Controls["C01"] = map[string][2]string{
		"R01.9": {"badStdJSONDecode", "goodK8sJSONDecode"},
	}
}

func checkC01(r *Report, p *Program) {
	r.Explanation = "Convergence to the hook's fixpoint and the bound on the number of syncs range over hook programs and cluster contents and are NOT decided. Decided is the structural necessary condition of the no-hot-loop half: every API write reachable from a sync is difference-guarded, i.e. every path to it crosses a literal meaning 'differs / absent' (R01.1): child Update/recreate-Delete ⇐ !DeepEqual(merge result, observed); child Create ⇐ not observed; child Delete ⇐ not desired; server-side-apply Patch ⇐ cache miss ∨ hash ≠ ∨ generation ≠ (equalities only) and the memo is refreshed with the applied hash and returned generation under the lookup key; annotation-removal Patch ⇐ annotation present; read-modify-write helpers write only when the update closure reports a change, and the finalizer closures report no change when already in the desired state; revision Update ⇐ !DeepEqual, Create ⇐ not observed, Delete ⇐ not desired; the decorator target write ⇐ something changed. (R01.2) the comparison basis is stable: ApplyUpdate strips, merges and records one and the same desired object; updateStringMap reports a change only when it made one; every desired attachment ends up with this decorator's marker (otherwise it is re-created every sync)."
	r.NotDecided = "convergence, the bound on syncs, semantic idempotence of the merge (C05), informer lag, non-deterministic hooks."
	noWriteWhenEqual(r, p, "R01.1a")
	r01_children(r, p)
	r01_ssa(r, p)
	r01_rmw(r, p)
	r01_revisions(r, p)
	var dec *syncEntry
	for _, e := range syncEntries(r, p, "R01.1") {
		if e.Kind == "decorator" {
			e := e
			dec = &e
		}
	}
	if dec != nil {
		r16_1(r, p, dec) // R16.4 rows: decorator target writes only on change
		r16_6(r, p, dec)
	}
	r16_2(r, p)
	r05_4(r, p)
	// every hook-specified field is (re)applied: the merge never skips a desired key (shared with C05)
	r05_5(r, p)
	// the server-side-apply memo is per child object
	keyCompleteness(r, p, "R01.3", "lastUpdateCacheKey")
	noNewCrossSyncState(r, p, "R01.4")
	// an adoption establishes the controller reference in one write (else every sync adopts again) — shared with C02/C04
	ownerRefEdits(r, p, "R01.5")
	// the copies taken for a debug diff / the merge never alias the object about to be sent or the cached one — shared with C17
	r17_1(r, p)
	// the rollout gate adds no wait the property does not state (else the rollout never converges) — shared with C07
	r07_3(r, p)
	// one content write per child per sync (shared with C06)
	oneWritePerChild(r, p, "R01.6")
	// children the hook no longer lists are deleted (shared with C06)
	deleteTable(r, p, "R01.7")
	// the rollout gate and the merge compare against the hook's raw answer (shared with C06/C07)
	lastAppliedIsHookAnswer(r, p, "R01.8")
	jsonDecodingPreservesInts(r, p, "R01.9")
	everyCandidateTried(r, p, "R01.10")
	createTable(r, p, "R01.11")
	r02_1(r, p, computeChildRoles(p)) // a delete/update addressed to another namespace or name than the observed child's never converges
}

func r01_children(r *Report, p *Program) {
	const rule = "R01.1"
	r.Rule(rule, "every write is difference-guarded")
	r.Floor(rule, 12)
	sinks, _ := childSinks(p)
	roles := computeChildRoles(p)
	for _, s := range effectiveSinks(p, sinks) {
		in := s.Instr.(ssa.Instruction)
		switch s.Verb {
		case "Create":
			related := false
			w := guardedInSomeFrame(s, func(f *ssa.Function) func(l Lit) bool {
				oi, hasO := roles.obs[f]
				if !hasO {
					return nil
				}
				related = true
				return func(l Lit) bool {
					v, isNil, ok := l.NilTest()
					return ok && isNil && elemOf(v, f.Params[oi])
				}
			})
			if !related {
				r.Check(rule, s.Construct()+"[absent]", p.InstrPos(in), false, "", "cannot relate the create to an observed map")
				continue
			}
			r.Check(rule, s.Construct()+"[absent]", p.InstrPos(in), w == nil, "Create only if observed[name] == nil", "a child is created although it was observed: every sync would send a Create; "+pathWhy(w))
		case "Delete":
			of := s.Outer()
			if aus := callsTo(of.Fn, false, "controller/common.ApplyUpdate"); len(aus) > 0 && dominatedByAny(of.Fn, of.At, aus) {
				continue // recreate path: R01.1a
			}
			related := false
			w := guardedInSomeFrame(s, func(f *ssa.Function) func(l Lit) bool {
				di, hasD := roles.des[f]
				if !hasD {
					return nil
				}
				related = true
				return func(l Lit) bool {
					v, isNil, ok := l.NilTest()
					if !ok || !isNil {
						return false
					}
					return elemOf(v, f.Params[di]) || engine.ResolveLocal(v) == ssa.Value(f.Params[di])
				}
			})
			if !related {
				r.Check(rule, s.Construct()+"[undesired]", p.InstrPos(in), false, "", "cannot relate the delete to a desired map")
				continue
			}
			r.Check(rule, s.Construct()+"[undesired]", p.InstrPos(in), w == nil, "Delete only if the child is not desired", "an observed child is deleted although it is desired; "+pathWhy(w))
		}
	}
}

func r01_ssa(r *Report, p *Program) {
	const rule = "R01.1"
	f := fn(r, p, rule, "controller/common.updateChildren")
	if f == nil {
		return
	}
	for _, s := range engine.Sinks([]*ssa.Function{f}) {
		if s.Verb != "Patch" {
			continue
		}
		in := s.Instr.(ssa.Instruction)
		pt, _ := constStr(s.Arg(2))
		switch pt {
		case "application/apply-patch+yaml":
			w := unguarded(f, nil, in, func(l Lit) bool {
				a := l.Atom
				switch {
				case !l.Pos && strings.HasPrefix(a, "global(controller/common.lastUpdatedCache)[") && strings.HasSuffix(a, "#1"):
					return true // cache miss
				case !l.Pos && l.Op == token.EQL && strings.Contains(a, "xxhash") && strings.HasSuffix(a, ".hash)"):
					return true // hash differs
				case !l.Pos && l.Op == token.EQL && strings.Contains(a, "GetGeneration)(") && strings.HasSuffix(a, ".resourcegeneration)"):
					return true // generation differs
				}
				if v, isNil, ok := l.NilTest(); ok && isNil && strings.HasPrefix(E(v), "p3[") {
					return true // not observed
				}
				return false
			})
			r.Check(rule, s.Construct()+"[apply:miss∨hash≠∨gen≠]", p.InstrPos(in), w == nil, "apply only if never applied, desired hash changed, or the child's generation is not the one we produced", "the server-side-apply patch is (re)sent on a path that established none of: memo miss, hash inequality, generation inequality (an ordering comparison is not an inequality test); "+pathWhy(w))
			// the skip itself needs all three equalities: no way to the next iteration without the patch unless hit ∧ hash= ∧ gen=
			loops := engine.RangeLoops(f)
			loop := engine.EnclosingLoop(loops, in)
			mr := callsTo(f, false, "encoding/json.Marshal")
			if loop != nil && len(mr) > 0 {
				succ := successEdgeOf(mr[0].Instr)
				var from []engine.Point
				for _, b := range engine.BlocksInl(f) {
					for i := range b.Succs {
						if l, ok := engine.EdgeLit(b, i); ok && succ(l) {
							from = append(from, engine.Point{B: b.Succs[i]})
						}
					}
				}
				w2 := engine.Query{Fn: f, From: from, Target: func(x ssa.Instruction) bool { return x.Block() == loop.Header },
					CutInstr: func(x ssa.Instruction) bool { return isSinkInstr(x) },
					CutEdge: func(b *ssa.BasicBlock, i int, l *Lit) bool {
						if l == nil || !l.Pos || l.Op != token.EQL {
							return false
						}
						return strings.Contains(l.Atom, "GetGeneration)(p3[") && strings.HasSuffix(l.Atom, ".resourcegeneration)")
					}}.Find()
				r.Check(rule, s.Construct()+"[skip⇒generation-equal]", p.InstrPos(in), w2 == nil, "the apply is skipped only when the observed child's generation EQUALS the memoised one", "the apply can be skipped without the observed generation being equal to the memoised one: a child re-created (or edited) behind our back is never repaired; "+pathWhy(w2))
			}
			// memo refreshed after success: key, hash, generation of the patched object
			var mu *ssa.MapUpdate
			for _, b := range engine.BlocksInl(f) {
				for _, x := range b.Instrs {
					if m, ok := x.(*ssa.MapUpdate); ok && E(m.Map) == "global(controller/common.lastUpdatedCache)" {
						mu = m
					}
				}
			}
			ok, why := mu != nil, "the memo is never written"
			if ok {
				al, _ := engine.Unwrap(mu.Value).(*ssa.Alloc)
				hash, gen := ssa.Value(nil), ssa.Value(nil)
				if al != nil {
					hash, gen = engine.FieldStore(al, "hash"), engine.FieldStore(al, "resourcegeneration")
				}
				patched := engine.ResultValue(s.Instr, 0)
				switch {
				case notAfterSuccess(f, s.Instr, mu) != nil:
					ok, why = false, "the memo is written although the patch failed"
				case hash == nil || !strings.Contains(E(hash), "xxhash"):
					ok, why = false, "the memoised hash is not the hash of what was applied"
				case gen == nil || patched == nil || E(gen) != "call(unstructured.Unstructured.GetGeneration)("+E(patched)+")":
					ok, why = false, "the memoised generation is not the one returned by the patch"
				case !strings.HasPrefix(E(mu.Key), "call(controller/common.lastUpdateCacheKey)(p0, "):
					ok, why = false, "memo key is not lastUpdateCacheKey(client, obj)"
				}
				// lookup uses the same key value
				for _, b := range engine.BlocksInl(f) {
					for _, x := range b.Instrs {
						if lk, isL := x.(*ssa.Lookup); isL && E(lk.X) == "global(controller/common.lastUpdatedCache)" && ok && !engine.SameValue(lk.Index, mu.Key) {
							ok, why = false, "memo is read and written under different keys"
						}
					}
				}
				// the success path reaches the next iteration only through the memo write
				if ok {
					succ := successEdgeOf(s.Instr)
					var from []engine.Point
					for _, b := range engine.BlocksInl(f) {
						for i := range b.Succs {
							if l, has := engine.EdgeLit(b, i); has && succ(l) {
								from = append(from, engine.Point{B: b.Succs[i]})
							}
						}
					}
					if loop != nil && (engine.Query{Fn: f, From: from, Target: func(x ssa.Instruction) bool { return x.Block() == loop.Header }, CutInstr: func(x ssa.Instruction) bool { return x == ssa.Instruction(mu) }}).Find() != nil {
						ok, why = false, "a successful apply is not memoised: it would be repeated on every sync"
					}
				}
			}
			r.Check(rule, s.Construct()+"[memo-refreshed]", p.InstrPos(in), ok, "after a successful apply the memo holds (hash applied, generation returned)", why)
		case "application/json-patch+json":
			w := unguarded(f, nil, in, func(l Lit) bool {
				return l.Pos && strings.Contains(l.Atom, `GetAnnotations)(p3[`) && strings.HasSuffix(l.Atom, `["metacontroller.k8s.io/last-applied-configuration"]#1`)
			})
			r.Check(rule, s.Construct()+"[annotation-present]", p.InstrPos(in), w == nil, "the annotation is removed only if present", "the remove-annotation patch is sent although the observed child does not carry the annotation; "+pathWhy(w))
		default:
			r.Check(rule, s.Construct(), p.InstrPos(in), false, "", "patch of unknown type "+pt)
		}
	}
	// deleteChildren forgets the memo of a child it deleted
	if d := fn(r, p, rule, "controller/common.deleteChildren"); d != nil {
		ok := false
		for _, cs := range callsTo(d, false, "builtin.delete") {
			if E(cs.Common().Args[0]) == "global(controller/common.lastUpdatedCache)" && strings.HasPrefix(E(cs.Common().Args[1]), "call(controller/common.lastUpdateCacheKey)(p0, ") {
				ok = true
			}
		}
		r.Check(rule, FK(d)+"[memo-forgotten-on-delete]", p.Pos(d.Pos()), ok, "a deleted child's memo entry is dropped", "the memo entry of a deleted child is kept: a re-created child with the same desired state would never be applied")
	}
}

func r01_rmw(r *Report, p *Program) {
	const rule = "R01.1"
	for _, key := range []string{"dynamic/clientset.ResourceClient.AtomicUpdate", "dynamic/clientset.ResourceClient.AtomicStatusUpdate", "client/generated/clientset/internalclientset/typed/metacontroller/v1alpha1.controllerRevisions.UpdateWithRetries"} {
		f := fn(r, p, rule, key)
		if f == nil {
			continue
		}
		for _, cl := range engine.Closures(f) {
			for _, s := range engine.Sinks([]*ssa.Function{cl}) {
				in := s.Instr.(ssa.Instruction)
				w := unguarded(cl, nil, in, func(l Lit) bool {
					c, ok := l.Cond.(*ssa.Call)
					return ok && l.Pos && engine.CallKey(c.Common()) == "" && len(c.Common().Args) == 1
				})
				r.Check(rule, s.Construct()+"[changed]", p.InstrPos(in), w == nil, "written only if the update closure reports a change", "the object is written even when the update closure reports no change; "+pathWhy(w))
			}
		}
	}
	for _, key := range []string{"dynamic/clientset.ResourceClient.AddFinalizer", "dynamic/clientset.ResourceClient.RemoveFinalizer"} {
		f := fn(r, p, rule, key)
		if f == nil || len(f.AnonFuncs) != 1 {
			continue
		}
		cl := f.AnonFuncs[0]
		add := strings.HasSuffix(key, "AddFinalizer")
		paths, err := engine.EnumPaths(cl, engine.EnumOpts{Effect: func(in ssa.Instruction) bool {
			return isCallTo(in, "controllerutil.AddFinalizer", "controllerutil.RemoveFinalizer")
		}})
		ok, why := err == nil, ""
		for _, pa := range paths {
			if len(pa.Ret) == 0 {
				continue
			}
			has := val(pa, -1, func(a string) bool {
				return a == "call(controllerutil.ContainsFinalizer)(p0, "+E(cl.FreeVars[0])+")" || strings.HasPrefix(a, "call(controllerutil.ContainsFinalizer)(p0, ")
			})
			changed := E(pa.Ret[0]) == "true"
			wantChange := (add && has == -1) || (!add && has == 1)
			if changed != wantChange || (len(pa.Effects) == 1) != wantChange {
				ok, why = false, "closure reports changed="+E(pa.Ret[0])+sf(" with %d edits on [%s]", len(pa.Effects), pa.Cond())
			}
		}
		r.Check(rule, FK(cl)+"[idempotent]", p.Pos(cl.Pos()), ok, "no change reported when the finalizer is already in the desired state", why)
	}
}

func r01_revisions(r *Report, p *Program) {
	const rule = "R01.1"
	f := fn(r, p, rule, "controller/composite.parentController.manageRevisions")
	if f == nil {
		return
	}
	for _, s := range engine.Sinks([]*ssa.Function{f}) {
		in := s.Instr.(ssa.Instruction)
		switch s.Verb {
		case "Update":
			w := unguarded(f, nil, in, func(l Lit) bool {
				if l.Pos || !isDeepEqualLit(l) {
					return false
				}
				c := l.Cond.(*ssa.Call)
				a0, a1 := c.Common().Args[0], c.Common().Args[1]
				obj := s.Arg(1)
				return engine.SameValue(a0, obj) != engine.SameValue(a1, obj)
			})
			r.Check(rule, s.Construct()+"[differs]", p.InstrPos(in), w == nil, "revision updated only if it differs from the observed one", "a ControllerRevision is updated although it equals the observed one; "+pathWhy(w))
		case "Create":
			w := unguarded(f, nil, in, func(l Lit) bool {
				v, isNil, ok := l.NilTest()
				return ok && isNil && strings.HasPrefix(E(v), "makemap<") && strings.Contains(E(v), "[")
			})
			r.Check(rule, s.Construct()+"[absent]", p.InstrPos(in), w == nil, "revision created only if not observed", "a ControllerRevision is created although it was observed; "+pathWhy(w))
		case "Delete":
			w := unguarded(f, nil, in, func(l Lit) bool {
				return !l.Pos && strings.HasPrefix(l.Atom, "makemap<") && strings.HasSuffix(l.Atom, "#1")
			})
			r.Check(rule, s.Construct()+"[undesired]", p.InstrPos(in), w == nil, "revision deleted only if not desired", "a desired ControllerRevision is deleted; "+pathWhy(w))
		}
	}
}
