package rules

import (
	"sort"
	"strings"

	"mcvet/engine"

	"golang.org/x/tools/go/ssa"
)

func init() {
	Registry["C08"] = checkC08
}

func checkC08(r *Report, p *Program) {
	r.Explanation = "Liveness of a rollout under a fair environment is a statement about infinite histories and is NOT decided. Decided are structural necessary conditions of 'a rollout never waits on a child that exists, is up to date and healthy' and of clean-up: (R08.1) key-domain agreement — every name used to look a child up in a map must have been produced by the constructor that keyed that map: names are classified by origin (qualifiedName / keys of a UniformObjectMap = 'qualified'; relativeName / keys of a RelativeObjectMap = 'relative'; GetName() = 'bare'; elements of ControllerRevisionChildren.Names = whatever addChild is given), propagated through parameters and the Names field, and checked at every FindGroupKindName call, every claim-map index and every addChild/removeChild; (R08.2) pruning keeps the latest revision and exactly those others that still claim children, manageRevisions deletes every observed revision that is not desired, stale claims are dropped against the LATEST revision's desired children (shared with C09 R09.5); (R08.3) the health gate adds no condition beyond the documented ones (shared with C07 R07.3) and the final outcome sets Updated=True (C07 R07.6)."
	r.NotDecided = "liveness under fairness; the linear bound; behaviour of a second spec change mid-rollout over histories."
	r08_1(r, p)
	r08_2(r, p)
	r09_5(r, p)
	r07_3(r, p)
	r07_6b(r, p)
	// a revision's name is unique per parent: two parents never collide on Create (shared with C09)
	r09_4(r, p)
	r09_10(r, p)
	objectMapContracts(r, p, "R08.4")
	r07_tables(r, p)
	r09_tables(r, p, "R08.6")
	r09_recordSet(r, p, "R08.7")
	conditionTables(r, p, "R08.8")
	claimsTables(r, p, "R08.9")
	hookAnswerFrozenAfterGate(r, p, "R08.10")
	noOpTestOperands(r, p, "R08.11")
}

// ---- key domains ----

type domSet map[string]bool

func (d domSet) add(o domSet) {
	for k := range o {
		d[k] = true
	}
}

func (d domSet) String() string {
	var s []string
	for k := range d {
		s = append(s, k)
	}
	sort.Strings(s)
	return "{" + strings.Join(s, ",") + "}"
}

type keyDomains struct {
	p     *Program
	names domSet // domain of ControllerRevisionChildren.Names elements
	memo  map[ssa.Value]domSet
	busy  map[ssa.Value]bool
}

func outerMapDomain(m ssa.Value) string {
	// m is an inner map[string]*Unstructured: where does it come from?
	s := m.Type().String()
	_ = s
	found := ""
	engine.BackSlice(m, func(x ssa.Value) bool {
		t := x.Type().String()
		switch {
		case strings.HasSuffix(t, "api/v1.RelativeObjectMap"):
			found = "relative"
			return true
		case strings.HasSuffix(t, "api/v2.UniformObjectMap"):
			found = "qualified"
			return true
		}
		return false
	}, func(k string) bool { return strings.HasSuffix(k, "childClaimMap.getKind") })
	return found
}

func (kd *keyDomains) of(f *ssa.Function, v ssa.Value, depth int) domSet {
	out := domSet{}
	v = engine.ResolveLocal(v)
	if depth > 6 {
		out["?"] = true
		return out
	}
	if d, ok := kd.memo[v]; ok {
		return d
	}
	if kd.busy[v] {
		return out
	}
	kd.busy[v] = true
	defer delete(kd.busy, v)
	switch x := v.(type) {
	case *ssa.Call:
		k := engine.CallKey(x.Common())
		switch {
		case strings.HasSuffix(k, "UniformObjectMap.qualifiedName"):
			out["qualified"] = true
		case strings.HasSuffix(k, "api/v1.relativeName"):
			out["relative"] = true
		case strings.HasSuffix(k, ".GetName"):
			out["bare"] = true
		default:
			// a module helper that returns a name: the domain(s) of what it returns
			// (e.g. an exported wrapper around relativeName)
			g := engine.StaticFn(x.Common())
			if g != nil && strings.HasPrefix(FK(g), engine.ModPrefix) && len(g.Blocks) > 0 && g.Signature.Results().Len() == 1 && isStringT(g.Signature.Results().At(0).Type()) {
				n := 0
				for _, b := range engine.BlocksInl(g) {
					for _, in := range b.Instrs {
						if rt, ok := in.(*ssa.Return); ok {
							n++
							out.add(kd.of(g, engine.RetVal(rt, 0), depth+1))
						}
					}
				}
				if n > 0 {
					break
				}
			}
			out["?call:"+Short(k)] = true
		}
	case *ssa.Extract:
		if nx, ok := x.Tuple.(*ssa.Next); ok && x.Index == 1 {
			if rg, ok := nx.Iter.(*ssa.Range); ok {
				if d := outerMapDomain(rg.X); d != "" {
					out[d] = true
				} else if strings.Contains(rg.X.Type().String(), "parentRevision") {
					out.add(kd.names) // claim maps are keyed by revision names
				} else {
					out["?range:"+rg.X.Type().String()] = true
				}
			}
		} else if c, ok := x.Tuple.(*ssa.Call); ok {
			out["?call:"+Short(engine.CallKey(c.Common()))] = true
		}
	case *ssa.UnOp:
		// element of a Names slice
		if ia, ok := x.X.(*ssa.IndexAddr); ok && strings.HasSuffix(E(ia.X), ".Names") {
			out.add(kd.names)
			if len(kd.names) == 0 {
				out["names"] = true
			}
		} else {
			out["?load:"+E(x.X)] = true
		}
	case *ssa.Phi:
		for _, e := range x.Edges {
			out.add(kd.of(f, e, depth+1))
		}
	case *ssa.Parameter:
		idx := -1
		pf := x.Parent()
		for i, pr := range pf.Params {
			if pr == x {
				idx = i
			}
		}
		n := 0
		for _, g := range kd.p.Scanned {
			for _, b := range engine.BlocksInl(g) {
				for _, in := range b.Instrs {
					ci, ok := in.(ssa.CallInstruction)
					if !ok || engine.StaticFn(ci.Common()) != pf || idx >= len(ci.Common().Args) {
						continue
					}
					n++
					out.add(kd.of(g, ci.Common().Args[idx], depth+1))
				}
			}
		}
		if n == 0 {
			out["?param"] = true
		}
	case *ssa.Const:
		out["const"] = true
	default:
		out["?"+E(v)] = true
	}
	kd.memo[v] = out
	return out
}

func r08_1(r *Report, p *Program) {
	const rule = "R08.1"
	r.Rule(rule, "key-domain agreement between the writers and readers of the child maps")
	r.Floor(rule, 10)
	kd := &keyDomains{p: p, names: domSet{}, memo: map[ssa.Value]domSet{}, busy: map[ssa.Value]bool{}}
	// map constructors: Insert keys with the declared constructor
	for _, m := range []struct{ key, want string }{
		{"controller/common/api/v2.UniformObjectMap.Insert", "UniformObjectMap.qualifiedName"},
		{"controller/common/api/v1.RelativeObjectMap.Insert", "api/v1.relativeName"},
		{"controller/common/api/v2.UniformObjectMap.ReplaceObjectIfExists", "UniformObjectMap.qualifiedName"},
		{"controller/common/api/v1.RelativeObjectMap.ReplaceObjectIfExists", "api/v1.relativeName"},
	} {
		f := fn(r, p, rule, m.key)
		if f == nil {
			continue
		}
		ok := false
		for _, b := range engine.BlocksInl(f) {
			for _, in := range b.Instrs {
				switch x := in.(type) {
				case *ssa.MapUpdate:
					if strings.HasSuffix(x.Map.Type().String(), "unstructured.Unstructured") {
						ok = strings.HasSuffix(keyOf(x.Key), m.want)
					}
				}
			}
		}
		r.Check(rule, FK(f)+"[keyed-by-"+methodOf(m.want)+"]", p.Pos(f.Pos()), ok, "inner maps are keyed by "+methodOf(m.want)+"(obj)", "the inner map is not keyed by "+m.want)
	}
	// fixpoint for the Names domain: values handed to addChild (and persisted)
	add := p.Func("controller/composite.parentRevision.addChild")
	if add == nil {
		r.Fail(rule, "addChild", "-", "anchor-lost", "parentRevision.addChild not found")
		return
	}
	for round := 0; round < 4; round++ {
		kd.memo = map[ssa.Value]domSet{}
		before := len(kd.names)
		kd.names.add(kd.of(add, add.Params[3], 0))
		delete(kd.names, "names")
		if len(kd.names) == before {
			break
		}
	}
	kd.memo = map[ssa.Value]domSet{}
	r.Extra("names_domain", kd.names.String())
	check := func(f *ssa.Function, at ssa.Instruction, what string, name ssa.Value, want string, ord int) {
		d := kd.of(f, name, 0)
		ok := len(d) == 1 && d[want]
		c := sf("%s→%s#%d", FK(f), what, ord)
		why := ""
		if !ok {
			why = sf("the name %s can come from domain(s) %s, but this lookup needs '%s' keys: ", E(name), d, want) +
				map[string]string{
					"qualified": "an observed child is stored under namespace/name whenever it is namespaced, so looking it up by a relative or bare name finds nothing ('missing child') and a healthy rollout waits forever",
					"relative":  "desired children / revision claims are keyed by the name relative to the parent (namespace/name only for a cluster-scoped parent with namespaced children), so a bare or qualified name misses for some parent/child scopes",
				}[want]
		}
		r.Check(rule, c, p.InstrPos(at), ok, "name from domain "+d.String(), why)
	}
	nSites := 0
	for _, f := range p.Scanned {
		if !strings.HasPrefix(FK(f), "metacontroller/pkg/controller/composite.") {
			continue
		}
		for i, cs := range callsTo(f, false, "api/v2.UniformObjectMap.FindGroupKindName") {
			nSites++
			check(f, cs.Instr.(ssa.Instruction), "observed.FindGroupKindName", cs.Arg(1), "qualified", i)
		}
		for i, cs := range callsTo(f, false, "api/v1.RelativeObjectMap.FindGroupKindName") {
			nSites++
			check(f, cs.Instr.(ssa.Instruction), "desired.FindGroupKindName", cs.Arg(1), "relative", i)
		}
		perMethod := map[string]int{}
		for _, cs := range callsTo(f, false, "composite.parentRevision.addChild", "composite.parentRevision.removeChild", "composite.childClaimMap.setParentRevision") {
			nSites++
			m := methodOf(cs.Key)
			check(f, cs.Instr.(ssa.Instruction), m, cs.Arg(2), "relative", perMethod[m])
			perMethod[m]++
		}
		n := 0
		for _, b := range engine.BlocksInl(f) {
			for _, in := range b.Instrs {
				if lk, ok := in.(*ssa.Lookup); ok && strings.HasPrefix(lk.X.Type().String(), "map[string]*") && strings.HasSuffix(lk.X.Type().String(), "composite.parentRevision") {
					nSites++
					check(f, in, "claimMap[name]", lk.Index, "relative", n)
					n++
				}
			}
		}
	}
	if nSites < 10 {
		r.Fail(rule, "lookup sites", "-", "anchor-lost", sf("found %d name-keyed lookup sites, expected >= 10", nSites))
	}
}

func r08_2(r *Report, p *Program) {
	const rule = "R08.2"
	r.Rule(rule, "pruning and deletion of drained revisions")
	r.Floor(rule, 3)
	if f := fn(r, p, rule, "controller/composite.pruneParentRevisions"); f != nil {
		ok, why := true, ""
		// index 0 appended unconditionally
		first := false
		for _, cs := range callsTo(f, false, "builtin.append") {
			if engine.BackSlice(cs.Common().Args[1], func(x ssa.Value) bool { return E(x) == "p0[0]" }, nil) {
				first = unguarded(f, nil, cs.Instr.(ssa.Instruction), func(l Lit) bool { return strings.Contains(l.Atom, "countChildren") }) != nil
			}
		}
		if !first {
			ok, why = false, "the latest revision (index 0) is not kept unconditionally"
		}
		okK, whyK := loopKeepTable2(f, func(pa engine.Path, n int) (bool, string) {
			has := val(pa, -1, func(a string) bool {
				return strings.HasPrefix(a, "(0 < call(controller/composite.parentRevision.countChildren)(")
			})
			if (has == 1) != (n == 1) || has == 0 {
				return false, "an older revision is kept/dropped regardless of whether it still claims children"
			}
			return true, ""
		})
		if ok && !okK {
			ok, why = false, whyK
		}
		for _, l := range engine.RangeLoops(f) {
			if E(l.X) != "slice(p0)" {
				ok, why = false, "pruning does not consider every non-latest revision"
			}
		}
		r.Check(rule, FK(f), p.Pos(f.Pos()), ok, "keeps [0] always, others iff countChildren() > 0", why)
	}
	if f := fn(r, p, rule, "controller/composite.parentRevision.countChildren"); f != nil {
		ok := len(engine.LoopOver(f, func(x string) bool { return x == "p0.revision.Children" })) == 1
		r.Check(rule, FK(f), p.Pos(f.Pos()), ok, "counts the names of every child kind claimed", "countChildren does not sum over all claimed kinds")
	}
	if f := fn(r, p, rule, "controller/composite.parentController.manageRevisions"); f != nil {
		// every observed revision that is not desired is deleted: in the loop over observed, the !desired edge leads to Delete or an error return
		var loop *engine.RangeLoop
		for _, l := range engine.RangeLoops(f) {
			if E(l.X) == "p2" {
				loop = l
			}
		}
		ok, why := loop != nil, "no loop over the observed revisions"
		if ok {
			var from []engine.Point
			for _, b := range loop.BodyBlocks() {
				for i := range b.Succs {
					if l, has := engine.EdgeLit(b, i); has && !l.Pos && strings.HasPrefix(l.Atom, "makemap<") && strings.HasSuffix(l.Atom, "#1") {
						from = append(from, engine.Point{B: b.Succs[i]})
					}
				}
			}
			if len(from) == 0 {
				ok, why = false, "observed revisions are not compared with the desired set"
			} else if w := (engine.Query{Fn: f, From: from, Target: func(in ssa.Instruction) bool { return in.Block() == loop.Header || engine.IsReturn(in) },
				CutInstr: func(in ssa.Instruction) bool { return isCallTo(in, "ControllerRevisionInterface.Delete") }}).Find(); w != nil {
				ok, why = false, "an observed revision that is no longer desired is not deleted"
			}
			// the desired set is keyed by name, as the lookup is
			if strings.HasPrefix(E(loop.X), "slice(") {
				ok, why = false, "not every observed revision is considered"
			}
		}
		r.Check(rule, FK(f)+"[delete-undesired]", p.Pos(f.Pos()), ok, "observed ∧ ¬desired ⇒ Delete", why)
	}
	// syncRevisions hands the pruned list (only revisions with a ControllerRevision object) to manageRevisions: in C09 R09.1
}
