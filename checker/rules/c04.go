package rules

import (
	"go/types"
	"sort"
	"strings"

	"mcvet/engine"

	"golang.org/x/tools/go/ssa"
)

func init() {
	Registry["C04"] = checkC04
}

func checkC04(r *Report, p *Program) {
	r.Explanation = "Decides: (R04.1) the complete decision table of ClaimObject, extracted by enumerating all SSA paths — adopt is called only for orphan∧controller-alive∧match∧object-alive, release only for ours∧¬match∧controller-alive, foreign-owned objects and dying controllers cause no effect, true is returned only for ours∧match or after adopt()==nil, errors are dropped only under IsNotFound; (R04.2) every write reachable from an adopt callback is guarded by CanAdopt()==nil, CanAdopt runs CanAdoptFunc under sync.Once, every manager is constructed with pc.canAdoptFunc(parent), whose closure does an uncached client Get, errors on UID mismatch, and is wrapped by RecheckDeletionTimestamp which errors on a deletion timestamp; (R04.3) removeOwnerReference keeps exactly entries with a different UID, addOwnerReference keeps every foreign entry, release passes the controller's UID, and the adopt/release update closures mutate the live object through SetOwnerReferences only; (R04.4) in the composite sync entry the selector/label check loop over the desired children dominates ManageChildren, errors out on a non-matching child, injects controller-uid before the test when the selector is generated, and makeSelector refuses an empty selector."
	r.NotDecided = "two parents racing for one orphan; the API server's single-controller validation; label selector semantics."
	r.Assumptions = []string{"ClaimObject parameters are (obj, match, adopt, release) in this order"}
	if co := fn(r, p, "R04.1", "third_party/kubernetes.BaseControllerRefManager.ClaimObject"); co != nil {
		claimTable(r, p, "R04.1", co, false)
	}
	r04_2(r, p)
	r04_3(r, p)
	r04_4(r, p)
	rmwClosuresReadLive(r, p, "R04.5")
	adoptAlwaysWrites(r, p, "R04.6")
	listersListEverything(r, p, "R04.7")
	claimKeepTable(r, p, "R04.8")
	// a revision the controller creates matches the selector it claims revisions with (shared with C09)
	revisionLabelsAgree(r, p, "R04.9")
	benignMeansNil(r, p, "R04.10")
	canAdoptTable(r, p, "R04.11")
	claimToleranceConverse(r, p, "R04.12")
	matchIsSelectorOnly(r, p, "R04.13")
	lastAppliedIsHookAnswer(r, p, "R04.14")
	rmwAddressedByObjectNamespace(r, p, "R04.15")
}

// listersListEverything: the controllers list their caches unfiltered and leave the
// matching to ClaimObject / the ownership filters / enqueueParentObject — which must
// also see the objects that do NOT match: an owned child that stopped matching is
// released only if it is among the candidates; a parent that fell out of the
// selector but carries the finalizer is still woken.
func listersListEverything(r *Report, p *Program, rule string) {
	r.Rule(rule, "every cache listing in the composite/decorator controllers passes labels.Everything(); selection happens afterwards on the full candidate set")
	r.Floor(rule, 7)
	ord := map[string]int{}
	for _, f := range p.Scanned {
		if !strings.Contains(FK(f), "/pkg/controller/composite.") && !strings.Contains(FK(f), "/pkg/controller/decorator.") {
			continue
		}
		for _, cs := range callsTo(f, false, "dynamiclister.NamespaceLister.List", "dynamiclister.Lister.List", "ControllerRevisionNamespaceLister.List", "ControllerRevisionLister.List") {
			k := Short(FK(f)) + "→" + methodOf(cs.Key)
			c := sf("%s#%d", k, ord[k])
			ord[k]++
			a := cs.Arg(0)
			call := callOf(a)
			ok := call != nil && engine.CallKey(call.Common()) == "k8s.io/apimachinery/pkg/labels.Everything"
			r.Check(rule, c, p.InstrPos(cs.Instr), ok, "lists with labels.Everything()", "the cache is listed with "+E(a)+": objects that do not match never reach the code that must handle them (release of an owned child that stopped matching, waking a parent that only its finalizer keeps, the ownership filter)")
		}
	}
}

// tri-state valuation of an atom on a path prefix
func val(pa engine.Path, upto int, match func(string) bool) int {
	res := 0
	for i, l := range pa.Lits {
		if upto >= 0 && i >= upto {
			break
		}
		if match(l.Atom) {
			v := -1
			if l.Pos {
				v = 1
			}
			if res != 0 && res != v {
				return 2 // contradictory: infeasible path
			}
			res = v
		}
	}
	return res
}

// claimTable extracts and checks ClaimObject's decision table.
// onlyTrue: check only the 'returns true' clause (used by C02).
func claimTable(r *Report, p *Program, rule string, co *ssa.Function, onlyTrue bool) {
	r.Rule(rule, "ClaimObject decision table (all paths): adopt only on orphan∧ctrl alive∧match∧obj alive; release only on ours∧¬match∧ctrl alive; foreign/dying-controller ⇒ no effect; true only on ours∧match or adopt()==nil; errors dropped only under IsNotFound")
	if len(co.Params) != 5 {
		r.Fail(rule, FK(co), p.Pos(co.Pos()), "undecided", "ClaimObject signature changed: expected (m, obj, match, adopt, release)")
		return
	}
	isDyn := func(in ssa.Instruction, pi int) bool {
		c, ok := in.(*ssa.Call)
		return ok && !c.Common().IsInvoke() && c.Common().Value == co.Params[pi]
	}
	paths, err := engine.EnumPaths(co, engine.EnumOpts{Effect: func(in ssa.Instruction) bool { return isDyn(in, 3) || isDyn(in, 4) }})
	if err != nil {
		r.Fail(rule, FK(co), p.Pos(co.Pos()), "undecided", err.Error())
		return
	}
	noRef := re(`^\(call\(metav1\.GetControllerOf\)\(p1\) == nil\)$`)
	ours := re(`^\(call\(metav1\.GetControllerOf\)\(p1\)\.UID == call\(metav1\.Object\.GetUID\)\(p0\.Controller\)\)$`)
	match := re(`^call\(dyn:p2\)\(p1\)$`)
	ctrlAlive := re(`^\(call\(metav1\.Object\.GetDeletionTimestamp\)\(p0\.Controller\) == nil\)$`)
	objAlive := re(`^\(call\(metav1\.Object\.GetDeletionTimestamp\)\(p1\) == nil\)$`)
	adoptOK := re(`^\(call\(dyn:p3\)\(p1\) == nil\)$`)
	releaseOK := re(`^\(call\(dyn:p4\)\(p1\) == nil\)$`)
	notFound := re(`^call\(apierrors\.IsNotFound\)\(call\(dyn:p[34]\)\(p1\)\)$`)

	type row struct {
		When    string `json:"when"`
		Effects string `json:"effects"`
		Returns string `json:"returns"`
	}
	var rows []row
	nTrue, nAdopt, nRelease := 0, 0, 0
	bad := func(c, why string, pa engine.Path) {
		r.Check(rule, FK(co)+"["+c+"]", p.Pos(co.Pos()), false, "", why+" on path ["+pa.Cond()+"]")
	}
	okClauses := map[string]bool{"adopt-guard": true, "release-guard": true, "true-only": true, "foreign-untouched": true, "dying-controller": true, "error-discipline": true}
	for _, pa := range paths {
		rt, isR := pa.End.(*ssa.Return)
		if !isR {
			continue
		}
		if val(pa, -1, noRef) == 2 || val(pa, -1, match) == 2 || val(pa, -1, ctrlAlive) == 2 {
			continue
		}
		var effs []string
		for i, e := range pa.Effects {
			at := pa.EffAt[i]
			if isDyn(e, 3) {
				effs = append(effs, "adopt")
				nAdopt++
				if !(val(pa, at, noRef) == 1 && val(pa, at, ctrlAlive) == 1 && val(pa, at, match) == 1 && val(pa, at, objAlive) == 1) {
					okClauses["adopt-guard"] = false
					if !onlyTrue {
						bad("adopt-guard", "adopt() is reachable without orphan ∧ controller alive ∧ match ∧ object alive all established", pa)
					}
				}
			} else {
				effs = append(effs, "release")
				nRelease++
				if !(val(pa, at, noRef) == -1 && val(pa, at, ours) == 1 && val(pa, at, match) == -1 && val(pa, at, ctrlAlive) == 1) {
					okClauses["release-guard"] = false
					if !onlyTrue {
						bad("release-guard", "release() is reachable without ours ∧ ¬match ∧ controller alive all established", pa)
					}
				}
			}
		}
		ret0, ret1 := E(rt.Results[0]), E(rt.Results[1])
		rows = append(rows, row{pa.Cond(), strings.Join(effs, ","), ret0 + ", " + ret1})
		if ret0 != "false" {
			nTrue++
			okTrue := ret0 == "true" && ((val(pa, -1, noRef) == -1 && val(pa, -1, ours) == 1 && val(pa, -1, match) == 1) ||
				(len(effs) == 1 && effs[0] == "adopt" && val(pa, -1, adoptOK) == 1))
			if !okTrue {
				okClauses["true-only"] = false
				bad("true-only", "returns "+ret0+" without (ours ∧ match) or a successful adopt", pa)
			}
		}
		if val(pa, -1, noRef) == -1 && val(pa, -1, ours) == -1 {
			if len(effs) > 0 || ret0 != "false" || ret1 != "nil" {
				okClauses["foreign-untouched"] = false
				if !onlyTrue {
					bad("foreign-untouched", "object controlled by someone else is not simply ignored", pa)
				}
			}
		}
		if val(pa, -1, ctrlAlive) == -1 && len(effs) > 0 {
			okClauses["dying-controller"] = false
			if !onlyTrue {
				bad("dying-controller", "a controller that is being deleted adopts or releases", pa)
			}
		}
		// error discipline: a failed adopt/release is returned unless IsNotFound
		failed := val(pa, -1, adoptOK) == -1 || val(pa, -1, releaseOK) == -1
		if failed && !onlyTrue {
			nf := val(pa, -1, notFound)
			if nf == 1 && ret1 != "nil" || nf == -1 && ret1 == "nil" || nf == 0 && ret1 == "nil" {
				okClauses["error-discipline"] = false
				bad("error-discipline", "adopt/release error is dropped without IsNotFound (or returned although not found)", pa)
			}
			if ret0 != "false" {
				okClauses["error-discipline"] = false
				bad("error-discipline", "claims the object although adopt/release failed", pa)
			}
		}
	}
	sort.Slice(rows, func(i, j int) bool { return rows[i].When < rows[j].When })
	r.Table(rule+" ClaimObject", rows)
	if nTrue < 2 || nAdopt < 1 || nRelease < 1 {
		r.Fail(rule, FK(co), p.Pos(co.Pos()), "anchor-lost", sf("table degenerate: %d true-returning paths, %d adopt, %d release", nTrue, nAdopt, nRelease))
	}
	var names []string
	for c := range okClauses {
		names = append(names, c)
	}
	sort.Strings(names)
	for _, c := range names {
		if onlyTrue && c != "true-only" {
			continue
		}
		if okClauses[c] {
			r.Check(rule, FK(co)+"["+c+"]", p.Pos(co.Pos()), true, sf("holds on all %d paths", len(rows)), "")
		}
	}
}

// adoptCallbacks resolves the functions called by the adopt / release closures
// passed to ClaimObject.
func claimCallbacks(p *Program) (adopters, releasers []*ssa.Function, sites int) {
	for _, f := range p.Scanned {
		for _, cs := range callsTo(f, false, "BaseControllerRefManager.ClaimObject") {
			sites++
			for idx, dst := range map[int]*[]*ssa.Function{2: &adopters, 3: &releasers} {
				a := engine.ResolveLocal(cs.Arg(idx))
				mc, ok := a.(*ssa.MakeClosure)
				if !ok {
					continue
				}
				cl := mc.Fn.(*ssa.Function)
				for _, b := range engine.BlocksInl(cl) {
					for _, in := range b.Instrs {
						if ci, ok := in.(ssa.CallInstruction); ok {
							if g := engine.StaticFn(ci.Common()); g != nil && strings.HasPrefix(FK(g), engine.ModPrefix) {
								*dst = append(*dst, g)
							}
						}
					}
				}
			}
		}
	}
	return
}

func writeReachers(p *Program) map[*ssa.Function]bool {
	sinkFns := map[*ssa.Function]bool{}
	for _, s := range engine.Sinks(p.Scanned) {
		sinkFns[s.Fn] = true
	}
	return p.CG().CanReach(p, func(f *ssa.Function) bool { return sinkFns[f] })
}

func isWriteCall(p *Program, reach map[*ssa.Function]bool, in ssa.Instruction) bool {
	ci, ok := in.(ssa.CallInstruction)
	if !ok {
		return false
	}
	if _, _, ok := engine.ClassifySink(engine.CallKey(ci.Common())); ok {
		return true
	}
	for _, g := range p.CalleesOf(ci) {
		if reach[g] {
			return true
		}
	}
	return false
}

func r04_2(r *Report, p *Program) {
	const rule = "R04.2"
	r.Rule(rule, "live recheck before every adoption: writes under adopt callbacks guarded by CanAdopt()==nil; CanAdopt = CanAdoptFunc once; managers built with pc.canAdoptFunc(parent); its closure: uncached Get, UID compare, RecheckDeletionTimestamp")
	r.Floor(rule, 8)
	adopters, _, sites := claimCallbacks(p)
	if sites < 2 || len(adopters) < 2 {
		r.Fail(rule, "ClaimObject callbacks", "-", "anchor-lost", sf("found %d ClaimObject call sites and %d adopt callbacks, expected >=2 each", sites, len(adopters)))
	}
	reach := writeReachers(p)
	for _, f := range adopters {
		n := 0
		for _, b := range engine.BlocksInl(f) {
			for _, in := range b.Instrs {
				if !isWriteCall(p, reach, in) {
					continue
				}
				n++
				w := unguarded(f, nil, in, func(l Lit) bool {
					v, isNil, ok := l.NilTest()
					return ok && isNil && strings.HasSuffix(keyOf(v), "BaseControllerRefManager.CanAdopt")
				})
				r.Check(rule, sf("%s→write#%d", FK(f), n-1), p.InstrPos(in), w == nil, "ownership write guarded by CanAdopt()==nil", "adoption write reachable without a successful CanAdopt(); "+pathWhy(w))
			}
		}
		if n == 0 {
			r.Fail(rule, FK(f), p.Pos(f.Pos()), "anchor-lost", "adopt callback performs no write")
		}
	}
	// CanAdopt: once
	if ca := fn(r, p, rule, "third_party/kubernetes.BaseControllerRefManager.CanAdopt"); ca != nil {
		ok, why := true, ""
		direct := 0
		for _, b := range engine.BlocksInl(ca) {
			for _, in := range b.Instrs {
				if c, isC := in.(*ssa.Call); isC && strings.Contains(E(c.Common().Value), ".CanAdoptFunc") {
					direct++
				}
			}
		}
		once := callsTo(ca, false, "sync.Once.Do")
		inOnce := 0
		// the function handed to Once.Do: a closure of CanAdopt, or a method value / named function
		onceBodies := append([]*ssa.Function(nil), engine.Closures(ca)...)
		for _, o := range once {
			for _, a := range o.Common().Args {
				for _, g := range p.ResolveFuncValue(a) {
					dup := false
					for _, x := range onceBodies {
						dup = dup || x == g
					}
					if !dup && strings.HasPrefix(FK(g), engine.ModPrefix) {
						onceBodies = append(onceBodies, g)
					}
				}
			}
		}
		for _, cl := range onceBodies {
			for _, b := range engine.BlocksInl(cl) {
				for _, in := range b.Instrs {
					if c, isC := in.(*ssa.Call); isC && strings.Contains(E(c.Common().Value), ".CanAdoptFunc") {
						inOnce++
						// result stored to canAdoptErr
						stored := false
						if refs := c.Referrers(); refs != nil {
							for _, u := range *refs {
								if st, isS := u.(*ssa.Store); isS && strings.HasSuffix(E(st.Addr), ".canAdoptErr") {
									stored = true
								}
							}
						}
						if !stored {
							ok, why = false, "result of CanAdoptFunc is not recorded in canAdoptErr"
						}
					}
				}
			}
		}
		if direct != 0 || inOnce != 1 || len(once) != 1 {
			ok, why = false, sf("CanAdoptFunc must be called exactly once, inside sync.Once.Do (direct=%d inOnce=%d once=%d)", direct, inOnce, len(once))
		}
		for _, b := range engine.BlocksInl(ca) {
			for _, in := range b.Instrs {
				if rt, isR := in.(*ssa.Return); isR && !strings.HasSuffix(E(rt.Results[0]), ".canAdoptErr") {
					ok, why = false, "CanAdopt does not return the recorded error: "+E(rt.Results[0])
				}
			}
		}
		r.Check(rule, FK(ca), p.Pos(ca.Pos()), ok, "CanAdoptFunc under sync.Once, error recorded and returned", why)
	}
	// constructors' call sites
	nsites := 0
	for _, f := range p.Scanned {
		for _, cs := range callsTo(f, false, "controllerref.NewUnstructuredManager", "controllerref.NewControllerRevisionManager") {
			nsites++
			args := cs.Common().Args
			last := args[len(args)-1]
			k := keyOf(last)
			ok := strings.HasSuffix(k, "parentController.canAdoptFunc")
			why := ""
			if !ok {
				why = "canAdopt argument is " + E(last) + ", not pc.canAdoptFunc(parent)"
			} else {
				// the parent handed to canAdoptFunc must be the manager's controller (arg 1)
				c := callOf(last)
				if !engine.SameValue(c.Common().Args[1], args[1]) {
					ok, why = false, "canAdoptFunc is built for a different object than the manager's controller"
				}
			}
			r.Check(rule, sf("%s→%s#%d", FK(f), Short(cs.Key), nsites-1), p.InstrPos(cs.Instr), ok, "manager built with canAdoptFunc(parent)", why)
		}
	}
	for _, key := range []string{"dynamic/controllerref.NewUnstructuredManager", "dynamic/controllerref.NewControllerRevisionManager"} {
		if f := fn(r, p, rule, key); f != nil {
			ok, why := false, "constructor does not store its canAdopt parameter in CanAdoptFunc"
			for _, b := range engine.BlocksInl(f) {
				for _, in := range b.Instrs {
					if st, isS := in.(*ssa.Store); isS && strings.HasSuffix(E(st.Addr), ".CanAdoptFunc") {
						if _, isP := st.Val.(*ssa.Parameter); isP {
							ok, why = true, ""
						}
					}
				}
			}
			r.Check(rule, FK(f)+"[CanAdoptFunc]", p.Pos(f.Pos()), ok, "CanAdoptFunc = constructor parameter", why)
		}
	}
	// canAdoptFunc closure
	if caf := fn(r, p, rule, "controller/composite.parentController.canAdoptFunc"); caf != nil {
		ok, why := true, ""
		// returns RecheckDeletionTimestamp(closure)
		var cl *ssa.Function
		for _, b := range engine.BlocksInl(caf) {
			for _, in := range b.Instrs {
				if rt, isR := in.(*ssa.Return); isR {
					c := callOf(rt.Results[0])
					if c == nil || !strings.HasSuffix(engine.CallKey(c.Common()), "third_party/kubernetes.RecheckDeletionTimestamp") {
						ok, why = false, "canAdoptFunc is not wrapped by RecheckDeletionTimestamp"
					} else if mc, isMC := engine.ResolveLocal(c.Common().Args[0]).(*ssa.MakeClosure); isMC {
						cl = mc.Fn.(*ssa.Function)
					}
				}
			}
		}
		if cl == nil {
			if ok {
				ok, why = false, "cannot resolve the getObject closure"
			}
		} else {
			gets := callsTo(cl, false, "dynamic.ResourceInterface.Get")
			listers := callsTo(cl, false, "Lister.Get", "NamespaceLister.Get", "common.GetObject")
			if len(gets) != 1 || len(listers) > 0 {
				ok, why = false, sf("recheck must be one uncached client Get (client gets=%d, cache reads=%d)", len(gets), len(listers))
			} else {
				// success return guarded by UID equality between fresh and parent
				fresh := engine.ResultValue(gets[0].Instr, 0)
				for _, b := range engine.BlocksInl(cl) {
					for _, in := range b.Instrs {
						rt, isR := in.(*ssa.Return)
						if !isR || !engine.ReturnsNilError(rt) {
							continue
						}
						w := unguarded(cl, nil, rt, func(l Lit) bool {
							if !l.Pos || l.Op.String() != "==" {
								return false
							}
							ox, oy := objOfGetter(l.X, "GetUID", "UID"), objOfGetter(l.Y, "GetUID", "UID")
							return ox != nil && oy != nil && (engine.SameValue(ox, fresh) != engine.SameValue(oy, fresh))
						})
						if w != nil {
							ok, why = false, "recheck succeeds without fresh.GetUID()==parent.GetUID(); "+pathWhy(w)
						}
						if !engine.SameValue(rt.Results[0], fresh) && !strings.Contains(E(rt.Results[0]), E(fresh)) {
							ok, why = false, "recheck does not return the fresh object"
						}
					}
				}
			}
		}
		r.Check(rule, FK(caf), p.Pos(caf.Pos()), ok, "uncached Get + UID equality + RecheckDeletionTimestamp", why)
	}
	if rd := fn(r, p, rule, "third_party/kubernetes.RecheckDeletionTimestamp"); rd != nil {
		ok, why := len(rd.AnonFuncs) == 1, "expected one closure"
		if ok {
			cl := rd.AnonFuncs[0]
			for _, b := range engine.BlocksInl(cl) {
				for _, in := range b.Instrs {
					rt, isR := in.(*ssa.Return)
					if !isR || !engine.ReturnsNilError(rt) {
						continue
					}
					w := unguarded(cl, nil, rt, func(l Lit) bool {
						v, isNil, okk := l.NilTest()
						return okk && isNil && strings.HasSuffix(keyOf(v), ".GetDeletionTimestamp")
					})
					w2 := unguarded(cl, nil, rt, func(l Lit) bool {
						v, isNil, okk := l.NilTest()
						return okk && isNil && strings.HasPrefix(E(v), "call(dyn:") && strings.HasSuffix(E(v), "#1")
					})
					if w != nil {
						ok, why = false, "recheck succeeds for an object with a deletion timestamp; "+pathWhy(w)
					}
					if w2 != nil {
						ok, why = false, "recheck succeeds although getObject failed; "+pathWhy(w2)
					}
				}
			}
		}
		r.Check(rule, FK(rd), p.Pos(rd.Pos()), ok, "errors on getObject error and on DeletionTimestamp != nil", why)
	}
}

func r04_3(r *Report, p *Program) { ownerRefEdits(r, p, "R04.3") }

// ownerRefEdits is shared by C04 (R04.3) and C02 (R02.6): the ownership edit
// touches only the parent's own reference.
func ownerRefEdits(r *Report, p *Program, rule string) {
	r.Rule(rule, "removeOwnerReference keeps exactly refs with UID != uid; addOwnerReference keeps every foreign ref; release passes Controller.GetUID(); update closures of adopt/release mutate only via SetOwnerReferences")
	r.Floor(rule, 7)
	if f := fn(r, p, rule, "dynamic/controllerref.removeOwnerReference"); f != nil {
		ok, why := loopKeepTable(f, func(pa engine.Path, appended []ssa.Value) (bool, string) {
			same := val(pa, -1, re(`^\(.*\.UID == p1\)$`))
			switch {
			case same == 1 && len(appended) > 0:
				return false, "keeps a reference whose UID equals the one to remove"
			case same == -1 && len(appended) != 1:
				return false, "drops a reference whose UID differs"
			case same == 0:
				return false, "iteration does not compare ref.UID with uid"
			}
			return true, ""
		})
		r.Check(rule, FK(f), p.Pos(f.Pos()), ok, "keeps ref ⇔ ref.UID != uid", why)
	}
	if f := fn(r, p, rule, "dynamic/controllerref.addOwnerReference"); f != nil {
		ok, why := loopKeepTable(f, func(pa engine.Path, appended []ssa.Value) (bool, string) {
			if len(appended) != 1 {
				return false, "an iteration does not keep exactly one entry"
			}
			same := val(pa, -1, re(`^\(.*\.UID == .*\.UID\)$`))
			if same == 1 {
				// our own entry is REPLACED by the reference being added (it carries controller=true,
				// blockOwnerDeletion): keeping the old entry's flags leaves an owner that is not the controller
				if !engine.DependsOnValue(appended[0], f.Params[1], nil) || engine.DependsOnValue(appended[0], f.Params[0], nil) {
					return false, "the existing entry with the adopter's UID is kept (or merged) instead of being replaced by the controller reference: the object is never controlled by the parent and is re-adopted on every sync"
				}
			}
			if same != 1 {
				// foreign entry must be kept as is: the appended element derives from the range element, not from `add`
				if engine.DependsOnValue(appended[0], f.Params[1], nil) && !engine.DependsOnValue(appended[0], f.Params[0], nil) {
					return false, "a foreign owner reference is replaced"
				}
			}
			return true, ""
		})
		r.Check(rule, FK(f), p.Pos(f.Pos()), ok, "every existing foreign reference is kept", why)
	}
	_, releasers, _ := claimCallbacks(p)
	adopters, _, _ := claimCallbacks(p)
	for _, f := range releasers {
		n := 0
		for _, cl := range engine.Closures(f) {
			for _, cs := range callsTo(cl, false, "controllerref.removeOwnerReference") {
				n++
				a := E(cs.Common().Args[1])
				ok := strings.Contains(a, "call(metav1.Object.GetUID)") && strings.Contains(a, ".Controller")
				r.Check(rule, sf("%s→removeOwnerReference#%d", FK(cl), n-1), p.InstrPos(cs.Instr), ok, "removes the controller's own UID", "release removes "+a+", not the controller's UID")
			}
		}
		if n == 0 {
			r.Fail(rule, FK(f), p.Pos(f.Pos()), "anchor-lost", "release callback does not call removeOwnerReference")
		}
	}
	for _, f := range append(append([]*ssa.Function{}, adopters...), releasers...) {
		for _, cl := range engine.Closures(f) {
			if len(cl.Params) != 1 {
				continue
			}
			muts := p.Mutations(cl, cl.Params[0])
			ok, why := len(muts) > 0, "update closure does not mutate the object"
			for _, m := range muts {
				if m.What != "SetOwnerReferences" {
					ok, why = false, "ownership update also performs "+m.What
				}
			}
			r.Check(rule, FK(cl)+"[mutations]", p.Pos(cl.Pos()), ok, "only SetOwnerReferences", why)
		}
	}
}

// loopKeepTable enumerates the paths of the single range-loop body of f and
// hands each path and the values appended on it to check.
func loopKeepTable(f *ssa.Function, check func(pa engine.Path, appended []ssa.Value) (bool, string)) (bool, string) {
	loops := engine.RangeLoops(f)
	if len(loops) != 1 {
		return false, sf("expected exactly one range loop, found %d", len(loops))
	}
	l := loops[0]
	paths, err := engine.EnumPaths(f, engine.EnumOpts{Start: l.Body, Leave: func(b *ssa.BasicBlock) bool { return b == l.Header || b == l.Exit },
		Effect: func(in ssa.Instruction) bool { return isCallTo(in, "builtin.append") }})
	if err != nil {
		return false, err.Error()
	}
	if len(paths) < 2 {
		return false, "loop body has no branch"
	}
	for _, pa := range paths {
		var app []ssa.Value
		for _, e := range pa.Effects {
			c := e.(*ssa.Call)
			app = append(app, c.Common().Args[1])
		}
		if ok, why := check(pa, app); !ok {
			return false, why + " on [" + pa.Cond() + "]"
		}
	}
	return true, ""
}

func r04_4(r *Report, p *Program) {
	const rule = "R04.4"
	r.Rule(rule, "composite sync entry: the loop checking every desired child against makeSelector(parent,nil) dominates ManageChildren, a non-matching child is an error return, controller-uid is injected before the test on the generateSelector edge; makeSelector refuses an empty selector")
	r.Floor(rule, 5)
	se := fn(r, p, rule, "controller/composite.parentController.syncParentObject")
	if se == nil {
		return
	}
	mcs := callsTo(se, false, "controller/common.ManageChildren")
	matches := callsTo(se, false, "labels.Selector.Matches")
	if len(mcs) != 1 {
		r.Fail(rule, FK(se), p.Pos(se.Pos()), "anchor-lost", "expected exactly one ManageChildren call")
		return
	}
	mc := mcs[0].Instr.(ssa.Instruction)
	loops := engine.RangeLoops(se)
	var chk *engine.CallSite
	for i := range matches {
		m := matches[i]
		if strings.HasSuffix(keyOf(m.Recv()), "parentController.makeSelector") {
			chk = &matches[i]
		}
	}
	if chk == nil {
		r.Check(rule, FK(se)+"[selector-check]", p.Pos(se.Pos()), false, "", "no selector.Matches(...) on the result of makeSelector in the sync entry")
		return
	}
	ms := callOf(chk.Recv())
	okSel := len(ms.Common().Args) == 3 && isNilConst(ms.Common().Args[2])
	r.Check(rule, FK(se)+"[selector=makeSelector(parent,nil)]", p.InstrPos(ms), okSel, "selector built without extra labels", "the selector checked against desired children is built with extra match labels")
	ci := chk.Instr.(ssa.Instruction)
	loop := engine.EnclosingLoop(loops, ci)
	if loop == nil {
		r.Check(rule, FK(se)+"[selector-check]", p.InstrPos(ci), false, "", "selector check is not inside a loop over the desired children")
		return
	}
	// outermost enclosing loop ranges over the desired map that is passed to ManageChildren
	outer := loop
	for _, l := range loops {
		if l.Contains(ci) && l.InBody(loop.Header) {
			outer = l
		}
	}
	desiredArg := mcs[0].Common().Args[4]
	okSame := engine.SameValue(outer.X, desiredArg)
	r.Check(rule, FK(se)+"[checked-set=managed-set]", p.InstrPos(ci), okSame, "loop ranges over the very map handed to ManageChildren", "label check ranges over "+E(outer.X)+" but ManageChildren receives "+E(desiredArg))
	// the loop dominates ManageChildren
	w := bypass(se, mc, func(in ssa.Instruction) bool { return in.Block() == outer.Header })
	r.Check(rule, FK(se)+"[check-dominates-manage]", p.InstrPos(mc), w == nil, "every path to ManageChildren runs the label-check loop", "ManageChildren reachable without the label check; "+pathWhy(w))
	// non-matching ⇒ error return: from the !Matches edge, neither the loop header nor ManageChildren is reachable, and all returns carry an error
	var from []engine.Point
	for _, b := range engine.BlocksInl(se) {
		for i := range b.Succs {
			if l, ok := engine.EdgeLit(b, i); ok && !l.Pos && engine.SameValue(l.Cond, chk.Instr.Value()) {
				from = append(from, engine.Point{B: b.Succs[i], I: 0})
			}
		}
	}
	okErr, whyErr := len(from) > 0, "the result of selector.Matches is not branched on"
	if okErr {
		if w := (engine.Query{Fn: se, From: from, Target: func(in ssa.Instruction) bool {
			if in == mc || in.Block() == loop.Header || in.Block() == outer.Header {
				return true
			}
			rt, isR := in.(*ssa.Return)
			return isR && !isErrReturn(rt)
		}}).Find(); w != nil {
			okErr, whyErr = false, "a desired child that does not match the selector does not abort the sync with an error (reaches "+p.InstrPos(w.Instr)+")"
		}
	}
	r.Check(rule, FK(se)+"[mismatch⇒error]", p.InstrPos(ci), okErr, "non-matching desired child ⇒ error return before any write", whyErr)
	// every desired child is put to the test: no way round the Matches call back to the loop head (or on to ManageChildren)
	wSkip := engine.Query{Fn: se, From: []engine.Point{{B: loop.Body, I: 0}}, CutInstr: func(in ssa.Instruction) bool { return in == ci },
		Target: func(in ssa.Instruction) bool {
			return in == mc || (in.Block() == loop.Header && in == loop.Header.Instrs[0])
		}}.Find()
	r.Check(rule, FK(se)+"[every-child-tested]", p.InstrPos(ci), wSkip == nil, "no iteration skips the selector test", "a desired child can go on to be created without having been tested against the parent's selector (it would be orphaned at once, or adopted by someone else); "+pathWhy(wSkip))
	// the labels that are matched are the child's own labels (NestedStringMap of the range value) incl. injected uid
	lblArg := chk.Arg(0)
	okLbl := engine.DependsOnCall(lblArg, engine.HasSuffix("unstructured.NestedStringMap"), nil) != nil
	r.Check(rule, FK(se)+"[labels-of-child]", p.InstrPos(ci), okLbl, "matched labels are read from the desired child", "matched labels are "+E(lblArg))
	// the controller-uid label: added to every desired child where the hook answer enters the controller (callHook),
	// so that the rollout logic, this selector test and ManageChildren all see the same child (F18)
	generatedLabelTable(r, p, rule)

	// makeSelector: empty selector refused
	if mk := fn(r, p, rule, "controller/composite.parentController.makeSelector"); mk != nil {
		isUID := func(in ssa.Instruction) bool {
			c, isC := in.(*ssa.Call)
			if !isC || !strings.HasSuffix(engine.CallKey(c.Common()), "meta/v1.AddLabelToSelector") || len(c.Common().Args) != 3 {
				return false
			}
			k, _ := constStr(c.Common().Args[1])
			return k == "controller-uid"
		}
		paths, err := engine.EnumPaths(mk, engine.EnumOpts{Effect: func(in ssa.Instruction) bool {
			return isCallTo(in, "GetNestedFieldInto") || isUID(in)
		}})
		if err != nil {
			r.Fail(rule, FK(mk), p.Pos(mk.Pos()), "undecided", err.Error())
			return
		}
		ok, why, n := true, "", 0
		okG, whyG, nG := true, "", 0
		for _, pa := range paths {
			rt, isR := pa.End.(*ssa.Return)
			if !isR {
				continue
			}
			// generated selector ⇔ exactly {controller-uid: parent UID} (+ the extra labels); the parent's own spec.selector plays no part
			if g := generatedSelectorOn(pa); g != 0 && engine.ReturnsNilError(rt) {
				readsSpec, addsUID := false, false
				for _, e := range pa.Effects {
					if isUID(e) {
						addsUID = true
						if c := e.(*ssa.Call); !strings.Contains(E(c.Common().Args[2]), "GetUID)(p1)") {
							okG, whyG = false, "controller-uid is set to "+E(c.Common().Args[2])+", not the parent's UID"
						}
					} else {
						readsSpec = true
					}
				}
				nG++
				switch {
				case g == 1 && !addsUID:
					okG, whyG = false, "with generateSelector the selector does not select on controller-uid"
				case g == 1 && readsSpec:
					okG, whyG = false, "with generateSelector the parent's own spec.selector is read into the selector as well: children carry only the controller-uid label metacontroller gives them, so owned children stop matching and are released (and the hook no longer sees them)"
				case g == -1 && addsUID:
					okG, whyG = false, "without generateSelector the selector still requires controller-uid"
				case g == -1 && !readsSpec:
					okG, whyG = false, "without generateSelector the selector is not read from the parent's spec.selector"
				}
			}
			emptyL := val(pa, -1, re(`^\(call\(builtin\.len\)\(.*\.MatchLabels\) == 0\)$`))
			emptyE := val(pa, -1, re(`^\(call\(builtin\.len\)\(.*\.MatchExpressions\) == 0\)$`))
			if emptyL == 1 && emptyE == 1 {
				n++
				if !engine.ReturnsFreshError(rt) {
					ok, why = false, "an empty .spec.selector is accepted on ["+pa.Cond()+"]"
				}
			}
			gen := val(pa, -1, re(`isUsingGeneratedLabelSelector`))
			if gen == -1 && (emptyL == 0 || emptyL == 1 && emptyE == 0) && !engine.ReturnsFreshError(rt) && !pa.Mentions(re(`GetNestedFieldInto`)) {
				ok, why = false, "non-generated selector path does not test for emptiness: ["+pa.Cond()+"]"
			}
			if gen == -1 && engine.ReturnsNilError(rt) && !(emptyL == -1 || emptyE == -1) {
				ok, why = false, "non-generated selector accepted without a non-empty matchLabels/matchExpressions: ["+pa.Cond()+"]"
			}
		}
		if n == 0 {
			ok, why = false, "no path tests both matchLabels and matchExpressions for emptiness"
		}
		r.Check(rule, FK(mk)+"[empty-refused]", p.Pos(mk.Pos()), ok, "len(matchLabels)==0 ∧ len(matchExpressions)==0 ⇒ error", why)
		if nG == 0 {
			okG, whyG = false, "makeSelector does not branch on isUsingGeneratedLabelSelector"
		}
		r.Check(rule, FK(mk)+"[generated⇔controller-uid-only]", p.Pos(mk.Pos()), okG, "generated: {controller-uid: parent UID} only; otherwise: the parent's spec.selector", whyG)
	}
}

// flagLit classifies a literal over an optional *bool field (e.g. Spec.GenerateSelector):
// +1 when the edge asserts "pointer non-nil" or "value true", -1 when it asserts
// "pointer nil" or "value false", 0 when the literal is not about that field.
func flagLit(l Lit, field string) int {
	if !strings.Contains(l.Atom, "."+field) {
		return 0
	}
	if _, isNil, ok := l.NilTest(); ok {
		if isNil {
			return -1
		}
		return 1
	}
	if l.Pos {
		return 1
	}
	return -1
}

// generatedSelectorOn: does the path assume spec.generateSelector true (+1) or
// false/unset (-1)? Recognised on the helper call as well as on the inlined
// `p != nil && *p` form (and on what a predicate helper implies).
func generatedSelectorOn(pa engine.Path) int {
	res := 0
	for _, l := range pa.Lits {
		switch {
		case strings.Contains(l.Atom, "isUsingGeneratedLabelSelector)("):
			if l.Pos {
				return 1
			}
			return -1
		case strings.Contains(l.Atom, ".GenerateSelector"):
			if _, isNil, isT := l.NilTest(); isT || strings.HasSuffix(l.Atom, ".GenerateSelector == nil)") {
				if isT && isNil || !isT && l.Pos {
					return -1
				}
				continue // non-nil: the value decides
			}
			if l.Pos {
				res = 1
			} else {
				return -1
			}
		}
	}
	return res
}

// claimKeepTable: the two claim loops (children, ControllerRevisions) keep an object ⇔ ClaimObject
// answered (true, nil) for that very object, and record the error ⇔ it is non-nil.
func claimKeepTable(r *Report, p *Program, rule string) {
	r.Rule(rule, "ClaimChildren / ClaimControllerRevisions, per object: kept in the result ⇔ ClaimObject(obj) returned ok ∧ no error; the error is recorded ⇔ it is non-nil; the object kept is the one that was claimed")
	r.Floor(rule, 2)
	for _, key := range []string{"dynamic/controllerref.UnstructuredManager.ClaimChildren", "dynamic/controllerref.ControllerRevisionManager.ClaimControllerRevisions"} {
		f := fn(r, p, rule, key)
		if f == nil {
			continue
		}
		loops := engine.RangeLoops(f)
		if len(loops) != 1 {
			r.Check(rule, FK(f), p.Pos(f.Pos()), false, "", "expected one loop over the candidates")
			continue
		}
		l := loops[0]
		isErrAppend := func(in ssa.Instruction) bool {
			c, isC := in.(*ssa.Call)
			if !isC || !isCallTo(in, "builtin.append") {
				return false
			}
			sl, isSl := c.Type().Underlying().(*types.Slice)
			return isSl && isErrorT(sl.Elem())
		}
		paths, err := engine.EnumPaths(f, engine.EnumOpts{Start: l.Body, Leave: func(b *ssa.BasicBlock) bool { return b == l.Header || b == l.Exit },
			Effect: func(in ssa.Instruction) bool { return isCallTo(in, "builtin.append") }})
		ok, why := err == nil, ""
		if err != nil {
			why = err.Error()
		}
		var claim *ssa.Call
		for _, cs := range callsTo(f, false, ".ClaimObject") {
			if c, isC := cs.Instr.(*ssa.Call); isC && l.Contains(c) {
				claim = c
			}
		}
		if claim == nil {
			r.Check(rule, FK(f), p.Pos(f.Pos()), false, "", "no ClaimObject call in the loop")
			continue
		}
		if !engine.SameValue(unwrapIface(claim.Common().Args[len(claim.Common().Args)-4]), l.Val) && !strings.Contains(E(claim.Common().Args[len(claim.Common().Args)-4]), E(l.Val)) {
			ok, why = false, "ClaimObject is asked about "+E(claim.Common().Args[len(claim.Common().Args)-4])+", not the loop's object"
		}
		ev, okv := engine.ErrValue(claim), engine.ResultValue(claim, 0)
		for _, pa := range paths {
			failed := 0
			for _, lt := range pa.Lits {
				if x, isNil, isT := lt.NilTest(); isT && ev != nil && engine.SameValue(x, ev) {
					failed = 1
					if isNil {
						failed = -1
					}
				}
			}
			okLit := 0
			for _, lt := range pa.Lits {
				if lt.Cond != nil && okv != nil && engine.SameValue(lt.Cond, okv) {
					okLit = -1
					if lt.Pos {
						okLit = 1
					}
				}
			}
			nErr, nKeep := 0, 0
			for _, e := range pa.Effects {
				if isErrAppend(e) {
					nErr++
					if a := e.(*ssa.Call).Common().Args[1]; ev != nil && !engine.DependsOnValue(a, ev, nil) {
						ok, why = false, "the error recorded is not ClaimObject's"
					}
				} else {
					nKeep++
					if a := e.(*ssa.Call).Common().Args[1]; !engine.DependsOnValue(a, l.Val, nil) {
						ok, why = false, "the object kept is not the one that was claimed"
					}
				}
			}
			wantErr, wantKeep := 0, 0
			if failed == 1 {
				wantErr = 1
			}
			if failed == -1 && okLit == 1 {
				wantKeep = 1
			}
			if failed == 0 {
				ok, why = false, "an iteration does not look at ClaimObject's error"
			} else if failed == 1 && okLit == 1 && nErr == 1 && nKeep == 1 {
				// (true, err) is not an answer ClaimObject gives (its table, R04.1): keeping behind 'ok' after a recorded error changes nothing
			} else if nErr != wantErr || nKeep != wantKeep {
				ok, why = false, sf("with claim-failed=%d ok=%d the iteration records %d error(s) (want %d) and keeps %d object(s) (want %d)", failed, okLit, nErr, wantErr, nKeep, wantKeep)
			}
		}
		r.Check(rule, FK(f), p.Pos(f.Pos()), ok, "kept ⇔ (true, nil)", why)
	}
}

// generatedLabelTable: composite callHook, per child of the hook answer that is kept: generateSelector on ∧ labels
// readable ∧ controller-uid absent ⇒ the label (= the parent's UID) is put into the label map AND the map is written
// back with SetLabels before the child is kept; generateSelector off ⇒ no injection.
func generatedLabelTable(r *Report, p *Program, rule string) {
	f := fn(r, p, rule, "controller/composite.parentController.callHook")
	if f == nil {
		return
	}
	isInj := func(in ssa.Instruction) bool {
		mu, ok := in.(*ssa.MapUpdate)
		if !ok {
			return false
		}
		k, isC := constStr(mu.Key)
		return isC && k == "controller-uid"
	}
	var loop *engine.RangeLoop
	for _, l := range engine.RangeLoops(f) {
		for _, b := range l.BodyBlocks() {
			for _, in := range b.Instrs {
				if isInj(in) {
					loop = l
				}
			}
		}
	}
	if loop == nil {
		r.Check(rule, FK(f)+"[controller-uid-injection]", p.Pos(f.Pos()), false, "", "no labels[\"controller-uid\"] = … in the loop over the hook's children: with generateSelector on, desired children do not get the label the generated selector needs (or get it somewhere the rollout logic does not see)")
		return
	}
	paths, err := engine.EnumPaths(f, engine.EnumOpts{Start: loop.Body, Leave: func(b *ssa.BasicBlock) bool { return b == loop.Header || b == loop.Exit },
		Effect: func(in ssa.Instruction) bool {
			return isInj(in) || isCallTo(in, "Unstructured.SetLabels") || isCallTo(in, "builtin.append")
		}})
	ok, why := err == nil, ""
	if err != nil {
		why = err.Error()
	}
	seenOn := false
	for _, pa := range paths {
		kept, injAt, setAfter := false, -1, false
		for i, e := range pa.Effects {
			switch {
			case isInj(e):
				injAt = i
				mu := e.(*ssa.MapUpdate)
				if v := E(mu.Value); !(strings.Contains(v, "GetUID)(p1)")) {
					ok, why = false, "the controller-uid label is set to "+v+", not to the parent's UID"
				}
				if engine.DependsOnCall(mu.Map, engine.HasSuffix("unstructured.NestedStringMap"), nil) == nil {
					ok, why = false, "the label map that is extended and written back was not read with NestedStringMap (GetLabels() swallows conversion errors): labels the hook sent in a wrong shape are silently replaced, and a child that must be refused is created"
				}
			case isCallTo(e, "Unstructured.SetLabels"):
				if injAt >= 0 {
					mu := pa.Effects[injAt].(*ssa.MapUpdate)
					ci := e.(ssa.CallInstruction).Common()
					arg := ci.Args[len(ci.Args)-1]
					if engine.SameValue(arg, mu.Map) || engine.DependsOnValue(arg, engine.ResolveLocal(mu.Map), nil) {
						setAfter = true
					}
				}
			case isCallTo(e, "builtin.append"):
				kept = true
				if injAt >= 0 && !setAfter {
					ok, why = false, "the map that received controller-uid is not written back with SetLabels before the child is kept: the label does not reach the child; path: "+pa.Cond()
				}
			}
		}
		if !kept {
			continue
		}
		gen := generatedSelectorOn(pa)
		unreadable := val(pa, -1, func(a string) bool { return strings.Contains(a, "NestedStringMap") && strings.HasSuffix(a, " == nil)") }) == -1
		present := false
		for _, l := range pa.Lits {
			if l.Pos && strings.Contains(l.Atom, `["controller-uid"]`) {
				present = true
			}
		}
		switch {
		case gen == -1 && injAt >= 0:
			ok, why = false, "controller-uid is injected without generateSelector being on; path: "+pa.Cond()
		case gen == 1 && !unreadable && !present:
			seenOn = true
			if injAt < 0 {
				ok, why = false, "with generateSelector on, a child lacking controller-uid is kept without the label being injected; path: "+pa.Cond()
			}
		case gen == 0 && injAt >= 0:
			ok, why = false, "controller-uid is injected on a path that never tested generateSelector; path: "+pa.Cond()
		}
	}
	if ok && !seenOn {
		ok, why = false, "no path on which generateSelector is on and the label is absent"
	}
	r.Check(rule, FK(f)+"[controller-uid-injection]", p.Pos(f.Pos()), ok, "generateSelector ∧ label absent ⇔ controller-uid := parent UID, written back, before the child is kept", why)
}
